"""Per-property configuration of the check driver (what to build, what to run)."""

TRUSTED_BASE = [
    "Lean 4.33.0 kernel (thorough tier: leanchecker re-check of the property module)",
    "axioms per theorem as listed under coverage.theorems (subset of propext, Classical.choice, Quot.sound)",
    "tools/rs2lean.py (constants + bit functions regenerated from /repo/src on every run)",
    "tools/rs2lean_text.py (string literals, format strings, option validity table, file-name formats regenerated on every run)",
    ("tools/skeleton.py + tools/rustlex.py (regenerated on every run: T0 covers the call / lock / condition skeleton of src/db.rs, src/log.rs and the "
     "file-name tests - order of a fixed vocabulary of calls, lock-guard scopes, complete if/while/for headers, for every marker the chain of enclosing "
     "block headers, the complete statement of selected markers (counter updates, loop results, Log::clean_logs count / drain, log sync flag), no unlock "
     "and the lock file moved into the handle in open; everything else - the logic inside column.rs / table.rs / index.rs / btree, what is done with the "
     "result of a pinned call unless its statement is pinned, early exits - is tied by correspondence and oracles; tools/t0_mutate.py: 102 edits)"),
    "correspondence harness /verif/harness (generators, canonicalisation, independent oracles)",
]

A_HASH = "A-hash: hash_key (salted Blake2b / SipHash) is injective on the keys of a history (checked dynamically: distinct generated keys never collide in the runs)"
A_COMPRESS = "A-compress: decompress(compress v) = v for lz4 / snappy (exercised by every round trip in the runs)"
P2_GAP = ("physical layers below the logical pipeline: for hash columns of every kind (plain, preimage, ref-counted) the index pages + byte-level value "
          "tables (single-slot values and multipart chains alike, stored counters with saturation) refine P1's logical table (Pdb/Props/Refine.lean "
          "R1-R4, R3_composed_full; Pdb/Props/RefineRc.lean R5_rc_refines, with totality from input hypotheses: R3_total / R5_total, Pdb/Props/RefineTotal.lean, RefineRcTotal.lean; A-tail and the two C09 fixes are needed there, finding F28 applies); the log record as location writes incl. torn replay and the WAL codec bridge: R7 (Pdb/Props/PhysRec*.lean); multitree columns: R6 (Pdb/Props/RefineMt.lean, step theorems) and C02xTx; btree columns: R8 (Pdb/Props/RefineBt.lean; restructuring transactions under R8_tx_partial's hypothesis); the remaining gaps are listed in "
          "DESIGN 13.7")

P1_RULE = ("histories generated from one SplitMix64 state: commits of 1..6 ops over 1..3 columns and a small key pool "
           "(repeated keys, removals, invalid ops ~3%), interleaved with process / flush / enactall / clean / reindex / "
           "reopen (and crash for C02/C03/C07); distinct = by SHA-1 of the op list; non-trivial = the history had data "
           "in at least two different pipeline stages at some observation point")

HOOK_COMMITS = [
    "c233bab verif hook: event when a committer parks on the full commit queue (cfg pdb_verif)",
    "754005b verif hook: yield point between two table writes of a record in enact_logs (cfg pdb_verif)",
    "7883075 verif hook: event journal at the pipeline hand-over sites (cfg pdb_verif)","7b1e3f5 verif hook: lowered initial ref-count table size for tests, yield points in commit_changes (cfg pdb_verif)",
                "556ca83 verif hook: raw node bytes in the btree dump, Node::from_encoded on given bytes (cfg pdb_verif)",
                "9377f92 verif hook: yield points around the deferral check of process_commits (cfg pdb_verif)",
                "bb68460 verif hook: read-only dump of the multitree node forest and ref-count tables (cfg pdb_verif)",
                "39fa7aa verif hook: expose both index page searches (cfg pdb_verif)",
                "aa461bc verif hook: route a stepping error through store_err (cfg pdb_verif)",
                "bafdd9c verif hook: expose last enacted record id and table configuration (cfg pdb_verif)",
                "8676b67 verif hook: read-only value table state / entry access, compress, hash_key (cfg pdb_verif)",
                "b67f689 verif hook: index walk, raw index entries, hash_key, recover_key_prefix (cfg pdb_verif)",
                "9f268a7 verif hook: named yield points at the reindex lookup and pipeline hand-over sites (cfg pdb_verif)",
                "fd82e88 verif hook: read-only btree dump and separator codec (cfg pdb_verif)",
                "c97ce3e verif hook: read-only structural dump of index tables, value tables and reindex state (cfg pdb_verif)"]
NOT_APPLICABLE = {}

PROPS = {
    "C01": {
        "level_text": ("Lean theorem C01_get_eq_spec: for every list of actions (commits, every interleaving of process / flush / "
                       "enact / clean / reindex steps, clean reopens, crashes) a read of a plain hash-column key returns the latest "
                       "committed write and get_size its length; proved by an invariant over the logical pipeline model (P1). The model "
                       "is tied to the code by differential runs of the compiled model against the real Db on generated histories and by "
                       "an independent BTreeMap oracle."),
        "level_note": ("Trusted: Lean kernel; the P1 model abstracts storage below the log-record level (tied by correspondence only); "
                       "hash injectivity (A-hash); compression round trip (A-compress); harness generators."),
        "lean": ["Pdb.Props.C01", "Pdb.Props.C01b", "Pdb.Proofs.Order", "Pdb.Props.Refine", "Pdb.Props.RefineRc", "Pdb.Proofs.OrderStorage", "Pdb.Proofs.OrderStorageRun", "Pdb.Proofs.OrderStoragePins", "Pdb.Props.RefineTotal", "Pdb.Props.RefineRcTotal"],
        "harness": [{"cmd": "p1", "quick": 300, "thorough": 20000}],
        "rule": P1_RULE,
        "assumptions": [A_HASH, A_COMPRESS, P2_GAP],
    },
    "C19": {
        "level_text": ("Lean theorems C19_sse2_result / never_before_p / never_empty / finds_if_base_finds / eq_base / base_result: for "
                       "every page content, key prefix, start position and index size <= 49 bits the SSE2 search (lane-level model of "
                       "the seven intrinsics) returns the first slot at or after p agreeing on the compared bits, never an empty slot, "
                       "never 'absent' when the scalar search finds a match, and equals the scalar search from 18 index bits on. The "
                       "shift / partial-key expressions and constants are regenerated from src/index.rs on every run, so the proofs are "
                       "re-checked against the code's current expressions; loop structure and intrinsic semantics are tied by "
                       "differential runs against the real functions (hook)."),
        "level_note": ("Trusted: Lean kernel; hand-written lane semantics of the SSE2 intrinsics; the hook calling the two private "
                       "functions; index sizes above 49 bits are outside the theorem (address_bits = 64 overflows the u64 shift)."),
        "lean": ["Pdb.Props.C19", "Pdb.Proofs.GenBits"],
        "harness": [{"cmd": "c19", "quick": 20000, "thorough": 300000, "max_search": 600000}],
        "rule": ("synthetic 64-entry pages from one SplitMix64 state in six styles (empty, sparse exact matches, near misses in the "
                 "dropped / lowest partial-key bits, zero partial keys on non-empty entries, dense random, duplicates), index bits "
                 "16..49, start 0..64, key prefixes incl. zero partial key; distinct by SHA-1 of the op line; non-trivial = a search "
                 "found something or the page holds near-miss / zero-key entries"),
        "assumptions": ["SSE2 intrinsic semantics as modelled in Pdb/Model/IndexPage.lean (validated against the hardware by the runs)"],
        "trusted": ["hook index.rs verif_find_entries (cfg pdb_verif)"],
    },
    "C02": {
        "level_text": ("Lean theorems C02_recover_prefix / C02_crash_during_recovery / C02_continues: for every reachable state of the logical p"
                       "ipeline model (any history incl. earlier crashes), every number j of writes of the record being enacted that reached the"
                       " tables and every number n >= flushed of log records that survived, recovery (replay of absolute after-images) yields ex"
                       "actly the specification of a prefix of the committed transactions containing everything synced, the invariant holds agai"
                       "n, and replay absorbs any partially replayed state. Tied to the code by crash images of the real directory (step boundar"
                       "ies, cut unsynced log tails) reopened with the real code; the recovered prefix must be one the model allows. C02_real_re"
                       "covery_eq / C02_recover_prefix_real / C02_real_recovery_restart (Props/C02Real): the recovery is no longer only postulat"
                       "ed: a wrapper state tracks the log FILES (flush closes a file, enact consumes files oldest first, clean_logs reclaims fu"
                       "lly enacted files oldest first, possibly interrupted; reclaimed numbers are reused), and the real algorithm of Db::open "
                       "on the files a crash leaves (any directory order: sort by first record id, start at first id - 1, accept consecutive ids"
                       ", re-apply enacted-but-retained records, stop at the first gap) yields exactly crashRecover's tables; C02_real_needs_old"
                       "est_first / C02_real_needs_first_id_order: with youngest-first reclaim or file-number order it does not; C02_real_is_wal"
                       "_replay: this id logic is the byte-level replay of the C13 model on encoded well-formed records. The p1 runs emit the lo"
                       "g files of every crash image (file numbers + record ids read from the image, incl. crashes inside clean_logs); the model"
                       " must recognise them as a crash image of its file state and its real recovery must yield the observed prefix. About a th"
                       "ird of the crash points of sync configurations are preceded by an inversion preamble so that ~20 % of the crash images h"
                       "ave file-number order different from age order (p1r.files.inverted; with the seeded C02-c02a 7 of 250 quick cases fail)."),
        "level_note": ("Trusted: Lean kernel; P1 abstracts records to logical after-images (physical record layout, index/value tables tied by c"
                       "orrespondence only); crash points inside a single file operation are represented by (j, n) in the model and sampled at s"
                       "tep boundaries + log-tail cuts on the implementation; page-granular power loss is C12; damaged logs are C13. The mixed-c"
                       "olumn harness c02x replays its histories on the P1 / MultiTreeCrash models with the POSTULATED crashRecover (prefix supp"
                       "lied by the harness and checked for admissibility); the file-level recovery model (Recover.lean, driver p1r) is fed by t"
                       "he p1 harness only. Props/C02x.lean is about single-operation commits with monotone addresses; crash recovery of multi-o"
                       "peration tree transactions with address reuse is covered by the c02x correspondence and oracle, not by a theorem."),
        "lean": ["Pdb.Props.C02", "Pdb.Props.C02Real", "Pdb.Props.C01b", "Pdb.Props.C02x", "Pdb.Proofs.Order", "Pdb.Props.C02RealWal", "Pdb.Props.PhysRec", "Pdb.Props.PhysRecReplay", "Pdb.Props.PhysRecRc", "Pdb.Props.PhysRecGrow", "Pdb.Props.C02xTx", "Pdb.Props.PhysRecV", "Pdb.Props.PhysRecD", "Pdb.Props.PhysRecChain"],
        "harness": [{"cmd": "p1", "quick": 250, "thorough": 15000},
                    {"cmd": "c02x", "quick": 450, "thorough": 4000, "timeout": 7200},
                    {"cmd": "physrec", "quick": 60, "thorough": 60, "timeout": 3000}],
        "rule": P1_RULE + ("; at crash points the surviving log files (file number -> record ids) are reported to the file-level recovery model (p1r files; an inversion "
                           "preamble makes ~20 % of the images have file-number order different from age order; half of the crash points with fully read files crash "
                           "inside clean_logs). c02x: 2..4 columns of six kinds (hash, rc hash, btree, multitree append-only / rc / plain), transactions with at most one "
                           "tree operation per multitree column + 0..3 key-value operations, crashes at stepping-API boundaries (unsynced tail cut) and INSIDE a step via the "
                           "fault injector (process / enact / flush / clean with the fault index spread over all file operations), 0..2 faulted opens during recovery, full "
                           "verification of the recovered state (reads, iteration, every tree node by path and by address, entry counts, forest dump checker t2rc), "
                           "continuation on the recovered handle"),
        "assumptions": [A_HASH, A_COMPRESS, P2_GAP, "crash instants on the implementation: step boundaries of the stepping API with the unsynced log tail cut at a seeded length"],
    },
    "C03": {
        "level_text": ("Lean theorems C03_drop_persists (for every reachable state, drop = the drain sequence of kill_logs, then open: the table"
                       "s hold the specification of ALL accepted transactions, overlays and queues are empty, reads return it) and C03_synced_su"
                       "rvive (after any crash the recovered prefix contains every transaction whose record was flushed). Tied to the code by dr"
                       "op/reopen and crash images at arbitrary pipeline positions of generated histories. C03_clean_drop_real (Props/C02Real): "
                       "for every reachable wrapper state the real recovery algorithm run on the tables and log files a CLEAN drop (dropSeq = th"
                       "e file side of kill_logs) leaves, in any directory order, yields cleanReopen's tables = the specification of all accepte"
                       "d transactions (the drop enacts at most three files; the rest is replayed by the next open); C03_clean_drop_state."),
        "level_note": ("Trusted: Lean kernel; P1 abstraction (see C02); the real drop may leave flushed log files to be replayed by the next "
                       "open, which the model folds into one step; drops WITH background threads (deep queues, many pending log files, "
                       "shutdown at a random moment) are exercised by the c15 scenarios, whose oracle checks that every Ok-committed key is "
                       "present after reopen; worker-thread shutdown itself is C15."),
        "lean": ["Pdb.Props.C03", "Pdb.Props.C02Real", "Pdb.Props.C01b", "Pdb.Proofs.Order"],
        "harness": [{"cmd": "p1", "quick": 250, "thorough": 15000},
                    {"cmd": "c15", "quick": 24, "thorough": 300, "model": False, "timeout": 3000},
                    {"cmd": "t3", "quick": 40, "thorough": 200, "model": True, "timeout": 3000}],
        "rule": P1_RULE,
        "assumptions": [A_HASH, A_COMPRESS, P2_GAP],
    },
    "C07": {
        "level_text": ("Lean theorems C07_positive_readable (count > 0 implies readable with its value at every pipeline stage, after "
                       "reopens and crashes), C07_logged_iff (empty queue: readable iff count > 0), C07_count_is_math_count (below the "
                       "2^32-1 saturation bound the stored count equals the property's own counter), C07_saturates, C07_table_counts; "
                       "proved from the pipeline invariant under the explicit preimage contract. Tied to the code by generated "
                       "set/reference/dereference histories on hash and btree rc columns with crashes and reopens."),
        "level_note": ("Trusted: Lean kernel; P1 abstraction; the preimage contract (value is a function of the key) is a hypothesis; value iter"
                       "ation is compared on the implementation only (iter_column_while). In the r5 correspondence reads made while commits are "
                       "queued (about 46 %) are judged by the overlay-aware oracle only; drained reads and stored counters are compared with the"
                       " model."),
        "lean": ["Pdb.Props.C07", "Pdb.Props.C07b", "Pdb.Props.RefineRc", "Pdb.Props.C07Iter", "Pdb.Proofs.OrderStorage", "Pdb.Proofs.OrderStorageRun", "Pdb.Proofs.OrderStoragePins", "Pdb.Props.RefineRcTotal"],
        "harness": [{"cmd": "p1", "quick": 250, "thorough": 15000}, {"cmd": "r5", "quick": 60, "thorough": 600}],
        "rule": P1_RULE,
        "assumptions": [A_HASH, A_COMPRESS, P2_GAP, "preimage contract: every Set on a preimage / rc column carries valueOf(key)"],
    },
    "C08": {
        "level_text": ("Lean theorems C08_rejected_noop (a commit that returns an error returns the state unchanged), C08_no_trace (deleting all"
                       " rejected commits from any history - with any further commits, pipeline progress, restarts, crashes - yields the same st"
                       "ate), C08_invalid_rejected, C08_validation_matrix / C08_validateTx (model of DbInner::validate_change: exactly the liste"
                       "d column/operation combinations are rejected, wherever they sit). Tied to the code by transactions with an invalid opera"
                       "tion at a random position over columns of every kind, observing the full public state before/after, after drain and afte"
                       "r reopen, and by the exhaustive single-operation matrix compared with the model. Database level (C08_db_*, model Pdb.Mul"
                       "tiTree.TDb = commit_changes + commit_raw_checked over any number of multitree and key-value columns with claimed slots, "
                       "free stack, to_dereference counters, queue / overlay, commit id counter, stored background error; the multitree part is "
                       "what the c10 driver runs): C08_db_rejected_no_trace (any call that does not return ok returns a state EQUAL in all compo"
                       "nents), C08_db_invalid_rejected (an operation validate_change refuses, or on a missing column, at ANY position), C08_db_"
                       "bgerr_refused, C08_db_accepted_iff (after validation the assembly cannot fail), C08_db_no_trace_history, C08_db_single_c"
                       "olumn (ties it to TState.commit of C10), and the negative witnesses C08_db_F1_order_leaves_trace / C08_db_F23_order_leav"
                       "es_trace (validation inside the loop / background error tested after the claims: a trace stays). C08_db_concurrent_error"
                       " (a background error stored WHILE commit_changes runs: the call returns and leaves what the same commit made just before"
                       " the error does) and the negative witness C08_db_F44_order_leaves_trace (second bg_err test in commit_raw: refused with "
                       "the claims kept; fixed e93af5a)."),
        "level_note": ("Trusted: Lean kernel; the validation model is hand-written (tied by the exhaustive matrix run); I/O errors after validat"
                       "ion (claiming slots, reading a tree root) are outside the property's list and the model. errors after validation: I/O er"
                       "rors are outside the property's list (C16); the two schedule-dependent non-I/O causes were findings and are fixed: F43 ("
                       "485fed3, asmOp follows the fixed code) and F44 (e93af5a; TDb.commitWin / commitConc / commitF44 model the window); both "
                       "are exercised by c08 with yield hooks and REQUIRED to behave as fixed; order validate / bg_err / claim tied to the sourc"
                       "e by the T0 obligations commitChanges_validate_before_claim, commitChanges_bgerr_before_claim. Further T0 obligations: c"
                       "ommitChanges_single_bgerr_test, writePlan_three_passes."),
        "lean": ["Pdb.Props.C08", "Pdb.Proofs.Order"],
        "harness": [{"cmd": "c08", "quick": 60, "thorough": 3000}, {"cmd": "p1", "quick": 100, "thorough": 5000}],
        "rule": ("c08: 5 columns (plain, rc, btree, multitree rc, multitree append-only), 10..30 transactions of 1..5 valid operations, ha"
                 "lf of them with one invalid operation inserted at a random position (first / middle / last measured), plus the exhaustiv"
                 "e column-kind x operation-kind matrix incl. fan-out 255/256 and missing roots; p1: histories with ~3% invalid references"
                 "; distinct by SHA-1 of the op list; non-trivial = at least one transaction was rejected; c08 now has 10 columns (adds pr"
                 "eimage without rc: hash and btree), a CONTENT oracle (plain maps of values / counts / tree roots with fan-out / entry co"
                 "unts produced by the accepted commits) compared line by line with every drained and every reopened state, the background"
                 "-error refusal phase, and the yield-hook scenarios F43 (fixed 485fed3: must now be accepted) / F44 (fixed: must be accep"
                 "ted and queued, nothing leaked after process + drop + reopen; persistence variant with a queued commit in front: entry c"
                 "ounts after the reopen = the accepted commits')"),
        "assumptions": [A_HASH, P2_GAP],
    },
    "C16": {
        "level_text": ("Lean theorems C16_commits_refused (after a stored error every commit is refused and changes nothing), "
                       "C16_reads_committed (for a failure striking any reachable state, with any number of table writes of the record being "
                       "enacted already done, reads still return the latest write among all accepted transactions; rc: positive count "
                       "implies readable) and C16_reopen_prefix (reopening replays the logs to the specification of a prefix containing "
                       "everything logged, hence everything synced, and the invariant holds again). Tied to the code by injecting a "
                       "persistent I/O error at seeded file-operation indexes of every stepping call and of open itself, routing it "
                       "through store_err, then observing reads, refusal, drop, reopen."),
        "level_note": ("Trusted: Lean kernel; P1 abstraction; 'no panic' and 'the failing call returns the error' are checked on the "
                       "implementation only (catch_unwind at every injected fault). The crate's thread-local fault counter cannot reach the "
                       "worker threads, so the stepping harness (c16) represents the worker wrapper by the hook verif_store_err; the threaded "
                       "harness (c16t) runs the real workers in a child process and injects errno failures (EIO / ENOSPC / EISDIR / ENOMEM) by libc "
                       "interposition at write / read / open / lseek / ftruncate / fsync / fdatasync / msync / mmap / unlink of a seeded thread-"
                       "independent call index, optionally with a slow disk; in serial mode its commits, the synced prefix (marker keys seen in log "
                       "writes that precede a successful fdatasync) and the recovered prefix are replayed on the P1 model (p1 fail / failreopen). "
                       "OS scheduling decides which interleavings occur; a hang is decided by a 45 s watchdog with one re-run."),
        "lean": ["Pdb.Props.C16", "Pdb.Props.C16b", "Pdb.Proofs.Order"],
        "harness": [{"cmd": "c16", "quick": 150, "thorough": 8000},
                    {"cmd": "c16t", "quick": 250, "thorough": 3000, "quick_timeout": 900, "timeout": 3000}],
        "rule": ("fault-free stretches of a generated history, then one stepping call (process / flush / enact / clean / reindex) or Db::open of "
                 "a crash image executed with set_number_of_allowed_io_operations(i) for a seeded index i (0, 1, or up to 60), failure "
                 "persisting for the rest of the call and optionally through drop; distinct by SHA-1 of the op list; non-trivial = the "
                 "fault was actually hit; c16t: child process per case with background threads, 1..4 columns (plain / rc / btree, lz4), 1..3 "
                 "committers + a reader, serial or free commit order, 17 MiB values (queue-full throttle) in 1/7 of the cases, one of 14 "
                 "errno-injection plans armed after a seeded number of commits, fault optionally kept through drop; verdicts: failure "
                 "reported by a refused commit within 4 s, refusal is permanent, only Err(Background), reads match an admissible prefix, "
                 "drop returns, reopen succeeds to a prefix m with synced <= m <= accepted on every key and by value iteration"),
        "assumptions": [A_HASH, A_COMPRESS, P2_GAP],
        "trusted": ["hook Db::verif_store_err (cfg pdb_verif)", "the crate's own fault injector (try_io, feature instrumentation)",
                    "libc symbol interposition in harness/src/interpose.rs (errno injection, no hook in /repo)"],
    },
    "C13": {
        "level_text": ("Lean theorems C13_open_start / C13_parse_encode / C13_total / C13_fuel_adequate / C13_only_valid_consecutive / C13_file_"
                       "order / C13_nothing_after_first_invalid / C13_whole_or_nothing / C13_prefix_not_older_partial over a byte-level model of"
                       " the write-ahead log and of replay at open that is literal about failure: every operation of the replay path that can pa"
                       "nic (slice / Vec index, unwrap, panic!, debug-build overflow, raw-pointer write outside the mapping) is a branch to `.pa"
                       "nic`, every `?` of the apply pass a branch to `.applyFailed`, exhausted fuel the separate outcome `.outOfFuel`; C13_tota"
                       "l: for ALL byte strings and file sets, in every configuration without a table file above MAX_INDEX_BITS (Cfg.Sane), none"
                       " of the three occurs; C13_fuel_adequate: `.outOfFuel` never, without any hypothesis; the apply pass is modelled on the b"
                       "ytes (second read) and proved to succeed and to do exactly one effect per validated action (enactPass_of_validatePass). "
                       "Panic sites V1..V7, E1..E10 (table in Pdb/Model/Wal.lean, line numbers of /repo 485fed3); E10 = the unchecked TableFile:"
                       ":write_at of ValueTable::enact_plan, whose only guard for a plain entry is the 'Bad entry size' check of the VALIDATION "
                       "pass (C13_value_write_inside_slot; growth loop modelled as growLoop). `.applyFailed` covers errors caused by the record "
                       "bytes, NOT resource failures of checksum-valid records (40..49-bit table ids: set_len / mmap; huge slot index: grow loop"
                       "), which are not modelled. The c13 run reports how much the known findings mask (mask.images.*, verdict.suppressed_by.*:"
                       " 2.6 % / 14.8 % of the images of seeds 1 / 2, all non-prefix verdicts lie there). All replay theorems are about replayOp"
                       "en, i.e. with the start id Db::open derives from the first header of the oldest surviving file; the prefix statement is "
                       "proved under exactly two extra hypotheses (OldestSurvives = not F3c, AppliedIntact = not F3b) with one proved counterexa"
                       "mple for each (C13_prefix_counterexample_F3c / _F3b). The model is tied to the code by running Db::open on damaged copie"
                       "s of real log directories and comparing last_enacted, the table configuration AND the table contents after replay (all n"
                       "on-empty index entries, all probed value slots) with the compiled model, plus an independent prefix / table-configuratio"
                       "n oracle."),
        "level_note": ("Trusted: Lean kernel; CRC-32 as a function of the bytes (A-crc); hooks verif_last_enacted / verif_table_cfg / verif_dump"
                       " / verif_table_state / verif_table_entry; the audit that the panic-site table in the header of Pdb/Model/Wal.lean is com"
                       "plete (each listed site is a branch of the model, the table is the audited claim); Cfg.Sane is an assumption on the tabl"
                       "e FILES found at open (Column::open accepts files named up to 64 index bits), not on the log; abstraction A-skip in the "
                       "prefix theorem (abstract tables keep the locations of dropped tables; the concrete contents with skips and drops are wha"
                       "t `replaytab` compares). Not modelled: resource exhaustion driven by a record with a valid checksum (file growth by INSE"
                       "RT_VALUE index, index files up to 2^58 bytes, ref-count cache scan), what happens after replay inside Db::open (init_tab"
                       "le_data: findings F3e, fixed by 75ecce0). Known findings F3b, F3c, F3d."),
        "lean": ["Pdb.Props.C13", "Pdb.Proofs.GenBits", "Pdb.Props.PhysRec", "Pdb.Props.PhysRecReplay", "Pdb.Props.PhysRecRc", "Pdb.Props.PhysRecGrow", "Pdb.Props.PhysRecV", "Pdb.Props.PhysRecD", "Pdb.Props.PhysRecChain"],
        "harness": [{"cmd": "c13", "quick": 250, "thorough": 500, "max_search": 3000, "timeout": 3000}],
        "rule": ("c13: fixed cases first. 41 corpus byte patterns (replaylast). 15 scripted scenarios: F3b, F3c, F3d, and 6 index-growth s"
                 "cenarios (growth record pending, cut or accepted, DROP_TABLE record pending, accepted or bit-flipped, logs replayed over"
                 " a dropped table, a gap before a reindex record). 5 crafted valid-checksum records (header / free-list attacks on a mult"
                 "itree value table, drop of a never created index), each in a child process with a 20 s limit, expectation no crash. Then"
                 " generated cases: 1-3 columns plain/rc/btree/multitree, lz4 on one quarter, 2-10 commit records with random flush / enac"
                 "t / clean; 1 in 8 are tiny sweep cases with every truncation offset and every bit; 1 non-tiny case in 4 is growth mode: "
                 "column 0 with identity hash, 66-90 keys in one index chunk filled by commits of 5-16 keys, the 65th grows the index 16->"
                 "17 (in half of them on to 18 by the reindex record), process_reindex records (moved entries + DROP_TABLE) count as recor"
                 "ds that are no transactions, the image is taken at a drawn stage of the growth. About 15 sampled damages per image plus "
                 "an undamaged control: truncation, bit flips, bursts, appended garbage / stale record / valid empty record, file duplicat"
                 "e, rename, reorder, delete, stale-generation file. Correspondence op replaytab: table content before replay as cells (al"
                 "l non-empty index entries plus probed value slots) against last / cfg / index digest / value-slot digest after Db::open;"
                 " replaylast for the corpus, failed opens and cell lists above 64 KiB. Independent oracle: no panic; open succeeds; conte"
                 "nt equals a prefix of the logged records no shorter than the enacted count; table configuration equals the one computed "
                 "from the accepted records' original encodings (more bits than that = F3d, any other difference = TABLE-CONFIGURATION-MIS"
                 "MATCH); a further commit and a reopen keep the content."),
        "assumptions": ["A-crc: CRC-32 is a function of the record bytes; accepted records are genuine (no forged checksum-valid records except the empty controls)"],
        "trusted": ["hooks db.rs verif_last_enacted / verif_table_cfg, column.rs verif_table_cfg (cfg pdb_verif)"],
    },
    "C06": {
        "level_text": ("Lean theorems C06_roundtrip / C06_replace_roundtrip / C06_replace_frees / C06_remove_frees / C06_insert_reuses_free / "
                       "C06_value_roundtrip / C06_size_field_never_a_marker / C06_tier_fits / C06_tier_minimal / C06_compress_kept_only_if_smaller ... "
                       "(16 theorems) over a byte-level model of one value table (entry formats, free list, multipart chains, overwrite_chain, "
                       "clear_chain, tier selection): every value of every length written under the slot invariant reads back bit-exact with its "
                       "compressed flag, the invariant (free list acyclic and in range, chains disjoint, live + free = filled - 1) is preserved, "
                       "overwrites free exactly the unused old slots, inserts reuse freed slots before extending. Constants (SIZES, markers, masks, "
                       "sizes) are regenerated from the source on every run. Tied to the code by replaying every table operation of generated "
                       "histories on the model (addresses, filled, free-list length, chain digests via hooks) and by an independent byte oracle."),
        "level_note": ("Trusted: Lean kernel; A-compress; the model restructures overwrite_chain into phases (tied by the c06 t correspondence); "
                       "db_version > 6; claimed entries (multitree) are C10; hooks of fixes/hook-c06.diff."),
        "lean": ["Pdb.Props.C06", "Pdb.Props.C14Dump", "Pdb.Props.RefineBt", "Pdb.Proofs.OrderStorage", "Pdb.Proofs.OrderStorageRun", "Pdb.Proofs.OrderStoragePins", "Pdb.Props.RefineTotal"],
        "harness": [{"cmd": "c06", "quick": 100, "thorough": 300, "max_search": 3000}],
        "rule": ("one column per case (hash plain / hash rc / btree plain / btree rc; uniform or hashed keys; compression none/lz4/snappy; threshold "
                 "0/default/max); lengths 0, 1, boundary-1/boundary/boundary+1 of 3 (thorough 15) sampled tiers for the header variant in use, the "
                 "multipart boundary, part boundaries, threshold +-1, 33 KiB, 1 MiB (2.5 MiB thorough); single-op commits: set / overwrite across "
                 "tiers and single<->multipart / remove / rc inc-dec, read at every pipeline stage and after reopen; remove-all / re-insert cycles; "
                 "distinct = SHA-1 of the ops; non-trivial = touches a tier boundary or a multipart chain"),
        "assumptions": [A_COMPRESS, "WriteOk discharged by C06_tier_writeOk", "slot index < 2^64",
                        "model restructures overwrite_chain into phases (tied by c06 t correspondence); db_version > 6; claimed=false"],
        "trusted": ["hooks Db::verif_table_state / verif_table_entry, verif::{compress, hash_key, entry_sizes} (cfg pdb_verif)"],
    },
    "C10": {
        "level_text": ("Lean theorems over the multitree model (Pdb/Model/MultiTree.lean): C10_unpack_pack_thm / C10_pack_256_wrong / C10_packed"
                       "_size (node packing; the size expression is regenerated from column.rs), C10_RcInv (every legal history of InsertTree / "
                       "ReferenceTree / DereferenceTree, any tree shape and any sharing: count(a) = number of references from present nodes and "
                       "roots with multiplicity, no dangling reference, children older than parents), C10_read_back (an accepted insertion reads"
                       " back exactly, Existing children resolve to the subtrees they named, other trees unchanged), C10_reject_unrepresentable "
                       "(> 255 children rejected, everything else accepted), C10_deref_frees_exactly_unreachable (after DereferenceTree a node i"
                       "s present iff reachable in the old heap from the remaining roots; survivors and surviving trees unchanged; the walk neve"
                       "r fails nor runs out of fuel), C10_all_deref_empty (no root left => zero entries), C10_variant_rules, and C10_pipeline_r"
                       "efines / C10_all_deref_empty_pipeline: for every schedule of commits and process steps of the pipeline model (addresses "
                       "claimed and overlay filled at commit, table effects in process_commits) every live tree is readable through the overlays"
                       " exactly as in the atomic heap, and the drained tables equal the atomic heap. The model is tied to the real Db by differ"
                       "ential runs; an independent logical forest with multiset reference counting checks the implementation. Transactions and "
                       "reuse (second half of Props/C10.lean, model TState/TDb = what the c10 driver runs: commit_changes with several operation"
                       "s, LIFO free-entry stack, planning order of the FIXED write_plan: root changes that are not postponed, node changes, roo"
                       "t Sets of keys dereferenced in the same change set): C10T_commit_atomic (an error leaves the column state equal; accepte"
                       "d iff every operation validates), C10T_tx_in_order (planning order = order given up to the order of the root list, for a"
                       "ccepted transactions within DerefApart), C10T_tx_RcInv (every legal transaction preserves RcInv with new nodes at REUSED"
                       " addresses, never fails when processed, frame), C10T_read_back / _insert / _pipeline (every tree inserted by a legal tra"
                       "nsaction is stored exactly as supplied, Existing children are the addresses named; readable through the commit overlay a"
                       "s soon as the commit returns), C10T_pipeline_refines (every legal schedule of transaction commits and process steps with"
                       " address reuse: the atomic heap satisfies RcInv, all its roots and nodes are readable through the overlays, drained tabl"
                       "es = atomic heap, free stack / claimed slots / table nodes partition the addresses below the fill mark), C10T_all_deref_"
                       "reclaimed (all trees dereferenced and drained: no node, no count, zero entries, every address back on the free stack exa"
                       "ctly once), C10T_rc_tables_refine (current + queued ref-count tables refine the single count map across growth, reindex "
                       "passes and drops); C10T_replace_tree / _pipeline ([DereferenceTree k, InsertTree k t'] reads back exactly t', is inside "
                       "DerefApart, equals the order given, keeps RcInv; nothing left after a final dereference); witnesses C10T_deref_ref_same_"
                       "tx_keeps, C10T_deref_insert_deref_keeps (admissible, outside DerefApart), C10T_F41_plain / _rc / _in_order_reading (find"
                       "ing F41, fixed a08ad55: what the UNFIXED planning order did), C10T_insert_live_key_leaks, C10T_dangling_existing_accepte"
                       "d (outside the quantifier, accepted by the Db)."),
        "level_note": ("T2 for the node forest: at every quiescent point (enact to quiescence, drain points, reopen) the hook Db::verif_multitre"
                       "e_dump dumps live node slots with their children, roots, ref-count tables and cache; the LEAN checker (driver command t2"
                       "rc, Pdb/Model/DumpCheckRc.lean) evaluates RcInv on it with a rank witness for acyclicity, proved sound (C14DumpRc_sound:"
                       " no dangling child, count = number of (parent, position) references with absent = exactly one, every slot reachable, acy"
                       "clic) and equivalent to the rank-generalised model invariant InvR on the rebuilt heap (C14DumpRc_core_iff_model); C10R_o"
                       "f_Inv / C10R_dereference / C10R_insert_reuse: Inv implies InvR and the operations preserve InvR with new nodes at arbitr"
                       "ary reused addresses. Trusted: Lean kernel; one abstract address space with a LIFO free stack (the implementation has on"
                       "e stack per size tier, shared with root value slots); hypotheses of the transaction theorems: DerefApart (in one transac"
                       "tion no ReferenceTree k after a DereferenceTree k and no DereferenceTree k after an InsertTree k; an InsertTree k after "
                       "a DereferenceTree k - replacing a tree - is inside), LegalInOrder (distinct live root keys, Existing children present), "
                       "DerefLive; what happens outside them is stated by the witnesses; ref-count table growth exercised through the hook verif"
                       "::set_min_ref_count_bits (2..16 chunks); value-table slot chains / ref-count table pages / WAL records below the heap mo"
                       "del are tied by correspondence only; restarts are clean reopens (a run of process steps in the model), crash recovery of"
                       " multitree columns is not covered here; A-hash for root keys. C10T_rc_tables_refine models a reindex pass of the ref-cou"
                       "nt tables as one atomic step (whole front table copied and dropped); batches interleaved with count changes are covered "
                       "by per-entry lemmas and by the dump checker on real tables, not by the run theorem."),
        "lean": ["Pdb.Props.C10", "Pdb.Props.C14DumpRc", "Pdb.Props.RefineMt", "Pdb.Props.C02xTx", "Pdb.Proofs.OrderStorage", "Pdb.Proofs.OrderStorageRun", "Pdb.Proofs.OrderStoragePins", "Pdb.Props.RefineMtTx", "Pdb.Props.RefineMtSat", "Pdb.Props.RefineMtRepl"],
        "harness": [{"cmd": "c10", "quick": 400, "thorough": 6000, "max_search": 20000},
                    {"cmd": "mtphys", "quick": 60, "thorough": 1500, "timeout": 3000}],
        "rule": ("histories from SplitMix64 states on a Db with 1..3 multitree columns (variants append_only / ref_counted roots / plain) "
                 "and, in 1/3 of the cases, a key-value column: TRANSACTIONS of 1..6 operations (40 % multi-operation; InsertTree of gener"
                 "ated trees as before - depth 0..5, fan-out 0..255 incl. exactly 255, 256..300 rejected, node data 0..40 KiB incl. multip"
                 "art, Existing children among the nodes live at that point of the transaction -, ReferenceTree, DereferenceTree, Set / De"
                 "reference on the key-value column; every root key at most once per transaction; in 1/5 of the multi-operation transactio"
                 "ns one invalid operation at a random position: must be rejected without trace), interleaved with process / flush / enact"
                 " / clean / reindex / reopen and reads through get_tree().read() + TreeReader and the direct API, get_num_column_value_en"
                 "tries; mass-sharing cases (1 in 6) and 1/8 of the others start the ref-count table with 2..16 chunks (hook) so that it g"
                 "rows up to 5 times: dumps with queued tables, reindex passes to completion; at the end every tree is dereferenced (sever"
                 "al roots per transaction) and every counting column must hold zero entries; then one scenario per case (seed % 8): rejec"
                 "ted [InsertTree k, ReferenceTree k] on plain, [DereferenceTree k, InsertTree k] (must read back the new tree, exact entr"
                 "y counts, also after reopen, zero after the final dereference; seed % 8 = 7 with a node shared with a third tree), [Dere"
                 "ferenceTree k, ReferenceTree k] on count 1, InsertTree on a live key / twice in one transaction, Existing at a freed add"
                 "ress, stored background error; seed % 50 == 7: chains of 1500..3000 and 13000..20000 levels dereferenced in a child proc"
                 "ess (must succeed on a 2 MiB stack; F42 fixed 8de4f00); multitree + compression is refused by Options::is_valid (checked"
                 ", seed % 50 == 3); distinct = SHA-1 of the op list; non-trivial = shared nodes between trees or freed nodes"),
        "assumptions": [A_HASH, "live root keys are distinct and Existing addresses name nodes of live trees (hypotheses of the theorems, "
                        "respected by the generator)", P2_GAP],
    },
    "C17": {
        "level_text": ("Lean theorems C17_codec (from_string(as_string o) = o for all 2^7 x 3 option combinations, valid or not), "
                       "C17_meta_roundtrip (load_metadata_file reads back what write_metadata wrote, any column count / salt / supported "
                       "version), C17_open_check (the option check accepts exactly equal column lists and names the first differing "
                       "column), C17_open_fails_clean (a failed open changes no file; without create nothing is created), "
                       "C17_prefix_disjoint (file-name prefixes of different columns never match each other's files, all column numbers), "
                       "C17_admin_frame / C17_admin_other_columns / C17_admin_affected_empty / C17_admin_metadata (add_column, "
                       "drop_last_column, reset_column, clear_column change only files of the affected column and the metadata file, "
                       "relative to the directory left by the open+close that precedes them; the affected column has no file left; the "
                       "metadata then lists the new columns). Model: text codec, metadata loop, option check, directory as a partial map, "
                       "the four calls. Tied to the code by differential runs of the compiled model (encmeta, decmeta, validate, match, "
                       "admin) against the real crate and by an independent content oracle on real databases."),
        "level_note": ("Trusted: Lean kernel; the directory abstraction (I/O errors, OS lock, non-UTF-8 names outside); what a successful "
                       "open+close does to the tables (log replay) is an abstract parameter of the frame theorems - that it preserves "
                       "content is checked by the oracle on crash images, and proved under C02/C03; harness generators."),
        "lean": ["Pdb.Props.C17", "Pdb.Proofs.C17Findings", "Pdb.Proofs.Order", "Pdb.Props.C18Exec"],
        "harness": [{"cmd": "c17", "quick": 300, "thorough": 6000, "max_search": 20000}],
        "rule": ("case kind = seed % 20: codec (10%): ALL 384 option combinations, each at a random position of a 1..4 column list (plus a 0- and "
                 "a 260-column list), random salt, version None / 4..8 / unsupported, written by write_metadata* and read by "
                 "load_metadata_file; malformed (20%): 40 (thorough 120) texts per case, each a valid metadata text with 1..3 of 21 "
                 "mutations (drop / duplicate / swap lines, drop / duplicate / shuffle fields, bad booleans, compression codes 0..300 and "
                 "non-numeric, salt of wrong length / bad hex / upper case, versions below 4 / overflow / '+8', CRLF and blank lines, "
                 "raw lines, 'sizes: ' suffixes, extra '=' and ': ', unknown keys, separators, col-key variants, character edits); open "
                 "(20%): a real database of 1..4 mixed columns (or a metadata-only directory with arbitrary stored options, or a crash "
                 "image with unreplayed logs), 3..6 requested lists (equal / one or two flags flipped / count changed) through open, "
                 "open_or_create, open_read_only with a directory digest before/after, a sweep of all 384 stored single-column "
                 "options against one requested option, open of a missing / empty / metadata-less directory; admin (40%): database "
                 "of 1..5 columns out of plain, preimage, rc, btree, uniform, append-only, lz4/snappy, multitree+append_only, "
                 "multitree+direct with 3..8 keys per column (values 0..34 kB, trees of depth <= 2), 40% as crash image with 1..2 "
                 "unreplayed log files, decoy file names, then one of add_column / drop_last_column / reset_column(i, None|Some) / "
                 "clear_column(i) (12% with an out-of-range index or disagreeing options), reopen, full read back; findings (10%): "
                 "options.salt different from the stored salt, format version 5..7, 257 columns, fixed bad metadata, empty "
                 "directory. A run of >= 40 cases starts with one fixed case of every kind. Distinct = by SHA-1 of the op list; "
                 "non-trivial = codec / admin / findings always, malformed when two result kinds occurred, open when two outcomes "
                 "occurred"),
        "assumptions": [A_HASH, A_COMPRESS,
                        "directory model: files are independent named contents; Db::open+drop (log replay) is an abstract function of the directory in the frame theorems"],
    },
    "C20": {
        "level_text": ("Lean theorems C20_recover_key_roundtrip (every 32-byte hashed key, every address, index sizes 16..49: the key iter_index"
                       " rebuilds from page number + partial key + stored tail is the key the entry was built from; shift expressions regenerate"
                       "d from src/index.rs on every run), C20_dest_eq_source / _user / _rc / _counts_one / C20_same_keys / C20_same_value (for "
                       "every WELL-FORMED source column state (SrcCol.WF: keyed by key, so stale index entries - finding F26 - are not represent"
                       "able) - any contents, counts 1 <= n < u32::MAX, entries spread over the newest and queued older index tables - and every"
                       " destination kind, the re-committed walk leaves exactly the source keys with the same values, the same counts on a refer"
                       "ence-counted destination and count 1 otherwise), C20_iter_complete (the walk reports every live key exactly once), C20_s"
                       "election / C20_unselected_copied / C20_source_unchanged / C20_selected_content (column selection, copied columns, source"
                       " untouched without overwrite; C20_unselected_copied and C20_iter_complete are statements about the abstract column model"
                       " and hold by construction - the code-level content is in the next two groups). Directory level (model of copy_column / m"
                       "ove_column / deplace_column on the C17 directory model; the `||` chain of is_file_name tests is regenerated from src/mig"
                       "ration.rs and C20_deplace_chain_eq_drop_files proves it equal to the chain of Column::drop_files - this obligation fails"
                       " on the code before fix 039fa8c): C20_unselected_files_copied (for every directory content, every behaviour of the datab"
                       "ase handles within the frame conditions DbEffects.Frame, every selection, overwrite on/off: every file that belongs to a"
                       "n unselected column by the test Column::drop_files uses is in the result directory with the same content, no other file "
                       "of that column is, and the source keeps it), C20_copy_move_column, negation witness C20_old_chain_loses_refcount. Physic"
                       "al walk (tables oldest first, an entry is skipped iff an older table holds the same partial key and address): C20_walk_c"
                       "omplete / C20_walk_dest_eq_source under the explicit hypotheses PhysCol.Inv (inj = C09 IdxInv.inj; nodup and live are NO"
                       "T provided by C09, live is false in reachable states: C20_walk_stale_witness = finding F26, fixed by 515aeb7 on the writ"
                       "e path; the hypotheses live / nodup of the walk theorems are still hypotheses), C20_walk_only_written_keys, C20_selectio"
                       "n_multitree_refused. The code before the fixes is modelled too (migrateColBuggy): the property is false for it, with pro"
                       "ved witnesses C20_F6_counterexample (count 2 into a plain destination yields the empty value) and C20_F10_counterexample"
                       " (a key still held by a queued older index table is lost), and C20_buggy_exact says exactly which cells differ. The mode"
                       "l is tied to the code by running parity_db::migrate on generated source databases and comparing the destination content "
                       "with the compiled model and with an independent BTreeMap oracle. "),
        "level_note": ("Trusted: Lean kernel; destination semantics = Pdb.spec / applyCell (tied by C01 / C07); compression round trip "
                       "(A-compress); hash functions are opaque (the theorem needs only equal `uniform` flags and the copied salt); the "
                       "loop structure of migrate (rc Sets per entry, COMMIT_SIZE batching, the order of copy_column / move_column / write_metadata in the "
                       "column loop) is hand-modelled and tied by correspondence (`c20 files`, `c20 walk`, `c20 migrate`, `c20 plan`); the file selection of "
                       "copy_column / move_column is generated (T0); what Db handles do to the directories is abstract (DbEffects.Frame); dedup of the walk "
                       "is modelled as equality of (recover_index_key, address) pairs, the code compares (chunk, partial key, address) in the older table - "
                       "the same 50 bits (C20_visible_bits); hooks Db::verif_iter_index / verif_hash_key / verif_index_tables / "
                       "verif_index_entries, verif::recover_key_prefix. Real index sizes reached by the runs: 16..18 bits; 16..49 are "
                       "covered by synthetic round trips through the real recover_key_prefix and by the theorem."),
        "lean": ["Pdb.Props.C20", "Pdb.Props.C20NoStale"],
        "harness": [{"cmd": "c20", "quick": 80, "thorough": 700, "max_search": 1500, "timeout": 3000}],
        "rule": ("one case = one real source database from one SplitMix64 state: 1..3 hash columns (plain / preimage / rc, uniform on/off, "
                 "none / lz4 / snappy, compression threshold 0 / 64 / default) + a btree column in 1/3 of the cases, 10..300 keys per column "
                 "(600 thorough), value sizes 0 B..70 KiB incl. the 32 KiB multipart boundary, counts 1..5 by repeated Set / Reference "
                 "(+ reference taken and released), overwritten and removed keys; closed cleanly; then migrate into options that differ in "
                 "kind / compression per column (1/4 of the columns unchanged), forced subset, overwrite 1/3. Scenarios: plain 54%, grown "
                 "(identity hash, 65..140 keys in one index page, reindex completed: index 17..18 bits) 17%, pending (same, closed with the "
                 "older index file still queued: F10) 17%, badplan (column count mismatch, btree column selected, forced column id out of "
                 "range) 8%, bulk (> COMMIT_SIZE Sets: several raw commits) 4%. Per case 8 (32 thorough) synthetic recover_key_prefix "
                 "round trips with index sizes 16..49. distinct = SHA-1 of the op list; non-trivial = a migrated column holds a count > 1 "
                 "or more than 64 keys, or the index was grown / pending. In 2 cases of 5 an additional multitree column (plain 1/2, rc 1/4, "
                 "append_only 1/4; 2..5 trees with NodeRef::Existing sharing; independent forest oracle): unselected in 5/6 (files incl. refcount_CC_BB "
                 "identical / in place, trees read back, entry count and stored node counts equal, then DereferenceTree of a sharing tree + reopen: the "
                 "other trees still read back), selected in 1/6 (must be refused). Scenario stale 8% (> 8192 keys, one reindex batch, then removal of "
                 "keys present in both index tables, freed slots re-used in half of them: known finding F26), partial 8% (two or three growths in a row, "
                 "one or two reindex batches); shares now grown 17%, pending 8%, partial 8%, badplan 8%, bulk 4%, stale 8%, plain 46%"),
        "assumptions": [A_HASH, A_COMPRESS,
                        "fresh destination directory; the source is not written by anyone else during the migration",
                        "directory-level theorems: source closed cleanly with no reindex pending (an open source handle continues a pending reindex)",
                        "counts below u32::MAX (the saturated / locked value is not migrated by repetition)"],
        "trusted": ["hooks db.rs verif_iter_index / verif_hash_key / verif_index_tables / verif_index_entries, column.rs "
                    "verif_index_tables / verif_index_entries, index.rs verif_recover_key_prefix, lib.rs verif::recover_key_prefix (cfg pdb_verif)"],
    },
    "C12": {
        "level_text": ("Lean theorems C12_discipline_suffices / C12_torn_page_harmless (for every journal of durability events accepted by the executable "
                       "discipline D1 log-synced-before-apply (stores AND the unlink of a table file, which is an event on behalf of a record), D2 "
                       "tables-synced-before-log-reclaim, D3 structure, every prefix = crash instant, every subset of unsynced 4 KiB pages of every mapped file and "
                       "every surviving length of the unsynced log tail: recovery = replay of the surviving consecutive records yields exactly the tables after "
                       "records 1..n, synced <= n <= appended, independent of which pages were torn); C12_lifetimes / C12_synced_never_lost / "
                       "C12_recovery_satisfies_D / C12_recovery_idempotent (any number of life times: the state Db::open finds after a power loss (crashSt) "
                       "satisfies the same invariant, the events of Db::open (replay, flush, reclaim) satisfy the discipline, a power loss during or after a "
                       "recovery recovers to the same prefix, nothing ever synced is lost or changed later); C12_synced_means_synced / C12_D1_positional / "
                       "C12_D1_delete_positional / C12_D2_positional (positional readings of D1 and D2); C12_programs_satisfy_D / C12_pipeline_power_loss / "
                       "C12_programs_unlink_after_sync / C12_pipeline_nested_power_loss (journals of the abstract worker programs over P1 histories, including "
                       "reindex records = moveTx and DropTable records = dropTx enacted by an unlink, are accepted; recovery equals P1's spec of a prefix, also "
                       "after a second power loss during the recovery); C12_drop_makes_invisible / C12_move_preserves_lookup; C12_D1/D1_delete/D2/D3_needed "
                       "(each clause is necessary: the premature unlink of an old index file is accepted by the blinded discipline and loses a key). "
                       "Tied to the code by REAL journals (interposed fdatasync/fsync/msync/ftruncate/unlink + page diffs of the mapped files across "
                       "stepping-API calls and at every interposed call inside enact / open) of a first life time AND of the recovery Db::open of power-loss "
                       "images (acceptor started from the surviving logs), fed to the compiled acceptor, by mutants of those journals that must be rejected at the "
                       "same token as an independent positional checker rejects them, and by actual power-loss images (first level and nested: taken during / "
                       "after a recovery) reopened with the real code against a plain-map / forest oracle."),
        "level_note": ("Partial by nature. Trusted: Lean kernel; assumption A-os (page-atomic write-back, msync/fdatasync semantics, "
                       "create/truncate/unlink/set_len durable at once, directory entries never lost) stated in Pdb/Model/Dur.lean; a record cut by the "
                       "surviving log prefix is rejected whole (C13); stores are observed as page diffs at stepping-API boundaries and at every interposed sync / "
                       "truncate / unlink inside enact / open (single-threaded), not per store; pages of an enact call with several records are attributed to "
                       "every record of the call; a replayed record that was applied before is journalled with the stores of its first application."),
        "lean": ["Pdb.Props.C12", "Pdb.Proofs.Order", "Pdb.Props.PhysRec", "Pdb.Props.PhysRecReplay", "Pdb.Props.PhysRecRc", "Pdb.Props.PhysRecGrow", "Pdb.Props.PhysRecV", "Pdb.Props.PhysRecD", "Pdb.Props.PhysRecChain"],
        "harness": [{"cmd": "c12", "quick": 400, "thorough": 8000, "max_search": 40000},
                    {"cmd": "c12x", "quick": 5, "thorough": 100, "max_search": 200}],
        "rule": ("histories from one SplitMix64 state: 1..3 columns (plain / preimage / rc, hash or btree, uniform or salted, lz4), 3..12 keys per "
                 "column, values 0..34000 bytes, commits of 1..5 ops interleaved with process / flush / enact (one log file per call) / clean / "
                 "reindex; up to 12 (thorough 24) power-loss images per history at random instants and right after enact calls (nothing unsynced "
                 "survives / everything / page-wise and log-prefix by seed); one real journal + up to 3 mutants per history; one case in four is "
                 "in growth mode (column 0 uniform with the identity hash, 66..96 keys of ONE index chunk filled in order, so that index growth, "
                 "reindex records and the drop of the old index file (event X) fall at arbitrary positions of the step interleaving); one case in "
                 "six ends with a stored background error + drop (error branch of kill_logs) followed by two power-loss images; "
                 "one case in six (case seed % 6 == 5) is the multitree variant: column 0 ref-counted multitree (InsertTree with 0..3 levels, fan-out 0..3, "
                 "30 % of the children shared with live trees; DereferenceTree), column 1 plain, mixed transactions, oracle = every tree readable completely "
                 "by content or absent as in ONE prefix; one image in four (and the page-wise image after an error shutdown) is reopened with interposition "
                 "ON: the journal `<first life time so far> K:<log>:<n>.. Z <open>` is checked, one more mutant per such journal, a nested power-loss image is "
                 "taken at the k-th (k in 1..13) sync / truncate / unlink inside that Db::open or right after it and must recover to the same prefix; mutant "
                 "kinds: msync removed, fdatasync removed, truncate before the msyncs, unlink moved in front of the log sync; growth cases call "
                 "process_reindex more often (5 % instead of 2 % of the steps) so that the drop of the old index (event X:<rec>:<file>) is reached; "
                 "c12x: index growth "
                 "with a removal from the old index; distinct = SHA-1 of the op list; non-trivial = the journal has table writes and a log truncation"),
        "assumptions": ["A-os: file-system semantics of Pdb/Model/Dur.lean (header)", A_HASH, A_COMPRESS, P2_GAP],
        "trusted": ["libc symbol interposition in harness/src/interpose.rs", "hook Db::verif_store_err (cfg pdb_verif; error-shutdown ending only)",
                    "interposition observer (harness/src/interpose.rs set_observer): page diffs are taken right after each interposed call returned"],
    },
    "C05": {
        "level_text": ("Lean theorems C05_read_linearizable / C05_snapshot_order / C05_observed_value / C05_monotone / "
                       "C05_atomic_visibility / C05_handover / C05_shadow over an interleaving LTS whose atomic actions are the "
                       "critical sections of the source (commit | pop | publish=end_record | cleanOverlay | flush | enactWrite "
                       "(one location at a time) | endRead; reader: take overlay lock | overlay lookup | log-overlay lookup | table "
                       "read | release), all action lists = all interleavings, any number of reader threads: every completed read "
                       "of a plain-column key returns spec(first q commits) where q = commits accepted when the reader took the "
                       "overlay read lock = commits accepted when it released it (commit needs the write lock: reads are atomic "
                       "snapshots w.r.t. commits, concurrency is only with the workers); snapshots are ordered by completion across "
                       "all readers; after observing transaction T every later read of a key written by T returns T's or a later "
                       "value. Proof: refinement to the sequential pipeline model P1 (Inv on the abstraction image) + Shadow + "
                       "per-reader invariants. Index hand-over during reindexing modelled separately: C05_F11_counterexample "
                       "(unpatched lock placement loses a live key) / C05_index_lookup_stable (patched placement, all schedules). "
                       "Tie to the code: threaded stress on the real Db with background workers (floor / ceiling / monotone / atomic "
                       "visibility / never-absent oracle, index growth, tier moves), hand-over windows held open with the yield hook, "
                       "deterministic F11 reproduction."
                       " Slot level (Props/C05Slot.lean, model Pdb/Model/ConcSlot.lean: index chunk -> address -> value slot with stored key, per-tier free list, log overlay over chunks and slots, one location per enactWrite, seven-step reader): C05_slot_read_linearizable / C05_slot_never_absent / C05_slot_snapshot_order under the discipline 'commit_overlay.read() held across overlay lookup + column.get' (T0 obligation added by f-t0), C05_slot_key_check and C05_slot_shadow / C05_slot_view_represents in both disciplines, and by `decide`: C05_slot_early_release_counterexample (guard dropped after the overlay miss: T2 moves the key, T3 reuses the slot, the reader reports a key absent that is present throughout), C05_slot_no_key_check_counterexample, C05_slot_end_read_exact (seeded C05-c05a at model level). The key-level LTS is executed against the code: the deterministic harness scenarios (f11, handover, deepqueue) are replayed action by action through driver command c05 and every get / get_size answer is compared (Proofs/C05Driver.lean: a replayed trace IS a schedule of the LTS, replay_reads_linearizable)."),
        "level_note": ("Partial by nature: the theorems are about the lock-granular LTS; mmap stores / relaxed atomics inside the "
                       "critical sections are not modelled; schedules of the real crate are sampled. Stated for plain columns "
                       "(rc / preimage columns weaken as in C07). Trusted: Lean kernel, hook fixes/hook-c05.diff, harness oracles."),
        "lean": ["Pdb.Props.C05", "Pdb.Props.C05Slot", "Pdb.Proofs.C05Driver", "Pdb.Proofs.Order", "Pdb.Props.C05SlotRefine", "Pdb.Props.C05SlotDriver", "Pdb.Props.T3", "Pdb.Proofs.T3", "Pdb.Proofs.T3Pipe"],
        "harness": [{"cmd": "c05", "quick": 12, "thorough": 36, "timeout": 3000},
                    {"cmd": "c05bt", "quick": 4, "thorough": 24, "model": False, "timeout": 3000},
                    {"cmd": "c05s", "quick": 12, "thorough": 40, "timeout": 900},
                    {"cmd": "t3", "quick": 60, "thorough": 400, "model": True, "timeout": 3000}],
        "rule": ("cases from one SplitMix64 state, kind = seed % 6 (a run covers the kinds in turn): 0|1 threaded stress (4..8 keys bumped together per transaction, "
                 "value sizes from 16 B to 40 kB incl. multipart so entries change tier, filler thread growing one index chunk: 2..5 "
                 "index growths per case, 4..6 readers, seeded delays at the yield points), 2 deterministic F11 (reader parked between "
                 "the index lookups across the final reindex batch + drop), 3 hand-over windows (worker parked after end_record / "
                 "before end_read, reads + commits + further steps in between), 4|5 deep queue with diverged ids (commit ids and log "
                 "record ids made to differ by 1..3 through reindex records or a replay at open, then 3..12 queued transactions on the "
                 "same keys stepped one pipeline call at a time with get + get_size of every key after every call); non-trivial = >1000 "
                 "reads and >10 versions (stress), reader parked (F11), always (hand-over, deep queue)"
                 "; kinds 2..5 emit one op line per real API call (commit | process = pop; publish; cleanOverlay | flush | enactRecord per key-level record of the enacted file | parked thread: pop, publish ... cleanOverlay resp. enactWrites ... endRead | parked reader: rBegin, rOverlay, rLog ... rTable, rEnd) and per read; ~1000-1400 reads compared per 12 cases"),
        "assumptions": ["identity hashing (zero salt, uniform keys, instrumentation) so that one index chunk can be filled on purpose",
                        "lock-granular atomicity of the critical sections (parking_lot lock semantics)"],
        "trusted": ["hook lib.rs verif::{set_yield_hook, yield_point} + 4 call sites (cfg pdb_verif)"],
    },
    "C11": {
        "level_text": ("Lean model of the commit queue, commit overlay, the log worker's plan / publish steps, reader locks, the log worker's tr"
                       "ee write locks, to_dereference / used_trees over a logical forest with claimed addresses, in three variants. Variant.cur"
                       "rent = the code as shipped: it is this variant that the driver command c11 executes against the crate (every commit / lo"
                       "ck / unlock / process_commits / end_record step of the deterministic scenarios, the F4 / F4' / F4c schedules and the pub"
                       "lication-gap schedule included (lock / trylock / unlock ..), all observations compared). About current: negation witness"
                       "es C11_F4_counterexample (whole commit re-queued behind later ones and re-published: lost update), C11_order_false, C11_"
                       "F4_insert_counterexample (re-queued {InsertTree B, DereferenceTree C} overtaken by DereferenceTree A: B dangling), C11_F"
                       "13_counterexample (dereference planned under the tree write lock but published after its release: a reader's locked tree"
                       " vanishes), C11_current_livelock (F4c: with no lock held three commits re-queue each other for every number of worker cy"
                       "cles); positive C11_order_partial, C11_order_current / C11_forest_current (ordinary keys AND roots / nodes equal the seq"
                       "uential run in commit-return order whenever no commit is postponed: decidable hypothesis noDeferral, satisfiable with re"
                       "aders on other trees), C11_locked_stable_current (a held lock protects root and every reachable node unless it was taken"
                       " inside the F13 window inF13Window), C11_F13_window_only, C11_forest_published. Variant.patched = fixes/fix-c11-defer-or"
                       "der.diff (NOT applied, not executed against code; soundness of the proposed repair in the model): C11_order_patched, C11"
                       "_forest_patched (final forest = tree events in publication order, which is the commit-return order with DereferenceTree "
                       "events moved to the right only: DelayD), C11_forest_literal_false (the literal sequential statement is false and unwante"
                       "d: late-lock schedule), C11_locked_stable, C11_released_completes, C11_released_completes_bounded (no lock held => publi"
                       "sh + 2*queue worker cycles complete every postponed removal). C11_fuel_adequate: the depth bound of the model's derefere"
                       "nce walk is exact once fuel >= height. After fix 7cb3b4d (finding F13): C11_locked_stable_current is FULL (a held lock p"
                       "rotects root and every reachable node, no side condition: the log worker keeps the write lock of every tree a planned co"
                       "mmit dereferences until the record is published, invariant WInv), C11_no_lock_in_window (a tree whose removal is planned"
                       " and unpublished is not read-locked and a reader's lock on it is not enabled); Variant.earlyUnlock = the code before the"
                       " fix: negation witness C11_F13_counterexample, C11_locked_stable_outside_window / C11_F13_window_only for any variant; r"
                       "eplayed once by hand against the crate with the fix reverted (0 disagreements); T0 obligation processCommits_tree_locks_"
                       "until_published."),
        "level_note": ("'Trees inserted meanwhile that reuse its nodes stay valid' is checked by the harness and on the F4' schedule, not proved"
                       " in general (needs the client contract + reference-count correctness, C10). Pipeline collapsed to queue -> planned -> pu"
                       "blished (flush / enact do not affect order or lock timing; the harness emits `settle` lines that must not change any obs"
                       "ervation). Correspondence scope: transactions with inserts before dereferences, fresh tree keys, dereference only of pub"
                       "lished trees. The threaded scenario (kind 3) is oracle only. Trusted: Lean kernel, harness oracles (logical forest, comm"
                       "it-return-order map, yield-point stamps), hooks fixes/hook-c05.diff and fixes/f-c11/hook-c11.diff. Not modelled: used_tr"
                       "ees computed by commit_changes while the log worker holds a tree's write lock (is_locked is true then): reachable only w"
                       "ith two queued dereferences of one tree plus an insert committed in that window; it causes one spurious re-queue, nothin"
                       "g is lost."),
        "lean": ["Pdb.Props.C11"],
        "harness": [{"cmd": "c11", "quick": 30, "thorough": 120, "model": True, "timeout": 3000}],
        "rule": ("kind = seed % 5: 0 F4 exactly (1..3 later writers, 3 value sizes) or, for seed % 10 == 5, the re-queue livelock F4c (9.."
                 "20 process_commits calls, reader handles kept or dropped); 1 locked-tree stability (DereferenceTree A and InsertTree B s"
                 "haring A's subtrees in either order, 0..2 unrelated trees, pipeline stepped under the held guard, entry counts) or late "
                 "lock; 2 insert+dereference transaction overtaken; 3 threaded reader / writer / pruner with background workers + watchdog"
                 " + lone-postponed-commit prelude (CPU use, completion after unlock), every damage under a held lock is an oracle failure"
                 " (with the F13 sequence shown by yield-point stamps when it is one); 4 publication gap with the yield hook: try_read ref"
                 "used, a blocking read() on a probe thread is not granted while the worker is parked and is granted after the publication"
                 ", the tree is then gone. Kinds 0, 1, 2, 4 emit one `c11` op line per action with the observed state (ordinary reads, rea"
                 "dable roots, value entries, walk of every locked tree through its guard, deferral count) and end with the oracle's verdi"
                 "ct; non-trivial = shared nodes > 0 / scenario reached"),
        "assumptions": ["clients reference existing nodes only while holding the read lock of a tree that reaches them"],
        "trusted": ["hook lib.rs verif::{set_yield_hook, yield_point} (cfg pdb_verif)",
                    "yield points process_commits.before_deferral_check / .deferred (fixes/f-c11/hook-c11.diff)"],
    },
    "C04": {
        "level_text": ("Lean theorems C04_iter_spec / C04_next_spec / C04_prev_spec / C04_seek_spec / C04_position: for every sequence of iterat"
                       "or calls (seek, seek_to_first, seek_to_last, next, prev with direction changes), with the commit overlay and the backend"
                       " changing arbitrarily between calls (commits, stage moves), every answer of the iterator merge machine (iter_inner, pend"
                       "ing backend item, re-seek on record-id change, btree_next / btree_prev) is the answer the property demands on the merged"
                       " map at the time of the call (seek k: min >= k / max <= k; after K: min > K / max < K; Start: first / nothing; End: last"
                       " / nothing); C04_get_spec: point reads are lookups in the same map. C04_separator_roundtrip: key-length encoding incl. t"
                       "he 254/255 escape for all lengths < 2^32. C04_sort_stable / C04_prepare_spec: stable sort by key + last operation per ke"
                       "y equals the transaction's effect. C04_change_refines / C04_tree_inv: every transaction applied by the model's write_pla"
                       "n (insert, replace, remove with split / both rotations / merge / root growth and removal, every depth) to a tree satisfy"
                       "ing TreeInv never reaches a corrupt-tree state, enumerates specApply of the old enumeration, and TreeInv (in-order keys "
                       "strictly increasing, every leaf at the recorded depth, children = separators + 1, occupancy <= ORDER and >= ORDER/2 for "
                       "non-root nodes) holds again. The iterator model is of the patched code (fix-c04-seek-to-last, fix-c04-start-end); C04_F5"
                       "a_counterexample / C04_F5b_counterexample are the negation witnesses of the unpatched code. COMPOSITION (Props/C04c): fo"
                       "r the executable pipeline the driver runs (Pdb/Model/BTreePipe.lean Drv: commit overlay copy_to_overlay / clean_overlay,"
                       " commit queue, last record id, batched write_plan, iterator machine on the BTreeIterState node-stack cursor, Node::get) "
                       "and EVERY history of commits, process / flush / enact / clean / reopen, point reads and iterator calls (iterator kept op"
                       "en): C04_pipeline_merged (merged overlay (toList tree) = specApply of all accepted transactions, TreeInv, never stuck), "
                       "C04_pipeline_iter_spec (every answer = abstract cursor on the sorted map of the LATEST committed state from the logical "
                       "position), C04_pipeline_call_spec / _next_spec / _prev_spec (min / max form), C04_pipeline_get_spec (point read = most r"
                       "ecent committed write). Reference-counted btree columns (Props/C04r): C04r_pipeline_spec (all histories / call sequences"
                       " answered on the VISIBLE map = processed cells overridden by queued Sets), C04r_cells (cells = P1 spec applyCell .rc), C"
                       "04r_live_visible, C04r_exact (empty queue: shown iff count > 0), C04r_value; C04r_lag_witness: a committed Dereference t"
                       "o count 0 is NOT seen before its commit is processed (the C04 clause 'latest committed state' fails on rc columns; docum"
                       "ented C07 lag; replayed on the crate). Node bytes (Props/C04d): C04_node_roundtrip / _layout / _decode_total for write_n"
                       "ode_plan / Node::from_encoded. Node bytes (Props/C04d): C04_node_roundtrip / _layout / _decode_total / _reencodes for wr"
                       "ite_node_plan / Node::from_encoded; the driver runs decoder AND encoder on the real entry bytes (`enc=same` expected for"
                       " every real node; all nodes of dumps of at most 64 nodes / 32 KiB are sent)."),
        "level_note": ("Trusted: Lean kernel; the rule 'a record that writes a value table of the column moves last_record_id' of the pipeline m"
                       "odel is tied by correspondence only (model driven by the same commits / stage steps / iterator calls as the real Db, als"
                       "o the unpatched model against the unpatched crate: 0 disagreements); the literal stack cursor is ALSO run on every DUMPE"
                       "D real tree with the pipeline's overlay and record id (c04b cursor: its keys = the real iterator's keys, ~60 000 steps p"
                       "er quick run), raw node bytes of every dumped node equal an independent re-encoding and are decoded by the Lean model of"
                       " Node::from_encoded (c04b node); the literal BTreeIterState stack cursor is proved to refine that abstract cursor (C04b_"
                       "cursor_refines / _total / _next_backend), the batching loop of Node::change is proved equal to one descent per change (C"
                       "04b_batch_refines, C04b_batch_refines_tx) and the address indirection is proved leak-free (C04b_address_indirection / _r"
                       "elease / _no_leak); the batched model's tree is compared node by node (separator hashes) with the dumped real tree after"
                       " every processed commit (c04b tree), and the Lean checker checkTree (sound for TreeInv: C14Dump_tree_sound) is evaluated"
                       " on every dump; value storage below the tree is C06. Scope notes (second audit): flush / enact / clean are identity step"
                       "s of the executable pipeline Drv, so the log-overlay / file mixture of the property is exercised by the harness (real st"
                       "age steps between the model's lines), not distinguished by the theorems; the record-id rule (which commits move the colu"
                       "mn's record id) is an assumption of the model checked only through iterator answers; on ref-counted btree columns a queu"
                       "ed Dereference is not mirrored in the commit overlay (C04r_lag_witness): readers see it after process_commits, which is "
                       "C07's carve-out, not a C04 violation."),
        "lean": ["Pdb.Props.C04", "Pdb.Props.C04b", "Pdb.Props.C04c", "Pdb.Props.C04r", "Pdb.Props.C04d", "Pdb.Props.C14Dump", "Pdb.Props.RefineBt"],
        "harness": [{"cmd": "c04", "quick": 150, "thorough": 800, "max_search": 3000, "timeout": 7200},
                    {"cmd": "c05bt", "quick": 3, "thorough": 12, "model": False, "timeout": 3000}],
        "rule": ("one SplitMix64 state per case: btree column (plain / lz4; one case in four ref_counted + preimage: Set / Dereference / "
                 "Reference with repeated keys in one transaction, value = function of the key, oracle = independent (value, count) map: "
                 "exact with an empty queue, while commits are queued every live key shown / nothing never-visible shown / no live key "
                 "skipped / value = preimage), pool of 5..400 (thorough ..1200) distinct keys of length 0..300 "
                 "(emphasis 253..257, prefix chains, shared long stems; thorough: up to two keys > 64 KiB), 50..150 (thorough 80..260) actions: "
                 "commits of 1..6 or 20..200 changes (random or contiguous sorted runs, repeated keys inside one transaction, grow / churn / "
                 "shrink phases; one case in eight starts with an ascending fill of 400 keys -> depth 3), process_commits / flush_logs / "
                 "enact_logs / clean_logs, point reads, a tree dump after every processed commit, bursts of 1..7 iterator calls on an iterator "
                 "kept open across commits (new 3%, seek 12% incl. keys outside the pool, seek_to_first 4%, seek_to_last 8%, next / prev "
                 "with direction changes), every iterator call repeated on the stack-cursor model over the dumped real tree (c04b cursor), "
                 "1 % of the actions close + reopen the database in the middle of the case; per dump: raw bytes of every node against an "
                 "independent re-encoding, 2 nodes + 1 mutated byte string decoded by the Lean node codec (c04b node); full forward and "
                 "backward scan, reopen, scan again (sent to the model); distinct by SHA-1 of the op list; "
                 "non-trivial = answers came from two different layers (commit overlay / log overlay / files) or the tree reached depth >= 1"),
        "assumptions": [A_COMPRESS,
                        "record-id rule of Pdb/Model/BTreePipe.lean (which commits move last_record_id; validated by the runs)",
                        "rc columns: readers see queued Dereferences only after process_commits (C07 lag, C04r_lag_witness)",
                        "presence test of the address model is lookup in toList (stated simplification of C04b_address_indirection)"],
        "trusted": ["hook btree::verif::{verif_dump, separator_codec, node_codec, NodeDump::encoded} / verif::btree_dump (cfg pdb_verif, read-only)"],
    },
    "C15": {
        "level_text": ("Lean theorems over an interleaving model of N committers, the four workers and the dropping thread (program counters at "
                       "lock / wait / signal / check granularity, WaitCondvar flag protocol, lost notifications modelled, all transaction sizes,"
                       " injected worker failures at every `?` of the worker loops, drop at any moment; environment actions: commit deferral whi"
                       "le a client holds a tree lock and the deferral cycle, the iteration lock held by a client callback, index growth / reind"
                       "ex gating by record id, worker panics (ReachableP only)): C15_no_lost_wakeup (all configurations, panics included), C15_"
                       "commit_returns / C15_commit_wakeups, C15_quiescent / C15_no_stuck (no thread can move, no client-held lock blocks one, n"
                       "o deferral cycle queued => nothing pending; after drop: C15_drop_persists_all: queue and appending file empty, no log fi"
                       "le half read when Log::kill_logs deletes the reading file, accepted + reindex batches = records = enacted + records in c"
                       "omplete flushed files), C15_progress / C15_client_free_runs_are_finite / C15_drains / C15_quiescent_accounting (a potent"
                       "ial that every step of every thread strictly decreases, running or shutting down: without client activity quiescence is "
                       "reached within phi steps under ANY scheduler, and there every accepted commit is logged, every rotated log file enacted,"
                       " no commit call parked), C15_shutdown_terminates (+ C15_shutdown_signalled, C15_kill_logs_total), C15_iteration_lock_exc"
                       "lusive, C15_reindex_needs_only_a_wakeup. Proved for the FIXED configuration (the fixes e2435c7 / 100a265 / 560b45b are i"
                       "n the tree: C15_gen_fixed). Machine-checked refutations: unpatched programs F7 (with and without workers), F12, F13: F7 "
                       "and F13 are replayed on the real crate by the harness (scenarios logs-nothread / keeplogs, errfull); F12's window (a few"
                       " instructions between the throttle test and the wait) cannot be forced on the real crate: scenario logqfull brings log_q"
                       "ueue_wait.work above 128 MiB with the log worker parked in the throttle and drops the handle there, which exercises the "
                       "repaired notify path, not the lost-wake-up window. NEW FINDING F27 (= C11 F4c) (C15_defer_cycle_livelock / C15_defer_cyc"
                       "le_kill_blocks, harness scenario defercycle, deterministic): two queued commits that each dereference a tree the other o"
                       "ne recorded in used_trees are re-queued for ever with no lock held. Behaviours outside the guarantee, shown by schedules"
                       " and observed on the real crate: the log worker busy-spins while a client holds a tree lock (C15_defer_busy_spin), a par"
                       "ked iteration callback stalls the commit worker (C15_iter_held_stalls), a pending reindex needs a further commit to star"
                       "t (C15_reindex_stalls, C15_reindex_lost_trigger; commits are unaffected), drop leaves flushed unread log files for repla"
                       "y (C15_drop_leaves_flushed_files), a worker panic skips store_err (C15_panic_witness). The configuration flags and the o"
                       "rder obligations (incl. C15_gen_new_shapes) are regenerated from src/db.rs."),
        "level_note": ("Trusted: Lean kernel; tools/skeleton.py (syntactic call-order extraction); the hand-written LTS "
                       "(granularity: a step under one mutex whose effects are only visible under that mutex is atomic; "
                       "kill_logs and the stepping API are sequential functions); OS scheduler fairness and parking_lot "
                       "condvar semantics (A-os). Partial by nature."),
        "lean": ["Pdb.Props.C15", "Pdb.Proofs.Throttle", "Pdb.Proofs.Order", "Pdb.Props.T3", "Pdb.Proofs.T3", "Pdb.Proofs.T3Pipe"],
        "harness": [{"cmd": "c15", "quick": 40, "thorough": 600, "model": False, "timeout": 3000},
                    {"cmd": "t3", "quick": 40, "thorough": 300, "model": True, "timeout": 3000}],
        "rule": ("real Db with background workers in a child process under a watchdog (60 s of silence between progress "
                 "lines, observed < 0.6 s; an expiry counts only if it reproduces on an immediate re-run with the same "
                 "seed); scenarios from one SplitMix64 state: small (2-4 threads x 100-400 tiny / empty / 0-byte commits), "
                 "sizes (0 B, 1 MiB, 17 MiB, 17x1 MiB, 24 MiB transactions in a row: queue-full throttle), logs / keeplogs "
                 "(bursts with always_flush, many log files in flight, KEEP_LOGS retained with sync_data=false, drop "
                 "immediately), logs-nothread (stepping API, > MAX_LOG_FILES enacted files, commit queued, drop), shutdown "
                 "(drop at a random moment between commit calls of active committers), quiesce (sync_data, always_flush: the commit "
                 "worker is stalled by a parked value iteration while 6..26 flushed log files pile up, the iteration is released and "
                 "the client goes quiet WITHOUT dropping: every log file must be reclaimed within 12 s), exact (queue drains to exactly "
                 "the 16 MiB limit), bgerr / errfull (directory renamed "
                 "under the running handle: a worker fails; commits must return Ok or Err(Background)); always_flush, "
                 "sync_wal, sync_data random; oracle: every call returns, drop returns, every Ok-committed key has its last "
                 "Ok-committed value after reopen (BTreeMap); non-trivial = at least one commit accepted"
                 "; logqfull (commit worker stalled by a parked iter_column_while, 17 MiB commits until > 128 MiB are logged and unenacted and the log worker is parked in the log-queue-full throttle; A: a commit call blocks >= 300 ms, release, all calls return, quiet: everything enacted; B: release and drop at once); growth (identity hashing, one index chunk overflows, quiet without drop: all logs reclaimed; whether the old index file is gone is recorded (growth.reindex_stalled / _done_without_client), on a stall ONE tiny commit must complete the reindex); quiesce also with sync_data=false (all records enacted, exactly <= KEEP_LOGS = 16 non-empty log files remain); defercycle (multitree: X = [DereferenceTree T, InsertTree A], Y = [DereferenceTree T, InsertTree B] committed under a locked reader, readers released and dropped, quiet: reports known finding F27; control variant must drain); forced case indices: i%10 = 1 logqfull, 3 quiesce, 5 defercycle, 6 growth, 8 exact"),
        "assumptions": ["A-client: a client does not hold a tree reader lock / stay inside an iteration callback for ever (clientLetsGo)", "A-os: weak fairness of the OS scheduler for runnable threads; parking_lot Mutex / Condvar semantics as modelled "
                        "(notify with no waiter is lost, no reliance on spurious wake-ups)",
                        "A-rust: a handle is not dropped while a commit call on it is in progress (ownership)"],
        "trusted": ["tools/skeleton.py (Pdb/Gen/Order.lean)"],
    },
    "C18": {
        "level_text": ("Lean theorems C18_mutex, C18_content_only_under_lock, C18_failed_open_noop, C18_prelock_frame and "
                       "C18_reopen_after_drop_or_death over an interleaving model of any number of threads / processes running "
                       "open, drop, failing opens and kill -9 on one directory: at most one thread is between a successful "
                       "try_lock and its unlock / death, content is only ever touched by the lock holder, a losing open "
                       "changes nothing (before its try_lock it can at most create the directory and the empty lock file), "
                       "and whenever the lock is free an open succeeds. Proved for every open / drop program satisfying a "
                       "decidable order obligation and instantiated with the programs regenerated from src/db.rs."),
        "level_note": ("Trusted: Lean kernel; tools/skeleton.py; flock(2) semantics as used by fs2 (A-os): one holder per lock "
                       "file, try_lock fails iff held, released by unlock / close / process death. Partial by nature."),
        "lean": ["Pdb.Props.C18", "Pdb.Props.C18Exec"],
        "harness": [{"cmd": "c18", "quick": 150, "thorough": 3000}],
        "rule": ("scenarios from one SplitMix64 state: threads (2-5 in-process threads x 8-60 open/commit/drop rounds, live-handle "
                 "counter), mixed (plus child processes), procs / kill (a holder child process, concurrent losing opens from "
                 "children and in-process, directory names + content hashes except `lock` compared before / after, then drop "
                 "or kill -9 and reopen), recovery-race (2-5 processes open one crash image with pending log files at once: "
                 "exactly one Ok, its recovered content digest = committed content); non-trivial = both Ok and Locked seen"),
        "assumptions": ["A-os: advisory flock semantics of the OS (per open file description; released on close / process death)"],
        "trusted": ["tools/skeleton.py (Pdb/Gen/Order.lean)"],
    },
    "C09": {
        "lean": ["Pdb.Props.C09", "Pdb.Props.C09Total", "Pdb.Props.C09F24", "Pdb.Props.C09Replay", "Pdb.Proofs.GenBits", "Pdb.Props.Refine", "Pdb.Props.C09Stale", "Pdb.Proofs.OrderStorage", "Pdb.Proofs.OrderStorageRun", "Pdb.Proofs.OrderStoragePins", "Pdb.Props.C09NoStale"],
        "harness": [{"cmd": "c09", "quick": 48, "thorough": 600, "timeout": 3000}],
        "level_text": ("Lean theorems C09_index_inv_preserved / C09_lookup_latest / C09_no_panic / C09_collision_individual over all histories ("
                       "set, del, reindex batch, enacted drop, reopen/recovery, relaunched growth) of the index-layer model (current table + que"
                       "ue of older tables, pages of 64 entries with the generated bit functions, page search from the C19 model, value slots wi"
                       "th 26-byte tails, per-tier free lists); step theorems C09_write_preserves / C09_batch_no_loss / C09_drop_no_loss / C09_g"
                       "rowth_recover / C09_growth_redetected for any configuration; C09_lookup_latest_full_false: closed witness that the code "
                       "before fixes 3f608ba / c9ce868 loses a key. TOTALITY (Props/C09Total): the run theorems are conditional on the model's t"
                       "rajectory (runA = ok, AllBounded); C09_run_total derives both from hypotheses on the INPUT alone (InputOK: A-tail, 16 <="
                       " b0 <= K, K + relaunches <= 49, slots used < 2^(K+6), at most 64 INDEX-INSERTING set operations per K-bit class of key p"
                       "refixes (nIns: the key is absent or holds a value of another size tier in the tier specification of the preceding action"
                       "s; same-tier overwrites are free; InputOK_of_old: the former bound on all set operations implies it)), hence no panic, n"
                       "o loop-fuel exhaustion (Res.diverge), < 50 index bits, < 2^56 slots; restated property theorems C09_lookup_latest_total "
                       "/ C09_index_inv_preserved_total / C09_collision_individual_total / C09_no_diverge_total / C14_index_inv_preserved_total."
                       " The bound is on index insertions, not keys, because entries whose slot was freed or re-used are copied by reindex like "
                       "live ones (finding F28). NEGATION WITNESSES (Props/C09F24): C09_full_statement_false_65 / C09_no_total_65 / C09_65_never"
                       "_settles (65 keys sharing the 50 index-visible bits: at least 16 + n bits after n reindex passes, the queue of older tab"
                       "les never empties, no successful bounded run with 34 passes), C09_full_statement_false_twin (two keys with the same stor"
                       "ed tail: a stale entry resolves to the other key's value; finding F29). REPLAY (Props/C09Replay, model Pdb/Model/IndexRe"
                       "play.lean: records = index-entry / value-slot after-images + DropTable over (current bits, queue, contents)): C09_replay"
                       "_absorbs / C09_replayRecords_absorbs (records r_i..r_n replayed over the state after r_1..r_m, any op-level split, give "
                       "the state after r_1..r_n, incl. writes into a table dropped by a later record, DropTable of a table already gone, growth"
                       " records whose table already exists), C09_replay_idempotent, C09_replay_skips_dropped, tie to the index model (C09_repla"
                       "y_reindex_is_trigger, C09_replay_drop_is_enactDrop). Model tied by differential runs (set/del/get/stat/slots/crashto) an"
                       "d a BTreeMap + prefix oracle with crash images at every growth phase, incl. images with 1..3 enacted-but-unreclaimed log"
                       " files (counters crash.retained_enacted_*) and a half-enacted growth record. Stale index entries (findings F26, F29 and "
                       "the stale variant of F28) are fixed in /repo by 515aeb7: the write path removes the entries of a freed slot from the que"
                       "ued older tables (model flag cfg.purge, Index.purgeOlder); every C09 / C14 / R1..R5 theorem is quantified over cfg and s"
                       "o holds for the code with and without the fix; C09_purge_keeps_good, C09_purge_only_dead, C09_twin_fixed / C09_twin_unfi"
                       "xed_vs_fixed (Props/C09Stale) replay the F29 history on both variants; the negation witnesses (twin, stale class) run th"
                       "e code WITHOUT the fix; F28 remains for 65 LIVE keys of one class. Not proved: a global 'no stale entry' invariant (Phys"
                       "Col.Inv.live stays a hypothesis of C20_walk_complete)."),
        "level_note": ("Trusted: Lean kernel; logical-state model (pipeline stages are P1); single-slot values (tier 255 by structural checks on"
                       "ly); A-tail; hook verif_dump. Scope notes (second audit): C09_replay_absorbs is about a stand-alone structural model of "
                       "replay over index files (Pdb/Model/IndexReplay.lean: tables, queue, absolute after-images, DropTable), tied to the index"
                       " model only by two lemmas on (current bits, queue bits); it is not executed by the driver. The c09 crash lines `crashto "
                       "<n> <g>` carry n (records that survive) and g (growths re-detected at open) FITTED by the harness from the recovered sta"
                       "te, so an unjustified growth at recovery would be absorbed as a relaunch. F28 is a liveness / resource defect (every key"
                       " stays readable while the index keeps growing); C09_full_statement_false_65 is stated for successful bounded runs (shown"
                       " to exist for the first passes by evaluation: bits 17..20 after 0..3 passes, as on the crate)."),
        "rule": ("seed%16: directed sse2-neighbour / crash-after-drop / move-into-full-page, multi-batch (>8192 entries), steady workload; seed%32 = 6: "
                 "65 keys of one 50-bit class resp. (seed bit 5) 64 keys + stale entries, bounded at 19 bits (known finding F28); 7: twin keys "
                 "with equal stored tail (known finding F29); 8: crash with the enacted growth record retained resp. (seed bit 5) a half-enacted "
                 "growth record; in runs of >= 16 cases the first seven seeds are moved onto these kinds; else random "
                 "histories over page-overflow sets sharing 16..18 bits, shared-50-bit classes (<=8), zero partial keys, SSE2-dropped-bit neighbours; "
                 "crash images at every growth phase; distinct by SHA-1 of ops; non-trivial = growth, batch or >3 records"),
        "assumptions": ["A-tail: distinct hashed keys differ in bytes 6..32 (generator embeds a unique id). Exact reach: excludes pairs of hashed keys that differ "
                        "in bytes 0..5 only = 208-bit partial Blake2b collision (non-uniform columns), equal user bytes 16..32 + 80-bit partial "
                        "SipHash-128 collision (uniform, format 8), user-chosen on uniform columns of format <= 7 / identity hash; false without it (F29)",
                        "InputOK (totality): at most 64 index-inserting set operations per K-bit prefix class, slots < 2^(K+6), K + relaunches <= 49; without the class "
                        "bound the growth never completes (F28); the old theorems keep AllBounded (<= 49 index bits, < 2^56 slots per tier) as a hypothesis",
                        "full theorems for the fixed code (exact find_entry, grow on move); ExactCur for reindex/no-panic otherwise",
                        "replay theorems: WF op sequences (DropTable targets the queue front; a growth writes into the new table in the same op)"],
        "trusted": ["hook Db::verif_dump / verif_reindex_state (cfg pdb_verif)"],
    },
    "C14": {
        "lean": ["Pdb.Props.C14", "Pdb.Props.C09Total", "Pdb.Props.C09F24", "Pdb.Props.C14Dump", "Pdb.Props.C14DumpRc", "Pdb.Props.RefineMt", "Pdb.Props.C07Iter", "Pdb.Props.RefineBt", "Pdb.Props.C02xTx", "Pdb.Proofs.OrderStorage", "Pdb.Proofs.OrderStorageRun", "Pdb.Proofs.OrderStoragePins", "Pdb.Props.C09NoStale", "Pdb.Props.RefineMtTx"],
        "harness": [{"cmd": "c09", "quick": 48, "thorough": 600, "timeout": 3000},
                    {"cmd": "c10", "quick": 100, "thorough": 1500},
                    {"cmd": "c02x", "quick": 150, "thorough": 2000, "timeout": 7200},
                    {"cmd": "mtphys", "quick": 30, "thorough": 500, "timeout": 3000}],
        "level_text": ("Lean theorems: IndexInv / SlotInvAbs / NoLeak preserved over all histories (C14_index_inv_preserved, C14_no_leak), C14_n"
                       "o_misattribution, C14_remove_returns_slot, C14_fill_mark_moves_only_when_no_free_slot, C14_iter_values_exact on the abst"
                       "ract value tables of the index-layer model (C14_index_inv_preserved_total: the same from input hypotheses only, Props/C0"
                       "9Total; C09_full_statement_false_twin: 'no index entry resolves to a value of another key' fails for two keys with equal"
                       " stored tail, finding F29); the byte-level slot invariant (free list acyclic / in range, chains disjoint, live + free = "
                       "filled - 1) is C06's SlotInv, the btree invariant C04's TreeInv, the reference-count invariant C10's RcInv. Tied to the "
                       "code by structural checks on read-only dumps of the real index tables, value tables and free lists after every drain / r"
                       "eopen / recovery, steady insert/remove workloads, and value iteration. F29 (twin tails through stale entries) is fixed b"
                       "y 515aeb7, see C09."),
        "level_note": ("Trusted: Lean kernel; hooks Db::verif_dump / verif_table_entry (raw slot bytes, index entries, free-list head, header). The "
                       "invariants are evaluated on every dump by the LEAN checker (driver command t2: checkSlots / checkIndex / checkTree), proved sound "
                       "against the Prop invariants of the theorems (C14Dump_slots_sound, C14Dump_index_sound, C14Dump_tree_sound, ...); the harness's Rust "
                       "restatement runs in addition as an independent oracle. RcInv of multitree columns (node reference counts = number of referencing "
                       "parents, no dangling child, no leaked node, acyclic) is evaluated by the Lean checker t2rc on dumps of the hook "
                       "Db::verif_multitree_dump taken by c10 (every quiescent point) and c02x (every crash recovery, the slots predicted to leak by "
                       "finding F19 as allowed orphans): C14DumpRc_sound, C14DumpRc_core_iff_model. Dumps above 200 KB text are skipped and counted."),
        "rule": "as C09 plus multipart values and 400-cycle steady workloads; structure checked on hook dumps after every drain / reopen / recovery",
        "assumptions": ["as C09; byte-level SlotInv is C06, TreeInv C04, RcInv C10"],
        "trusted": ["hook Db::verif_dump (cfg pdb_verif)", "hook Db::verif_multitree_dump (cfg pdb_verif)"],
    },
}


# ---------------------------------------------------------------------------------------------------------------------
# Round 3 (DESIGN 13.6): what was added to each property, appended to the texts above
_R7 = ("R7 (Props/PhysRec*.lean): the physical log record of a transaction as a list of absolute after-images of locations, read off the physical "
       "runs pRun / rRun: R7_frame, R7_full (+ _grow), R7_redo / R7_redo_seq / R7_redo_history (enactment torn after any number of writes + replay "
       "from any start at or before the torn record = all records once), R7_codec and C02_phys_replay_prefix (Wal.replayOpenWith on the encoded "
       "physical records over a torn crash state reads as Pdb.spec of a prefix); tie physrec: the record the crate WROTE to its log file equals "
       "planWrites byte for byte, executable R7_redo on every record, crate-side torn enactment.")
_R3T = ("Totality (Props/RefineTotal.lean, RefineRcTotal.lean): R3_total / R3_composed_total / R5_total / R5_composed_total: from INPUT hypotheses "
        "only (PInputOK / RInputOK, decidable) the physical run of the hash column is .ok and reads (value and stored counter) equal Pdb.spec; "
        "tie: `r5 total` at the end of every case.")
_T0S = ("T0 storage layer (tools/rs2lean_storage.py -> Gen/Storage.lean, Proofs/OrderStorage*.lean): statement skeletons of 33 functions of "
        "column.rs / table.rs / index.rs / btree/node.rs regenerated on every run; for next_free / read_next_free / clear_slot / "
        "write_remove_plan the generated statement tree is executed and proved EQUAL to the model function; the rest pinned next to model equations.")
_R3 = {
    "C01": _R3T + " " + _T0S,
    "C02": _R7 + (" C02xTx (Props/C02xTx.lean): crash recovery of MULTI-OPERATION tree transactions with address reuse over the unchanged C10 "
                  "transaction model: C02xTx_recover_prefix, _tx_read_back, _idempotent, _replay_absorbs, _continues, and F19 as a theorem with both "
                  "bounds (C02xTx_leak_exactly_F19); tie: c02x tx cases replayed by driver c02xt, the MODEL computes the recovered prefix from the "
                  "surviving log files and predicts every F19 leak exactly."),
    "C03": ("T3 (Props/T3.lean): every journal of a real threaded run ends with the clean shutdown, a reopen without workers and a read of every key; "
            "accepted journals are traces of the LTS (T3_sound, T3_pipe_drop_persists)."),
    "C04": ("R8 (Props/RefineBt.lean, model Model/BTreePhys.lean): the btree column on byte-level value tables (header entry, encoded nodes, values): "
            "R8_get (descent through decoded nodes = abstract nodeGet for every key), R8_step_*, R8_joint_* (every slot is header / part of one "
            "reachable node / part of one referenced value / free), R8_set_existing; R8_tx_partial for restructuring transactions under a visible "
            "hypothesis; tie `c04b phys`: the model rebuilds its column from the RAW SLOTS of the real tables. Harness c05bt: stable keys read by "
            "threads while the tree is restructured around them."),
    "C05": ("C05_slot_refines (Props/C05SlotRefine.lean): every slot-level run (slot reuse, chunk rewrites) is simulated by the key-level LTS; the "
            "slot-level model is executed against the crate (harness c05s: reads, index-entry addresses, fill marks, free-list heads, raw slots "
            "predicted, observation points inside a half-enacted record by hook 754005b). T3 (Props/T3.lean): journals of REAL multi-threaded runs "
            "(four workers, clients, readers; hook 7883075) are accepted by an executable acceptor proved sound for the LTS (T3_sound, "
            "T3_linearizable, T3_never_back_in_time). T0 Ord.btree_reads_hold_log_overlay_guard + harness c05bt for btree point reads."),
    "C06": _R3T + " " + _T0S + " R8 (Props/RefineBt.lean): the same tables under btree columns (R8_step_*, ColInv).",
    "C07": ("Value iteration on bytes (Props/C07Iter.lean): C07_scan_exact (the scan of a byte-level table under SlotInv reports exactly the live "
            "chain heads, once, in index order, with readChain's bytes and the stored counter), C07_iter_spec (scan over all tiers = keys of positive "
            "count with value and count of Pdb.spec), early stop; tie: r5 / c06 lines iter, iterd, iterstop against the real iter_column_while. "
            + _R3T + " " + _T0S),
    "C09": ("NoStale (Props/C09NoStale.lean): for the fixed code every entry of every index table points to a live slot whose stored tail matches "
            "(NoStale_run, no A-tail, no key universe); C09_lookup_latest_notail: the read theorem WITHOUT the A-tail hypothesis; "
            "C09_collision_individual_notail; tie: `t2 nostale` (checkNoStale, proved sound) on every index dump. " + _T0S),
    "C10": ("R6 (Props/RefineMt.lean, model Model/MultiTreePhys.lean): the physical multitree column (one byte-level table per size tier shared by "
            "node slots and root values, node bytes, Address.new, per-tier LIFO free lists, claims at commit / writes at process) is simulated by "
            "the C10 heap: R6_claim(_tree), R6_newValue, R6_deref_*, R6_setRoot_*, R6_read_back, R6_slot_inv, R6_last_deref_all_free, R6_codec_*; "
            "tie mtphys: real ADDRESSES, raw slot bytes, headers, ref counts predicted. C02xTx: crash recovery of multi-operation tree "
            "transactions with reuse (see C02). " + _T0S),
    "C12": _R7,
    "C13": _R7,
    "C14": ("R6_slot_inv (multitree tables), R8_joint_* (btree columns: slot and tree invariant jointly), C07_scan_exact / "
            "C14_iter_each_live_value_once (iteration on bytes), NoStale_run / C14_no_misattribution_nostale (no A-tail), "
            "C02xTx_leak_exactly_F19 (slot accounting after a crash); ties: mtphys, c04b phys, t2 nostale. " + _T0S),
    "C15": ("T3, worker side (Model/JournalPipe.lean, Props/T3.lean): the journals of real threaded runs are replayed on this LTS: T3_pipe_sound, "
            "T3_pipe_drop_persists; 40 model-compared journals per quick run."),
    "C17": ("LockDir_admin_while_held / LockDir_stable_while_held (Props/C18Exec.lean): the administration calls are refused with Locked and change "
            "nothing while a handle is alive; crash images with an empty log file: a refused open must leave it alone."),
    "C18": ("Executable layer (Props/C18Exec.lean): Pdb.LockDir, a state machine of one directory shared by several processes whose open / drop "
            "interpret the generated programs: LockDir_mutex, _failed_open_noop, _open_while_held, _admin_while_held, _reopen_after_drop_or_kill for "
            "all operation sequences, LockDir_refines_interleaving; every harness case replays a scripted operation sequence over 2-4 child "
            "processes through the compiled machine (150 model-compared cases per quick run); read-only opens probed."),
    "C20": ("C20_walk_nostale_dump (Props/C20NoStale.lean): on a dump accepted by checkNoStale the index walk does not fail and every reported item "
            "is a live value under its owner's key bits."),
}
for _k, _v in _R3.items():
    PROPS[_k]["level_text"] = PROPS[_k]["level_text"] + " ROUND 3: " + _v
PROPS["C18"]["level_note"] = PROPS["C18"]["level_note"] + " The racy scenarios stay oracle-only inside each case."
PROPS["C05"]["trusted"] = PROPS["C05"].get("trusted", []) + ["hook lib.rs verif::{set_event_hook, event} + 8 call sites (cfg pdb_verif, 7883075)",
                                                             "hook db.rs enact_logs: yield point enact_logs.before_action (cfg pdb_verif, 754005b)"]
PROPS["C15"]["trusted"] = PROPS["C15"].get("trusted", []) + ["hook lib.rs verif::{set_event_hook, event} (cfg pdb_verif, 7883075)"]
TRUSTED_BASE.append("tools/rs2lean_storage.py (statement skeletons of the storage layer regenerated on every run; tools/t0_mutate.py: 188 edits)")
