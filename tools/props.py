"""Per-property configuration of the check driver (what to build, what to run)."""

TRUSTED_BASE = [
    "Lean 4.33.0 kernel (thorough tier: leanchecker re-check of the property module)",
    "axioms per theorem as listed under coverage.theorems (subset of propext, Classical.choice, Quot.sound)",
    "tools/rs2lean.py (constants + bit functions regenerated from /repo/src on every run)",
    "correspondence harness /verif/harness (generators, canonicalisation, independent oracles)",
]

A_HASH = "A-hash: hash_key (salted Blake2b / SipHash) is injective on the keys of a history (checked dynamically: distinct generated keys never collide in the runs)"
A_COMPRESS = "A-compress: decompress(compress v) = v for lz4 / snappy (exercised by every round trip in the runs)"
P2_GAP = "physical layers below the logical pipeline (index pages, value-table chains, WAL bytes) are tied to the P1 model by correspondence, not by a refinement proof"

P1_RULE = ("histories generated from one SplitMix64 state: commits of 1..6 ops over 1..3 columns and a small key pool "
           "(repeated keys, removals, invalid ops ~3%), interleaved with process / flush / enactall / clean / reindex / "
           "reopen (and crash for C02/C03/C07); distinct = by SHA-1 of the op list; non-trivial = the history had data "
           "in at least two different pipeline stages at some observation point")

HOOK_COMMITS = ["39fa7aa verif hook: expose both index page searches (cfg pdb_verif)",
                "aa461bc verif hook: route a stepping error through store_err (cfg pdb_verif)",
                "bafdd9c verif hook: expose last enacted record id and table configuration (cfg pdb_verif)",
                "8676b67 verif hook: read-only value table state / entry access, compress, hash_key (cfg pdb_verif)"]
NOT_APPLICABLE = {}

PROPS = {
    "C01": {
        "level_text": ("Lean theorem C01_get_eq_spec: for every list of actions (commits, every interleaving of process / flush / "
                       "enact / clean / reindex steps, clean reopens, crashes) a read of a plain hash-column key returns the latest "
                       "committed write and get_size its length; proved by an invariant over the logical pipeline model (P1). The model "
                       "is tied to the code by differential runs of the compiled model against the real Db on generated histories and by "
                       "an independent BTreeMap oracle."),
        "level_note": ("Trusted: Lean kernel; the P1 model abstracts storage below the log-record level (tied by correspondence only); "
                       "hash injectivity (A-hash); compression round trip (A-compress); harness generators."),
        "lean": ["Pdb.Props.C01"],
        "harness": [{"cmd": "p1", "quick": 300, "thorough": 20000}],
        "rule": P1_RULE,
        "assumptions": [A_HASH, A_COMPRESS, P2_GAP],
    },
    "C19": {
        "level_text": ("Lean theorems C19_sse2_result / never_before_p / never_empty / finds_if_base_finds / eq_base / base_result: for "
                       "every page content, key prefix, start position and index size <= 49 bits the SSE2 search (lane-level model of "
                       "the seven intrinsics) returns the first slot at or after p agreeing on the compared bits, never an empty slot, "
                       "never 'absent' when the scalar search finds a match, and equals the scalar search from 18 index bits on. The "
                       "shift / partial-key expressions and constants are regenerated from src/index.rs on every run, so the proofs are "
                       "re-checked against the code's current expressions; loop structure and intrinsic semantics are tied by "
                       "differential runs against the real functions (hook)."),
        "level_note": ("Trusted: Lean kernel; hand-written lane semantics of the SSE2 intrinsics; the hook calling the two private "
                       "functions; index sizes above 49 bits are outside the theorem (address_bits = 64 overflows the u64 shift)."),
        "lean": ["Pdb.Props.C19", "Pdb.Proofs.GenBits"],
        "harness": [{"cmd": "c19", "quick": 20000, "thorough": 300000, "max_search": 600000}],
        "rule": ("synthetic 64-entry pages from one SplitMix64 state in six styles (empty, sparse exact matches, near misses in the "
                 "dropped / lowest partial-key bits, zero partial keys on non-empty entries, dense random, duplicates), index bits "
                 "16..49, start 0..64, key prefixes incl. zero partial key; distinct by SHA-1 of the op line; non-trivial = a search "
                 "found something or the page holds near-miss / zero-key entries"),
        "assumptions": ["SSE2 intrinsic semantics as modelled in Pdb/Model/IndexPage.lean (validated against the hardware by the runs)"],
        "trusted": ["hook index.rs verif_find_entries (cfg pdb_verif)"],
    },
    "C02": {
        "level_text": ("Lean theorems C02_recover_prefix / C02_crash_during_recovery / C02_continues: for every reachable state of the "
                       "logical pipeline model (any history incl. earlier crashes), every number j of writes of the record being enacted "
                       "that reached the tables and every number n >= flushed of log records that survived, recovery (replay of absolute "
                       "after-images) yields exactly the specification of a prefix of the committed transactions containing everything "
                       "synced, the invariant holds again, and replay absorbs any partially replayed state. Tied to the code by crash "
                       "images of the real directory (step boundaries, cut unsynced log tails) reopened with the real code; the recovered "
                       "prefix must be one the model allows."),
        "level_note": ("Trusted: Lean kernel; P1 abstracts records to logical after-images (physical record layout, index/value tables "
                       "tied by correspondence only); crash points inside a single file operation are represented by (j, n) in the model "
                       "and sampled at step boundaries + log-tail cuts on the implementation; page-granular power loss is C12; damaged "
                       "logs are C13."),
        "lean": ["Pdb.Props.C02"],
        "harness": [{"cmd": "p1", "quick": 250, "thorough": 15000}],
        "rule": P1_RULE,
        "assumptions": [A_HASH, A_COMPRESS, P2_GAP, "crash instants on the implementation: step boundaries of the stepping API with the unsynced log tail cut at a seeded length"],
    },
    "C03": {
        "level_text": ("Lean theorems C03_drop_persists (for every reachable state, drop = the drain sequence of kill_logs, then open: the "
                       "tables hold the specification of ALL accepted transactions, overlays and queues are empty, reads return it) and "
                       "C03_synced_survive (after any crash the recovered prefix contains every transaction whose record was flushed). "
                       "Tied to the code by drop/reopen and crash images at arbitrary pipeline positions of generated histories."),
        "level_note": ("Trusted: Lean kernel; P1 abstraction (see C02); the real drop may leave flushed log files to be replayed by the next "
                       "open, which the model folds into one step; worker-thread shutdown is C15."),
        "lean": ["Pdb.Props.C03"],
        "harness": [{"cmd": "p1", "quick": 250, "thorough": 15000}],
        "rule": P1_RULE,
        "assumptions": [A_HASH, A_COMPRESS, P2_GAP],
    },
    "C07": {
        "level_text": ("Lean theorems C07_positive_readable (count > 0 implies readable with its value at every pipeline stage, after "
                       "reopens and crashes), C07_logged_iff (empty queue: readable iff count > 0), C07_count_is_math_count (below the "
                       "2^32-1 saturation bound the stored count equals the property's own counter), C07_saturates, C07_table_counts; "
                       "proved from the pipeline invariant under the explicit preimage contract. Tied to the code by generated "
                       "set/reference/dereference histories on hash and btree rc columns with crashes and reopens."),
        "level_note": ("Trusted: Lean kernel; P1 abstraction; the preimage contract (value is a function of the key) is a hypothesis; "
                       "value iteration is compared on the implementation only (iter_column_while)."),
        "lean": ["Pdb.Props.C07"],
        "harness": [{"cmd": "p1", "quick": 250, "thorough": 15000}],
        "rule": P1_RULE,
        "assumptions": [A_HASH, A_COMPRESS, P2_GAP, "preimage contract: every Set on a preimage / rc column carries valueOf(key)"],
    },
    "C08": {
        "level_text": ("Lean theorems C08_rejected_noop (a commit that returns an error returns the state unchanged), C08_no_trace "
                       "(deleting all rejected commits from any history - with any further commits, pipeline progress, restarts, crashes - "
                       "yields the same state), C08_invalid_rejected, C08_validation_matrix / C08_validateTx (model of "
                       "DbInner::validate_change: exactly the listed column/operation combinations are rejected, wherever they sit). "
                       "Tied to the code by transactions with an invalid operation at a random position over columns of every kind, "
                       "observing the full public state before/after, after drain and after reopen, and by the exhaustive single-operation "
                       "matrix compared with the model."),
        "level_note": ("Trusted: Lean kernel; the validation model is hand-written (tied by the exhaustive matrix run); I/O errors after "
                       "validation (claiming slots, reading a tree root) are outside the property's list and the model."),
        "lean": ["Pdb.Props.C08"],
        "harness": [{"cmd": "c08", "quick": 60, "thorough": 3000}, {"cmd": "p1", "quick": 100, "thorough": 5000}],
        "rule": ("c08: 5 columns (plain, rc, btree, multitree rc, multitree append-only), 10..30 transactions of 1..5 valid operations, "
                 "half of them with one invalid operation inserted at a random position (first / middle / last measured), plus the "
                 "exhaustive column-kind x operation-kind matrix incl. fan-out 255/256 and missing roots; p1: histories with ~3% invalid "
                 "references; distinct by SHA-1 of the op list; non-trivial = at least one transaction was rejected"),
        "assumptions": [A_HASH, P2_GAP],
    },
    "C16": {
        "level_text": ("Lean theorems C16_commits_refused (after a stored error every commit is refused and changes nothing), "
                       "C16_reads_committed (for a failure striking any reachable state, with any number of table writes of the record being "
                       "enacted already done, reads still return the latest write among all accepted transactions; rc: positive count "
                       "implies readable) and C16_reopen_prefix (reopening replays the logs to the specification of a prefix containing "
                       "everything logged, hence everything synced, and the invariant holds again). Tied to the code by injecting a "
                       "persistent I/O error at seeded file-operation indexes of every stepping call and of open itself, routing it "
                       "through store_err, then observing reads, refusal, drop, reopen."),
        "level_note": ("Trusted: Lean kernel; P1 abstraction; 'no panic' and 'the failing call returns the error' are checked on the "
                       "implementation only (catch_unwind at every injected fault); worker threads are not exercised here (the thread-local "
                       "fault counter cannot reach them): the worker wrapper is represented by the hook verif_store_err."),
        "lean": ["Pdb.Props.C16"],
        "harness": [{"cmd": "c16", "quick": 150, "thorough": 8000}],
        "rule": ("fault-free stretches of a generated history, then one stepping call (process / flush / enact / clean / reindex) or Db::open of "
                 "a crash image executed with set_number_of_allowed_io_operations(i) for a seeded index i (0, 1, or up to 60), failure "
                 "persisting for the rest of the call and optionally through drop; distinct by SHA-1 of the op list; non-trivial = the "
                 "fault was actually hit"),
        "assumptions": [A_HASH, A_COMPRESS, P2_GAP],
        "trusted": ["hook Db::verif_store_err (cfg pdb_verif)", "the crate's own fault injector (try_io, feature instrumentation)"],
    },
    "C13": {
        "level_text": ("Lean theorems C13_parse_encode / C13_total / C13_only_valid_consecutive / C13_file_order / C13_nothing_after_first_invalid / "
                       "C13_whole_or_nothing / C13_prefix_not_older_partial over a byte-level model of the write-ahead log and of replay at open, for ALL "
                       "byte strings and file sets; full-strength prefix statement kept as C13_prefix_not_older with a proved counterexample (F3b). The model "
                       "is tied to the code by running Db::open on damaged copies of real log directories and comparing last_enacted and the table "
                       "configuration after replay (hooks) with the compiled model, plus an independent prefix oracle."),
        "level_note": ("Trusted: Lean kernel; CRC-32 as a function of the bytes (A-crc); hooks Db::verif_last_enacted / verif_table_cfg; table contents are "
                       "tied by the oracle only (the model decides which records are accepted, not what they write). Known findings F3b, F3c, F3d are "
                       "reported as KNOWN-FINDING."),
        "lean": ["Pdb.Props.C13", "Pdb.Proofs.GenBits"],
        "harness": [{"cmd": "c13", "quick": 250, "thorough": 500, "max_search": 3000, "timeout": 3000}],
        "rule": ("fixed cases first (41 crafted log files incl. every panic trigger of the audit and accepted/rejected controls; 9 scripted scenarios of the "
                 "findings), then generated cases from one SplitMix64 state: 1..3 columns (plain hash, rc hash, btree, passive multitree), 2..10 "
                 "transactions, commit+process per transaction with random flush / enact / clean so that reclaimed, applied-unreclaimed, flushed and "
                 "appending log files coexist; per image an undamaged control and ~13 damages (truncation, single / double bit flip, burst, garbage / stale "
                 "record / valid empty record appended, file duplicated (+damaged), renamed, exchanged, deleted, zero-length, sub-header, extra short file, "
                 "earlier-generation log); 1 case in 8 (quick) is a tiny history swept exhaustively (every truncation offset <= 300 B, every bit <= 200 B); "
                 "thorough: 4x samples, every offset <= 64 KiB, every bit <= 2 KiB in sweep cases; distinct = SHA-1 of the ops; non-trivial = >= 2 "
                 "transactions and a log file with records"),
        "assumptions": ["A-crc: CRC-32 is a function of the record bytes; accepted records are genuine (no forged checksum-valid records except the empty controls)"],
        "trusted": ["hooks db.rs verif_last_enacted / verif_table_cfg, column.rs verif_table_cfg (cfg pdb_verif)"],
    },
    "C06": {
        "level_text": ("Lean theorems C06_roundtrip / C06_replace_roundtrip / C06_replace_frees / C06_remove_frees / C06_insert_reuses_free / "
                       "C06_value_roundtrip / C06_size_field_never_a_marker / C06_tier_fits / C06_tier_minimal / C06_compress_kept_only_if_smaller ... "
                       "(16 theorems) over a byte-level model of one value table (entry formats, free list, multipart chains, overwrite_chain, "
                       "clear_chain, tier selection): every value of every length written under the slot invariant reads back bit-exact with its "
                       "compressed flag, the invariant (free list acyclic and in range, chains disjoint, live + free = filled - 1) is preserved, "
                       "overwrites free exactly the unused old slots, inserts reuse freed slots before extending. Constants (SIZES, markers, masks, "
                       "sizes) are regenerated from the source on every run. Tied to the code by replaying every table operation of generated "
                       "histories on the model (addresses, filled, free-list length, chain digests via hooks) and by an independent byte oracle."),
        "level_note": ("Trusted: Lean kernel; A-compress; the model restructures overwrite_chain into phases (tied by the c06 t correspondence); "
                       "db_version > 6; claimed entries (multitree) are C10; hooks of fixes/hook-c06.diff."),
        "lean": ["Pdb.Props.C06"],
        "harness": [{"cmd": "c06", "quick": 100, "thorough": 300, "max_search": 3000}],
        "rule": ("one column per case (hash plain / hash rc / btree plain / btree rc; uniform or hashed keys; compression none/lz4/snappy; threshold "
                 "0/default/max); lengths 0, 1, boundary-1/boundary/boundary+1 of 3 (thorough 15) sampled tiers for the header variant in use, the "
                 "multipart boundary, part boundaries, threshold +-1, 33 KiB, 1 MiB (2.5 MiB thorough); single-op commits: set / overwrite across "
                 "tiers and single<->multipart / remove / rc inc-dec, read at every pipeline stage and after reopen; remove-all / re-insert cycles; "
                 "distinct = SHA-1 of the ops; non-trivial = touches a tier boundary or a multipart chain"),
        "assumptions": [A_COMPRESS, "WriteOk discharged by C06_tier_writeOk", "slot index < 2^64",
                        "model restructures overwrite_chain into phases (tied by c06 t correspondence); db_version > 6; claimed=false"],
        "trusted": ["hooks Db::verif_table_state / verif_table_entry, verif::{compress, hash_key, entry_sizes} (cfg pdb_verif)"],
    },
}
