#!/usr/bin/env python3
"""rustlex: a small Rust lexer shared by skeleton.py and rs2lean.py.

`lex(src)` returns the token list [(kind, text, offset)] with kinds
  id   identifier / keyword            num  number literal (with suffix)
  str  string literal (any flavour)    chr  char / byte literal
  lt   lifetime or loop label          op   punctuation (longest match)
Comments (line, nested block) and whitespace are skipped.  Anything the lexer does not know
(unterminated literal or comment, stray character) raises LexError: the translators turn that
into a non-zero exit with a message, never into an unchanged output file.

`mask(src)` is a same-length copy of `src` with comments blanked and the CONTENTS of string and
char literals replaced by `_` (so braces, `//`, quotes inside literals cannot confuse structural
regexes or brace matching); offsets are preserved.

`canon(tokens)` is the normal form used for matching and for pinned conditions: token texts
concatenated, one space only between two adjacent word-like tokens (`let mut x`, `bytes as i64`),
string literals as `""`, char literals as `''`, and the trailing comma rustfmt puts before the closing
bracket of a multi-line call / macro / array / struct literal dropped.  Formatting and comments therefore
never change it, any other change of a token does.
"""
import re


class LexError(Exception):
    pass


OPS = ["<<=", ">>=", "...", "..=", "::", "->", "=>", "==", "!=", "<=", ">=", "&&", "||", "+=", "-=", "*=", "/=",
       "%=", "^=", "&=", "|=", "<<", ">>", ".."]
ID = re.compile(r"[A-Za-z_][A-Za-z0-9_]*")
NUM = re.compile(r"\d[0-9A-Za-z_]*")
RAW = re.compile(r"b?r(#*)\"")
CHAR = re.compile(r"b?'(?:\\(?:u\{[0-9a-fA-F_]+\}|x[0-9a-fA-F]{2}|.)|[^\\'\n])'")
LIFETIME = re.compile(r"'[A-Za-z_][A-Za-z0-9_]*")


def lex(src):
    out, i, n = [], 0, len(src)
    while i < n:
        c = src[i]
        if c in " \t\r\n":
            i += 1
            continue
        if src.startswith("//", i):
            j = src.find("\n", i)
            i = n if j < 0 else j
            continue
        if src.startswith("/*", i):
            depth, j = 1, i + 2
            while depth:
                a, b = src.find("/*", j), src.find("*/", j)
                if b < 0:
                    raise LexError("unterminated block comment at offset %d" % i)
                if 0 <= a < b:
                    depth, j = depth + 1, a + 2
                else:
                    depth, j = depth - 1, b + 2
            i = j
            continue
        m = RAW.match(src, i)
        if m and (i == 0 or not (src[i - 1].isalnum() or src[i - 1] == "_")):
            close = '"' + m.group(1)
            j = src.find(close, m.end())
            if j < 0:
                raise LexError("unterminated raw string at offset %d" % i)
            out.append(("str", src[i:j + len(close)], i))
            i = j + len(close)
            continue
        if c == '"' or (c == "b" and src.startswith('b"', i)):
            j = i + (2 if c == "b" else 1)
            while True:
                if j >= n:
                    raise LexError("unterminated string literal at offset %d" % i)
                if src[j] == "\\":
                    j += 2
                    continue
                if src[j] == '"':
                    break
                j += 1
            out.append(("str", src[i:j + 1], i))
            i = j + 1
            continue
        if c == "'" or (c == "b" and src.startswith("b'", i)):
            m = CHAR.match(src, i)
            if m:
                out.append(("chr", m.group(0), i))
                i = m.end()
                continue
            m = LIFETIME.match(src, i)
            if m:
                out.append(("lt", m.group(0), i))
                i = m.end()
                continue
            raise LexError("stray quote at offset %d: %r" % (i, src[i:i + 20]))
        m = ID.match(src, i)
        if m:
            out.append(("id", m.group(0), i))
            i = m.end()
            continue
        m = NUM.match(src, i)
        if m:
            out.append(("num", m.group(0), i))
            i = m.end()
            continue
        for op in OPS:
            if src.startswith(op, i):
                out.append(("op", op, i))
                i += len(op)
                break
        else:
            if c in "+-*/%^!&|=<>@.,;:#$?~()[]{}":
                out.append(("op", c, i))
                i += 1
            else:
                raise LexError("unexpected character %r at offset %d" % (c, i))
    return out


def mask(src):
    """same-length text: comments -> spaces, literal contents -> underscores (quotes kept)"""
    toks = lex(src)
    out, pos = [], 0
    for kind, text, off in toks:
        gap = src[pos:off]
        out.append("".join(ch if ch == "\n" else " " for ch in gap))
        if kind == "str":
            q = text.index('"')
            tail = len(text) - text.rindex('"')
            out.append(text[:q + 1] + "_" * (len(text) - q - 1 - tail) + text[len(text) - tail:])
        elif kind == "chr":
            q = text.index("'")
            out.append(text[:q + 1] + "_" * (len(text) - q - 2) + "'")
        else:
            out.append(text)
        pos = off + len(text)
    out.append("".join(ch if ch == "\n" else " " for ch in src[pos:]))
    res = "".join(out)
    assert len(res) == len(src)
    return res


def wordlike(kind):
    return kind in ("id", "num", "lt")


CALL_KEYWORDS = {"if", "while", "for", "match", "return", "in", "let", "else", "move", "as", "break", "loop", "mut", "ref"}


def trailing_commas(toks):
    """indices of `,` tokens that are pure formatting: directly before `]` or `}`, or before the `)` of a call /
    macro argument list (NOT of a parenthesised expression: `(x,)` is a 1-tuple)"""
    drop, stack = set(), []
    for i, (kind, text, _) in enumerate(toks):
        if kind != "op":
            continue
        if text in ("(", "[", "{"):
            stack.append(i)
        elif text in (")", "]", "}"):
            if not stack:
                return set()
            j = stack.pop()
            if i > 0 and toks[i - 1][0] == "op" and toks[i - 1][1] == "," and i - 1 > j:
                if text in ("]", "}"):
                    drop.add(i - 1)
                elif j > 0 and ((toks[j - 1][0] == "id" and toks[j - 1][1] not in CALL_KEYWORDS) or
                                (toks[j - 1][0] == "op" and toks[j - 1][1] == "!" and j > 1 and toks[j - 2][0] == "id")):
                    drop.add(i - 1)
    return drop


def canon(toks):
    """canonical text of a token list and, per token, its offset in that text (dropped formatting commas get
    the offset of the following token and contribute no text)"""
    parts, offs, pos, prev = [], [], 0, None
    drop = trailing_commas(toks)
    for i, (kind, text, _) in enumerate(toks):
        if i in drop:
            offs.append(pos)
            continue
        if kind == "str":
            text = '""'
        elif kind == "chr":
            text = "''"
        if prev is not None and wordlike(prev) and wordlike(kind):
            parts.append(" ")
            pos += 1
        offs.append(pos)
        parts.append(text)
        pos += len(text)
        prev = kind
    return "".join(parts), offs


def check_balanced(toks, what):
    stack, pair = [], {")": "(", "]": "[", "}": "{"}
    for kind, text, off in toks:
        if kind != "op":
            continue
        if text in "([{":
            stack.append((text, off))
        elif text in ")]}":
            if not stack or stack[-1][0] != pair[text]:
                raise LexError("%s: unbalanced `%s` at offset %d" % (what, text, off))
            stack.pop()
    if stack:
        raise LexError("%s: unclosed `%s` at offset %d" % (what, stack[-1][0], stack[-1][1]))
