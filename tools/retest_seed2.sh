#!/bin/bash
# retest.sh <seed dir name> <checks...> : run quick checks of the CURRENT /verif against a stored seed in a private copy
n=$1; shift; checks=$@
V=/dev/shm/vre-$n; R=/dev/shm/vre-repo-$n
rm -rf $V; mkdir -p $V; rsync -a --exclude evidence/replays --exclude seeded --exclude fixes /verif/ $V/
git -C /repo worktree add --detach $R HEAD >/dev/null 2>&1
git -C $R apply /verif/seeded/$n/patch.diff || { echo "patch does not apply"; git -C /repo worktree remove --force $R; exit 3; }
res=""
for c in $checks; do
  r=$(cd $V && PDB_REPO=$R timeout 3000 ./check $c --tier quick 2>&1 | grep -E "VIOLATION" | head -2 | cut -c1-220 | tr '\n' ' ')
  res="$res$c: ${r:-no violation reported} ; "
done
echo "$n: $res"
mkdir -p /dev/shm/replays-$n; cp $V/evidence/replays/* /dev/shm/replays-$n/ 2>/dev/null
git -C /repo worktree remove --force $R; rm -rf $V
python3 - "/verif/seeded/$n/meta.json" "$res" <<'PY'
import json,sys
m=json.load(open(sys.argv[1])); m["retest_after_strengthening"]=sys.argv[2]; json.dump(m,open(sys.argv[1],"w"),indent=1)
PY
