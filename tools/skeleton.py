#!/usr/bin/env python3
"""skeleton: regenerate Pdb/Gen/Order.lean from /repo/src/{db,log}.rs.

For a fixed set of functions it extracts, by brace matching and a FIXED marker vocabulary,
the ORDER of the calls that carry the concurrency / durability protocol.  A marker is a
regular expression on the whitespace-free, comment-free, string-free text of the function
body; block markers (`while .. {`, `if .. {`) also emit an `end...` marker at the matching
closing brace.  Output: one `def <fn> : List Marker` per function, in source order.

Count classes per (function, marker):  "1" exactly once, "+" at least once, "?" at most once,
"*" any.  `ONE_OF` groups: exactly one marker of the group must be present.  Anything else is a
hard error (exit 2); the check driver treats that as a broken obligation.

The extraction is syntactic and shallow by design: it is one of three ties for the ordering
properties (with the correspondence runs and the oracle runs), not the only one.
"""
import re, sys, os

REPO = os.environ.get("PDB_REPO", "/repo")
OUT = os.path.join(os.path.dirname(os.path.abspath(__file__)), "..", "lean", "Pdb", "Gen")


class SkeletonError(Exception):
    pass


def normalise(src):
    src = re.sub(r"/\*.*?\*/", "", src, flags=re.S)
    src = re.sub(r"//[^\n]*", "", src)
    src = re.sub(r'"(?:\\.|[^"\\])*"', '""', src)      # string literals (format braces!)
    return src


def block_from(src, i):
    assert src[i] == "{"
    depth, j = 0, i
    while j < len(src):
        if src[j] == "{":
            depth += 1
        elif src[j] == "}":
            depth -= 1
            if depth == 0:
                return j
        j += 1
    raise SkeletonError("unbalanced braces")


def fn_body(src, impl, name):
    """Body text (without outer braces) of `fn name` inside an `impl <impl>` block."""
    pat = r"\bimpl(?:<[^>]*>)?\s+%s\b[^{;]*\{" % re.escape(impl)
    for m in re.finditer(pat, src):
        end = block_from(src, m.end() - 1)
        blk = src[m.end() - 1:end + 1]
        f = re.search(r"\bfn\s+%s\s*(?:<[^>]*>)?\s*\(" % re.escape(name), blk)
        if f:
            b = blk.index("{", f.end())
            # skip the parameter list / return type: first `{` after the closing `)` of params
            depth, k = 0, f.end() - 1
            while True:
                if blk[k] == "(":
                    depth += 1
                elif blk[k] == ")":
                    depth -= 1
                    if depth == 0:
                        break
                k += 1
            b = blk.index("{", k)
            e = block_from(blk, b)
            return re.sub(r"\s+", "", blk[b + 1:e])
    raise SkeletonError("fn %s::%s not found" % (impl, name))


SELF = r"(?:self|db)"
LOAD = r"\.shutdown\.load\([^()]*\)"

# marker -> regex.  A regex ending in `\{` is a block marker.
M = {
    # WaitCondvar
    "lockWork": r"self\.work\.lock\(\)",
    "setWork": r"\*work=true",
    "notifyOne": r"self\.cv\.notify_one\(\)",
    "unlockWork": r"drop\(work\)",
    "whileNotWork": r"while!\*work\{",
    "cvWait": r"self\.cv\.wait\(&mutwork\)",
    "clearWork": r"\*work=false",
    # DbInner::open
    "createDirAll": r"create_dir_all\(",
    "isDirCheck": r"\.is_dir\(\)",
    "metadataExists": r"\.join\(\"\"\)\.exists\(\)",      # existence probe only (string literals are blanked)
    "createLockFile": r"OpenOptions::new\(\)\.create\(true\)[^;]*?\.open\(lock_path",
    "tryLock": r"\.try_lock_exclusive\(\)",
    "returnLocked": r"\.map_err\(Error::Locked\)\?",
    "loadMetadata": r"\.load_and_validate_metadata\(",
    "logOpen": r"Log::open\(",
    "columnOpen": r"Column::open\(",
    # commit queue
    "lockQueue": SELF + r"\.commit_queue\.lock\(\)",
    "ifQueueFull": r"if[^{};]*queue\.bytes>MAX_COMMIT_QUEUE_BYTES[^{};]*\{",
    "whileQueueFull": r"while[^{};]*queue\.bytes>MAX_COMMIT_QUEUE_BYTES[^{};]*\{",
    "waitQueueFull": r"self\.commit_queue_full_cv\.wait\(&mutqueue\)",
    "checkBgErr": r"self\.bg_err\.lock\(\)",
    "lockOverlayWrite": r"self\.commit_overlay\.write\(\)",
    "copyToOverlay": r"\.copy_to_overlay\(",
    "pushQueue": r"queue\.commits\.push_back\(commit\)",
    "signalLogWorker": SELF + r"\.log_worker_wait\.signal\(\)",
    # process_commits
    "lockLogQueue": SELF + r"\.log_queue_wait\.work\.lock\(\)",
    "ifLogQueueFull": r"if!self" + LOAD + r"&&\*queue>MAX_LOG_QUEUE_BYTES\{",
    "whileLogQueueFull": r"while!self" + LOAD + r"&&\*queue>MAX_LOG_QUEUE_BYTES\{",
    "waitLogQueue": r"self\.log_queue_wait\.cv\.wait\(&mutqueue\)",
    "popQueue": r"queue\.commits\.pop_front\(\)",
    "notifyAllQueueFull": r"self\.commit_queue_full_cv\.notify_all\(\)",
    "deferCommit": r"self\.defer_commit\(",
    "beginRecord": r"self\.log\.begin_record\(\)",
    "writePlan": r"\.write_plan\(",
    "completePlan": r"\.complete_plan\(",
    "endRecord": r"self\.log\.end_record\(",
    "addLoggedBytes": r"\*logged_bytes\+=",
    "signalFlushWorker": SELF + r"\.flush_worker_wait\.signal\(\)",
    "cleanOverlay": r"\.clean_overlay\(",
    "startReindex": r"self\.start_reindex\(",
    # enact_logs
    "lockIteration": r"self\.iteration_lock\.lock\(\)",
    "readNext": r"self\.log\.read_next\(",
    "clearReplayLogs": r"\.log\.clear_replay_logs\(\)",
    "validatePlan": r"\.validate_plan\(",
    "enactPlan": r"\.enact_plan\(",
    "dropIndex": r"\.drop_index\(",
    "storeLastEnacted": r"self\.last_enacted\.store\(",
    "endRead": r"self\.log\.end_read\(",
    "subLoggedBytes": r"\*queue-=",
    "notifyLogQueue": r"self\.log_queue_wait\.cv\.notify_(?:one|all)\(\)",
    "whileDirtyOverMax": r"while[^{};]*self\.log\.num_dirty_logs\(\)>max_logs[^{};]*\{",
    "checkShutdown": SELF + LOAD,
    "waitCleanupQueue": r"self\.cleanup_queue_wait\.wait\(\)",
    # flush / clean / kill
    "flushOne": r"self\.log\.flush_one\(",
    "signalCommitWorker": SELF + r"\.commit_worker_wait\.signal\(\)",
    "numDirtyLogs": r"self\.log\.num_dirty_logs\(\)",
    "ifSyncData": r"ifself\.options\.sync_data(?=\{for)\{",
    "flushColumn": r"\bc\.flush\(\)\?",
    "callLogCleanLogs": r"self\.log\.clean_logs\(",
    "signalCleanupQueue": SELF + r"\.cleanup_queue_wait\.signal\(\)",
    "callEnactLogs": SELF + r"\.enact_logs\(false\)",
    "callFlushLogs": SELF + r"\.flush_logs\(",
    "callProcessCommits": SELF + r"\.process_commits\(",
    "callProcessReindex": SELF + r"\.process_reindex\(\)",
    "callCleanLogs": SELF + r"\.clean_logs\(\)",
    "callCleanAllLogs": r"\.clean_all_logs\(\)",
    "callLogKillLogs": r"\.log\.kill_logs\(\)",
    # shutdown / store_err
    "storeShutdown": r"self\.shutdown\.store\(true",
    "signalCleanupWorker": SELF + r"\.cleanup_worker_wait\.signal\(\)",
    "setBgErr": r"\*err=Some\(",
    "callShutdown": r"self(?:\.inner)?\.shutdown\(\)",
    # open_inner / drop_inner
    "dbInnerOpen": r"DbInner::open\(",
    "replayAllLogs": r"\.replay_all_logs\(\)",
    "initTableData": r"\.init_table_data\(\)",
    "spawnCommitWorker": r"Self::commit_worker\(",
    "spawnFlushWorker": r"Self::flush_worker\(",
    "spawnLogWorker": r"Self::log_worker\(",
    "spawnCleanupWorker": r"Self::cleanup_worker\(",
    "joinLog": r"self\.log_thread\.take\(\)\{ifletErr\(\w+\)=t\.join\(\)",
    "joinFlush": r"self\.flush_thread\.take\(\)\{ifletErr\(\w+\)=t\.join\(\)",
    "joinCommit": r"self\.commit_thread\.take\(\)\{ifletErr\(\w+\)=t\.join\(\)",
    "joinCleanup": r"self\.cleanup_thread\.take\(\)\{ifletErr\(\w+\)=t\.join\(\)",
    "callKillLogs": r"self\.inner\.kill_logs\(",
    "unlockFile": r"\.lock_file\.unlock\(\)",
    # worker loops
    "whileRunning": r"while!db" + LOAD + r"(?:\|\|more_\w+)?\{",
    "ifIdle": r"if!more_\w+(?:&&!more_\w+)?\{",
    "hasLogFilesToRead": r"db\.log\.has_log_files_to_read\(\)",
    "waitCommitWorker": r"db\.commit_worker_wait\.wait\(\)",
    "waitLogWorker": r"db\.log_worker_wait\.wait\(\)",
    "waitFlushWorker": r"db\.flush_worker_wait\.wait\(\)",
    "waitCleanupWorker": r"db\.cleanup_worker_wait\.wait\(\)",
    # Log
    "takeAppending": r"self\.appending\.write\(\)\.take\(\)",
    "ifSync": r"ifself\.sync\{",
    "syncData": r"\.sync_data\(\)",
    "pushReadQueue": r"self\.read_queue\.write\(\)\.push_back\(",
    "drainCleanupQueue": r"queue\.drain\(",
    "truncateLog": r"file\.set_len\(0\)",
    "syncAll": r"file\.sync_all\(\)",
    "extendPool": r"pool\.extend\(cleaned\)",
    "dropLog": r"self\.drop_log\(",
    "lockAppending": r"self\.appending\.write\(\)",
    "flushToFile": r"\.flush_to_file\(",
    "lockOverlays": r"self\.overlays\.write\(\)",
    "extendOverlay": r"\.map\.extend\(",
    "setDirty": r"self\.dirty\.store\(true",
    "removeOverlayEntry": r"e\.remove_entry\(\)",
}

# (lean name, file, impl, fn, [(marker, count)], [one-of groups])
FUNCS = [
    ("signal", "src/db.rs", "WaitCondvar", "signal",
     [("lockWork", "1"), ("setWork", "1"), ("notifyOne", "1"), ("unlockWork", "?")], []),
    ("wait", "src/db.rs", "WaitCondvar", "wait",
     [("lockWork", "1"), ("whileNotWork", "1"), ("cvWait", "1"), ("clearWork", "1")], []),
    ("dbOpen", "src/db.rs", "DbInner", "open",
     [("createDirAll", "1"), ("isDirCheck", "1"), ("metadataExists", "?"), ("createLockFile", "1"), ("tryLock", "1"),
      ("returnLocked", "1"), ("loadMetadata", "1"), ("logOpen", "1"), ("columnOpen", "1")], []),
    ("commitRaw", "src/db.rs", "DbInner", "commit_raw",
     [("lockQueue", "1"), ("ifQueueFull", "?"), ("whileQueueFull", "?"), ("waitQueueFull", "1"),
      ("checkBgErr", "+"), ("lockOverlayWrite", "1"), ("copyToOverlay", "+"), ("pushQueue", "1"),
      ("signalLogWorker", "1")], [("ifQueueFull", "whileQueueFull")]),
    ("processCommits", "src/db.rs", "DbInner", "process_commits",
     [("lockLogQueue", "+"), ("ifLogQueueFull", "?"), ("whileLogQueueFull", "?"), ("waitLogQueue", "1"),
      ("lockQueue", "+"), ("popQueue", "1"), ("notifyAllQueueFull", "1"), ("deferCommit", "1"),
      ("beginRecord", "1"), ("writePlan", "+"), ("completePlan", "1"), ("endRecord", "1"),
      ("addLoggedBytes", "1"), ("signalFlushWorker", "1"), ("lockOverlayWrite", "1"),
      ("cleanOverlay", "+"), ("startReindex", "1")], [("ifLogQueueFull", "whileLogQueueFull")]),
    ("enactLogs", "src/db.rs", "DbInner", "enact_logs",
     [("lockIteration", "1"), ("readNext", "1"), ("clearReplayLogs", "*"), ("validatePlan", "*"),
      ("enactPlan", "+"), ("dropIndex", "1"), ("storeLastEnacted", "1"), ("endRead", "1"),
      ("lockLogQueue", "1"), ("subLoggedBytes", "1"), ("notifyLogQueue", "1"),
      ("whileDirtyOverMax", "1"), ("checkShutdown", "?"), ("waitCleanupQueue", "1")], []),
    ("flushLogs", "src/db.rs", "DbInner", "flush_logs",
     [("flushOne", "1"), ("signalCommitWorker", "1")], []),
    ("cleanLogs", "src/db.rs", "DbInner", "clean_logs",
     [("numDirtyLogs", "1"), ("ifSyncData", "1"), ("flushColumn", "1"), ("callLogCleanLogs", "1"),
      ("signalCleanupQueue", "1")], []),
    ("cleanAllLogs", "src/db.rs", "DbInner", "clean_all_logs",
     [("flushColumn", "1"), ("numDirtyLogs", "1"), ("callLogCleanLogs", "1")], []),
    ("killLogs", "src/db.rs", "DbInner", "kill_logs",
     [("checkBgErr", "1"), ("callLogCleanLogs", "1"), ("callEnactLogs", "+"), ("callFlushLogs", "+"),
      ("callProcessCommits", "1"), ("callCleanAllLogs", "1"), ("callLogKillLogs", "1")], []),
    ("shutdown", "src/db.rs", "DbInner", "shutdown",
     [("storeShutdown", "1"), ("lockLogQueue", "?"), ("notifyLogQueue", "1"), ("signalFlushWorker", "1"),
      ("signalLogWorker", "1"), ("signalCommitWorker", "1"), ("signalCleanupWorker", "1"),
      ("signalCleanupQueue", "?")], []),
    ("storeErr", "src/db.rs", "DbInner", "store_err",
     [("checkBgErr", "1"), ("setBgErr", "1"), ("callShutdown", "1"), ("lockQueue", "?"),
      ("notifyAllQueueFull", "1")], []),
    ("openInner", "src/db.rs", "Db", "open_inner",
     [("dbInnerOpen", "1"), ("replayAllLogs", "1"), ("clearReplayLogs", "1"), ("callCleanAllLogs", "1"),
      ("callLogKillLogs", "1"), ("initTableData", "1"), ("spawnCommitWorker", "1"), ("spawnFlushWorker", "1"),
      ("spawnLogWorker", "1"), ("spawnCleanupWorker", "1")], []),
    ("dropInner", "src/db.rs", "Db", "drop_inner",
     [("callShutdown", "1"), ("joinLog", "1"), ("joinFlush", "1"), ("joinCommit", "1"),
      ("joinCleanup", "1"), ("callKillLogs", "1"), ("unlockFile", "1")], []),
    ("commitWorker", "src/db.rs", "Db", "commit_worker",
     [("whileRunning", "1"), ("ifIdle", "1"), ("signalCleanupWorker", "1"), ("hasLogFilesToRead", "1"),
      ("waitCommitWorker", "1"), ("callEnactLogs", "1")], []),
    ("logWorker", "src/db.rs", "Db", "log_worker",
     [("callProcessReindex", "+"), ("whileRunning", "1"), ("ifIdle", "1"), ("waitLogWorker", "1"),
      ("callProcessCommits", "1")], []),
    ("flushWorker", "src/db.rs", "Db", "flush_worker",
     [("whileRunning", "1"), ("ifIdle", "1"), ("waitFlushWorker", "1"), ("callFlushLogs", "1")], []),
    ("cleanupWorker", "src/db.rs", "Db", "cleanup_worker",
     [("whileRunning", "1"), ("ifIdle", "1"), ("waitCleanupWorker", "1"), ("callCleanLogs", "1")], []),
    ("logFlushOne", "src/log.rs", "Log", "flush_one",
     [("takeAppending", "1"), ("ifSync", "1"), ("syncData", "1"), ("pushReadQueue", "1")], []),
    ("logCleanLogs", "src/log.rs", "Log", "clean_logs",
     [("drainCleanupQueue", "1"), ("truncateLog", "1"), ("syncAll", "1"), ("extendPool", "1"),
      ("dropLog", "1")], []),
    ("logEndRecord", "src/log.rs", "Log", "end_record",
     [("lockAppending", "1"), ("flushToFile", "1"), ("lockOverlays", "1"), ("extendOverlay", "+"),
      ("setDirty", "1")], []),
    ("logEndRead", "src/log.rs", "Log", "end_read",
     [("lockOverlays", "1"), ("removeOverlayEntry", "+")], []),
]


def end_name(m):
    return "end" + m[0].upper() + m[1:]


def extract(body, spec, oneof, where):
    found = []
    for marker, count in spec:
        rx = M[marker]
        hits = list(re.finditer(rx, body))
        n = len(hits)
        bad = (count == "1" and n != 1) or (count == "+" and n < 1) or (count == "?" and n > 1)
        if bad:
            raise SkeletonError("%s: marker %s expected %s time(s), found %d (regex %s)" % (
                where, marker, {"1": "exactly 1", "+": "at least 1", "?": "at most 1"}[count], n, rx))
        for h in hits:
            found.append((h.start(), 0, marker))
            if rx.endswith(r"\{"):
                found.append((block_from(body, h.end() - 1), 1, end_name(marker)))
    for group in oneof:
        present = [g for g in group if any(f[2] == g for f in found)]
        if len(present) != 1:
            raise SkeletonError("%s: exactly one of %s expected, found %s" % (where, list(group), present))
    found.sort()
    return [f[2] for f in found]


def write_if_changed(path, text):
    try:
        if open(path).read() == text:
            return
    except FileNotFoundError:
        pass
    with open(path, "w") as f:
        f.write(text)


def main():
    srcs = {}
    vocab = []
    for name, rx in M.items():
        vocab.append(name)
        if rx.endswith(r"\{"):
            vocab.append(end_name(name))
    defs = []
    total = 0
    for lean, f, impl, fn, spec, oneof in FUNCS:
        if f not in srcs:
            with open(os.path.join(REPO, f)) as fh:
                srcs[f] = normalise(fh.read())
        where = "%s %s::%s" % (f, impl, fn)
        body = fn_body(srcs[f], impl, fn)
        markers = extract(body, spec, oneof, where)
        total += len(markers)
        lines, cur = [], "  ["
        for i, m in enumerate(markers):
            piece = "." + m + (", " if i + 1 < len(markers) else "")
            if len(cur) + len(piece) > 98:
                lines.append(cur.rstrip())
                cur = "   "
            cur += piece
        lines.append(cur + "]")
        defs.append("/-- %s: `%s::%s` -/\ndef %s : List Marker :=\n%s" % (f, impl, fn, lean, "\n".join(lines)))
    hdr = ("-- GENERATED by tools/skeleton.py from /repo/src/{db,log}.rs on every check run. Do not edit.\n"
           "-- Order of the protocol-carrying calls per function (fixed marker vocabulary, source order).\n"
           "namespace Pdb.Gen.Order\n\n")
    ind = "inductive Marker where\n" + "\n".join("  | " + v for v in vocab) + "\nderiving DecidableEq, Repr\n\n"
    os.makedirs(OUT, exist_ok=True)
    write_if_changed(os.path.join(OUT, "Order.lean"), hdr + ind + "\n\n".join(defs) + "\n\nend Pdb.Gen.Order\n")
    print("skeleton: %d functions, %d markers (vocabulary %d)" % (len(FUNCS), total, len(vocab)))


if __name__ == "__main__":
    try:
        main()
    except SkeletonError as e:
        print("skeleton: SKELETON-ERROR: %s" % e)
        sys.exit(2)
