#!/usr/bin/env python3
"""skeleton: regenerate Pdb/Gen/Order.lean from /repo/src/{db,log,options}.rs.

For a fixed set of functions it extracts, from the TOKEN STREAM of the function body
(tools/rustlex.py: comments dropped, string / char literals blanked, so `'}'`, `"{"`, `// {`
cannot disturb the brace matching) and a FIXED marker vocabulary, the ORDER and the SCOPES of
the calls that carry the concurrency / durability protocol.  Output per function:

  def <fn> : List Marker                              markers in source order
  def <fn>_conds : List (Marker × List (List String))  for every block marker the COMPLETE header
                                                      (`if C {`, `while C {`, `for P in E {`) in
                                                      canonical token form, split at the top-level
                                                      `||` and then `&&`: any change of any conjunct
                                                      changes the generated term
  def <fn>_ctx : List (List Marker × List String)     for EVERY marker that is not at the top level of the body:
                                                      the chain of ENCLOSING block headers (`if C`, `if C{}else`,
                                                      `while C`, `for P in E`, `loop`, `match E` + `PAT=>`, `|args|`
                                                      of a closure), outermost first, canonical token form, in source
                                                      order, consecutive markers with the same chain grouped.  A marker
                                                      put under a new `if`, taken out of one, or a loop range changed
                                                      (`self.columns.iter().skip(1)`) changes the generated term; plain
                                                      `{ }` blocks, `unsafe { }`, struct literals are transparent; a
                                                      brace that cannot be classified shows up as `?{`.
  def <fn>_stmts : List (Marker × String)             for the markers listed under `stmts` / `fields` of the function:
                                                      the COMPLETE statement (match arm / block tail expression) around
                                                      the marker, resp. the complete field initialiser after it
  def <fn>_wrapper : List String                      (functions given as a list of alternative names) see FUNCS
  def <fn>_otherCalls : List String                   (strict functions only, see below)

Kinds of markers
  plain    a regular expression on the canonical text of the body (token texts joined, one space
           only between two word-like tokens: `let mut x`, `&mut queue`, `bytes as i64`).
  block    (keyword, key regex[, body-prefix regex]): every `keyword HEADER {` whose canonical header
           matches the key (and whose block starts with the prefix).  Emits the marker at the keyword,
           `end<Marker>` at the closing brace of the block, and the header into `<fn>_conds`.
  guard    a plain marker listed in GUARDS (a `.lock()` / `.read()` / `.write()` expression).  Emits
           the marker where the lock is taken and the RELEASE marker where the guard is dropped:
             `let g = E.lock();`     end of the enclosing block, or the first place where `g` is
             `let mut g = ...`       moved out (`drop(g)`, `f(g, ..)`, `let h = g;`, `S { f: g }`, `return g`;
                                     arguments of macros are borrowed, not moved), whichever comes first
             `let _ = E.lock();`     at once (the guard is a temporary dropped at the `;`)
             `if let P = E.lock().x() {..} else {..}` / `while let` / `match` / `for`
                                     end of the whole statement (temporaries of a scrutinee live that long)
             `if C(E.lock()) {`      before the block is entered (end of the condition)
             anything else           end of the statement (`;`), or of the enclosing block
           Whatever is not understood errs on the side of the EARLIEST release (`let (g, n) = (E.lock(), 0);`
           counts as a temporary), so `Ord.held` is never claimed for a lock that is not held; a `let`
           pattern that is neither `_` nor an identifier is an error.
  strict   functions with `strict_until = <marker>`: every call or macro invocation before the first
           occurrence of that marker which is neither covered by a matched marker nor whitelisted as
           free of side effects on the database directory yields an `otherCall` marker (and its
           callee text in `<fn>_otherCalls`).

Count classes per (function, marker):  "1" exactly once, "+" at least once, "?" at most once,
"*" any.  `ONE_OF` groups: exactly one marker of the group must be present.  Anything else
(missing function, duplicate function, count violated, lexer error, unbalanced braces, a guard
bound in a shape this tool does not know) is a hard error: message + exit 2; the check driver
treats that as a broken obligation.  The output file is only ever written completely.

`skeleton.py --pins [<lean name> ..]` prints, instead of writing the output file, the theorems `ctx_<fn>` /
`stmts_<fn>` that pin `<fn>_ctx` / `<fn>_stmts` of the CURRENT source (section "enclosing control flow" of
Pdb/Proofs/Order.lean), for review after an intended change of the Rust.

Reach: the call / lock / condition skeleton of the listed functions of src/db.rs, src/log.rs, src/options.rs.
Not covered: the logic inside callees (src/column.rs, src/table.rs ..), what is done with the result of a pinned
call unless its statement is listed under `stmts`, early exits (`?`, `return`, `break`: the skeleton is linear),
name resolution (markers match callee TEXT).  The extraction is syntactic and shallow by design: it is one of
three ties for the ordering properties (with the correspondence runs and the oracle runs), not the only one.
"""
import re, sys, os, bisect

sys.path.insert(0, os.path.dirname(os.path.abspath(__file__)))
import rustlex  # noqa: E402

REPO = os.environ.get("PDB_REPO", "/repo")
OUT = os.path.join(os.path.dirname(os.path.abspath(__file__)), "..", "lean", "Pdb", "Gen")


class SkeletonError(Exception):
    pass


# ---------------------------------------------------------------------------- token level

class Body:
    """tokens of one function body (outer braces excluded) with canonical text and bracket matching"""

    def __init__(self, toks, where):
        self.toks, self.where = toks, where
        self.text, self.offs = rustlex.canon(toks)
        self.match = {}
        stack, pair = [], {")": "(", "]": "[", "}": "{"}
        for i, (kind, text, _) in enumerate(toks):
            if kind != "op":
                continue
            if text in "([{":
                stack.append(i)
            elif text in ")]}":
                if not stack or toks[stack[-1]][1] != pair[text]:
                    raise SkeletonError("%s: unbalanced `%s`" % (where, text))
                j = stack.pop()
                self.match[i], self.match[j] = j, i
        if stack:
            raise SkeletonError("%s: unclosed `%s`" % (where, toks[stack[-1]][1]))
        self.build_scopes()

    def tok_at(self, off):
        """index of the token that contains canonical offset `off`"""
        i = bisect.bisect_right(self.offs, off) - 1
        return max(i, 0)

    def t(self, i):
        return self.toks[i][1] if 0 <= i < len(self.toks) else ""

    def is_op(self, i, text):
        return 0 <= i < len(self.toks) and self.toks[i][0] == "op" and self.toks[i][1] == text

    def canon(self, a, b):
        return rustlex.canon(self.toks[a:b])[0]

    def enclosing_close(self, i):
        """token index of the `}` closing the innermost block that contains token i (len = body end)"""
        depth = 0
        for j in range(i, len(self.toks)):
            if self.toks[j][0] != "op":
                continue
            x = self.toks[j][1]
            if x == "{":
                depth += 1
            elif x == "}":
                if depth == 0:
                    return j
                depth -= 1
        return len(self.toks)

    def in_macro(self, i):
        """token i is a direct argument of a macro invocation `name!( .. )` (format arguments are borrowed)"""
        depth = 0
        for j in range(i - 1, -1, -1):
            if self.toks[j][0] != "op":
                continue
            x = self.toks[j][1]
            if x in (")", "]", "}"):
                depth += 1
            elif x in ("(", "[", "{"):
                if depth == 0:
                    return self.is_op(j - 1, "!")
                depth -= 1
        return False

    def stmt_start(self, i):
        """index of the first token of the statement (or match arm / block tail) containing token i"""
        j = i - 1
        while j >= 0:
            kind, x, _ = self.toks[j]
            if kind == "op":
                if x in (")", "]"):
                    j = self.match[j] - 1
                    continue
                if x in (";", "{", "}", "=>"):
                    return j + 1
            j -= 1
        return 0

    def header_end(self, kw):
        """for a keyword token `if` / `while` / `for` / `match`: index of the `{` opening its block, or None
        (match guard `if c =>`, or no block)"""
        j = kw + 1
        while j < len(self.toks):
            kind, x, _ = self.toks[j]
            if kind == "op":
                if x in ("(", "["):
                    j = self.match[j] + 1
                    continue
                if x == "{":
                    return j
                if x in (";", "=>", "}", ")", "]"):
                    return None
            j += 1
        return None

    def chain_end(self, open_brace):
        """index of the `}` that ends an if / else-if / else chain whose first block opens at open_brace"""
        close = self.match[open_brace]
        while self.t(close + 1) == "else":
            if self.t(close + 2) == "if":
                ob = self.header_end(close + 2)
                if ob is None:
                    raise SkeletonError("%s: `else if` without a block" % self.where)
            elif self.is_op(close + 2, "{"):
                ob = close + 2
            else:
                raise SkeletonError("%s: `else` without a block" % self.where)
            close = self.match[ob]
        return close

    def stmt_end(self, i, arm):
        """index of the token ending the statement that contains token i: the `;` (or, in a match arm, the
        `,`) at nesting depth 0, else the `}` of the enclosing block"""
        j = i
        while j < len(self.toks):
            kind, x, _ = self.toks[j]
            if kind == "op":
                if x in ("(", "[", "{"):
                    j = self.match[j] + 1
                    continue
                if x == ";" or (arm and x == ","):
                    return j
                if x in ("}", ")", "]"):
                    return j
            j += 1
        return len(self.toks)


    # ------------------------------------------------------------------ enclosing block headers
    def prefix_pos(self, k):
        """token k stands where an expression starts (so a `|` / `||` there opens a closure)"""
        if k == 0:
            return True
        kind, x, _ = self.toks[k - 1]
        if kind == "op":
            return x not in (")", "]", "}", "?")
        return kind == "id" and x in KEYWORDS

    def expr_end(self, j, arm_comma=True):
        """first token at or after j (brackets skipped) that ends an expression: `,` `;` or an unmatched closer"""
        while j < len(self.toks):
            kind, x, _ = self.toks[j]
            if kind == "op":
                if x in ("(", "[", "{"):
                    j = self.match[j] + 1
                    continue
                if x in (";", ")", "]", "}") or (arm_comma and x == ","):
                    return j
            j += 1
        return len(self.toks)

    def build_scopes(self):
        """self.scopes = [(first token, last token, header)]: the regions of the body whose execution depends on a
        block header, in canonical token form:
          `if C`            the then-block                 `if C{}else`   the else part (an `else if` chain nests:
          `while C` / `for P in E` / `loop`                                 `else if D {..}` = `else { if D {..} }`)
          `match E`         the whole match body           `PAT=>`        one arm (guard included)
          `|args|`          a closure body                 `else`         the diverging block of a `let .. else`
          `?{`              a brace this tool cannot classify (never silently transparent)
        Plain blocks `{ .. }`, `unsafe { .. }`, struct literals and macro bodies are transparent."""
        toks, n = self.toks, len(self.toks)
        sc, control, closers = [], set(), set()      # closers: the `|` that END a closure parameter list

        def add(a, b, h):
            if a <= b:
                sc.append((a, b, h))

        for k in range(n):
            kind, x, _ = toks[k]
            if kind == "id" and x in ("if", "while", "for", "match") and not self.is_op(k - 1, "."):
                ob = self.header_end(k)
                if ob is None or ob == k + 1:
                    continue                                         # match guard `PAT if c =>` / no block
                control.add(ob)
                close = self.match[ob]
                head = self.canon(k, ob)
                add(ob + 1, close - 1, head)
                if x == "if" and self.t(close + 1) == "else":
                    if self.t(close + 2) == "if":
                        add(close + 2, self.chain_end(ob), head + "{}else")
                    elif self.is_op(close + 2, "{"):
                        control.add(close + 2)
                        add(close + 3, self.match[close + 2] - 1, head + "{}else")
                    else:
                        raise SkeletonError("%s: `else` without a block" % self.where)
                if x == "match":
                    p = ob + 1
                    while p < close:
                        while self.is_op(p, "#") and self.is_op(p + 1, "["):
                            p = self.match[p + 1] + 1
                        j = p
                        while j < close and not self.is_op(j, "=>"):
                            j = self.match[j] + 1 if (toks[j][0] == "op" and toks[j][1] in ("(", "[", "{")) else j + 1
                        if j >= close:
                            if p < close:
                                raise SkeletonError("%s: cannot parse the arms of `%s`" % (self.where, head))
                            break
                        pat = self.canon(p, j + 1)
                        if self.is_op(j + 1, "{"):
                            control.add(j + 1)
                            e = self.match[j + 1]
                            add(j + 2, e - 1, pat)
                            p = e + 1
                            if self.is_op(p, ","):
                                p += 1
                        else:
                            e = self.expr_end(j + 1)
                            add(j + 1, e - 1, pat)
                            p = e + 1 if e < close else close
            elif kind == "id" and x == "loop" and self.is_op(k + 1, "{"):
                control.add(k + 1)
                add(k + 2, self.match[k + 1] - 1, "loop")
            elif kind == "op" and x in ("|", "||") and k not in closers and self.prefix_pos(k):
                if x == "||":
                    body = k + 1
                else:
                    j = k + 1
                    while j < n and not self.is_op(j, "|"):
                        j = self.match[j] + 1 if (toks[j][0] == "op" and toks[j][1] in ("(", "[", "{")) else j + 1
                    if j >= n:
                        raise SkeletonError("%s: unterminated closure parameter list" % self.where)
                    closers.add(j)
                    body = j + 1
                head = self.canon(k, body)
                if self.is_op(body, "->"):
                    while body < n and not self.is_op(body, "{"):
                        body += 1
                if self.is_op(body, "{"):
                    control.add(body)
                    add(body + 1, self.match[body] - 1, head)
                else:
                    add(body, self.expr_end(body) - 1, head)
        for i in range(n):
            if not self.is_op(i, "{") or i in control:
                continue
            kind, x, _ = toks[i - 1] if i > 0 else ("op", ";", 0)
            if kind == "op" and x in (";", "{", "}", "=", "(", ",", "!", ">", ":", "=>", "[", "&&", "||", "return"):
                continue                                             # plain block / macro body / struct literal
            if kind == "id" and x == "else":
                add(i + 1, self.match[i] - 1, "else")               # `let P = E else { .. }`
                continue
            if kind == "id" and (x not in KEYWORDS or x in ("unsafe", "async", "move", "return", "in")):
                continue                                             # struct literal `Path { .. }`, `unsafe { .. }`
            add(i + 1, self.match[i] - 1, "?{")
        sc.sort(key=lambda s: (s[0], -s[1]))
        self.scopes = sc

    def chain(self, i):
        """headers of the blocks that enclose token i, outermost first"""
        return [h for a, b, h in self.scopes if a <= i <= b]

    def stmt_span(self, i):
        """(first, end) token indices of the statement (match arm / block tail expression) that contains token i"""
        st = self.stmt_start(i)
        arm = st > 0 and self.is_op(st - 1, "=>")
        while self.is_op(st, "#") and self.is_op(st + 1, "["):
            st = self.match[st + 1] + 1
        return st, self.expr_end(st, arm_comma=arm)


def split_header(body, a, b):
    """canonical header tokens[a:b] split at top-level `||`, each part at top-level `&&`"""
    first = body.t(a)
    if first in ("let", "for") or body.toks[a - 1][1] == "for":
        return [[body.canon(a, b)]]
    out, cur, part, depth = [], [], a, 0
    j = a
    while j < b:
        kind, x, _ = body.toks[j]
        if kind == "op":
            if x in ("(", "[", "{"):
                j = body.match[j] + 1
                continue
            if x in ("&&", "||"):
                cur.append(body.canon(part, j))
                part = j + 1
                if x == "||":
                    out.append(cur)
                    cur = []
        j += 1
    cur.append(body.canon(part, b))
    out.append(cur)
    return out


def fn_body(toks, src_name, impl, name, optional=False):
    """tokens of the body of the unique `fn name` directly inside an `impl <impl>` block (None if `optional`
    and there is no such fn)"""
    n = len(toks)
    match, stack = {}, []
    for i, (kind, text, _) in enumerate(toks):
        if kind == "op" and text in "([{":
            stack.append(i)
        elif kind == "op" and text in ")]}":
            j = stack.pop()
            match[j] = i
    found = []
    i = 0
    while i < n:
        if toks[i][0] == "id" and toks[i][1] == "impl":
            j = i + 1
            if toks[j][1] == "<":                       # impl<generics>
                depth = 0
                while True:
                    if toks[j][1] == "<":
                        depth += 1
                    elif toks[j][1] == ">":
                        depth -= 1
                        if depth == 0:
                            break
                    elif toks[j][1] == ">>":
                        depth -= 2
                        if depth <= 0:
                            break
                    j += 1
                j += 1
            k = j
            while not (toks[k][0] == "op" and toks[k][1] in ("{", ";")):
                k += 1
            header = [t[1] for t in toks[j:k]]
            if toks[k][1] == "{" and header and header[0] == impl and "for" not in header:
                close = match[k]
                p = k + 1
                while p < close:                         # items at depth 1 of the impl block
                    kind, text, _ = toks[p]
                    if kind == "op" and text in "([{":
                        p = match[p] + 1
                        continue
                    if kind == "id" and text == "fn" and toks[p + 1][1] == name:
                        q = p + 2
                        while not (toks[q][0] == "op" and toks[q][1] == "("):
                            q += 1
                        q = match[q] + 1
                        while not (toks[q][0] == "op" and toks[q][1] in ("{", ";")):
                            q += 1
                        if toks[q][1] == "{":
                            found.append(toks[q + 1:match[q]])
                            p = match[q] + 1
                            continue
                    p += 1
                i = close + 1
                continue
        i += 1
    if optional and not found:
        return None
    if len(found) != 1:
        raise SkeletonError("%s: fn %s::%s expected exactly once, found %d time(s)" % (src_name, impl, name, len(found)))
    return found[0]


# ---------------------------------------------------------------------------- vocabulary

SELF = r"\b(?:self|db)"
LOAD = r"\.shutdown\.load\([^()]*\)"

# marker -> regex on the canonical text (plain) | (keyword, key regex on the header[, regex on the block start])
M = {
    # WaitCondvar
    "lockWork": r"self\.work\.lock\(\)",
    "setWork": r"\*work=true",
    "notifyOne": r"self\.cv\.notify_one\(\)",
    "whileNotWork": ("while", r"^!\*work$"),
    "cvWait": r"self\.cv\.wait\(&mut work\)",
    "clearWork": r"\*work=false",
    # DbInner::open
    "createDirAll": r"create_dir_all\(",
    "isDirCheck": r"\.is_dir\(\)",
    "metadataExists": r"\.join\(\"\"\)\.exists\(\)",      # existence probe only (string literals are blanked)
    "createLockFile": r"OpenOptions::new\(\)\.create\(true\)[^;]*?\.open\(lock_path\.as_path\(\)\)",
    "tryLock": r"\.try_lock_exclusive\(\)",
    "returnLocked": r"\.map_err\(Error::Locked\)\?",
    "loadMetadata": r"\.load_and_validate_metadata\(",
    "logOpen": r"Log::open\(",
    "columnOpen": r"Column::open\(",
    # commit queue
    "lockQueue": SELF + r"\.commit_queue\.lock\(\)",
    "ifQueueFull": ("if", r"queue\.bytes>MAX_COMMIT_QUEUE_BYTES"),
    "whileQueueFull": ("while", r"queue\.bytes>MAX_COMMIT_QUEUE_BYTES"),
    "waitQueueFull": r"self\.commit_queue_full_cv\.wait\(&mut queue\)",
    "checkBgErr": r"self\.bg_err\.lock\(\)",
    "lockOverlayWrite": r"self\.commit_overlay\.write\(\)",
    "copyToOverlay": r"\.copy_to_overlay\(",
    "pushQueue": r"queue\.commits\.push_back\(commit\)",
    "addQueueBytes": r"queue\.bytes\+=",
    "signalLogWorker": SELF + r"\.log_worker_wait\.signal\(\)",
    # process_commits
    "ifMightWait": ("if", r"^might_wait_because_the_queue_is_full$"),
    "lockLogQueue": SELF + r"\.log_queue_wait\.work\.lock\(\)",
    "ifLogQueueFull": ("if", r"\*queue>MAX_LOG_QUEUE_BYTES"),
    "whileLogQueueFull": ("while", r"\*queue>MAX_LOG_QUEUE_BYTES"),
    "waitLogQueue": r"self\.log_queue_wait\.cv\.wait\(&mut queue\)",
    "popQueue": r"queue\.commits\.pop_front\(\)",
    "subQueueBytes": r"queue\.bytes-=",
    "ifCommitWake": ("if", r"queue\.bytes<=MAX_COMMIT_QUEUE_BYTES"),
    "notifyAllQueueFull": r"self\.commit_queue_full_cv\.notify_all\(\)",
    "tryWriteTree": r"tree\.try_write\(\)",
    "releaseTreeLocks": r"drop\(tree_locks\)",
    "deferCommit": r"self\.defer_commit\(",
    "beginRecord": r"self\.log\.begin_record\(\)",
    "writePlan": r"\.write_plan\(",
    "completePlan": r"\.complete_plan\(",
    "endRecord": r"self\.log\.end_record\(",
    "addLoggedBytes": r"\*logged_bytes\+=",
    "signalFlushWorker": SELF + r"\.flush_worker_wait\.signal\(\)",
    "cleanOverlay": r"\.clean_overlay\(",
    "startReindex": r"self\.start_reindex\(",
    # enact_logs
    "lockIteration": r"self\.iteration_lock\.lock\(\)",
    "readNext": r"self\.log\.read_next\(",
    "clearReplayLogs": r"\.log\.clear_replay_logs\(\)",
    "validatePlan": r"\.validate_plan\(",
    "enactPlan": r"\.enact_plan\(",
    "dropIndex": r"\.drop_index\(",
    "storeLastEnacted": r"self\.last_enacted\.store\(",
    "endRead": r"self\.log\.end_read\(",
    "subLoggedBytes": r"\*queue-=",
    "ifLogWake": ("if", r"\*queue<=MAX_LOG_QUEUE_BYTES"),
    "notifyLogQueue": r"self\.log_queue_wait\.cv\.notify_(?:one|all)\(\)",
    "whileDirtyOverMax": ("while", r"self\.log\.num_dirty_logs\(\)>max_logs"),
    "checkShutdown": SELF + LOAD,
    "waitCleanupQueue": r"self\.cleanup_queue_wait\.wait\(\)",
    # flush / clean / kill
    "flushOne": r"self\.log\.flush_one\(",
    "signalCommitWorker": SELF + r"\.commit_worker_wait\.signal\(\)",
    "numDirtyLogs": r"self\.log\.num_dirty_logs\(\)",
    "ifOverKeep": ("if", r"^num_cleanup>keep_logs$"),
    "ifSyncData": ("if", r"^self\.options\.sync_data$", r"^for\b"),
    "flushColumn": r"\bc\.flush\(\)\?",
    "callLogCleanLogs": r"self\.log\.clean_logs\(",
    "signalCleanupQueue": SELF + r"\.cleanup_queue_wait\.signal\(\)",
    "ifBgErrStored": ("if", r"^let Some\(\w+\)=self\.bg_err\.lock\(\)\.as_ref\(\)$"),
    "returnOk": r"return Ok\(\(\)\)",
    "returnOkTrue": r"return Ok\(true\)",
    "loopEnactLogs": r"while " + SELF + r"\.enact_logs\(false\)\?\{\}",
    "callEnactLogs": r"(?<!while )" + SELF + r"\.enact_logs\(false\)",
    "callFlushLogs": SELF + r"\.flush_logs\(",
    "loopProcessCommits": r"while " + SELF + r"\.process_commits\(db\)\?\{\}",
    "callProcessCommits": r"(?<!while )" + SELF + r"\.process_commits\(",
    "callProcessReindex": SELF + r"\.process_reindex\(\)",
    "callCleanLogs": SELF + r"\.clean_logs\(\)",
    "callCleanAllLogs": r"\.clean_all_logs\(\)",
    "callLogKillLogs": r"\.log\.kill_logs\(\)",
    # shutdown / store_err
    "storeShutdown": r"self\.shutdown\.store\(true",
    "signalCleanupWorker": SELF + r"\.cleanup_worker_wait\.signal\(\)",
    "ifErrNone": ("if", r"^err\.is_none\(\)$"),
    "setBgErr": r"\*err=Some\(",
    "callShutdown": r"self(?:\.inner)?\.shutdown\(\)",
    # open_inner / drop_inner
    "dbInnerOpen": r"DbInner::open\(",
    "replayAllLogs": r"\.replay_all_logs\(\)",
    "initTableData": r"\.init_table_data\(\)",
    # the worker's result goes to `store_err` of the same handle (a worker not wrapped like this dies silently)
    "spawnCommitWorker": r"\b(\w+)\.store_err\(Self::commit_worker\(\1\.clone\(\)\)\)",
    "spawnFlushWorker": r"\b(\w+)\.store_err\(Self::flush_worker\(\1\.clone\(\),min_log_size\)\)",
    "spawnLogWorker": r"\b(\w+)\.store_err\(Self::log_worker\(\1\.clone\(\)\)\)",
    "spawnCleanupWorker": r"\b(\w+)\.store_err\(Self::cleanup_worker\(\1\.clone\(\)\)\)",
    "threadSpawn": r"\bthread::spawn\(move\|\|",
    "joinLog": r"self\.log_thread\.take\(\)\{(?:if let Err\(\w+\)=|let _=)?t\.join\(\)",
    "joinFlush": r"self\.flush_thread\.take\(\)\{(?:if let Err\(\w+\)=|let _=)?t\.join\(\)",
    "joinCommit": r"self\.commit_thread\.take\(\)\{(?:if let Err\(\w+\)=|let _=)?t\.join\(\)",
    "joinCleanup": r"self\.cleanup_thread\.take\(\)\{(?:if let Err\(\w+\)=|let _=)?t\.join\(\)",
    "callKillLogs": r"self\.inner\.kill_logs\(",
    "unlockFile": r"\block_file\.unlock\(\)",
    "anyUnlock": r"\.unlock\(\)",
    # the lock file is moved into the returned handle: a field of the struct literal (shorthand or `lock_file: lock_file`)
    "returnHandle": r"Ok\(DbInner\{(?:[^{}]|\{[^{}]*\})*?[,{]lock_file(?::lock_file)?(?=[,}])",
    # worker loops
    "whileRunning": ("while", r"db" + LOAD),
    "ifIdle": ("if", r"^!more_\w+"),
    "ifNoLogFiles": ("if", r"db\.log\.has_log_files_to_read\(\)"),
    "hasLogFilesToRead": r"db\.log\.has_log_files_to_read\(\)",
    "waitCommitWorker": r"db\.commit_worker_wait\.wait\(\)",
    "waitLogWorker": r"db\.log_worker_wait\.wait\(\)",
    "waitFlushWorker": r"db\.flush_worker_wait\.wait\(\)",
    "waitCleanupWorker": r"db\.cleanup_worker_wait\.wait\(\)",
    # reads (C05)
    "lockOverlayRead": r"self\.commit_overlay\.read\(\)",
    "overlayLookup": r"overlay\.get\(col as usize\)\.and_then\(",
    "logOverlays": r"self\.log\.overlays\(\)",
    # btree point reads: the read guard of the LOG overlays is taken once and held across the whole tree walk
    # (seeded change C05-c05e handed the bare RwLock to BTreeTable::get, which then locks per fetch)
    "lockLogOverlayRead": r"self\.log\.overlays\(\)\.read\(\)",
    "columnLookup": r"column\.(?:get|get_size|get_value|with_locked)\(",
    # commit_changes (C08)
    "collectTx": r"tx\.into_iter\(\)\.collect\(\)",
    "forValidate": ("for", r"\bin tx\.iter\(\)$"),
    "validateChange": r"self\.validate_change\(\*?col,&?change\)\?",
    "ifBgErrSet": ("if", r"^let Some\(\w+\)=&\*bg_err$"),
    "returnBackground": r"return Err\(Error::Background\(",
    "forApply": ("for", r"\bin tx(?:\.into_iter\(\))?$"),
    "claimTreeValues": r"\.claim_tree_values\(",
    "lockTreesRead": r"self\.trees\.read\(\)",
    "lockTreesWrite": r"self\.trees\.write\(\)",
    "bumpToDereference": r"\.to_dereference\.insert\(",
    "pushChange": r"\.push\((?:change|root_operation),",
    "pushNodeChange": r"\.push_node_change\(",
    "callCommitRaw": r"self\.commit_raw(?:_checked)?\(commit(?:,(?:true|false))?\)",
    # Options::load_and_validate_metadata (C17)
    "loadMetadataFile": r"Self::load_metadata\(&self\.path\)\?",
    "ifColumnCountDiffers": ("if", r"^meta\.columns\.len\(\)!=self\.columns\.len\(\)$"),
    "forEachColumn": ("for", r"meta\.columns\.len\(\)$"),
    "ifColumnDiffers": ("if", r"^meta\.columns\[c\]!=self\.columns\[c\]$"),
    "returnIncompatible": r"return Err\(Error::IncompatibleColumnConfig\{",
    "writeMetadata": r"self\.write_metadata\(",
    # Log
    "takeAppending": r"self\.appending\.write\(\)\.take\(\)",
    "ifSync": ("if", r"^self\.sync$"),
    "syncData": r"\.sync_data\(\)",
    "pushReadQueue": r"self\.read_queue\.write\(\)\.push_back\(",
    "lockCleanupQueue": r"self\.cleanup_queue\.write\(\)",
    "countPending": r"\blet count=",
    "drainCleanupQueue": r"queue\.drain\(",
    "whilePending": ("while", r"^let Some\(\(id,mut file\)\)=pending\.pop_front\(\)$"),
    "truncateLog": r"file\.set_len\(0\)",
    "syncAll": r"file\.sync_all\(\)",
    "pushCleaned": r"cleaned\.push\(\(id,file\)\)",
    "requeueFailed": r"pending\.push_front\(\(id,file\)\)",
    "breakLoop": r"\bbreak\b",
    "ifPendingLeft": ("if", r"^!pending\.is_empty\(\)$"),
    "whileRequeue": ("while", r"^let Some\(entry\)=pending\.pop_back\(\)$"),
    "requeueFront": r"queue\.push_front\(entry\)",
    "lockLogPool": r"self\.log_pool\.write\(\)",
    "extendPool": r"pool\.extend\(cleaned\)",
    "dropLog": r"self\.drop_log\(",
    "propagateResult": r"\bresult\?",
    "lockAppending": r"self\.appending\.write\(\)",
    "flushToFile": r"\.flush_to_file\(",
    "retireAppending": r"appending\.take\(\)",
    "returnErr": r"return Err\(e\)",
    "lockOverlays": r"self\.overlays\.write\(\)",
    "extendOverlay": r"\.map\.extend\(",
    "setDirty": r"self\.dirty\.store\(true",
    "removeOverlayEntry": r"e\.remove_entry\(\)",
    "initSync": r"\bsync:(?!:)",
    # IndexedChangeSet::write_plan (C10, fix of finding F41: three passes)
    "collectDereferenced": r"NodeChange::DereferenceChildren\(_,\s*hash,\s*_\)=>Some\(hash\)",
    "postponedSetDereferenced": r"Operation::Set\(k,\s*_\)=>dereferenced\.contains\(k\)",
    "forEarlyChanges": ("for", r"^change in self\.changes\.iter\(\)\.filter\(\|change\|!postponed\(change\)\)$"),
    "forNodeChanges": ("for", r"^change in self\.node_changes\.iter\(\)$"),
    "forLateChanges": ("for", r"^change in self\.changes\.iter\(\)\.filter\(\|change\|postponed\(change\)\)$"),
    "planRootChange": r"column\.write_plan\(change,\s*writer\)",
    "planRootDereference": r"column\.write_plan\(&Operation::Dereference\(",
    "walkChildren": r"self\.write_dereference_children_plan\(",
    # strict functions
    "otherCall": None,
}

# guard marker -> release marker
GUARDS = {
    "lockWork": "unlockWork", "lockQueue": "unlockQueue", "checkBgErr": "releaseBgErr",
    "lockOverlayWrite": "unlockOverlayWrite", "lockOverlayRead": "unlockOverlayRead",
    "lockLogQueue": "unlockLogQueue", "lockIteration": "unlockIteration",
    "lockTreesRead": "unlockTreesRead", "lockTreesWrite": "unlockTreesWrite",
    "lockCleanupQueue": "unlockCleanupQueue", "lockLogPool": "unlockLogPool",
    "lockAppending": "unlockAppending", "lockOverlays": "unlockOverlays",
    "lockLogOverlayRead": "unlockLogOverlayRead",
}

# callees that do not touch the database directory (strict functions)
FREE_CALLS = {
    "try_io!", "assert!", "Err", "Ok", "Some", "log::debug!", "log::trace!", "log::info!", "log::warn!",
    "options.path.clone", "options.path.join", "lock_path.push", "lock_path.as_path", "options.is_valid",
}

KEYWORDS = {"if", "while", "for", "match", "return", "loop", "in", "let", "else", "move", "as", "break", "continue",
            "fn", "impl", "mut", "ref", "where", "unsafe", "async", "await", "dyn", "pub", "use", "mod", "struct",
            "enum", "trait", "type", "const", "static", "crate", "super"}

# (lean name, file, impl, fn, [(marker, count)], [one-of groups], options)
FUNCS = [
    ("signal", "src/db.rs", "WaitCondvar", "signal",
     [("lockWork", "1"), ("setWork", "1"), ("notifyOne", "1")], [], {}),
    ("wait", "src/db.rs", "WaitCondvar", "wait",
     [("lockWork", "1"), ("whileNotWork", "1"), ("cvWait", "1"), ("clearWork", "1")], [], {}),
    ("dbOpen", "src/db.rs", "DbInner", "open",
     [("createDirAll", "1"), ("isDirCheck", "1"), ("metadataExists", "?"), ("createLockFile", "1"), ("tryLock", "1"),
      ("returnLocked", "1"), ("loadMetadata", "1"), ("logOpen", "1"), ("columnOpen", "1"), ("unlockFile", "*"),
      ("anyUnlock", "*"), ("returnHandle", "1")], [],
     {"strict_until": "tryLock"}),
    ("dbGet", "src/db.rs", "DbInner", "get",
     [("lockOverlayRead", "+"), ("overlayLookup", "+"), ("lockLogOverlayRead", "*"), ("logOverlays", "*"),
      ("columnLookup", "+")], [], {}),
    ("dbGetSize", "src/db.rs", "DbInner", "get_size",
     [("lockOverlayRead", "+"), ("overlayLookup", "+"), ("lockLogOverlayRead", "*"), ("logOverlays", "*"),
      ("columnLookup", "+")], [], {}),
    ("dbGetNode", "src/db.rs", "DbInner", "get_node",
     [("lockOverlayRead", "+"), ("overlayLookup", "+"), ("logOverlays", "*"), ("columnLookup", "+")], [], {}),
    ("dbGetNodeChildren", "src/db.rs", "DbInner", "get_node_children",
     [("lockOverlayRead", "+"), ("overlayLookup", "+"), ("logOverlays", "*"), ("columnLookup", "+")], [], {}),
    ("commitChanges", "src/db.rs", "DbInner", "commit_changes",
     [("collectTx", "?"), ("forValidate", "*"), ("validateChange", "*"), ("checkBgErr", "*"), ("ifBgErrSet", "*"),
      ("returnBackground", "*"), ("forApply", "1"), ("claimTreeValues", "+"), ("lockTreesRead", "*"),
      ("lockTreesWrite", "+"), ("bumpToDereference", "+"), ("pushChange", "+"), ("pushNodeChange", "+"),
      ("callCommitRaw", "1")], [], {"stmts": ["callCommitRaw"]}),
    ("writePlanCs", "src/db.rs", "IndexedChangeSet", "write_plan",
     [("collectDereferenced", "1"), ("postponedSetDereferenced", "1"), ("forEarlyChanges", "1"), ("forNodeChanges", "1"), ("forLateChanges", "1"),
      ("planRootChange", "+"), ("planRootDereference", "1"), ("walkChildren", "1")], [], {}),
    # fix-c08-no-refusal-after-claim moves the body to `commit_raw_checked(commit, check_bg_err)` and leaves
    # `commit_raw` as a one-line wrapper: the body is taken from the first of the two that exists, the wrapper
    # (if any) is emitted as `commitRaw_wrapper`
    ("commitRaw", "src/db.rs", "DbInner", ["commit_raw_checked", "commit_raw"],
     [("lockQueue", "1"), ("ifQueueFull", "?"), ("whileQueueFull", "?"), ("waitQueueFull", "1"),
      ("checkBgErr", "+"), ("ifBgErrSet", "*"), ("returnBackground", "*"), ("lockOverlayWrite", "1"),
      ("copyToOverlay", "+"), ("pushQueue", "1"), ("addQueueBytes", "1"), ("signalLogWorker", "1")],
     [("ifQueueFull", "whileQueueFull")], {"stmts": ["addQueueBytes"], "wrapper_of": "commit_raw"}),
    ("processCommits", "src/db.rs", "DbInner", "process_commits",
     [("ifMightWait", "?"), ("lockLogQueue", "+"), ("ifLogQueueFull", "?"), ("whileLogQueueFull", "?"),
      ("waitLogQueue", "1"),
      ("lockQueue", "+"), ("popQueue", "1"), ("subQueueBytes", "1"), ("ifCommitWake", "?"),
      ("notifyAllQueueFull", "1"), ("tryWriteTree", "1"), ("deferCommit", "1"),
      ("beginRecord", "1"), ("writePlan", "+"), ("completePlan", "1"), ("endRecord", "1"),
      ("addLoggedBytes", "1"), ("signalFlushWorker", "1"), ("releaseTreeLocks", "1"), ("lockOverlayWrite", "1"),
      ("cleanOverlay", "+"), ("startReindex", "1")], [("ifLogQueueFull", "whileLogQueueFull")],
     {"stmts": ["subQueueBytes", "addLoggedBytes"]}),
    ("processReindex", "src/db.rs", "DbInner", "process_reindex",
     [("beginRecord", "+"), ("lockLogQueue", "+"), ("endRecord", "+"), ("addLoggedBytes", "+"), ("startReindex", "*"),
      ("signalFlushWorker", "+"), ("returnOkTrue", "*")], [], {"stmts": ["addLoggedBytes"]}),
    ("enactLogs", "src/db.rs", "DbInner", "enact_logs",
     [("lockIteration", "1"), ("readNext", "1"), ("clearReplayLogs", "*"), ("validatePlan", "*"),
      ("enactPlan", "+"), ("dropIndex", "1"), ("storeLastEnacted", "1"), ("endRead", "1"),
      ("lockLogQueue", "1"), ("subLoggedBytes", "1"), ("ifLogWake", "?"), ("notifyLogQueue", "1"),
      ("whileDirtyOverMax", "1"), ("checkShutdown", "?"), ("waitCleanupQueue", "1")], [],
     {"stmts": ["subLoggedBytes"]}),
    ("flushLogs", "src/db.rs", "DbInner", "flush_logs",
     [("flushOne", "1"), ("signalCommitWorker", "1")], [], {}),
    ("cleanLogs", "src/db.rs", "DbInner", "clean_logs",
     [("numDirtyLogs", "+"), ("ifOverKeep", "?"), ("ifSyncData", "?"), ("flushColumn", "+"), ("callLogCleanLogs", "1"),
      ("signalCleanupQueue", "1")], [], {"stmts": ["callLogCleanLogs"]}),
    ("cleanAllLogs", "src/db.rs", "DbInner", "clean_all_logs",
     [("flushColumn", "1"), ("numDirtyLogs", "1"), ("callLogCleanLogs", "1")], [],
     {"stmts": ["numDirtyLogs", "callLogCleanLogs"]}),
    ("killLogs", "src/db.rs", "DbInner", "kill_logs",
     [("ifBgErrStored", "?"), ("checkBgErr", "1"), ("ifSyncData", "*"), ("flushColumn", "*"), ("numDirtyLogs", "*"),
      ("callLogCleanLogs", "1"), ("returnOk", "*"), ("loopEnactLogs", "*"), ("callEnactLogs", "*"),
      ("callFlushLogs", "+"), ("loopProcessCommits", "*"), ("callProcessCommits", "*"), ("callCleanAllLogs", "1"),
      ("callLogKillLogs", "1")], [], {"stmts": ["callLogCleanLogs"]}),
    ("shutdown", "src/db.rs", "DbInner", "shutdown",
     [("storeShutdown", "1"), ("lockLogQueue", "?"), ("notifyLogQueue", "1"), ("signalFlushWorker", "1"),
      ("signalLogWorker", "1"), ("signalCommitWorker", "1"), ("signalCleanupWorker", "1"),
      ("signalCleanupQueue", "?")], [], {}),
    ("storeErr", "src/db.rs", "DbInner", "store_err",
     [("checkBgErr", "1"), ("ifErrNone", "?"), ("setBgErr", "1"), ("callShutdown", "1"), ("lockQueue", "?"),
      ("notifyAllQueueFull", "1")], [], {}),
    ("openInner", "src/db.rs", "Db", "open_inner",
     [("dbInnerOpen", "1"), ("replayAllLogs", "1"), ("clearReplayLogs", "1"), ("callCleanAllLogs", "1"),
      ("callLogKillLogs", "1"), ("initTableData", "1"), ("threadSpawn", "*"), ("spawnCommitWorker", "1"),
      ("spawnFlushWorker", "1"), ("spawnLogWorker", "1"), ("spawnCleanupWorker", "1"), ("unlockFile", "*"),
      ("anyUnlock", "*")], [], {"strict_until": "dbInnerOpen"}),
    ("dropInner", "src/db.rs", "Db", "drop_inner",
     [("callShutdown", "1"), ("joinLog", "1"), ("joinFlush", "1"), ("joinCommit", "1"),
      ("joinCleanup", "1"), ("callKillLogs", "1"), ("unlockFile", "1")], [], {}),
    ("commitWorker", "src/db.rs", "Db", "commit_worker",
     [("whileRunning", "1"), ("ifIdle", "1"), ("signalCleanupWorker", "1"), ("ifNoLogFiles", "?"),
      ("hasLogFilesToRead", "1"), ("waitCommitWorker", "1"), ("callEnactLogs", "1")], [],
     {"stmts": ["callEnactLogs"]}),
    ("logWorker", "src/db.rs", "Db", "log_worker",
     [("callProcessReindex", "+"), ("whileRunning", "1"), ("ifIdle", "1"), ("waitLogWorker", "1"),
      ("callProcessCommits", "1")], [], {"stmts": ["callProcessCommits", "callProcessReindex"]}),
    ("flushWorker", "src/db.rs", "Db", "flush_worker",
     [("whileRunning", "1"), ("ifIdle", "1"), ("waitFlushWorker", "1"), ("callFlushLogs", "1")], [],
     {"stmts": ["callFlushLogs"]}),
    ("cleanupWorker", "src/db.rs", "Db", "cleanup_worker",
     [("whileRunning", "1"), ("ifIdle", "1"), ("waitCleanupWorker", "1"), ("callCleanLogs", "1")], [],
     {"stmts": ["callCleanLogs"]}),
    ("loadAndValidateMetadata", "src/options.rs", "Options", "load_and_validate_metadata",
     [("loadMetadataFile", "1"), ("ifColumnCountDiffers", "?"), ("forEachColumn", "?"), ("ifColumnDiffers", "?"),
      ("returnIncompatible", "?"), ("writeMetadata", "1")], [], {}),
    ("logFlushOne", "src/log.rs", "Log", "flush_one",
     [("takeAppending", "1"), ("ifSync", "1"), ("syncData", "1"), ("pushReadQueue", "1")], [], {}),
    ("logCleanLogs", "src/log.rs", "Log", "clean_logs",
     [("lockCleanupQueue", "+"), ("countPending", "?"), ("drainCleanupQueue", "1"), ("whilePending", "?"), ("truncateLog", "1"),
      ("syncAll", "1"), ("pushCleaned", "?"), ("requeueFailed", "?"), ("breakLoop", "*"), ("ifPendingLeft", "?"),
      ("whileRequeue", "?"), ("requeueFront", "?"), ("lockLogPool", "1"), ("extendPool", "1"), ("dropLog", "1"),
      ("propagateResult", "?")], [], {"stmts": ["countPending", "drainCleanupQueue"]}),
    ("logOpenFn", "src/log.rs", "Log", "open", [("initSync", "1")], [], {"fields": ["initSync"]}),
    ("logEndRecord", "src/log.rs", "Log", "end_record",
     [("lockAppending", "1"), ("flushToFile", "1"), ("retireAppending", "?"), ("returnErr", "?"),
      ("lockOverlays", "1"), ("extendOverlay", "+"), ("setDirty", "1")], [], {}),
    ("logEndRead", "src/log.rs", "Log", "end_read",
     [("lockOverlays", "1"), ("removeOverlayEntry", "+")], [], {}),
]


def end_name(m):
    return "end" + m[0].upper() + m[1:]


def is_block(m):
    return isinstance(M[m], tuple)


# ---------------------------------------------------------------------------- extraction

START, RELEASE, END = 2, 0, 1        # sort rank at equal positions: releases, then block ends, then new markers


def block_hits(body, marker):
    """[(keyword token index, `{` token index)] of the blocks selected by block marker `marker`"""
    spec = M[marker]
    kw, key = spec[0], re.compile(spec[1])
    prefix = re.compile(spec[2]) if len(spec) > 2 else None
    hits = []
    for i, (kind, text, _) in enumerate(body.toks):
        if kind != "id" or text != kw:
            continue
        ob = body.header_end(i)
        if ob is None or ob == i + 1:
            continue
        if not key.search(body.canon(i + 1, ob)):
            continue
        if prefix is not None and not prefix.search(body.canon(ob + 1, body.match[ob])):
            continue
        hits.append((i, ob))
    return hits


def guard_release(body, marker, s_tok, e_tok):
    """token index at which the guard created by tokens [s_tok, e_tok] (a `.lock()` expression) is released;
    returns (token index, before): the release marker sorts before (True) the token's own markers"""
    where = "%s: guard %s" % (body.where, marker)
    st = body.stmt_start(s_tok)
    arm = st > 0 and body.is_op(st - 1, "=>")
    while body.is_op(st, "#") and body.is_op(st + 1, "["):         # attributes
        st = body.match[st + 1] + 1
    if body.t(st) == "else":
        st += 1
    head = body.t(st)
    if head == "let":
        # pattern up to the `=` at depth 0
        j = st + 1
        while j < s_tok and not body.is_op(j, "="):
            if body.toks[j][0] == "op" and body.toks[j][1] in ("(", "[", "{"):
                j = body.match[j]
            j += 1
        if j >= s_tok:
            raise SkeletonError("%s: cannot find the `=` of the `let`" % where)
        direct = (j + 1 == s_tok) and body.is_op(e_tok + 1, ";")
        if direct:
            pat = [t[1] for t in body.toks[st + 1:j]]
            if ":" in pat:
                pat = pat[:pat.index(":")]
            if pat and pat[0] == "mut":
                pat = pat[1:]
            if len(pat) != 1 or not re.fullmatch(r"[A-Za-z_][A-Za-z0-9_]*", pat[0]):
                raise SkeletonError("%s: unsupported binding pattern `%s`" % (where, " ".join(pat)))
            name = pat[0]
            if name == "_":
                return e_tok + 2, True                               # dropped at the `;`
            close = body.enclosing_close(e_tok + 1)
            for k in range(e_tok + 2, min(close, len(body.toks))):
                if body.toks[k][0] == "id" and body.toks[k][1] == name and \
                        body.t(k - 1) in ("(", ",", "=", ":", "{", "=>", "return", "break") and \
                        body.t(k + 1) in (")", ",", ";", "}") and not body.in_macro(k):
                    return k, True                  # moved out: drop(g), f(g, ..), let h = g; S { f: g } ...
            return close, True
        return body.stmt_end(e_tok + 1, arm), True
    if head in ("if", "while"):
        ob = body.header_end(st)
        if ob is None or ob < e_tok:
            raise SkeletonError("%s: lock in a `%s` header without a block" % (where, head))
        if body.t(st + 1) == "let":
            return (body.chain_end(ob) if head == "if" else body.match[ob]), True
        return ob, False                                             # end of the condition, before the block
    if head in ("match", "for"):
        ob = body.header_end(st)
        if ob is None or ob < e_tok:
            raise SkeletonError("%s: lock in a `%s` header without a block" % (where, head))
        return body.match[ob], True
    return body.stmt_end(e_tok + 1, arm), True


def callee_at(body, i):
    """text of the callee if token i is the `(` of a call / the opener of a macro invocation, else None"""
    if not (body.toks[i][0] == "op" and body.toks[i][1] in ("(", "[", "{")):
        return None
    j = i - 1
    macro = False
    if body.is_op(j, "!") and j >= 1 and body.toks[j - 1][0] == "id" and body.toks[j - 1][1] not in KEYWORDS:
        macro = True
        j -= 1
    elif not body.is_op(i, "("):
        return None
    if j < 0 or body.toks[j][0] != "id" or body.toks[j][1] in KEYWORDS:
        return None
    k = j
    while k - 2 >= 0 and body.toks[k - 1][0] == "op" and body.toks[k - 1][1] in (".", "::") and \
            body.toks[k - 2][0] == "id" and body.toks[k - 2][1] not in KEYWORDS:
        k -= 2
    if k - 1 >= 0 and body.is_op(k - 1, "."):
        k -= 1                                                       # method on a call result: `.exists`
    return body.canon(k, j + 1) + ("!" if macro else "")


def extract(body, spec, oneof, opts, where):
    found, conds, spans = [], [], []
    ctx, stmts = [], []
    want_stmt, want_field = set(opts.get("stmts", ())), set(opts.get("fields", ()))
    for m in want_stmt | want_field:
        if m not in [x for x, _ in spec] or is_block(m):
            raise SkeletonError("%s: `stmts` / `fields` marker %s is not a plain marker of this function" % (where, m))
    for marker, count in spec:
        if is_block(marker):
            hits = block_hits(body, marker)
            n = len(hits)
        else:
            hits = list(re.finditer(M[marker], body.text))
            n = len(hits)
        bad = (count == "1" and n != 1) or (count == "+" and n < 1) or (count == "?" and n > 1)
        if bad:
            raise SkeletonError("%s: marker %s expected %s time(s), found %d (%s)" % (
                where, marker, {"1": "exactly 1", "+": "at least 1", "?": "at most 1"}[count], n, M[marker]))
        for h in hits:
            if is_block(marker):
                kw, ob = h
                found.append((kw, START, 0, marker))
                found.append((body.match[ob], END, 0, end_name(marker)))
                conds.append((kw, marker, split_header(body, kw + 1, ob)))
                ctx.append((kw, marker, body.chain(kw)))
                continue
            s_tok, e_tok = body.tok_at(h.start()), body.tok_at(h.end() - 1)
            if body.offs[s_tok] != h.start() or body.offs[e_tok] + len(rustlex.canon([body.toks[e_tok]])[0]) != h.end():
                raise SkeletonError("%s: marker %s matches inside a token (%r)" % (where, marker, h.group(0)))
            found.append((s_tok, START, 0, marker))
            spans.append((s_tok, e_tok))
            ctx.append((s_tok, marker, body.chain(s_tok)))
            if marker in want_stmt:
                a, b = body.stmt_span(s_tok)
                if not a <= s_tok < b:
                    raise SkeletonError("%s: cannot delimit the statement of marker %s" % (where, marker))
                stmts.append((s_tok, marker, body.canon(a, b)))
            if marker in want_field:
                b = body.expr_end(e_tok + 1)
                if b <= e_tok + 1:
                    raise SkeletonError("%s: empty initialiser after marker %s" % (where, marker))
                stmts.append((s_tok, marker, body.canon(e_tok + 1, b)))
            if marker in GUARDS:
                r_tok, before = guard_release(body, marker, s_tok, e_tok)
                found.append((r_tok, RELEASE if before else START, -s_tok, GUARDS[marker]))
    for group in oneof:
        present = [g for g in group if any(f[3] == g for f in found)]
        if len(present) != 1:
            raise SkeletonError("%s: exactly one of %s expected, found %s" % (where, list(group), present))
    others = []
    until = opts.get("strict_until")
    if until:
        stops = [f[0] for f in found if f[3] == until]
        stop = min(stops) if stops else len(body.toks)
        for i in range(stop):
            c = callee_at(body, i)
            if c is None or c in FREE_CALLS:
                continue
            if any(a <= i - 1 <= b or a <= i <= b for a, b in spans):
                continue                                             # part of a matched marker
            found.append((i, START, 0, "otherCall"))
            others.append(c)
    found.sort(key=lambda f: (f[0], f[1], f[2]))
    conds.sort()
    ctx.sort(key=lambda c: (c[0], c[1]))
    stmts.sort(key=lambda c: (c[0], c[1]))
    groups = []                        # runs of consecutive conditional markers with the same chain
    for _, m, c in ctx:
        if not c:
            continue
        if groups and groups[-1][1] == c:
            groups[-1][0].append(m)
        else:
            groups.append(([m], c))
    return ([f[3] for f in found], [(m, c) for _, m, c in conds], (others if until else None),
            groups, [(m, c) for _, m, c in stmts])


def lstr(s):
    return '"' + s.replace("\\", "\\\\").replace('"', '\\"') + '"'


def wrap(items, indent="  ", width=98):
    lines, cur = [], indent + "["
    for i, piece in enumerate(items):
        piece = piece + (", " if i + 1 < len(items) else "")
        if len(cur) + len(piece) > width and cur.strip() not in ("[", ""):
            lines.append(cur.rstrip())
            cur = indent + " "
        cur += piece
    lines.append(cur + "]")
    return "\n".join(lines)


def write_if_changed(path, text):
    try:
        if open(path).read() == text:
            return
    except FileNotFoundError:
        pass
    tmp = path + ".tmp%d" % os.getpid()
    with open(tmp, "w") as f:
        f.write(text)
    os.replace(tmp, path)


def main():
    srcs = {}
    vocab = []
    for name in M:
        vocab.append(name)
        if M[name] is not None and is_block(name):
            vocab.append(end_name(name))
        if name in GUARDS:
            vocab.append(GUARDS[name])
    if len(set(vocab)) != len(vocab):
        raise SkeletonError("duplicate marker names in the vocabulary")
    defs = []
    pins = []
    total = 0
    for lean, f, impl, fn, spec, oneof, opts in FUNCS:
        if f not in srcs:
            with open(os.path.join(REPO, f)) as fh:
                try:
                    srcs[f] = rustlex.lex(fh.read())
                    rustlex.check_balanced(srcs[f], f)
                except rustlex.LexError as e:
                    raise SkeletonError("%s: %s" % (f, e))
        wrapper = None
        if isinstance(fn, list):
            # the first alternative that exists carries the body; a later one may remain as a wrapper
            alts, fn, toks = fn, None, None
            for a in alts:
                toks = fn_body(srcs[f], f, impl, a, optional=(a != alts[-1]))
                if toks is not None:
                    fn = a
                    break
            if opts.get("wrapper_of"):
                wrapper = []
                if fn != opts["wrapper_of"]:
                    wrapper = [rustlex.canon(fn_body(srcs[f], f, impl, opts["wrapper_of"]))[0]]
        else:
            toks = fn_body(srcs[f], f, impl, fn)
        where = "%s %s::%s" % (f, impl, fn)
        body = Body(toks, where)
        markers, conds, others, ctx, stmts = extract(body, spec, oneof, opts, where)
        total += len(markers)
        defs.append("/-- %s: `%s::%s` -/\ndef %s : List Marker :=\n%s" % (
            f, impl, fn, lean, wrap(["." + m for m in markers])))
        if conds:
            rows = ["(.%s, [%s])" % (m, ", ".join("[" + ", ".join(lstr(x) for x in conj) + "]" for conj in c))
                    for m, c in conds]
            defs.append("/-- %s: `%s::%s`: the complete headers of its block markers, in source order "
                        "(split at top-level `||`, then `&&`) -/\ndef %s_conds : List (Marker × List (List String)) :=\n  [%s]"
                        % (f, impl, fn, lean, ",\n   ".join(rows)))
        defs.append("/-- %s: `%s::%s`: every marker that sits inside a conditional / loop / match arm / closure, with the "
                    "chain of the enclosing block headers (outermost first, canonical token form; `if C{}else` = the else "
                    "part), in source order, consecutive markers with the same chain grouped; markers not listed are at the "
                    "top level of the function body (plain `{ }` blocks are transparent) -/\n"
                    "def %s_ctx : List (List Marker × List String) :=\n  [%s]"
                    % (f, impl, fn, lean, ",\n   ".join("([%s],\n    [%s])" % (
                        ", ".join("." + m for m in ms), ", ".join(lstr(x) for x in c)) for ms, c in ctx)))
        ctx_rows = ",\n       ".join("([%s],\n        [%s])" % (", ".join(ms), ",\n         ".join(lstr(x) for x in c))
                                      for ms, c in ctx)
        pins.append((lean, "theorem ctx_%s :\n    %s_ctx =\n      [%s] := by decide" % (lean, lean, ctx_rows)))
        if opts.get("stmts") or opts.get("fields"):
            pins.append((lean, "theorem stmts_%s :\n    %s_stmts =\n      [%s] := by decide" % (
                lean, lean, ",\n       ".join("(%s, %s)" % (m, lstr(c)) for m, c in stmts))))
            defs.append("/-- %s: `%s::%s`: the COMPLETE statement (resp. field initialiser) around the markers %s, canonical "
                        "token form, in source order -/\ndef %s_stmts : List (Marker × String) :=\n  [%s]"
                        % (f, impl, fn, ", ".join(list(opts.get("stmts", [])) + list(opts.get("fields", []))), lean,
                           ",\n   ".join("(.%s, %s)" % (m, lstr(c)) for m, c in stmts)))
        if wrapper is not None:
            defs.append("/-- %s: `%s::%s`: [] if this function carries the body itself, else the canonical body of the "
                        "one-line wrapper `%s` that calls it -/\ndef %s_wrapper : List String :=\n  [%s]"
                        % (f, impl, fn, opts["wrapper_of"], lean, ", ".join(lstr(x) for x in wrapper)))
        if others is not None:
            defs.append("/-- %s: `%s::%s`: calls before `%s` that are neither part of a marker nor known to leave "
                        "the database directory alone (each is an `otherCall` marker above) -/\n"
                        "def %s_otherCalls : List String :=\n  [%s]"
                        % (f, impl, fn, opts["strict_until"], lean, ", ".join(lstr(x) for x in others)))
    hdr = ("-- GENERATED by tools/skeleton.py from /repo/src/{db,log,options}.rs on every check run. Do not edit.\n"
           "-- Order and scopes of the protocol-carrying calls per function (fixed marker vocabulary, source order).\n"
           "namespace Pdb.Gen.Order\n\n")
    ind = "inductive Marker where\n" + "\n".join("  | " + v for v in vocab) + "\nderiving DecidableEq, Repr\n\n"
    if "--pins" in sys.argv[1:]:
        # the pin theorems of Pdb/Proofs/Order.lean (section "enclosing control flow") for the CURRENT source, to be
        # reviewed and pasted there after an intended change of the Rust: `skeleton.py --pins [<lean name> ..]`
        sel = [a for a in sys.argv[1:] if not a.startswith("--")]
        print("\n".join(t for n, t in pins if not sel or n in sel))
        return
    os.makedirs(OUT, exist_ok=True)
    write_if_changed(os.path.join(OUT, "Order.lean"), hdr + ind + "\n\n".join(defs) + "\n\nend Pdb.Gen.Order\n")
    print("skeleton: %d functions, %d markers (vocabulary %d)" % (len(FUNCS), total, len(vocab)))


if __name__ == "__main__":
    try:
        main()
    except SkeletonError as e:
        print("skeleton: SKELETON-ERROR: %s" % e)
        sys.exit(2)
    except (OSError, IndexError, KeyError, ValueError, AttributeError, re.error) as e:
        print("skeleton: SKELETON-ERROR: %s: %s" % (type(e).__name__, e))
        sys.exit(2)
