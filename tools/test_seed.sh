#!/bin/bash
# test_seed.sh <seed dir name under /verif/seeded> [check ids...]: apply the stored patch to /repo, run the checks, undo.
d=/verif/seeded/$1; shift
pid=$(python3 -c "import json;print(json.load(open('$d/meta.json'))['property'])")
checks=${@:-$pid}
cd /verif
git -C /repo apply $d/patch.diff || { echo "patch does not apply"; exit 3; }
res=""
for c in $checks; do r=$(./check $c --tier quick 2>&1 | grep -E "VIOLATION" | head -2 | cut -c1-160); echo "$c: ${r:-no violation reported}"; res="$res$c: ${r:-no violation reported} ; "; done
git -C /repo checkout -- .
python3 - "$d/meta.json" "$res" <<'PY'
import json,sys
m=json.load(open(sys.argv[1])); m["retest_after_strengthening"]=sys.argv[2]; json.dump(m,open(sys.argv[1],"w"),indent=1)
PY
for c in $checks; do ./check $c --tier quick >/dev/null 2>&1; done
