#!/usr/bin/env python3
"""dbgcheck.py <Cxx> [harness cmd ...]: run the obligations of one property step by step with check's own functions and print what
breaks at once (no widened search, no evidence written). For diagnosing a broken obligation quickly."""
import sys, importlib.machinery, importlib.util
args = sys.argv[1:]
sys.argv = ['check']
loader = importlib.machinery.SourceFileLoader('chk', '/verif/check'); spec = importlib.util.spec_from_loader('chk', loader)
chk = importlib.util.module_from_spec(spec); loader.exec_module(chk)
pid = args[0]; only = args[1:]
sp = chk.P.PROPS[pid] if hasattr(chk.P, 'PROPS') else None
if sp is None:
    for v in vars(chk.P).values():
        if isinstance(v, dict) and pid in v and isinstance(v[pid], dict) and 'lean' in v[pid]:
            sp = v[pid]
res = chk.Result(pid, 'quick', 1)
def show(stage):
    print("== %s: obligations %d discharged %d broken %d disagreements %d oracle_fail %d" % (
        stage, res.obligations, res.discharged, len(res.broken), len(res.disagreements), len(res.oracle_fail)), flush=True)
    for b in res.broken: print("   BROKEN", b[0], b[1][:600])
    for d in res.disagreements[:3]: print("   DISAGREE", d['cmd'], d['case'][:150], d['first'])
    for o in res.oracle_fail[:3]: print("   ORACLE", o['cmd'], o['case'][:150], o['what'][:400])
if not only:
    chk.regenerate(res); show('regenerate')
    ok, out = chk.lake_build(res, sp['lean'] + ['pdbdriver']); show('lake')
    chk.audit(res, sp['lean']); show('audit')
chk.cargo_build(res); show('cargo')
for h in sp['harness']:
    if only and h['cmd'] not in only: continue
    chk.correspondence(res, pid, h, 1, h['quick']); show('harness ' + h['cmd'])
