#!/usr/bin/env python3
"""Replay a pdbverif trace through pdbdriver and diff the outputs line by line.
usage: c05s_replay.py <trace> <pdbdriver>   -> prints summary, exit 1 on any disagreement"""
import subprocess, sys
trace, driver = sys.argv[1], sys.argv[2]
ops, case_of, cases, cur = [], [], [], None
oracle = []
for line in open(trace):
    line = line.rstrip("\n")
    if line.startswith("#CASE "):
        cur = line[6:]; cases.append(cur); continue
    if line.startswith("!ORACLE"):
        oracle.append((cur, line)); continue
    if line.startswith("#") or line.startswith("!") or not line:
        continue
    op, obs = line.split("\t")
    ops.append((op, obs)); case_of.append(cur)
out = subprocess.run([driver], input="\n".join(o for o, _ in ops) + "\n", capture_output=True, text=True).stdout.split("\n")
bad, badcases = 0, {}
for i, (op, obs) in enumerate(ops):
    m = out[i] if i < len(out) else "<missing>"
    if m != obs:
        bad += 1
        if case_of[i] not in badcases:
            badcases[case_of[i]] = (op, obs, m)
print(f"cases={len(cases)} ops={len(ops)} disagreements={bad} cases_with_disagreement={len(badcases)} oracle_failures={len(oracle)}")
for c, (op, obs, m) in list(badcases.items())[:12]:
    print(f"  FIRST-DIFF [{c}] op `{op}`: crate `{obs}` model `{m}`")
for c, l in oracle[:6]:
    print(f"  {l} [{c}]")
sys.exit(1 if bad or oracle else 0)
