#!/usr/bin/env python3
"""Regenerate /verif/MANIFEST.json from tools/props.py (single source of truth)."""
import json, os, sys
sys.path.insert(0, os.path.dirname(os.path.abspath(__file__)))
import props as P

ROOT = os.path.join(os.path.dirname(os.path.abspath(__file__)), "..")
ALL = ["C%02d" % i for i in range(1, 21)]

checks = []
for pid in ALL:
    if pid not in P.PROPS:
        continue
    s = P.PROPS[pid]
    checks.append({
        "property_id": pid,
        "quick_cmd": "./check %s --tier quick" % pid,
        "thorough_cmd": "./check %s --tier thorough" % pid,
        "evidence_file": "/verif/evidence/%s.json" % pid,
        "replay_cmd_template": "./check %s --replay {path}" % pid,
        "engine": "lean-proof+correspondence",
        "level_claimed": {"category": "proof", "text": s["level_text"], "design_ref": s.get("design_ref", "DESIGN.md section 7 " + pid)},
        "level_note": s["level_note"],
        "technique": s.get("technique", "Lean 4 theorems about a model of the code (kernel-checked), model tied to /repo by translator-regenerated definitions and differential correspondence runs"),
    })

na = [{"property_id": pid, "reason": P.NOT_APPLICABLE.get(pid, "check not built yet in this session; planned (see DESIGN.md section 7)")}
      for pid in ALL if pid not in P.PROPS]

m = {
    "version": 1,
    "setup_cmd": "./check --setup",
    "hooks": {
        "guard": "--cfg pdb_verif",
        "enable": "RUSTFLAGS='--cfg pdb_verif' cargo build --release --offline (harness crate /verif/harness, path dependency on /repo with feature instrumentation); set by ./check",
        "baseline_off_cmd": "cd /repo && cargo test --workspace --no-fail-fast --offline",
        "source_commits": P.HOOK_COMMITS,
        "add_only": True,
    },
    "engines": [
        {"name": "lean-proof+correspondence", "path": "/verif/check",
         "serves_properties": [c["property_id"] for c in checks],
         "kind_free_text": "Lean 4 proofs (lake project /verif/lean) over a hand-written model plus generated definitions (tools/rs2lean.py); correspondence and oracle search by the Rust harness /verif/harness driving the real crate; pdbdriver (compiled Lean) replays the same op lines"},
    ],
    "checks": checks,
    "not_applicable": na,
    "notes": "Every check regenerates Pdb/Gen/*.lean from /repo/src, rebuilds the Lean modules of the property, audits axioms, rebuilds the harness against /repo's working tree and runs correspondence + oracle search. See DESIGN.md.",
}
json.dump(m, open(os.path.join(ROOT, "MANIFEST.json"), "w"), indent=1)
print("MANIFEST.json: %d checks, %d not_applicable" % (len(checks), len(na)))

# sanity: every Lean module a check lists must be imported by lean/Pdb.lean (so that `lake build Pdb` covers it)
import os, sys
_imports = set(l.split()[1] for l in open(os.path.join(os.path.dirname(__file__), "..", "lean", "Pdb.lean")) if l.startswith("import "))
_missing = sorted(set(m for p in P.PROPS.values() for m in p.get("lean", [])) - _imports)
if _missing:
    print("WARNING: listed in tools/props.py but not imported by lean/Pdb.lean:", ", ".join(_missing))
