/-
C11, order part: ordinary writes are published in commit-return order, except for the writes of a
commit that `process_commits` re-queued whole (current code).  In the patched variant nothing
but tree dereferences is ever postponed, so the order is exact.
-/
import Pdb.Model.ConcRead
import Pdb.Proofs.PipelineThm

set_option linter.unusedSectionVars false
set_option linter.unusedSimpArgs false
set_option linter.unusedVariables false
namespace Pdb
namespace CRd
namespace Tr
variable {K V TK : Type} [DecidableEq K] [DecidableEq TK]

/-- The operations on `k`, in order. -/
def keyOps (k : K) (l : List (Op K V)) : List (Op K V) := l.filter (fun op => decide (op.key = k))

/-- Folding the operations on `k` over its cell. -/
def cellFold (kind : K → Kind) (k : K) (c : Cell V) (ops : List (Op K V)) : Cell V :=
  (keyOps k ops).foldl (fun c op => applyCell (kind k) op c) c

/-- The cell of `k` after a list of operations depends only on the operations on `k`. -/
theorem applyOps_cellFold (kind : K → Kind) (t : Tbl K V) (ops : List (Op K V)) (k : K) :
    applyOps kind t ops k = cellFold kind k (t k) ops := by
  induction ops generalizing t with
  | nil => rfl
  | cons op ops ih =>
    have e : applyOps kind t (op :: ops) = applyOps kind (applyOp kind t op) ops := rfl
    rw [e, ih]
    unfold cellFold keyOps
    by_cases h : op.key = k
    · subst h
      simp [List.filter_cons, applyOp]
    · have hne : k ≠ op.key := fun e => h e.symm
      simp [List.filter_cons, h, applyOp, upd_other _ _ _ _ hne]

def pendOps (s : TSt K V TK) : List (Op K V) :=
  match s.pend with
  | some c => c.ops
  | none => []

/-- Every accepted ordinary operation: published, planned, queued. -/
def allOps (s : TSt K V TK) : List (Op K V) :=
  s.done.flatten ++ pendOps s ++ (s.queue.map (·.ops)).flatten

structure OInv (kind : K → Kind) (s : TSt K V TK) : Prop where
  tbl : s.tbl = applyOps kind (fun _ => none) s.done.flatten
  flat : ∀ k, k ∉ s.deferredKeys → keyOps k (allOps s) = keyOps k s.hist.flatten

theorem OInv.init (kind : K → Kind) : OInv kind (TSt.init : TSt K V TK) := by
  constructor
  · simp [TSt.init, applyOps]
  · intro k _; simp [TSt.init, allOps, pendOps]

theorem keyOps_append (k : K) (a b : List (Op K V)) : keyOps k (a ++ b) = keyOps k a ++ keyOps k b := by
  simp [keyOps]

theorem keyOps_nil_of_notin (k : K) (ops : List (Op K V)) (h : k ∉ ops.map Op.key) :
    keyOps k ops = [] := by
  unfold keyOps
  rw [List.filter_eq_nil_iff]
  intro op hop
  simp only [decide_eq_true_eq]
  intro e
  exact h (List.mem_map.mpr ⟨op, hop, e⟩)

theorem OInv.step {var : Variant} {kind : K → Kind} {fuel : Nat} {s : TSt K V TK}
    (h : OInv kind s) (a : TAct K V TK) : OInv kind (tstep var kind fuel s a) := by
  cases a with
  | commit ops derefs inserts =>
    simp only [tstep]
    split
    · exact h
    · split
      · exact h
      · split
        · exact h
        · split
          · exact h
          · split
            · exact h
            · split
              · exact h
              · constructor
                · exact h.tbl
                · intro k hk
                  have := h.flat k hk
                  simp only [allOps, pendOps, List.map_append, List.flatten_append, List.map_cons,
                    List.map_nil, List.flatten_cons, List.flatten_nil, List.append_nil,
                    keyOps_append] at this ⊢
                  rw [← this]
                  simp [List.append_assoc]
  | process =>
    simp only [tstep, process]
    split
    · rename_i c rest hp hq
      split
      · -- deferral
        cases var with
        | current =>
          simp only
          split
          · exact h
          · rename_i c2 rest2
            constructor
            · exact h.tbl
            · intro k hk
              simp only [List.mem_append, not_or] at hk
              have := h.flat k hk.1
              have hc : keyOps k c.ops = [] := keyOps_nil_of_notin k c.ops hk.2
              simp only [allOps, pendOps, hp, hq, List.map_cons, List.flatten_cons,
                List.map_append, List.flatten_append, List.map_nil, List.flatten_nil,
                List.append_nil, keyOps_append, hc, List.nil_append] at this ⊢
              rw [← this]
              try simp [keyOps]
        | earlyUnlock =>
          simp only
          split
          · exact h
          · rename_i c2 rest2
            constructor
            · exact h.tbl
            · intro k hk
              simp only [List.mem_append, not_or] at hk
              have := h.flat k hk.1
              have hc : keyOps k c.ops = [] := keyOps_nil_of_notin k c.ops hk.2
              simp only [allOps, pendOps, hp, hq, List.map_cons, List.flatten_cons,
                List.map_append, List.flatten_append, List.map_nil, List.flatten_nil,
                List.append_nil, keyOps_append, hc, List.nil_append] at this ⊢
              rw [← this]
              try simp [keyOps]
        | patched =>
          simp only
          split
          · rename_i hem
            simp only [Bool.and_eq_true, List.isEmpty_iff] at hem
            constructor
            · exact h.tbl
            · intro k hk
              have := h.flat k hk
              simp only [allOps, pendOps, hp, hq, List.map_cons, List.flatten_cons,
                List.map_append, List.flatten_append, List.map_nil, List.flatten_nil,
                List.append_nil, keyOps_append, hem.1] at this ⊢
              rw [← this]
              simp [keyOps]
          · constructor
            · exact h.tbl
            · intro k hk
              have := h.flat k hk
              simp only [allOps, pendOps, hp, hq, List.map_cons, List.flatten_cons,
                List.map_append, List.flatten_append, List.map_nil, List.flatten_nil,
                List.append_nil, keyOps_append] at this ⊢
              rw [← this]
              simp [keyOps]
      · constructor
        · exact h.tbl
        · intro k hk
          have := h.flat k hk
          simp only [allOps, pendOps, hp, hq, List.map_cons, List.flatten_cons,
            keyOps_append] at this ⊢
          rw [← this]
          simp [keyOps]
    · exact h
  | publish =>
    simp only [tstep, publish]
    split
    · exact h
    · rename_i c hp
      constructor
      · simp only [List.flatten_append, List.flatten_cons, List.flatten_nil, List.append_nil]
        rw [applyOps_append, ← h.tbl]
      · intro k hk
        have := h.flat k hk
        simp only [allOps, pendOps, hp, List.flatten_append, List.flatten_cons, List.flatten_nil,
          List.append_nil, keyOps_append] at this ⊢
        rw [← this]
        try simp [keyOps]
  | lock key =>
    simp only [tstep]
    split
    · exact h
    · exact ⟨h.tbl, h.flat⟩
  | unlock key => exact ⟨h.tbl, h.flat⟩

theorem OInv.run {var : Variant} {kind : K → Kind} {fuel : Nat} {s : TSt K V TK}
    (h : OInv kind s) (as : List (TAct K V TK)) : OInv kind (trun var kind fuel s as) := by
  induction as generalizing s with
  | nil => exact h
  | cons a as ih => exact ih (h.step a)

/-- Once everything is published, the cell of a key not written by a re-queued commit is the
    specification of all transactions in commit-return order. -/
theorem OInv.final {kind : K → Kind} {s : TSt K V TK} (h : OInv kind s) (hq : s.queue = [])
    (hp : s.pend = none) (k : K) (hk : k ∉ s.deferredKeys) : s.tbl k = spec kind s.hist k := by
  have hf := h.flat k hk
  simp only [allOps, pendOps, hq, hp, List.map_nil, List.flatten_nil, List.append_nil] at hf
  rw [h.tbl]
  unfold spec
  rw [applyOps_cellFold, applyOps_cellFold]
  unfold cellFold
  rw [hf]

/-- The patched variant never re-queues ordinary writes. -/
theorem patched_no_deferredKeys {kind : K → Kind} {fuel : Nat} (s : TSt K V TK)
    (h : s.deferredKeys = []) (a : TAct K V TK) :
    (tstep .patched kind fuel s a).deferredKeys = [] := by
  cases a with
  | commit ops derefs inserts =>
    simp only [tstep]
    repeat (first | exact h | split)
  | process =>
    simp only [tstep, process]
    repeat (first | exact h | split)
  | publish =>
    simp only [tstep, publish]
    repeat (first | exact h | split)
  | lock key =>
    simp only [tstep]
    repeat (first | exact h | split)
  | unlock key => exact h

theorem patched_run_no_deferredKeys {kind : K → Kind} {fuel : Nat} (s : TSt K V TK)
    (h : s.deferredKeys = []) (as : List (TAct K V TK)) :
    (trun .patched kind fuel s as).deferredKeys = [] := by
  induction as generalizing s with
  | nil => exact h
  | cons a as ih => exact ih _ (patched_no_deferredKeys s h a)

end Tr
end CRd
end Pdb
