/-
C11, lock part for `Variant.current` (the shipped code) and `Variant.earlyUnlock` (the code
before fix-c11-tree-lock-until-published.diff): a tree whose read lock is held stays exactly as
it is, PROVIDED the lock was not acquired inside the F13 window (any variant); for `current` the
proviso always holds (`WInv`, `locked_stable_current_full`): the planner keeps the tree's write
lock until the record is published.

F13: the dereference walk's write lock is released when PLANNING ends; a reader that takes the
lock while a commit dereferencing the tree is in `pend` (planned, not yet published) loses the
tree at `publish`.  `inF13Window s key` (Pdb/Model/C11Ghost.lean) says exactly that
`s.pend = some c` with `key ∈ c.derefs`.

  * `SInvC`: the variant-independent part of `SInv` (C11Stable.lean): fresh keys / claimed
    addresses of the unpublished inserts; `SInvC.step` / `SInvC.run` hold for EVERY variant
    (the `current` deferral re-queues the whole commit: a permutation of the unpublished
    commits);
  * `window_only_at_lock`: while the lock on `key` is held the window cannot be entered (the
    planner defers every commit that dereferences a locked tree): the window is entered only
    while the tree is NOT locked, so a held lock is invalidated only if acquired inside it;
  * `stable_step_current` / `stable_run_current` / `locked_stable_current`: outside the window
    a held lock keeps the root and every present reachable node of the tree in place.
-/
import Pdb.Model.C11Ghost
import Pdb.Proofs.C11Stable

set_option linter.unusedSectionVars false
set_option linter.unusedSimpArgs false
set_option linter.unusedVariables false
namespace Pdb
namespace CRd
namespace Tr
variable {K V TK : Type} [DecidableEq K] [DecidableEq TK]

/-! ### the variant-independent invariant -/

structure SInvC (s : TSt K V TK) : Prop where
  k2 : ∀ k, (s.root k).isSome → k ∈ s.rootKeys
  k3 : ∀ k ∈ s.rootKeys, k ∈ s.usedKeys
  uk : ∀ k ∈ insKeys (unpub s), s.root k = none ∧ k ∈ s.usedKeys
  ua : ∀ a ∈ insAd (unpub s), s.node a = none ∧ a ∈ s.claimed
  nk : (insKeys (unpub s)).Nodup
  na : (insAd (unpub s)).Nodup

theorem SInvC.init : SInvC (TSt.init : TSt K V TK) := by
  constructor <;> simp [TSt.init, unpub, insKeys, insAd]

/-- The patched variant's invariant contains the variant-independent one. -/
theorem SInv.toC {s : TSt K V TK} (h : SInv s) : SInvC s :=
  ⟨h.k2, h.k3, h.uk, h.ua, h.nk, h.na⟩

/-- A step that only permutes the unpublished commits' inserts. -/
theorem SInvC.rearrange {s s' : TSt K V TK} (h : SInvC s)
    (e2 : s'.root = s.root) (e3 : s'.node = s.node)
    (e4 : s'.rootKeys = s.rootKeys) (e5 : s'.usedKeys = s.usedKeys) (e6 : s'.claimed = s.claimed)
    (e7 : (insKeys (unpub s')).Perm (insKeys (unpub s)))
    (e8 : (insAd (unpub s')).Perm (insAd (unpub s))) : SInvC s' := by
  constructor
  · rw [e2, e4]; exact h.k2
  · rw [e4, e5]; exact h.k3
  · intro k hk; rw [e2, e5]; exact h.uk k (e7.mem_iff.mp hk)
  · intro a ha; rw [e3, e6]; exact h.ua a (e8.mem_iff.mp ha)
  · exact e7.nodup_iff.mpr h.nk
  · exact e8.nodup_iff.mpr h.na

theorem SInvC.commit_like {s s' : TSt K V TK} (h : SInvC s) (c : TCommit K V TK)
    (e_pend : s'.pend = s.pend) (e_queue : s'.queue = s.queue ++ [c]) (e_root : s'.root = s.root)
    (e_node : s'.node = s.node) (e_rk : s'.rootKeys = s.rootKeys)
    (e_uk : s'.usedKeys = c.inserts.map (·.1) ++ s.usedKeys)
    (e_cl : s'.claimed = c.inserts.flatMap insAddrs ++ s.claimed)
    (g3' : ∀ i ∈ c.inserts, i.1 ∉ s.usedKeys) (g4' : (c.inserts.map (·.1)).Nodup)
    (g5' : (c.inserts.flatMap insAddrs).Nodup)
    (g6' : ∀ a ∈ c.inserts.flatMap insAddrs, s.node a = none ∧ a ∉ s.claimed) : SInvC s' := by
  have eU := unpub_snoc s' s c e_pend e_queue
  constructor
  · rw [e_root, e_rk]; exact h.k2
  · intro k hk
    rw [e_rk] at hk
    rw [e_uk, List.mem_append]
    exact Or.inr (h.k3 k hk)
  · intro k hk
    rw [eU, insKeys_snoc, List.mem_append] at hk
    rw [e_root, e_uk, List.mem_append]
    rcases hk with hk | hk
    · have := h.uk k hk
      exact ⟨this.1, Or.inr this.2⟩
    · refine ⟨?_, Or.inl hk⟩
      obtain ⟨i, hi, e⟩ := List.mem_map.mp hk
      cases hr : s.root k with
      | none => rfl
      | some ch =>
        have := h.k3 k (h.k2 k (by simp [hr]))
        rw [← e] at this
        exact absurd this (g3' i hi)
  · intro a ha
    rw [eU, insAd_snoc, List.mem_append] at ha
    rw [e_node, e_cl, List.mem_append]
    rcases ha with ha | ha
    · have := h.ua a ha
      exact ⟨this.1, Or.inr this.2⟩
    · exact ⟨(g6' a ha).1, Or.inl ha⟩
  · rw [eU, insKeys_snoc, List.nodup_append]
    refine ⟨h.nk, g4', ?_⟩
    intro k hk k' hk' e
    subst e
    obtain ⟨i, hi, e⟩ := List.mem_map.mp hk'
    have := (h.uk k hk).2
    rw [← e] at this
    exact g3' i hi this
  · rw [eU, insAd_snoc, List.nodup_append]
    refine ⟨h.na, g5', ?_⟩
    intro a ha a' ha' e
    subst e
    exact (g6' a ha').2 (h.ua a ha).2

theorem SInvC.step {var : Variant} {kind : K → Kind} {fuel : Nat} {s : TSt K V TK}
    (h : SInvC s) (a : TAct K V TK) : SInvC (tstep var kind fuel s a) := by
  cases a with
  | commit ops derefs inserts =>
    simp only [tstep]
    split
    · exact h
    · split
      · exact h
      · split
        · exact h
        · split
          · exact h
          · split
            · exact h
            · split
              · exact h
              · rename_i g1 g2 g3 g4 g5 g6
                have g3' : ∀ i ∈ inserts, i.1 ∉ s.usedKeys := by
                  intro i hi
                  have g : (inserts.all fun i => !s.usedKeys.contains i.1) = true := by
                    simpa using g3
                  have := (List.all_eq_true.mp g) i hi
                  simpa using this
                have g4' : (inserts.map (·.1)).Nodup := by simpa using g4
                have g5' : (inserts.flatMap insAddrs).Nodup := by simpa using g5
                have g6' : ∀ a ∈ inserts.flatMap insAddrs, s.node a = none ∧ a ∉ s.claimed := by
                  intro a ha
                  have g : ((inserts.flatMap insAddrs).all
                      fun a => (s.node a).isNone && !s.claimed.contains a) = true := by
                    simpa using g6
                  have := (List.all_eq_true.mp g) a ha
                  simpa using this
                exact SInvC.commit_like h _ rfl rfl rfl rfl rfl rfl rfl g3' g4' g5' g6'
  | process =>
    simp only [tstep, process]
    split
    · rename_i c rest hp hq
      split
      · cases var with
        | current =>
          simp only
          split
          · exact h
          · rename_i c2 rest2
            apply SInvC.rearrange h
            · rfl
            · rfl
            · rfl
            · rfl
            · rfl
            · simp only [unpub, insKeys, hp, hq, Option.toList_none, List.nil_append,
                List.flatMap_cons, List.flatMap_append, List.flatMap_nil, List.append_nil]
              exact List.perm_append_comm
            · simp only [unpub, insAd, hp, hq, Option.toList_none, List.nil_append,
                List.flatMap_cons, List.flatMap_append, List.flatMap_nil, List.append_nil]
              exact List.perm_append_comm
        | earlyUnlock =>
          simp only
          split
          · exact h
          · rename_i c2 rest2
            apply SInvC.rearrange h
            · rfl
            · rfl
            · rfl
            · rfl
            · rfl
            · simp only [unpub, insKeys, hp, hq, Option.toList_none, List.nil_append,
                List.flatMap_cons, List.flatMap_append, List.flatMap_nil, List.append_nil]
              exact List.perm_append_comm
            · simp only [unpub, insAd, hp, hq, Option.toList_none, List.nil_append,
                List.flatMap_cons, List.flatMap_append, List.flatMap_nil, List.append_nil]
              exact List.perm_append_comm
        | patched =>
          simp only
          split
          · rename_i hem
            simp only [Bool.and_eq_true, List.isEmpty_iff] at hem
            apply SInvC.rearrange h
            · rfl
            · rfl
            · rfl
            · rfl
            · rfl
            · simp [unpub, insKeys, hp, hq, hem.2]
            · simp [unpub, insAd, hp, hq, hem.2]
          · apply SInvC.rearrange h
            · rfl
            · rfl
            · rfl
            · rfl
            · rfl
            · simp [unpub, insKeys, hp, hq]
            · simp [unpub, insAd, hp, hq]
      · apply SInvC.rearrange h
        · rfl
        · rfl
        · rfl
        · rfl
        · rfl
        · simp [unpub, insKeys, hp, hq]
        · simp [unpub, insAd, hp, hq]
    · exact h
  | publish =>
    simp only [tstep, publish]
    split
    · exact h
    · rename_i c hp
      have hU : unpub s = c :: s.queue := by simp [unpub, hp]
      have hnk := h.nk
      have hna := h.na
      rw [hU] at hnk hna
      simp only [insKeys, insAd, List.flatMap_cons] at hnk hna
      rw [List.nodup_append] at hnk hna
      have hukc : ∀ k ∈ c.inserts.map (·.1), s.root k = none ∧ k ∈ s.usedKeys := by
        intro k hk
        apply h.uk k
        rw [hU]; simp only [insKeys, List.flatMap_cons, List.mem_append]; exact Or.inl hk
      constructor
      · intro k hk
        simp only [applyTrees] at hk ⊢
        rw [derefFold_rootKeys, insFold_rootKeys_mem]
        rcases derefFold_root_cases fuel c.derefs
          (c.inserts.foldl insertTree ⟨s.root, s.node, s.rootKeys⟩) k with e | e
        · rw [e] at hk
          rcases insFold_root_some c.inserts _ k hk with h1 | h1
          · exact Or.inl h1
          · exact Or.inr (h.k2 k h1)
        · rw [e] at hk; simp at hk
      · intro k hk
        simp only [applyTrees] at hk
        rw [derefFold_rootKeys, insFold_rootKeys_mem] at hk
        rcases hk with hk | hk
        · exact (hukc k hk).2
        · exact h.k3 k hk
      · intro k hk
        simp only [unpub, List.nil_append, Option.toList_none] at hk
        have hk0 := h.uk k (by
          rw [hU]; simp only [insKeys, List.flatMap_cons, List.mem_append]; exact Or.inr hk)
        refine ⟨?_, hk0.2⟩
        simp only [applyTrees]
        have hnotc : k ∉ c.inserts.map (·.1) := fun hc => hnk.2.2 k hc k hk rfl
        rcases derefFold_root_cases fuel c.derefs
          (c.inserts.foldl insertTree ⟨s.root, s.node, s.rootKeys⟩) k with e | e
        · rw [e, insFold_root_other c.inserts _ k hnotc]; exact hk0.1
        · exact e
      · intro a ha
        simp only [unpub, List.nil_append, Option.toList_none] at ha
        have ha0 := h.ua a (by
          rw [hU]; simp only [insAd, List.flatMap_cons, List.mem_append]; exact Or.inr ha)
        have hnotc : a ∉ c.inserts.flatMap insAddrs := fun hc => hna.2.2 a hc a ha rfl
        constructor
        · simp only [applyTrees]
          rcases derefFold_node_cases fuel c.derefs
            (c.inserts.foldl insertTree ⟨s.root, s.node, s.rootKeys⟩) a with e | e
          · rw [e, insFold_node_other c.inserts _ a hnotc]; exact ha0.1
          · exact e
        · simp only [List.mem_filter]
          refine ⟨ha0.2, ?_⟩
          simp [hnotc]
      · simp only [unpub, Option.toList_none, List.nil_append]
        exact hnk.2.1
      · simp only [unpub, Option.toList_none, List.nil_append]
        exact hna.2.1
  | lock key =>
    simp only [tstep]
    split
    · exact h
    · exact SInvC.rearrange h rfl rfl rfl rfl rfl (List.Perm.refl _) (List.Perm.refl _)
  | unlock key =>
    simp only [tstep]
    exact SInvC.rearrange h rfl rfl rfl rfl rfl (List.Perm.refl _) (List.Perm.refl _)

theorem SInvC.run {var : Variant} {kind : K → Kind} {fuel : Nat} {s : TSt K V TK}
    (h : SInvC s) (as : List (TAct K V TK)) : SInvC (trun var kind fuel s as) := by
  induction as generalizing s with
  | nil => exact h
  | cons a as ih => exact ih (h.step a)

/-! ### the F13 window cannot be entered while the lock is held -/

theorem inF13Window_of_pend_none (s : TSt K V TK) (key : TK) (h : s.pend = none) :
    inF13Window s key = false := by
  simp [inF13Window, h]

theorem inF13Window_congr (s s' : TSt K V TK) (key : TK) (h : s'.pend = s.pend) :
    inF13Window s' key = inF13Window s key := by
  simp [inF13Window, h]

/-- Any variant: a planner step never plans a dereference of a read-locked tree. -/
theorem window_closed_under_lock (var : Variant) (kind : K → Kind) (fuel : Nat)
    (s : TSt K V TK) (key : TK) (hw : inF13Window s key = false) (hl : 0 < s.locked key)
    (a : TAct K V TK) : inF13Window (tstep var kind fuel s a) key = false := by
  cases a with
  | commit ops derefs inserts =>
    simp only [tstep]
    repeat (first | exact hw | split)
  | process =>
    simp only [tstep, process]
    split
    · rename_i c rest hp hq
      split
      · cases var with
        | current =>
          simp only
          split
          · exact hw
          · exact inF13Window_of_pend_none _ key hp
        | earlyUnlock =>
          simp only
          split
          · exact hw
          · exact inF13Window_of_pend_none _ key hp
        | patched =>
          simp only
          split
          · exact inF13Window_of_pend_none _ key hp
          · simp [inF13Window]
      · rename_i hnd
        have hk : key ∉ c.derefs := by
          intro hm
          apply hnd
          rw [List.any_eq_true]
          refine ⟨key, hm, ?_⟩
          simp [mustDefer, hl]
        simp [inF13Window, hk]
    · exact hw
  | publish =>
    simp only [tstep, publish]
    split
    · exact hw
    · exact inF13Window_of_pend_none _ key rfl
  | lock k =>
    simp only [tstep]
    split
    · exact hw
    · exact hw
  | unlock k => exact hw

/-- F13 is the ONLY way: while the read lock on `key` is held, the shipped code never enters
    the window; a held lock can be invalidated only if it was acquired inside the window. -/
theorem window_only_at_lock (kind : K → Kind) (fuel : Nat) (s : TSt K V TK) (key : TK)
    (hw : inF13Window s key = false) (hl : 0 < s.locked key) (a : TAct K V TK) :
    inF13Window (tstep .current kind fuel s a) key = false :=
  window_closed_under_lock .current kind fuel s key hw hl a

/-! ### stability under a held lock, outside the window -/

/-- One step, any variant: with the lock held and no planned dereference of `key`, the tree
    stays in place. -/
theorem stable_step_var {var : Variant} {kind : K → Kind} {fuel : Nat} {s0 s : TSt K V TK}
    {key : TK} (h : SInvC s) (hs : Stable fuel s0 s key) (hr : (s0.root key).isSome)
    (hw : inF13Window s key = false) (a : TAct K V TK) :
    Stable fuel s0 (tstep var kind fuel s a) key := by
  cases a with
  | commit ops derefs inserts =>
    simp only [tstep]
    repeat (first | exact hs | split)
  | process =>
    simp only [tstep, process]
    split
    · split
      · cases var with
        | current =>
          simp only
          split
          · exact hs
          · exact hs
        | earlyUnlock =>
          simp only
          split
          · exact hs
          · exact hs
        | patched =>
          simp only
          split
          · exact hs
          · exact hs
      · exact hs
    · exact hs
  | lock k =>
    simp only [tstep]
    repeat (first | exact hs | split)
  | unlock k => exact hs
  | publish =>
    simp only [tstep, publish]
    split
    · exact hs
    · rename_i c hp
      obtain ⟨ch, hch⟩ := Option.isSome_iff_exists.mp hr
      have hroot : s.root key = some ch := by rw [hs.1, hch]
      -- outside the window the planned commit does not dereference `key`
      have hkd : key ∉ c.derefs := by
        intro hm
        simp [inF13Window, hp, hm] at hw
      have hU : unpub s = c :: s.queue := by simp [unpub, hp]
      have hkk : key ∉ c.inserts.map (·.1) := by
        intro hm
        have := (h.uk key (by
          rw [hU]; simp only [insKeys, List.flatMap_cons, List.mem_append]; exact Or.inl hm)).1
        rw [hroot] at this
        simp at this
      have hnodes : ∀ x ∈ reachN s0.node fuel ch, (s0.node x).isSome →
          (c.inserts.foldl insertTree ⟨s.root, s.node, s.rootKeys⟩).node x = s0.node x := by
        intro x hx hsome
        have hsx : s.node x = s0.node x := hs.2 x (by rw [hch]; exact hx) hsome
        have hnot : x ∉ c.inserts.flatMap insAddrs := by
          intro hm
          have := (h.ua x (by
            rw [hU]; simp only [insAd, List.flatMap_cons, List.mem_append]; exact Or.inl hm)).1
          rw [hsx] at this
          rw [this] at hsome
          simp at hsome
        rw [insFold_node_other c.inserts _ x hnot]
        exact hsx
      have hkeep := derefFold_keeps fuel s0.node key ch c.derefs
        (c.inserts.foldl insertTree ⟨s.root, s.node, s.rootKeys⟩) hkd
        (by rw [insFold_root_other c.inserts _ key hkk]; exact hroot)
        (by rw [insFold_rootKeys_mem]; exact Or.inr (h.k2 key (by simp [hroot])))
        hnodes
      constructor
      · simp only [applyTrees]
        rw [hkeep.1, hch]
      · intro x hx hsome
        simp only [applyTrees]
        rw [hch] at hx
        exact hkeep.2 x hx hsome

theorem stable_step_current {kind : K → Kind} {fuel : Nat} {s0 s : TSt K V TK} {key : TK}
    (h : SInvC s) (hs : Stable fuel s0 s key) (hr : (s0.root key).isSome)
    (hw : inF13Window s key = false) (hl : 0 < s.locked key) (a : TAct K V TK) :
    Stable fuel s0 (tstep .current kind fuel s a) key :=
  stable_step_var h hs hr hw a

/-- The shipped code: a lock held throughout a run that starts outside the F13 window keeps the
    tree (root and every present reachable node) in place. -/
theorem stable_run_current {kind : K → Kind} {fuel : Nat} {s0 s : TSt K V TK} {key : TK}
    (h : SInvC s) (hs : Stable fuel s0 s key) (hr : (s0.root key).isSome)
    (hw : inF13Window s key = false) (as : List (TAct K V TK))
    (hl : lockedThroughoutV .current kind fuel key s as) :
    Stable fuel s0 (trun .current kind fuel s as) key := by
  induction as generalizing s with
  | nil => exact hs
  | cons a as ih =>
    simp only [lockedThroughoutV] at hl
    exact ih (h.step a) (stable_step_current h hs hr hw hl.1 a)
      (window_only_at_lock kind fuel s key hw hl.1 a) hl.2

theorem Stable.refl (fuel : Nat) (s0 : TSt K V TK) (key : TK) : Stable fuel s0 s0 key :=
  ⟨rfl, fun _ _ _ => rfl⟩

/-- Schedule-level corollary: after any prefix `pre` from the initial state, a reader that holds
    the lock of an existing tree throughout `as`, and did not acquire it inside the F13 window,
    sees the tree unchanged. -/
theorem locked_stable_current (kind : K → Kind) (fuel : Nat) (pre as : List (TAct K V TK))
    (key : TK) :
    let s0 := trun .current kind fuel (TSt.init : TSt K V TK) pre
    (s0.root key).isSome → inF13Window s0 key = false →
    lockedThroughoutV .current kind fuel key s0 as →
    Stable fuel s0 (trun .current kind fuel s0 as) key := by
  intro s0 hr hw hl
  exact stable_run_current (SInvC.run SInvC.init pre) (Stable.refl fuel s0 key) hr hw as hl

/-- Any variant (in particular `earlyUnlock`, the code before the fix): a lock held throughout a
    run that starts outside the F13 window keeps the tree in place. -/
theorem stable_run_var {var : Variant} {kind : K → Kind} {fuel : Nat} {s0 s : TSt K V TK}
    {key : TK} (h : SInvC s) (hs : Stable fuel s0 s key) (hr : (s0.root key).isSome)
    (hw : inF13Window s key = false) (as : List (TAct K V TK))
    (hl : lockedThroughoutV var kind fuel key s as) :
    Stable fuel s0 (trun var kind fuel s as) key := by
  induction as generalizing s with
  | nil => exact hs
  | cons a as ih =>
    simp only [lockedThroughoutV] at hl
    exact ih (h.step a) (stable_step_var h hs hr hw a)
      (window_closed_under_lock var kind fuel s key hw hl.1 a) hl.2

theorem locked_stable_var (var : Variant) (kind : K → Kind) (fuel : Nat)
    (pre as : List (TAct K V TK)) (key : TK) :
    let s0 := trun var kind fuel (TSt.init : TSt K V TK) pre
    (s0.root key).isSome → inF13Window s0 key = false →
    lockedThroughoutV var kind fuel key s0 as →
    Stable fuel s0 (trun var kind fuel s0 as) key := by
  intro s0 hr hw hl
  exact stable_run_var (SInvC.run SInvC.init pre) (Stable.refl fuel s0 key) hr hw as hl

/-! ### `Variant.current`: the planned commit's trees stay write-locked until `publish`

fix-c11-tree-lock-until-published.diff: the deferral check takes the write lock of every tree the
commit dereferences (`try_write`: a read-locked tree postpones the commit) and `process_commits`
keeps them until `end_record` has published the record.  Hence no reader holds, or gets, the lock
of a tree inside the F13 window: the hypothesis `inF13Window s0 key = false` of
`locked_stable_current` is a consequence of `0 < s0.locked key` in every reachable state. -/

/-- The log worker's write locks are exactly the trees the planned commit dereferences, and no
    reader holds a lock on any of them. -/
structure WInv (s : TSt K V TK) : Prop where
  w1 : ∀ k ∈ s.wlocked, s.locked k = 0
  w2 : s.wlocked = (s.pend.map (·.derefs)).getD []

theorem WInv.init : WInv (TSt.init : TSt K V TK) :=
  ⟨by simp [TSt.init], by simp [TSt.init]⟩

theorem WInv.step {kind : K → Kind} {fuel : Nat} {s : TSt K V TK} (h : WInv s)
    (a : TAct K V TK) : WInv (tstep .current kind fuel s a) := by
  cases a with
  | commit ops derefs inserts =>
    simp only [tstep]
    repeat (first | exact h | exact ⟨h.w1, h.w2⟩ | split)
  | process =>
    simp only [tstep, process]
    split
    · rename_i c rest hp hq
      split
      · split
        · exact h
        · exact ⟨h.w1, h.w2⟩
      · rename_i hnd
        refine ⟨?_, rfl⟩
        intro k hk
        have hk' : k ∈ c.derefs := hk
        cases hz : s.locked k with
        | zero => rfl
        | succ n =>
          exfalso
          apply hnd
          rw [List.any_eq_true]
          refine ⟨k, hk', ?_⟩
          simp [mustDefer, hz]
    · exact h
  | publish =>
    simp only [tstep, publish]
    split
    · exact h
    · exact ⟨by intro k hk; simp at hk, rfl⟩
  | lock key =>
    simp only [tstep]
    split
    · exact h
    · rename_i hc
      refine ⟨?_, h.w2⟩
      intro k hk
      have hk' : k ∈ s.wlocked := hk
      have hne : k ≠ key := by
        intro e
        subst e
        exact hc (by simpa using hk')
      show (if k = key then s.locked k + 1 else s.locked k) = 0
      rw [if_neg hne]
      exact h.w1 k hk'
  | unlock key =>
    simp only [tstep]
    refine ⟨?_, h.w2⟩
    intro k hk
    have hk' : k ∈ s.wlocked := hk
    have := h.w1 k hk'
    show (if k = key then s.locked k - 1 else s.locked k) = 0
    split <;> omega

theorem WInv.run {kind : K → Kind} {fuel : Nat} {s : TSt K V TK} (h : WInv s)
    (as : List (TAct K V TK)) : WInv (trun .current kind fuel s as) := by
  induction as generalizing s with
  | nil => exact h
  | cons a as ih => exact ih (h.step a)

/-- A held read lock is never inside the F13 window. -/
theorem WInv.no_window {s : TSt K V TK} (h : WInv s) (key : TK) (hl : 0 < s.locked key) :
    inF13Window s key = false := by
  cases hp : s.pend with
  | none => simp [inF13Window, hp]
  | some c =>
    cases hc : c.derefs.contains key with
    | false =>
      have hn : key ∉ c.derefs := by simpa using hc
      simp [inF13Window, hp, hn]
    | true =>
      exfalso
      have hm : key ∈ c.derefs := by simpa using hc
      have hw : key ∈ s.wlocked := by rw [h.w2, hp]; exact hm
      have := h.w1 key hw
      omega

/-- Inside the window the reader's `lock` is not enabled: it has to wait for `publish`. -/
theorem WInv.lock_disabled {kind : K → Kind} {fuel : Nat} {s : TSt K V TK} (h : WInv s)
    (key : TK) (hw : inF13Window s key = true) : tstep .current kind fuel s (.lock key) = s := by
  cases hp : s.pend with
  | none => simp [inF13Window, hp] at hw
  | some c =>
    have hm : key ∈ c.derefs := by simpa [inF13Window, hp] using hw
    have hwl : s.wlocked.contains key = true := by
      rw [h.w2, hp]; simpa using hm
    simp only [tstep, hwl, if_true]

theorem lockedThroughoutV_head {var : Variant} {kind : K → Kind} {fuel : Nat} {key : TK}
    {s : TSt K V TK} {as : List (TAct K V TK)} (hl : lockedThroughoutV var kind fuel key s as) :
    0 < s.locked key := by
  cases as with
  | nil => exact hl
  | cons a as => exact hl.1

/-- The shipped code, full strength: after any prefix `pre` from the initial state, a reader that
    holds the lock of an existing tree throughout `as` sees the tree unchanged. -/
theorem locked_stable_current_full (kind : K → Kind) (fuel : Nat) (pre as : List (TAct K V TK))
    (key : TK) :
    let s0 := trun .current kind fuel (TSt.init : TSt K V TK) pre
    (s0.root key).isSome →
    lockedThroughoutV .current kind fuel key s0 as →
    Stable fuel s0 (trun .current kind fuel s0 as) key := by
  intro s0 hr hl
  have hw : inF13Window s0 key = false :=
    (WInv.run WInv.init pre).no_window key (lockedThroughoutV_head hl)
  exact locked_stable_current kind fuel pre as key hr hw hl

#print axioms stable_run_current
#print axioms locked_stable_current
#print axioms locked_stable_current_full
#print axioms locked_stable_var
#print axioms WInv.run
#print axioms WInv.no_window
#print axioms WInv.lock_disabled
#print axioms window_only_at_lock
#print axioms SInvC.run

end Tr
end CRd
end Pdb
