/-
C11, eventual completion with an explicit bound (patched variant).

From any state in which no reader lock is held, `.publish` followed by `2 * queue.length`
cycles of the log worker (`workerRun n` = `n` copies of `[.process, .publish]`) and nothing
else empties the queue and the planning slot: every postponed tree removal is planned and
published (`completes_bounded`), so the roots of all dereferenced trees are gone
(`completes_roots`); `reachable_completes` states both for every state reachable from
`TSt.init`.

Why `2 * queue.length`: a commit is postponed only because a LATER queued commit lists its tree
in `used_trees` (no lock is held).  What `process` appends to the queue always has
`used = []` (`UsedOk`: a commit without inserts has `used = []`, and only commits without
inserts, or the dereference-only remainder of a commit, are appended).  So if every commit from
position `n` on has `used = []`, after one cycle this holds from position `n - 1` on and the
queue did not grow; once it holds from position 0 nothing is postponed any more and every cycle
removes one commit.  The potential is  `n + queue.length`  (`CleanQ`), initially
`2 * queue.length`, and it drops by at least one per cycle while it is positive.

The closing examples: a concrete run in which two removals are postponed behind reader locks and
complete within the bound after the unlocks (non-vacuity), and the corresponding statement for
`Variant.current` (see the end of the file).
-/
import Pdb.Model.C11Ghost
import Pdb.Proofs.C11Stable

set_option linter.unusedSectionVars false
set_option linter.unusedSimpArgs false
set_option linter.unusedVariables false
namespace Pdb
namespace CRd
namespace Tr
variable {K V TK : Type} [DecidableEq K] [DecidableEq TK]

/-! ### definitions -/

/-- Commits without inserts have `used = []` (`tstep .commit` computes it that way). -/
def UsedOk (s : TSt K V TK) : Prop := ∀ c ∈ s.queue, c.inserts = [] → c.used = []

/-- No reader lock is held. -/
def Unlocked (s : TSt K V TK) : Prop := ∀ k, s.locked k = 0

/-- Keys dereferenced by an unpublished commit were inserted earlier and are not the key of an
    unpublished insert. -/
def DerefFresh (s : TSt K V TK) : Prop :=
  ∀ c ∈ unpub s, ∀ k ∈ c.derefs, k ∈ s.usedKeys ∧ k ∉ insKeys (unpub s)

/-- All keys dereferenced by a list of commits. -/
def derKeys (l : List (TCommit K V TK)) : List TK := l.flatMap (fun c => c.derefs)

theorem mem_derKeys (l : List (TCommit K V TK)) (k : TK) :
    k ∈ derKeys l ↔ ∃ c ∈ l, k ∈ c.derefs := by
  simp only [derKeys, List.mem_flatMap]

/-! ### shape of `process` (patched) and `publish` -/

theorem head_cases (s : TSt K V TK) :
    (s.pend ≠ none ∨ s.queue = []) ∨ ∃ c rest, s.pend = none ∧ s.queue = c :: rest := by
  cases hp : s.pend with
  | some c => left; left; simp
  | none =>
    cases hq : s.queue with
    | nil => left; right; rfl
    | cons c rest => right; exact ⟨c, rest, rfl, rfl⟩

theorem process_noop (var : Variant) (kind : K → Kind) (s : TSt K V TK)
    (h : s.pend ≠ none ∨ s.queue = []) : process var kind s = s := by
  unfold process
  split
  · rename_i c rest hp hq
    rcases h with h | h
    · exact absurd hp h
    · rw [hq] at h; cases h
  · rfl

/-- The three outcomes of `process` in the patched variant. -/
theorem process_patched_cases (kind : K → Kind) (s : TSt K V TK) (c : TCommit K V TK)
    (rest : List (TCommit K V TK)) (hp : s.pend = none) (hq : s.queue = c :: rest) :
    (c.derefs.any (mustDefer s rest) = false ∧
      process .patched kind s =
        { s with queue := rest, pend := some c,
                 toDeref := c.derefs.foldl decDeref s.toDeref, wlocked := c.derefs }) ∨
    (c.derefs.any (mustDefer s rest) = true ∧ c.ops = [] ∧ c.inserts = [] ∧
      process .patched kind s =
        { s with queue := rest ++ [c], pend := none, nDeferred := s.nDeferred + 1 }) ∨
    (c.derefs.any (mustDefer s rest) = true ∧
      process .patched kind s =
        { s with nextId := s.nextId + 1,
                 queue := rest ++ [{ id := s.nextId + 1, ops := [], derefs := c.derefs,
                                     inserts := [], used := [] }],
                 pend := some { c with derefs := [] },
                 nDeferred := s.nDeferred + 1 }) := by
  by_cases hd : c.derefs.any (mustDefer s rest) = true
  · right
    by_cases hem : (c.ops.isEmpty && c.inserts.isEmpty) = true
    · left
      have hem' := hem
      simp only [Bool.and_eq_true, List.isEmpty_iff] at hem'
      refine ⟨hd, hem'.1, hem'.2, ?_⟩
      simp only [process, hp, hq, hd, hem, if_true]
    · right
      refine ⟨hd, ?_⟩
      simp only [process, hp, hq, hd, hem, if_true, if_false]
      rfl
  · left
    have hd' : c.derefs.any (mustDefer s rest) = false := by simpa using hd
    refine ⟨hd', ?_⟩
    simp only [process, hp, hq, hd']
    rfl

theorem process_locked (kind : K → Kind) (s : TSt K V TK) :
    (process .patched kind s).locked = s.locked := by
  rcases head_cases s with h | ⟨c, rest, hp, hq⟩
  · rw [process_noop _ _ _ h]
  · rcases process_patched_cases kind s c rest hp hq with ⟨_, e⟩ | ⟨_, _, _, e⟩ | ⟨_, e⟩ <;> rw [e]

theorem process_root (kind : K → Kind) (s : TSt K V TK) :
    (process .patched kind s).root = s.root := by
  rcases head_cases s with h | ⟨c, rest, hp, hq⟩
  · rw [process_noop _ _ _ h]
  · rcases process_patched_cases kind s c rest hp hq with ⟨_, e⟩ | ⟨_, _, _, e⟩ | ⟨_, e⟩ <;> rw [e]

theorem process_usedKeys (kind : K → Kind) (s : TSt K V TK) :
    (process .patched kind s).usedKeys = s.usedKeys := by
  rcases head_cases s with h | ⟨c, rest, hp, hq⟩
  · rw [process_noop _ _ _ h]
  · rcases process_patched_cases kind s c rest hp hq with ⟨_, e⟩ | ⟨_, _, _, e⟩ | ⟨_, e⟩ <;> rw [e]

/-- `process` rearranges the unpublished commits: same insert keys, same dereferenced keys. -/
theorem process_unpub_keys (kind : K → Kind) (s : TSt K V TK) (k : TK) :
    (k ∈ insKeys (unpub (process .patched kind s)) ↔ k ∈ insKeys (unpub s)) ∧
    (k ∈ derKeys (unpub (process .patched kind s)) ↔ k ∈ derKeys (unpub s)) := by
  rcases head_cases s with h | ⟨c, rest, hp, hq⟩
  · rw [process_noop _ _ _ h]
    exact ⟨Iff.rfl, Iff.rfl⟩
  · rcases process_patched_cases kind s c rest hp hq with ⟨_, e⟩ | ⟨_, _, hi, e⟩ | ⟨_, e⟩
    · rw [e]
      simp [unpub, insKeys, derKeys, hp, hq]
    · rw [e]
      simp [unpub, insKeys, derKeys, hp, hq, hi, or_comm]
    · rw [e]
      simp [unpub, insKeys, derKeys, hp, hq, or_comm]

theorem publish_none (kind : K → Kind) (fuel : Nat) (s : TSt K V TK) (hp : s.pend = none) :
    publish kind fuel s = s := by
  simp only [publish, hp]

theorem publish_queue (kind : K → Kind) (fuel : Nat) (s : TSt K V TK) :
    (publish kind fuel s).queue = s.queue := by
  unfold publish
  split <;> rfl

theorem publish_pend (kind : K → Kind) (fuel : Nat) (s : TSt K V TK) :
    (publish kind fuel s).pend = none := by
  unfold publish
  split
  · assumption
  · rfl

theorem publish_locked (kind : K → Kind) (fuel : Nat) (s : TSt K V TK) :
    (publish kind fuel s).locked = s.locked := by
  unfold publish
  split <;> rfl

theorem publish_usedKeys (kind : K → Kind) (fuel : Nat) (s : TSt K V TK) :
    (publish kind fuel s).usedKeys = s.usedKeys := by
  unfold publish
  split <;> rfl

theorem publish_root (kind : K → Kind) (fuel : Nat) (s : TSt K V TK) (c : TCommit K V TK)
    (hp : s.pend = some c) :
    (publish kind fuel s).root = (applyTrees fuel (TSt.forest s) c).root := by
  simp only [publish, hp]
  rfl

theorem unpub_publish (kind : K → Kind) (fuel : Nat) (s : TSt K V TK) :
    unpub (publish kind fuel s) = s.queue := by
  simp [unpub, publish_pend, publish_queue]

/-! ### `UsedOk` is an invariant -/

theorem UsedOk.init : UsedOk (TSt.init : TSt K V TK) := by
  intro c hc
  simp [TSt.init] at hc

theorem UsedOk.step {kind : K → Kind} {fuel : Nat} {s : TSt K V TK} (h : UsedOk s)
    (a : TAct K V TK) : UsedOk (tstep .patched kind fuel s a) := by
  cases a with
  | commit ops derefs inserts =>
    simp only [tstep]
    split
    · exact h
    · split
      · exact h
      · split
        · exact h
        · split
          · exact h
          · split
            · exact h
            · split
              · exact h
              · intro c hc hi
                simp only [List.mem_append, List.mem_singleton] at hc
                rcases hc with hc | hc
                · exact h c hc hi
                · subst hc
                  simp only at hi ⊢
                  simp [hi]
  | process =>
    simp only [tstep]
    rcases head_cases s with hn | ⟨c, rest, hp, hq⟩
    · rw [process_noop _ _ _ hn]; exact h
    · have hc : c.inserts = [] → c.used = [] := h c (by rw [hq]; exact List.mem_cons_self ..)
      have hr : ∀ x ∈ rest, x.inserts = [] → x.used = [] := fun x hx =>
        h x (by rw [hq]; exact List.mem_cons_of_mem _ hx)
      rcases process_patched_cases kind s c rest hp hq with ⟨_, e⟩ | ⟨_, _, hi, e⟩ | ⟨_, e⟩
      · rw [e]; exact hr
      · rw [e]
        intro x hx
        simp only [List.mem_append, List.mem_singleton] at hx
        rcases hx with hx | hx
        · exact hr x hx
        · subst hx; exact hc
      · rw [e]
        intro x hx
        simp only [List.mem_append, List.mem_singleton] at hx
        rcases hx with hx | hx
        · exact hr x hx
        · subst hx; intro _; rfl
  | publish =>
    simp only [tstep]
    intro c hc
    rw [publish_queue] at hc
    exact h c hc
  | lock key =>
    simp only [tstep]
    split
    · exact h
    · exact h
  | unlock key => exact h

theorem UsedOk.run {kind : K → Kind} {fuel : Nat} {s : TSt K V TK} (h : UsedOk s)
    (as : List (TAct K V TK)) : UsedOk (trun .patched kind fuel s as) := by
  induction as generalizing s with
  | nil => exact h
  | cons a as ih => exact ih (h.step a)

/-! ### the log worker drains the queue -/

theorem workerRun_zero : (workerRun 0 : List (TAct K V TK)) = [] := rfl

theorem workerRun_succ (n : Nat) :
    (workerRun (n + 1) : List (TAct K V TK)) = .process :: .publish :: workerRun n := rfl

theorem trun_cons (var : Variant) (kind : K → Kind) (fuel : Nat) (s : TSt K V TK)
    (a : TAct K V TK) (as : List (TAct K V TK)) :
    trun var kind fuel s (a :: as) = trun var kind fuel (tstep var kind fuel s a) as := rfl

theorem trun_append (var : Variant) (kind : K → Kind) (fuel : Nat) (s : TSt K V TK)
    (as bs : List (TAct K V TK)) :
    trun var kind fuel s (as ++ bs) = trun var kind fuel (trun var kind fuel s as) bs := by
  simp only [trun, List.foldl_append]

/-- One cycle of the log worker. -/
def cycle (kind : K → Kind) (fuel : Nat) (s : TSt K V TK) : TSt K V TK :=
  publish kind fuel (process .patched kind s)

theorem trun_workerRun_succ (kind : K → Kind) (fuel : Nat) (s : TSt K V TK) (n : Nat) :
    trun .patched kind fuel s (workerRun (n + 1)) =
      trun .patched kind fuel (cycle kind fuel s) (workerRun n) := rfl

/-- Potential: every commit from position `n` on has `used = []`, and `n + length ≤ m`. -/
def CleanQ (q : List (TCommit K V TK)) (m : Nat) : Prop :=
  ∃ n, n + q.length ≤ m ∧ ∀ c ∈ q.drop n, c.used = []

theorem mem_drop_append {α : Type} (l1 l2 : List α) (n : Nat) (x : α)
    (h : x ∈ (l1 ++ l2).drop n) : x ∈ l1.drop n ∨ x ∈ l2 := by
  induction l1 generalizing n with
  | nil => right; exact List.mem_of_mem_drop h
  | cons a l1 ih =>
    cases n with
    | zero =>
      simp only [List.drop_zero, List.mem_append] at h ⊢
      exact h
    | succ n =>
      simp only [List.cons_append, List.drop_succ_cons] at h ⊢
      exact ih n h

/-- Without locks and with a clean rest of the queue nothing is postponed. -/
theorem mustDefer_false (s : TSt K V TK) (rest : List (TCommit K V TK)) (k : TK)
    (hl : Unlocked s) (hr : ∀ c ∈ rest, c.used = []) : mustDefer s rest k = false := by
  simp only [mustDefer, hl k, Nat.lt_irrefl, decide_false, Bool.false_or]
  rw [List.any_eq_false]
  intro c hc
  rw [hr c hc]
  simp

/-- The potential drops by one with every `process` (while it is positive). -/
theorem cleanQ_process (kind : K → Kind) (s : TSt K V TK) (m : Nat) (hp : s.pend = none)
    (hl : Unlocked s) (hu : UsedOk s) (h : CleanQ s.queue (m + 1)) :
    CleanQ (process .patched kind s).queue m := by
  rcases head_cases s with hn | ⟨c, rest, _, hq⟩
  · rcases hn with hn | hn
    · exact absurd hp hn
    · rw [process_noop _ _ _ (Or.inr hn), hn]
      exact ⟨0, by simp, by simp⟩
  · obtain ⟨n, hn, hcl⟩ := h
    rw [hq] at hn hcl
    simp only [List.length_cons] at hn
    have hc : c.inserts = [] → c.used = [] := hu c (by rw [hq]; exact List.mem_cons_self ..)
    -- what the deferring branches need: `n` is positive
    have hpos : c.derefs.any (mustDefer s rest) = true → ∃ n', n = n' + 1 := by
      intro hd
      cases n with
      | succ n' => exact ⟨n', rfl⟩
      | zero =>
        exfalso
        have : c.derefs.any (mustDefer s rest) = false := by
          rw [List.any_eq_false]
          intro k _
          rw [mustDefer_false s rest k hl (fun x hx => hcl x (by simp [hx]))]
          simp
        rw [this] at hd
        cases hd
    have hsnoc : ∀ (d : TCommit K V TK) (n' : Nat), n = n' + 1 → d.used = [] →
        CleanQ (rest ++ [d]) m := by
      intro d n' e hdu
      subst e
      refine ⟨n', by simp only [List.length_append, List.length_cons, List.length_nil]; omega, ?_⟩
      intro x hx
      rcases mem_drop_append _ _ _ _ hx with hx | hx
      · exact hcl x (by simpa [List.drop_succ_cons] using hx)
      · simp only [List.mem_singleton] at hx
        subst hx; exact hdu
    rcases process_patched_cases kind s c rest hp hq with ⟨_, e⟩ | ⟨hd, _, hi, e⟩ | ⟨hd, e⟩
    · rw [e]
      refine ⟨n - 1, by simp only; omega, ?_⟩
      intro x hx
      apply hcl x
      cases n with
      | zero => exact List.mem_cons_of_mem _ (List.mem_of_mem_drop hx)
      | succ n' => simpa [List.drop_succ_cons] using hx
    · rw [e]
      obtain ⟨n', e'⟩ := hpos hd
      exact hsnoc c n' e' (hc hi)
    · rw [e]
      obtain ⟨n', e'⟩ := hpos hd
      exact hsnoc _ n' e' rfl

theorem Unlocked.cycle {kind : K → Kind} {fuel : Nat} {s : TSt K V TK} (h : Unlocked s) :
    Unlocked (Tr.cycle kind fuel s) := by
  intro k
  unfold Tr.cycle
  rw [publish_locked, process_locked]
  exact h k

theorem UsedOk.cycle {kind : K → Kind} {fuel : Nat} {s : TSt K V TK} (h : UsedOk s) :
    UsedOk (Tr.cycle kind fuel s) :=
  (h.step (kind := kind) (fuel := fuel) .process).step (kind := kind) (fuel := fuel) .publish

/-- `m` worker cycles empty a queue of potential `m`. -/
theorem worker_drains (kind : K → Kind) (fuel : Nat) (m : Nat) :
    ∀ s : TSt K V TK, s.pend = none → Unlocked s → UsedOk s → CleanQ s.queue m →
      (trun .patched kind fuel s (workerRun m)).queue = [] ∧
      (trun .patched kind fuel s (workerRun m)).pend = none := by
  induction m with
  | zero =>
    intro s hp _ _ ⟨n, hn, _⟩
    refine ⟨?_, hp⟩
    show s.queue = []
    exact List.eq_nil_of_length_eq_zero (by omega)
  | succ m ih =>
    intro s hp hl hu hc
    rw [trun_workerRun_succ]
    apply ih
    · exact publish_pend ..
    · exact hl.cycle
    · exact hu.cycle
    · unfold Tr.cycle
      rw [publish_queue]
      exact cleanQ_process kind s m hp hl hu hc

theorem completes_bounded (kind : K → Kind) (fuel : Nat) (s : TSt K V TK) (hu : UsedOk s)
    (hl : Unlocked s) :
    (trun .patched kind fuel s (.publish :: workerRun (2 * s.queue.length))).queue = [] ∧
    (trun .patched kind fuel s (.publish :: workerRun (2 * s.queue.length))).pend = none := by
  rw [trun_cons]
  have hq : (tstep .patched kind fuel s .publish).queue = s.queue := publish_queue ..
  rw [← hq]
  apply worker_drains
  · exact publish_pend ..
  · intro k
    show (publish kind fuel s).locked k = 0
    rw [publish_locked]; exact hl k
  · exact hu.step _
  · refine ⟨(tstep .patched kind fuel s .publish).queue.length, by omega, ?_⟩
    intro c hc
    simp at hc

/-! ### `DerefFresh` is an invariant (together with `SInv`) -/

theorem derefFresh_iff (s : TSt K V TK) :
    DerefFresh s ↔ ∀ k ∈ derKeys (unpub s), k ∈ s.usedKeys ∧ k ∉ insKeys (unpub s) := by
  constructor
  · intro h k hk
    obtain ⟨c, hc, hkc⟩ := (mem_derKeys _ _).mp hk
    exact h c hc k hkc
  · intro h c hc k hkc
    exact h k ((mem_derKeys _ _).mpr ⟨c, hc, hkc⟩)

theorem DerefFresh.init : DerefFresh (TSt.init : TSt K V TK) := by
  intro c hc
  simp [TSt.init, unpub] at hc

/-- Steps that do not add unpublished keys. -/
theorem DerefFresh.of_sub {s s' : TSt K V TK} (h : DerefFresh s)
    (hu : s'.usedKeys = s.usedKeys)
    (hi : ∀ k ∈ insKeys (unpub s'), k ∈ insKeys (unpub s))
    (hd : ∀ k ∈ derKeys (unpub s'), k ∈ derKeys (unpub s)) : DerefFresh s' := by
  rw [derefFresh_iff] at h ⊢
  intro k hk
  have := h k (hd k hk)
  rw [hu]
  exact ⟨this.1, fun hin => this.2 (hi k hin)⟩

theorem DerefFresh.commit_like {s s' : TSt K V TK} (hI : SInv s) (h : DerefFresh s)
    (c : TCommit K V TK) (e_pend : s'.pend = s.pend) (e_queue : s'.queue = s.queue ++ [c])
    (e_uk : s'.usedKeys = c.inserts.map (·.1) ++ s.usedKeys)
    (g2 : ∀ k ∈ c.derefs, (s.root k).isSome) (g3 : ∀ i ∈ c.inserts, i.1 ∉ s.usedKeys) :
    DerefFresh s' := by
  have eU := unpub_snoc s' s c e_pend e_queue
  have hfresh : ∀ k, k ∈ s.usedKeys → k ∉ c.inserts.map (·.1) := by
    intro k hk hm
    obtain ⟨i, hi, e⟩ := List.mem_map.mp hm
    rw [← e] at hk
    exact g3 i hi hk
  intro c' hc' k hk
  rw [eU, List.mem_append, List.mem_singleton] at hc'
  rw [eU, insKeys_snoc, e_uk, List.mem_append, List.mem_append]
  rcases hc' with hc' | hc'
  · have := h c' hc' k hk
    refine ⟨Or.inr this.1, ?_⟩
    rintro (hin | hin)
    · exact this.2 hin
    · exact hfresh k this.1 hin
  · subst hc'
    have hr := g2 k hk
    have hused : k ∈ s.usedKeys := hI.k3 k (hI.k2 k hr)
    refine ⟨Or.inr hused, ?_⟩
    rintro (hin | hin)
    · have := (hI.uk k hin).1
      rw [this] at hr
      cases hr
    · exact hfresh k hused hin

theorem DerefFresh.step {kind : K → Kind} {fuel : Nat} {s : TSt K V TK} (hI : SInv s)
    (h : DerefFresh s) (a : TAct K V TK) : DerefFresh (tstep .patched kind fuel s a) := by
  cases a with
  | commit ops derefs inserts =>
    simp only [tstep]
    split
    · exact h
    · split
      · exact h
      · split
        · exact h
        · split
          · exact h
          · split
            · exact h
            · split
              · exact h
              · rename_i g1 g2 g3 g4 g5 g6
                have g2' : ∀ k ∈ derefs, (s.root k).isSome := by
                  intro k hk
                  have g : (derefs.all fun k => (s.root k).isSome) = true := by
                    cases hb : (derefs.all fun k => (s.root k).isSome) with
                    | true => rfl
                    | false => rw [hb] at g2; simp at g2
                  exact (List.all_eq_true.mp g) k hk
                have g3' : ∀ i ∈ inserts, i.1 ∉ s.usedKeys := by
                  intro i hi
                  have g : (inserts.all fun i => !s.usedKeys.contains i.1) = true := by
                    simpa using g3
                  have := (List.all_eq_true.mp g) i hi
                  simpa using this
                exact DerefFresh.commit_like hI h _ rfl rfl rfl g2' g3'
  | process =>
    simp only [tstep]
    apply DerefFresh.of_sub h (process_usedKeys kind s)
    · intro k hk; exact (process_unpub_keys kind s k).1.mp hk
    · intro k hk; exact (process_unpub_keys kind s k).2.mp hk
  | publish =>
    simp only [tstep]
    have hsub : ∀ c ∈ unpub (publish kind fuel s), c ∈ unpub s := by
      intro c hc
      rw [unpub_publish] at hc
      simp only [unpub, List.mem_append]
      exact Or.inr hc
    apply DerefFresh.of_sub h (publish_usedKeys kind fuel s)
    · intro k hk
      simp only [insKeys, List.mem_flatMap] at hk ⊢
      obtain ⟨c, hc, hkc⟩ := hk
      exact ⟨c, hsub c hc, hkc⟩
    · intro k hk
      simp only [derKeys, List.mem_flatMap] at hk ⊢
      obtain ⟨c, hc, hkc⟩ := hk
      exact ⟨c, hsub c hc, hkc⟩
  | lock key =>
    simp only [tstep]
    split
    · exact h
    · exact h
  | unlock key => exact h

theorem DerefFresh.run {kind : K → Kind} {fuel : Nat} {s : TSt K V TK} (hI : SInv s)
    (h : DerefFresh s) (as : List (TAct K V TK)) : DerefFresh (trun .patched kind fuel s as) := by
  induction as generalizing s with
  | nil => exact h
  | cons a as ih => exact ih (hI.step a) (h.step hI a)

/-! ### the roots of the dereferenced trees are gone at the end -/

/-- `k` is not the key of an unpublished insert, and its root is gone or an unpublished commit
    still dereferences it. -/
def RootGone (k : TK) (s : TSt K V TK) : Prop :=
  k ∉ insKeys (unpub s) ∧ (s.root k = none ∨ k ∈ derKeys (unpub s))

theorem RootGone.process {kind : K → Kind} {k : TK} {s : TSt K V TK} (h : RootGone k s) :
    RootGone k (Tr.process .patched kind s) := by
  unfold RootGone
  rw [process_root, (process_unpub_keys kind s k).1, (process_unpub_keys kind s k).2]
  exact h

theorem RootGone.publish {kind : K → Kind} {fuel : Nat} {k : TK} {s : TSt K V TK}
    (h : RootGone k s) : RootGone k (Tr.publish kind fuel s) := by
  cases hp : s.pend with
  | none => rw [publish_none kind fuel s hp]; exact h
  | some c =>
    have hU : unpub s = c :: s.queue := by simp [unpub, hp]
    obtain ⟨h1, h2⟩ := h
    rw [hU] at h1 h2
    simp only [insKeys, List.flatMap_cons, List.mem_append, not_or] at h1
    simp only [derKeys, List.flatMap_cons, List.mem_append] at h2
    refine ⟨?_, ?_⟩
    · rw [unpub_publish]; exact h1.2
    · rw [unpub_publish, publish_root kind fuel s c hp]
      simp only [applyTrees]
      rcases h2 with h2 | h2 | h2
      · left
        rcases derefFold_root_cases fuel c.derefs (c.inserts.foldl insertTree (TSt.forest s)) k
          with e | e
        · rw [e, insFold_root_other c.inserts _ k h1.1]; exact h2
        · exact e
      · left
        exact derefFold_root_mem fuel c.derefs _ k h2
      · right; exact h2

theorem RootGone.workerRun {kind : K → Kind} {fuel : Nat} {k : TK} (n : Nat) :
    ∀ {s : TSt K V TK}, RootGone k s → RootGone k (trun .patched kind fuel s (Tr.workerRun n)) := by
  induction n with
  | zero => intro s h; exact h
  | succ n ih =>
    intro s h
    rw [trun_workerRun_succ]
    exact ih (h.process.publish)

theorem completes_roots (kind : K → Kind) (fuel : Nat) (s : TSt K V TK) (hu : UsedOk s)
    (hl : Unlocked s) (hd : DerefFresh s) :
    ∀ c ∈ unpub s, ∀ k ∈ c.derefs,
      (trun .patched kind fuel s (.publish :: workerRun (2 * s.queue.length))).root k = none := by
  intro c hc k hk
  have h0 : RootGone k s :=
    ⟨(hd c hc k hk).2, Or.inr ((mem_derKeys _ _).mpr ⟨c, hc, hk⟩)⟩
  have hfin : RootGone k (trun .patched kind fuel s (.publish :: workerRun (2 * s.queue.length))) := by
    rw [trun_cons]
    exact RootGone.workerRun _ (h0.publish)
  obtain ⟨hq, hp⟩ := completes_bounded kind fuel s hu hl
  rcases hfin.2 with h | h
  · exact h
  · simp [unpub, hq, hp, derKeys] at h

theorem reachable_completes (kind : K → Kind) (fuel : Nat) (pre : List (TAct K V TK)) :
    let s := trun .patched kind fuel (TSt.init : TSt K V TK) pre
    Unlocked s →
    (let s' := trun .patched kind fuel s (.publish :: workerRun (2 * s.queue.length))
     s'.queue = [] ∧ s'.pend = none ∧ ∀ c ∈ unpub s, ∀ k ∈ c.derefs, s'.root k = none) := by
  intro s hl
  have hu : UsedOk s := UsedOk.init.run pre
  have hd : DerefFresh s := DerefFresh.init.run SInv.init pre
  obtain ⟨hq, hp⟩ := completes_bounded kind fuel s hu hl
  exact ⟨hq, hp, completes_roots kind fuel s hu hl hd⟩

/-! ### reader locks change only through `lock` / `unlock` (any variant) -/

/-- The tree keys an action locks or unlocks. -/
def actKeys : TAct K V TK → List TK
  | .lock k => [k]
  | .unlock k => [k]
  | _ => []

theorem process_locked_any (var : Variant) (kind : K → Kind) (s : TSt K V TK) :
    (process var kind s).locked = s.locked := by
  cases var with
  | patched => exact process_locked kind s
  | current =>
    unfold process
    split
    · split
      · simp only
        split <;> rfl
      · rfl
    · rfl
  | earlyUnlock =>
    unfold process
    split
    · split
      · simp only
        split <;> rfl
      · rfl
    · rfl

theorem tstep_locked_other (var : Variant) (kind : K → Kind) (fuel : Nat) (s : TSt K V TK)
    (a : TAct K V TK) (k : TK) (h : k ∉ actKeys a) :
    (tstep var kind fuel s a).locked k = s.locked k := by
  cases a with
  | commit ops derefs inserts =>
    simp only [tstep]
    repeat (first | rfl | split)
  | process => simp only [tstep, process_locked_any]
  | publish => simp only [tstep, publish_locked]
  | lock key =>
    have hne : k ≠ key := by simpa [actKeys] using h
    simp only [tstep]
    split
    · rfl
    · simp [hne]
  | unlock key =>
    have hne : k ≠ key := by simpa [actKeys] using h
    simp [tstep, hne]

theorem trun_locked_other (var : Variant) (kind : K → Kind) (fuel : Nat) (k : TK)
    (as : List (TAct K V TK)) :
    ∀ s : TSt K V TK, k ∉ as.flatMap actKeys →
      (trun var kind fuel s as).locked k = s.locked k := by
  induction as with
  | nil => intro s _; rfl
  | cons a as ih =>
    intro s h
    simp only [List.flatMap_cons, List.mem_append, not_or] at h
    rw [trun_cons, ih _ h.2, tstep_locked_other var kind fuel s a k h.1]

/-! ### non-vacuity: two removals postponed behind reader locks complete within the bound -/

def exKind : Nat → Kind := fun _ => .plain

/-- Trees 1 and 3 are inserted and published, both get a reader, then a transaction that writes
    key 7 and removes tree 1 and a transaction that removes tree 3 are committed; three worker
    cycles postpone the removals (three times); the readers go away. -/
def exPre : List (TAct Nat Nat Nat) :=
  [.commit [] [] [(1, [100], [(100, [101]), (101, [])])], .process, .publish,
   .commit [] [] [(3, [300], [(300, [])])], .process, .publish,
   .lock 1, .lock 3,
   .commit [.set 7 1] [1] [], .commit [] [3] [],
   .process, .publish, .process, .publish, .process, .publish,
   .unlock 1, .unlock 3]

def exS : TSt Nat Nat Nat := trun .patched exKind 4 TSt.init exPre
def exS' : TSt Nat Nat Nat := trun .patched exKind 4 exS (.publish :: workerRun (2 * 2))

set_option maxRecDepth 4000 in
/-- The state after `exPre`: two postponed removals queued, no lock held, both trees still
    there, the ordinary write of the first transaction already published; after `.publish` and
    `2 * 2` worker cycles everything is gone. -/
theorem ex_facts :
    exS.queue.length = 2 ∧ exS.pend.isNone = true ∧ 2 ≤ exS.nDeferred ∧
    exS.locked 1 = 0 ∧ exS.locked 3 = 0 ∧
    exS.root 1 = some [100] ∧ exS.root 3 = some [300] ∧
    exS.queue.map (·.derefs) = [[3], [1]] ∧ (exS.tbl 7).isSome = true ∧
    exS'.queue.length = 0 ∧ exS'.pend.isNone = true ∧ exS'.root 1 = none ∧ exS'.root 3 = none ∧
    exS'.node 100 = none ∧ exS'.node 101 = none ∧ exS'.node 300 = none := by
  decide

theorem exS_unlocked : Unlocked exS := by
  intro k
  by_cases h1 : k = 1
  · subst h1; exact ex_facts.2.2.2.1
  · by_cases h3 : k = 3
    · subst h3; exact ex_facts.2.2.2.2.1
    · unfold exS
      rw [trun_locked_other]
      · rfl
      · simp [exPre, actKeys, h1, h3]

/-- The theorem applies to the example (its hypothesis is satisfiable on a run with postponed
    removals) and yields what `ex_facts` computes. -/
example :
    exS'.queue = [] ∧ exS'.pend = none ∧ ∀ c ∈ unpub exS, ∀ k ∈ c.derefs, exS'.root k = none := by
  have h := reachable_completes exKind 4 exPre exS_unlocked
  have e : exS.queue.length = 2 := ex_facts.1
  simp only at h
  unfold exS' 
  rw [← e]
  exact h

/-! ### `Variant.current`: the analogous statement FAILS (livelock without any lock held)

Schedule: trees 1 and 2 inserted and published; `lock 1`, `lock 2`;
  c0 = {derefs [2]}                                   (used = [])
  c  = {inserts [(5,[500],[(500,[])])], derefs [1]}   (used = [2]: tree 2 has a queued
                                                        dereference and a reader)
  c' = {inserts [(6,[600],[(600,[])])], derefs [2]}   (used = [2, 1])
`unlock 1`, `unlock 2`.  From here on no lock is held, yet every worker cycle re-queues the head
commit whole behind the other two, because one of them lists its tree in `used`: c0 behind c
(2 ∈ c.used), c behind c' (1 ∈ c'.used), c' behind c (2 ∈ c.used).  The queue rotates for ever. -/

def curPre : List (TAct Nat Nat Nat) :=
  [.commit [] [] [(1, [100], [(100, [])])], .process, .publish,
   .commit [] [] [(2, [200], [(200, [])])], .process, .publish,
   .lock 1, .lock 2,
   .commit [] [2] [],
   .commit [] [1] [(5, [500], [(500, [])])],
   .commit [] [2] [(6, [600], [(600, [])])],
   .unlock 1, .unlock 2]

def curS : TSt Nat Nat Nat := trun .current exKind 4 TSt.init curPre

/-- What the deferral test looks at. -/
def sig (q : List (TCommit Nat Nat Nat)) : List (List Nat × List Nat) :=
  q.map (fun c => (c.derefs, c.used))

set_option maxRecDepth 8000 in
theorem current_livelock_example :
    curS.queue.length = 3 ∧ curS.pend.isNone = true ∧ curS.locked 1 = 0 ∧ curS.locked 2 = 0 ∧
    sig curS.queue = [([2], []), ([1], [2]), ([2], [2, 1])] ∧
    (trun .current exKind 4 curS (.publish :: workerRun 40)).queue.length = 3 ∧
    (trun .current exKind 4 curS (.publish :: workerRun 40)).root 1 = some [100] ∧
    (trun .current exKind 4 curS (.publish :: workerRun 40)).root 2 = some [200] ∧
    -- the same schedule completes in the patched variant
    (trun .patched exKind 4 (trun .patched exKind 4 TSt.init curPre)
      (.publish :: workerRun (2 * 3))).queue.length = 0 := by
  decide

theorem curS_unlocked : Unlocked curS := by
  intro k
  by_cases h1 : k = 1
  · subst h1; exact current_livelock_example.2.2.1
  · by_cases h2 : k = 2
    · subst h2; exact current_livelock_example.2.2.2.1
    · unfold curS
      rw [trun_locked_other]
      · rfl
      · simp [curPre, actKeys, h1, h2]

/-- `defer_commit` of the current code: the whole head commit goes to the back. -/
theorem process_current_defer (kind : Nat → Kind) (t : TSt Nat Nat Nat)
    (a b : TCommit Nat Nat Nat) (rest : List (TCommit Nat Nat Nat)) (hp : t.pend = none)
    (hq : t.queue = a :: b :: rest) (hd : a.derefs.any (mustDefer t (b :: rest)) = true) :
    (process .current kind t).pend = none ∧
    (process .current kind t).queue = b :: rest ++ [{ a with id := t.nextId + 1 }] := by
  constructor <;> simp only [process, hp, hq, hd, if_true] <;> rfl

/-- The rotating queue. -/
def LL (t : TSt Nat Nat Nat) : Prop :=
  t.pend = none ∧ Unlocked t ∧
  (sig t.queue = [([2], []), ([1], [2]), ([2], [2, 1])] ∨
   sig t.queue = [([1], [2]), ([2], [2, 1]), ([2], [])] ∨
   sig t.queue = [([2], [2, 1]), ([2], []), ([1], [2])])

theorem sig3 (q : List (TCommit Nat Nat Nat)) (x y z : List Nat × List Nat)
    (h : sig q = [x, y, z]) :
    ∃ a b c, q = [a, b, c] ∧ a.derefs = x.1 ∧ a.used = x.2 ∧ b.derefs = y.1 ∧ b.used = y.2 ∧
      c.derefs = z.1 ∧ c.used = z.2 := by
  match q, h with
  | [a, b, c], h =>
    simp only [sig, List.map_cons, List.map_nil, List.cons.injEq, and_true] at h
    obtain ⟨h1, h2, h3⟩ := h
    subst h1 h2 h3
    exact ⟨a, b, c, rfl, rfl, rfl, rfl, rfl, rfl, rfl⟩
  | [], h => simp [sig] at h
  | [_], h => simp [sig] at h
  | [_, _], h => simp [sig] at h
  | _ :: _ :: _ :: _ :: _, h => simp [sig] at h

theorem LL.cycle {kind : Nat → Kind} {fuel : Nat} {t : TSt Nat Nat Nat} (h : LL t) :
    LL (publish kind fuel (process .current kind t)) := by
  obtain ⟨hp, hl, hs⟩ := h
  have key : ∀ (a b c : TCommit Nat Nat Nat), t.queue = [a, b, c] →
      a.derefs.any (mustDefer t [b, c]) = true →
      (publish kind fuel (process .current kind t)).pend = none ∧
      Unlocked (publish kind fuel (process .current kind t)) ∧
      sig (publish kind fuel (process .current kind t)).queue =
        [(b.derefs, b.used), (c.derefs, c.used), (a.derefs, a.used)] := by
    intro a b c hq hd
    obtain ⟨e1, e2⟩ := process_current_defer kind t a b [c] hp hq hd
    refine ⟨publish_pend .., ?_, ?_⟩
    · intro k
      rw [publish_locked, process_locked_any]
      exact hl k
    · rw [publish_queue, e2]
      rfl
  rcases hs with hs | hs | hs
  · obtain ⟨a, b, c, hq, ha1, ha2, hb1, hb2, hc1, hc2⟩ := sig3 _ _ _ _ hs
    have := key a b c hq (by simp [mustDefer, ha1, hb2])
    rw [ha1, ha2, hb1, hb2, hc1, hc2] at this
    exact ⟨this.1, this.2.1, Or.inr (Or.inl this.2.2)⟩
  · obtain ⟨a, b, c, hq, ha1, ha2, hb1, hb2, hc1, hc2⟩ := sig3 _ _ _ _ hs
    have := key a b c hq (by simp [mustDefer, ha1, hb2])
    rw [ha1, ha2, hb1, hb2, hc1, hc2] at this
    exact ⟨this.1, this.2.1, Or.inr (Or.inr this.2.2)⟩
  · obtain ⟨a, b, c, hq, ha1, ha2, hb1, hb2, hc1, hc2⟩ := sig3 _ _ _ _ hs
    have := key a b c hq (by simp [mustDefer, ha1, hc2])
    rw [ha1, ha2, hb1, hb2, hc1, hc2] at this
    exact ⟨this.1, this.2.1, Or.inl this.2.2⟩

theorem LL.run {kind : Nat → Kind} {fuel : Nat} (n : Nat) :
    ∀ {t : TSt Nat Nat Nat}, LL t → LL (trun .current kind fuel t (workerRun n)) := by
  induction n with
  | zero => intro t h; exact h
  | succ n ih => intro t h; exact ih h.cycle

/-- The livelock is permanent: with no lock held and only the log worker running, the three
    commits are re-queued for ever (any number of cycles, any fuel). -/
theorem current_livelock_forever (fuel : Nat) (n : Nat) :
    Unlocked curS ∧
    (trun .current exKind fuel curS (.publish :: workerRun n)).queue.length = 3 := by
  refine ⟨curS_unlocked, ?_⟩
  have h0 : LL curS := by
    refine ⟨?_, curS_unlocked, Or.inl current_livelock_example.2.2.2.2.1⟩
    exact Option.isNone_iff_eq_none.mp current_livelock_example.2.1
  have h1 : trun .current exKind fuel curS (.publish :: workerRun n) =
      trun .current exKind fuel curS (workerRun n) := by
    rw [trun_cons]
    show trun .current exKind fuel (publish exKind fuel curS) (workerRun n) = _
    rw [publish_none exKind fuel curS h0.1]
  rw [h1]
  obtain ⟨_, _, hs⟩ := LL.run (kind := exKind) (fuel := fuel) n h0
  have hlen : (sig (trun .current exKind fuel curS (workerRun n)).queue).length = 3 := by
    rcases hs with hs | hs | hs <;> rw [hs] <;> rfl
  simpa [sig] using hlen

#print axioms completes_bounded
#print axioms completes_roots
#print axioms reachable_completes
#print axioms current_livelock_example
#print axioms current_livelock_forever

end Tr
end CRd
end Pdb
