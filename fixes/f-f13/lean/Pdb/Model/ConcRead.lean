/-
ConcRead: interleaving models for the reader-facing concurrency of parity-db.

Part 1 (`CSt`, `cstep`): the P1 pipeline (Model/Pipeline.lean) split into the ATOMIC actions
of the source, i.e. its critical sections, so that point reads can interleave with the
background workers:

  commit         db.rs `commit_raw`: queue mutex + commit-overlay WRITE lock: tag, insert every
                 entry of the change-set, push.  Gets the next global sequence number.
  pop            `process_commits`: pop the oldest queued commit (queue mutex).
  publish        `process_commits`: plan against (log overlay, tables), then `Log::end_record`:
                 the whole record becomes visible in the log overlay under its write lock.
  cleanOverlay   `process_commits`: `clean_overlay` under the commit-overlay WRITE lock,
                 AFTER `end_record`.
  flush          `flush_logs`: published records become readable by the enacting stage.
  enactWrite     `enact_logs`: ONE location write of the oldest flushed record
                 (`Column::enact_plan` -> `TableFile::write_at`): tables change one location
                 at a time, not atomically per record.
  endRead        `Log::end_read`: the record's entries leave the log overlay, after all its
                 writes reached the tables.
  rBegin         `DbInner::get`: take the commit-overlay READ lock (held until `rEnd`);
                 while any reader is inside, `commit` and `cleanOverlay` are disabled
                 (they need the write lock); several readers may be inside.
  rOverlay       commit-overlay lookup.
  rLog           log-overlay lookup (its own read lock: `LogQuery for RwLock<LogOverlays>`).
  rTable         the table read, NOT atomic with the log-overlay lookup
                 (`ValueTable::for_parts`: `log.value_ref` then `file.slice_at`).
  rEnd           release the lock; the completed read is appended to the ghost list `reads`.

A disabled action is a no-op, so "all interleavings" = all action lists.
Keys are combined keys (column, hashed key) and a "location" is the cell of one key, as in
P1; the index / value-table layers below are tied by correspondence (and Part 2 for the one
place where the index layer has its own hand-over: reindexing).

Part 2 (`Idx`): the minimal model of the index hand-over during reindexing
(`HashColumn::get`, `reindex`, `drop_index`) for pre-finding F11, parameterised by the
reader program so that the unpatched and the patched lock placement are both instances.

Part 3 (`Tr`): the multitree reader registry and the commit deferral of `process_commits` /
`defer_commit` for C11.
-/
import Pdb.Model.Pipeline

namespace Pdb
namespace CRd

variable {K V : Type}

/-- Program counter of one reader thread. `seq` = number of accepted commits when the
    reader took the commit-overlay read lock. -/
inductive RPc (K V : Type) where
  | idle
  | started (k : K) (seq : Nat)
  | missedOverlay (k : K) (seq : Nat)
  | missedLog (k : K) (seq : Nat)
  | done (k : K) (seq : Nat) (res : Option V)

def RPc.isIdle : RPc K V → Bool
  | .idle => true
  | _ => false

/-- A completed read (ghost). -/
structure ReadEvt (K V : Type) where
  tid : Nat
  key : K
  result : Option V
  startSeq : Nat   -- accepted commits at `rBegin`
  endSeq : Nat     -- accepted commits at `rEnd`
deriving DecidableEq, Repr

structure CSt (K V : Type) where
  nextId : Nat
  overlay : K → Option (Nat × Option V)
  queue : List (Commit K V)
  /-- the commit popped by the log worker; `true` once its record is published -/
  inflight : Option (Commit K V × Bool)
  logged : List (Rec K V)          -- published, not yet ended; oldest first
  flushed : Nat
  enactPos : Nat                   -- writes of the oldest record already in `tables`
  tables : Tbl K V
  -- ghost
  base : Tbl K V                   -- `tables` at the last `endRead`
  hist : List (List (Op K V))      -- accepted transactions, commit-return order
  nEnacted : Nat
  readers : Nat → RPc K V
  reads : List (ReadEvt K V)       -- completed reads, in completion order

def CSt.init : CSt K V :=
  { nextId := 0, overlay := fun _ => none, queue := [], inflight := none, logged := [],
    flushed := 0, enactPos := 0, tables := fun _ => none, base := fun _ => none, hist := [],
    nEnacted := 0, readers := fun _ => .idle, reads := [] }

inductive CAct (K V : Type) where
  | commit (tx : List (Op K V))
  | pop
  | publish
  | cleanOverlay
  | flush
  | enactWrite
  | endRead
  | rBegin (t : Nat) (k : K)
  | rOverlay (t : Nat)
  | rLog (t : Nat)
  | rTable (t : Nat)
  | rEnd (t : Nat)

/-- Some reader (of the `N` reader threads) holds the commit-overlay read lock. -/
def inside (N : Nat) (s : CSt K V) : Bool :=
  (List.range N).any (fun t => !(s.readers t).isIdle)

section
variable [DecidableEq K]

/-- What a planner / a reader sees below the commit overlay: log overlay over tables. -/
def cview (s : CSt K V) : Tbl K V := fun k => (logLookup s.logged k).getD (s.tables k)

def setReader (s : CSt K V) (t : Nat) (pc : RPc K V) : CSt K V :=
  { s with readers := fun x => if x = t then pc else s.readers x }

def cstep (kind : K → Kind) (N : Nat) (s : CSt K V) : CAct K V → CSt K V
  | .commit tx =>
    if inside N s then s
    else if !tx.all (opValid kind) then s
    else
      let id := s.nextId + 1
      { s with nextId := id,
               overlay := tx.foldl (ovOp kind id) s.overlay,
               queue := s.queue ++ [{ id := id, ops := tx }],
               hist := s.hist ++ [tx] }
  | .pop =>
    match s.inflight, s.queue with
    | none, c :: q => { s with inflight := some (c, false), queue := q }
    | _, _ => s
  | .publish =>
    match s.inflight with
    | some (c, false) =>
      { s with inflight := some (c, true),
               logged := s.logged ++ [planRec kind (cview s) c.ops] }
    | _ => s
  | .cleanOverlay =>
    if inside N s then s
    else
      match s.inflight with
      | some (c, true) =>
        { s with inflight := none, overlay := c.ops.foldl (cleanOp c.id) s.overlay }
      | _ => s
  | .flush => { s with flushed := s.logged.length }
  | .enactWrite =>
    match s.flushed, s.logged with
    | _ + 1, r :: _ =>
      match r[s.enactPos]? with
      | some kc => { s with tables := upd s.tables kc.1 kc.2, enactPos := s.enactPos + 1 }
      | none => s
    | _, _ => s
  | .endRead =>
    match s.flushed, s.logged with
    | f + 1, r :: rs =>
      if s.enactPos = r.length then
        { s with logged := rs, flushed := f, enactPos := 0, base := s.tables,
                 nEnacted := s.nEnacted + 1 }
      else s
    | _, _ => s
  | .rBegin t k =>
    if t < N ∧ (s.readers t).isIdle then setReader s t (.started k s.hist.length) else s
  | .rOverlay t =>
    match s.readers t with
    | .started k q =>
      match s.overlay k with
      | some (_, v) => setReader s t (.done k q v)
      | none => setReader s t (.missedOverlay k q)
    | _ => s
  | .rLog t =>
    match s.readers t with
    | .missedOverlay k q =>
      match logLookup s.logged k with
      | some c => setReader s t (.done k q (c.map Prod.fst))
      | none => setReader s t (.missedLog k q)
    | _ => s
  | .rTable t =>
    match s.readers t with
    | .missedLog k q => setReader s t (.done k q ((s.tables k).map Prod.fst))
    | _ => s
  | .rEnd t =>
    match s.readers t with
    | .done k q res =>
      { setReader s t .idle with
        reads := s.reads ++ [{ tid := t, key := k, result := res, startSeq := q,
                               endSeq := s.hist.length }] }
    | _ => s

def crun (kind : K → Kind) (N : Nat) (s : CSt K V) (as : List (CAct K V)) : CSt K V :=
  as.foldl (cstep kind N) s

/-- The commit popped but not yet published (still "queued" for the abstraction). -/
def pend (s : CSt K V) : List (Commit K V) :=
  match s.inflight with
  | some (c, false) => [c]
  | _ => []

/-- The commit overlay without the stale entries of a published, not yet cleaned commit. -/
def absOverlay (s : CSt K V) : K → Option (Nat × Option V) :=
  match s.inflight with
  | some (c, true) => c.ops.foldl (cleanOp c.id) s.overlay
  | _ => s.overlay

/-- Refinement map to the sequential pipeline P1: `publish` is P1's `process`, `endRead` is
    P1's `enact`, `commit` and `flush` are themselves, everything else stutters. -/
def abs (s : CSt K V) : St K V :=
  { nextId := s.nextId, overlay := absOverlay s, queue := pend s ++ s.queue,
    logged := s.logged, flushed := s.flushed, tables := s.base, bgErr := false,
    hist := s.hist, nEnacted := s.nEnacted }

/-- `tx` contains a write (set / dereference / reference) to `k`. -/
def writes (tx : List (Op K V)) (k : K) : Bool := tx.any (fun op => op.key = k)

def lastWriterAux (k : K) : List (List (Op K V)) → Nat → Option Nat → Option Nat
  | [], _, acc => acc
  | tx :: rest, i, acc => lastWriterAux k rest (i + 1) (if writes tx k then some i else acc)

/-- Index (in commit-return order) of the last transaction among `txs` that writes `k`:
    the transaction whose value a read of `k` at this point observes. -/
def lastWriter (txs : List (List (Op K V))) (k : K) : Option Nat := lastWriterAux k txs 0 none

end

/-! ## Part 2: index hand-over during reindexing (F11)

`current` / `older`: the index tables of one hash column as seen through (log overlay, file);
an entry maps a key to the address of its value.  The live keys are fixed (`live`); a reindex
batch copies entries of `older` into `current`, and once everything is copied the drop of the
old table is published, flushed and enacted: `dropIndex`, which needs `reindex.write()`.
The reader runs a straight-line program over {lookupCurrent, lockReindex, lookupOlder,
unlockReindex}. -/
namespace Idx

inductive RInstr where
  | lookupCurrent
  | lockReindex
  | lookupOlder
  | unlockReindex
deriving DecidableEq, Repr

/-- `HashColumn::get` as it is: current index first, then `reindex.read()` for the older. -/
def unpatched : List RInstr := [.lookupCurrent, .lockReindex, .lookupOlder, .unlockReindex]
/-- With the fix: `reindex.read()` is taken before the first index lookup. -/
def patched : List RInstr := [.lockReindex, .lookupCurrent, .lookupOlder, .unlockReindex]

structure ISt (K A : Type) where
  current : K → Option A
  older : Option (K → Option A)     -- `none`: no reindex in progress (table dropped)
  readLocks : Nat                   -- holders of `reindex.read()`
  -- one reader looking up `key`
  pc : Nat
  holds : Bool
  found : Option A
  finished : Bool

inductive IAct (K : Type) where
  | copy (k : K)      -- a reindex batch containing k's entry is published
  | dropIndex         -- the final batch's DropTable is enacted
  | reader            -- the reader executes its next instruction

variable {K A : Type} [DecidableEq K]

def ISt.init (current older : K → Option A) : ISt K A :=
  { current := current, older := some older, readLocks := 0, pc := 0, holds := false,
    found := none, finished := false }

/-- every entry of the old table has a copy in the new one (reindex progress complete) -/
def copiedAll (keys : List K) (s : ISt K A) : Bool :=
  match s.older with
  | some o => keys.all (fun k => (o k).isNone || (s.current k).isSome)
  | none => false

def istep (keys : List K) (prog : List RInstr) (key : K) (s : ISt K A) : IAct K → ISt K A
  | .copy k =>
    match s.older with
    | some o =>
      match o k, s.current k with
      | some a, none => { s with current := fun x => if x = k then some a else s.current x }
      | _, _ => s
    | none => s
  | .dropIndex =>
    -- `drop_index` takes `reindex.write()`: excluded while a reader holds `reindex.read()`
    if copiedAll keys s && s.readLocks == 0 then { s with older := none } else s
  | .reader =>
    if s.finished then s
    else
      match prog[s.pc]? with
      | none => { s with finished := true }
      | some .lookupCurrent =>
        if s.found.isSome then { s with pc := s.pc + 1 }
        else { s with pc := s.pc + 1, found := s.current key }
      | some .lockReindex => { s with pc := s.pc + 1, holds := true, readLocks := s.readLocks + 1 }
      | some .lookupOlder =>
        if s.found.isSome then { s with pc := s.pc + 1 }
        else { s with pc := s.pc + 1, found := (s.older.bind (fun o => o key)) }
      | some .unlockReindex =>
        { s with pc := s.pc + 1, holds := false, readLocks := s.readLocks - 1 }

def irun (keys : List K) (prog : List RInstr) (key : K) (s : ISt K A) (as : List (IAct K)) :
    ISt K A :=
  as.foldl (istep keys prog key) s

end Idx

/-! ## Part 3: multitree reader locks and the deferral of tree dereferences (C11)

The write side is collapsed to  queue -> planned -> published  (`tbl`, `root`, `node` are the
state visible through the log overlay): C11 is about the ORDER in which queued commits are
planned and about WHEN a planned removal becomes visible relative to the readers' tree locks;
`flush` / `enact` change neither.

Tree store (logical forest): `root key` = children of the root stored under `key`, `node a` =
children of the node at address `a` (payloads are not modelled; nodes are immutable).
Dereferencing a tree removes its root and frees every node no longer reachable from a remaining
root (what the reference counts compute; their correctness is C10's subject).

Three variants of `process_commits`:
  `current`  the code as it is (with fixes/f-f13/fix-c11-tree-lock-until-published.diff): a commit
             that dereferences a locked tree (or a tree recorded in `used_trees` of a later
             commit) is re-queued WHOLE at the back under a fresh id and its overlay entries are
             copied again (`defer_commit`); otherwise the deferral check has taken the write lock
             of every dereferenced tree (`try_write`), the commit is planned and the locks are
             released only after the record is published (`end_record`): `wlocked`.
  `earlyUnlock`  the code BEFORE that fix (finding F13): as `current`, but the dereference walk
             took the tree's write lock only for its own duration; the record was published
             afterwards, the lock long released (`wlocked` stays empty).
  `patched`  fixes/fix-c11-defer-order.diff: the write locks of all dereferenced trees are taken
             with `try_write` before planning and held until the record is published; if one
             is contended (or the tree is used by a later commit) ONLY the tree dereferences are
             postponed, as a trailing commit of their own, everything else is planned now. -/
namespace Tr

inductive Variant where
  | current
  | patched
  | earlyUnlock
deriving DecidableEq, Repr

/-- `InsertTree`: key, children of the root, new nodes (claimed address, children).
    References to existing nodes are just addresses among the children. -/
abbrev Ins (TK : Type) := TK × List Nat × List (Nat × List Nat)

structure TCommit (K V TK : Type) where
  id : Nat
  ops : List (Op K V)                       -- writes to ordinary columns
  derefs : List TK                          -- `DereferenceTree`
  inserts : List (Ins TK)
  used : List TK                            -- `used_trees` computed at commit time

structure TSt (K V TK : Type) where
  nextId : Nat
  overlay : K → Option (Nat × Option V)
  queue : List (TCommit K V TK)
  pend : Option (TCommit K V TK)            -- planned by the log worker, not yet published
  tbl : Tbl K V                             -- published state of the ordinary columns
  root : TK → Option (List Nat)
  node : Nat → Option (List Nat)
  rootKeys : List TK                        -- keys with a published root (finite support)
  usedKeys : List TK                        -- keys ever given to `InsertTree`
  claimed : List Nat                        -- addresses claimed by unpublished inserts
  locked : TK → Nat                         -- read locks held on the tree's `TreeReader`
  wlocked : List TK                         -- write locks held by the log worker until `publish`
  toDeref : TK → Nat                        -- `Trees::to_dereference`
  -- ghost
  hist : List (List (Op K V))               -- ordinary writes, commit-return order
  done : List (List (Op K V))               -- ... in the order they were published
  deferredKeys : List K                     -- keys written by a commit that was re-queued whole
  nDeferred : Nat

inductive TAct (K V TK : Type) where
  | commit (ops : List (Op K V)) (derefs : List TK) (inserts : List (Ins TK))
  | process                                 -- pop + deferral decision + plan
  | publish                                 -- `end_record` (+ `clean_overlay`)
  | lock (key : TK)
  | unlock (key : TK)

variable {K V TK : Type}

def TSt.init : TSt K V TK :=
  { nextId := 0, overlay := fun _ => none, queue := [], pend := none, tbl := fun _ => none,
    root := fun _ => none, node := fun _ => none, rootKeys := [], usedKeys := [], claimed := [],
    locked := fun _ => 0, wlocked := [], toDeref := fun _ => 0, hist := [], done := [],
    deferredKeys := [], nDeferred := 0 }

def insAddrs (i : Ins TK) : List Nat := i.2.2.map (·.1)

section
variable [DecidableEq K] [DecidableEq TK]

/-- Addresses reachable from a frontier in at most `n` child steps. -/
def reachN (node : Nat → Option (List Nat)) : Nat → List Nat → List Nat
  | 0, fr => fr
  | n + 1, fr => fr ++ reachN node n (fr.flatMap (fun a => (node a).getD []))

/-- Everything reachable from the roots of `keys`. -/
def liveAddrs (fuel : Nat) (root : TK → Option (List Nat)) (node : Nat → Option (List Nat))
    (keys : List TK) : List Nat :=
  reachN node fuel (keys.flatMap (fun k => (root k).getD []))

/-- Tree part of the published state. -/
structure Forest (TK : Type) where
  root : TK → Option (List Nat)
  node : Nat → Option (List Nat)
  rootKeys : List TK

/-- The dereference walk of one tree: remove the root, free what became unreachable. -/
def derefTree (fuel : Nat) (f : Forest TK) (key : TK) : Forest TK :=
  match f.root key with
  | none => f
  | some _ =>
    let root' : TK → Option (List Nat) := fun x => if x = key then none else f.root x
    let keep := liveAddrs fuel root' f.node f.rootKeys
    { f with root := root', node := fun a => if keep.contains a then f.node a else none }

/-- Planning an `InsertTree`: new nodes are written at their claimed addresses, the root is set. -/
def insertTree (f : Forest TK) (ins : Ins TK) : Forest TK :=
  { root := fun x => if x = ins.1 then some ins.2.1 else f.root x,
    node := fun a => ((ins.2.2.find? (fun p => p.1 = a)).map (·.2)).or (f.node a),
    rootKeys := ins.1 :: f.rootKeys }

/-- Tree effects of one commit: inserts, then dereferences. -/
def applyTrees (fuel : Nat) (f : Forest TK) (c : TCommit K V TK) : Forest TK :=
  c.derefs.foldl (derefTree fuel) (c.inserts.foldl insertTree f)

/-- `process_commits`' test for one dereferenced tree: an active (locked) reader, or a later
    queued commit that recorded the tree in `used_trees`. -/
def mustDefer (s : TSt K V TK) (rest : List (TCommit K V TK)) (key : TK) : Bool :=
  decide (0 < s.locked key) || rest.any (fun c => c.used.contains key)

def decDeref (f : TK → Nat) (key : TK) : TK → Nat := fun x => if x = key then f x - 1 else f x
def incDeref (f : TK → Nat) (key : TK) : TK → Nat := fun x => if x = key then f x + 1 else f x

/-- `process_commits` up to (not including) `end_record`. -/
def process (var : Variant) (kind : K → Kind) (s : TSt K V TK) : TSt K V TK :=
  match s.pend, s.queue with
  | none, c :: rest =>
    if c.derefs.any (mustDefer s rest) then
      match var with
      | .current | .earlyUnlock =>
        -- `defer_commit`: the WHOLE commit goes to the back; fresh id and re-copied overlay
        -- entries unless the queue is otherwise empty
        match rest with
        | [] => s
        | _ :: _ =>
          let id := s.nextId + 1
          { s with nextId := id,
                   overlay := c.ops.foldl (cleanOp c.id) (c.ops.foldl (ovOp kind id) s.overlay),
                   queue := rest ++ [{ c with id := id }],
                   deferredKeys := s.deferredKeys ++ c.ops.map Op.key,
                   nDeferred := s.nDeferred + 1 }
      | .patched =>
        -- only the tree dereferences are postponed
        if c.ops.isEmpty && c.inserts.isEmpty then
          { s with queue := rest ++ [c], nDeferred := s.nDeferred + 1 }
        else
          let id := s.nextId + 1
          { s with nextId := id,
                   queue := rest ++ [{ id := id, ops := [], derefs := c.derefs, inserts := [],
                                       used := [] }],
                   pend := some { c with derefs := [] },
                   nDeferred := s.nDeferred + 1 }
    else
      { s with queue := rest,
               pend := some c,
               toDeref := c.derefs.foldl decDeref s.toDeref,
               wlocked := match var with
                          | .earlyUnlock => []   -- the walk's lock is gone when the plan is done
                          | _ => c.derefs }      -- held until `publish`
  | _, _ => s

/-- `end_record` + `clean_overlay`: the planned commit becomes visible. -/
def publish (kind : K → Kind) (fuel : Nat) (s : TSt K V TK) : TSt K V TK :=
  match s.pend with
  | none => s
  | some c =>
    let f := applyTrees fuel { root := s.root, node := s.node, rootKeys := s.rootKeys } c
    { s with pend := none,
             tbl := applyOps kind s.tbl c.ops,
             overlay := c.ops.foldl (cleanOp c.id) s.overlay,
             root := f.root, node := f.node, rootKeys := f.rootKeys,
             claimed := s.claimed.filter (fun a => !(c.inserts.flatMap insAddrs).contains a),
             wlocked := [],
             done := s.done ++ [c.ops] }

def tstep (var : Variant) (kind : K → Kind) (fuel : Nat) (s : TSt K V TK) :
    TAct K V TK → TSt K V TK
  | .commit ops derefs inserts =>
    -- `commit_changes`: a dereferenced tree must exist; tree keys are fresh; claimed
    -- addresses are free (not present, not claimed by an unpublished insert)
    if !(ops.all (opValid kind)) then s
    else if !(derefs.all (fun k => (s.root k).isSome)) then s
    else if !(inserts.all (fun i => !s.usedKeys.contains i.1)) then s
    else if !(decide (inserts.map (·.1)).Nodup) then s
    else if !(decide (inserts.flatMap insAddrs).Nodup) then s
    else if !((inserts.flatMap insAddrs).all
              (fun a => (s.node a).isNone && !s.claimed.contains a)) then s
    else
      let id := s.nextId + 1
      -- `used_trees`: every tree with a queued dereference and an active reader
      let used := if inserts.isEmpty then []
                  else s.rootKeys.filter
                    (fun k => decide (0 < s.toDeref k) && decide (0 < s.locked k))
      { s with nextId := id,
               overlay := ops.foldl (ovOp kind id) s.overlay,
               queue := s.queue ++ [{ id := id, ops := ops, derefs := derefs, inserts := inserts,
                                      used := used }],
               toDeref := derefs.foldl incDeref s.toDeref,
               usedKeys := inserts.map (·.1) ++ s.usedKeys,
               claimed := inserts.flatMap insAddrs ++ s.claimed,
               hist := s.hist ++ [ops] }
  | .process => process var kind s
  | .publish => publish kind fuel s
  | .lock key =>
    -- a reader cannot get the lock while the log worker holds the tree's write lock
    if s.wlocked.contains key then s
    else { s with locked := fun x => if x = key then s.locked x + 1 else s.locked x }
  | .unlock key => { s with locked := fun x => if x = key then s.locked x - 1 else s.locked x }

def trun (var : Variant) (kind : K → Kind) (fuel : Nat) (s : TSt K V TK)
    (as : List (TAct K V TK)) : TSt K V TK :=
  as.foldl (tstep var kind fuel) s

/-- `Db::get` on an ordinary column in this collapsed pipeline. -/
def tget (s : TSt K V TK) (k : K) : Option V :=
  match s.overlay k with
  | some (_, v) => v
  | none => (s.tbl k).map Prod.fst

/-- Every address reachable from the tree's root is present. -/
def treeIntact (fuel : Nat) (s : TSt K V TK) (key : TK) : Bool :=
  match s.root key with
  | none => false
  | some ch => (reachN s.node fuel ch).all (fun a => (s.node a).isSome)

end
end Tr

end CRd
end Pdb
