/-
C11Driver: executable driver (command word `c11`) that replays the action alphabet of the C11
model (`Pdb.CRd.Tr.TAct`: commit {ordinary sets, tree dereferences, tree inserts}, process,
publish, lock, unlock) with `tstep Variant.current`, i.e. the model of the code AS SHIPPED in
/repo (with fixes/f-f13/fix-c11-tree-lock-until-published.diff: the write locks of the
dereferenced trees are held from the deferral check until the record is published; the larger
repair fixes/fix-c11-defer-order.diff is not applied), and prints after every step
the state a client can observe, so that harness/src/c11.rs can be compared line by line:

  kv[<k>=<v|->,..]     `Db::get` of every ordinary key written so far (commit overlay, then the
                       published table)
  roots[<tk>,..]       the tree keys whose root is readable (`Db::get_root`: commit overlay of the
                       unpublished inserts, then the published roots)
  n=<entries>          `get_num_column_value_entries` of the tree column: slots are claimed when
                       `commit` returns (new nodes) and allocated / freed when the log worker PLANS
                       (roots, dereference walk), before the record is published
  held[<tk>:<walk> ..] for every tree with a held read lock, the walk through the guard:
                       `gone` (no root) or `root=<children>;<addr>=<children>;..` depth first,
                       `<addr>=?` for a missing node

Ghost bookkeeping of the driver (not part of `TSt`): the accepted transactions in commit-return
order (`Ghost.hist`), the walk of every locked tree at the time its lock was taken.  With them
`c11 verdict` reports whether the state the shipped-code model reached agrees with the PROPERTY's
reference semantics: `order` (ordinary columns = `spec` of the history in commit-return order
at quiescence and every `get` along the way returned the last committed value, finding F4),
`forest` (every tree whose dereference was committed is gone, every other inserted tree reads
back node by node as when its commit returned, no other node is left: findings F4' and F4c),
`stable` (no locked tree ever changed under its lock; finding F13 of the code before
fix-c11-tree-lock-until-published.diff, `c11 init <fuel> early`).  The harness prints the
verdict of its own, independent oracle; a difference is a disagreement.  Hence: the known
findings are exactly the cases in which the shipped-code model leaves the reference semantics,
and every other deviation of the crate from the model is reported.

Scope of the correspondence: transactions whose tree operations are inserts followed by
dereferences (the order `applyTrees` uses), tree keys never reused, a dereference only of a
tree whose root is published, no commit between the planning and the publication of a record
that frees slots (slot reuse is modelled only after publication).

Protocol (one output line per input line, `bad-op` for malformed input):
  c11 init <fuel> [patched|early]         -> ok     (`patched`: execute `Variant.patched` instead; used only
                                                     to replay the scenarios on a crate built WITH
                                                     fixes/fix-c11-defer-order.diff, PDB_C11_VARIANT=patched;
                                                     `early`: execute `Variant.earlyUnlock`, the code BEFORE
                                                     fix-c11-tree-lock-until-published.diff (finding F13),
                                                     PDB_C11_VARIANT=early)
  c11 commit <ops> <derefs> <inserts>     -> ok <obs> | rejected <obs>
        ops      `-` or `<k>=<v>` joined by `,`      (Set on the ordinary column)
        derefs   `-` or tree keys joined by `,`      (DereferenceTree)
        inserts  `-` or inserts joined by `|`, each `<tk>/<root children>/<new nodes>`,
                 children `-` or addresses joined by `+`, new nodes `-` or
                 `<addr>:<children>` joined by `,`   (InsertTree; addresses as claimed by the crate)
  c11 lock <tk> | unlock <tk>             -> ok <obs>
  c11 trylock <tk>                        -> ok <obs> (as `lock`) | blocked <obs> (`try_read` fails: the log
                                             worker holds the tree's write lock, planned and not published)
  c11 process | publish                   -> ok <obs>      (the two halves of `process_commits`)
  c11 pp                                  -> ok <obs>      (one whole `process_commits` call)
  c11 settle                              -> ok <obs>      (flush / enact / clean: no model step)
  c11 verdict                             -> order=<ok|violated> forest=<ok|violated> stable=<ok|violated>
  c11 ndefer                              -> number of `process` steps so far that took the deferral branch
                                             (observable through the yield point `process_commits.deferred`)
-/
import Pdb.Model.C11Ghost

namespace Pdb
namespace C11Driver
open CRd CRd.Tr

abbrev S := TSt Nat Nat Nat

def kd : Nat → Kind := fun _ => .plain

structure DSt where
  var : Variant                    -- `current` unless `c11 init <fuel> patched` / `early`
  s : S
  g : Ghost Nat
  fuel : Nat
  addrs : List Nat                 -- every address ever claimed (support of `node`)
  kvKeys : List Nat                -- ordinary keys written so far, first-write order
  trees : List Nat                 -- tree keys ever inserted, commit order
  snaps : List (Nat × String)      -- locked tree, its walk when the lock was taken
  unstable : Bool                  -- some locked tree differed from its snapshot
  staleRead : Bool                 -- some `get` did not return the last committed value
  terms : List (Nat × String)      -- inserted tree, its walk when its commit returned
  nDefer : Nat                     -- `process` steps that took the deferral branch

abbrev State := Option DSt

/-- Commits whose entries are in the commit overlay: planned or queued. -/
def unpubC (s : S) : List (TCommit Nat Nat Nat) := s.pend.toList ++ s.queue

def ovRoot (s : S) (k : Nat) : Option (List Nat) :=
  (unpubC s).findSome? (fun c => (c.inserts.find? (fun i => i.1 == k)).map (·.2.1))

def ovNode (s : S) (a : Nat) : Option (List Nat) :=
  (unpubC s).findSome? (fun c => c.inserts.findSome? (fun i => (i.2.2.find? (fun p => p.1 == a)).map (·.2)))

/-- `TreeReader::get_root` / `Db::get_root`: commit overlay, then the published state. -/
def readRoot (s : S) (k : Nat) : Option (List Nat) := (ovRoot s k).or (s.root k)

/-- `TreeReader::get_node` / `Db::get_node`. -/
def readNode (s : S) (a : Nat) : Option (List Nat) := (ovNode s a).or (s.node a)

def joinWith (sep : String) : List String → String
  | [] => ""
  | [x] => x
  | x :: xs => x ++ sep ++ joinWith sep xs

def showAddrs (l : List Nat) : String := if l.isEmpty then "-" else joinWith "+" (l.map toString)

/-- Depth-first walk below address `a`, `n` levels. -/
def walkNode (s : S) : Nat → Nat → List String
  | 0, a => [s!"{a}=!"]
  | n + 1, a =>
    match readNode s a with
    | none => [s!"{a}=?"]
    | some ch => s!"{a}={showAddrs ch}" :: ch.flatMap (walkNode s n)

def walkTree (s : S) (fuel : Nat) (k : Nat) : String :=
  match readRoot s k with
  | none => "gone"
  | some ch => joinWith ";" (s!"root={showAddrs ch}" :: ch.flatMap (walkNode s fuel))

/-- The forest as the allocator sees it: the planned commit's effects are already applied. -/
def plannedForest (fuel : Nat) (s : S) : Forest Nat :=
  match s.pend with
  | some c => applyTrees fuel s.forest c
  | none => s.forest

def entries (d : DSt) : Nat :=
  let f := plannedForest d.fuel d.s
  let roots := (d.trees.filter (fun k => (f.root k).isSome)).length
  let nodes := (d.addrs.filter (fun a => (f.node a).isSome)).length
  let claimed := (d.s.queue.flatMap (fun c => c.inserts.flatMap insAddrs)).length
  roots + nodes + claimed

def showOptNat : Option Nat → String
  | some v => toString v
  | none => "-"

def lockedTrees (d : DSt) : List Nat := d.trees.filter (fun k => decide (0 < d.s.locked k))

def obs (d : DSt) : String :=
  let kv := joinWith "," (d.kvKeys.map (fun k => s!"{k}={showOptNat (tget d.s k)}"))
  let roots := joinWith "," ((d.trees.filter (fun k => (readRoot d.s k).isSome)).map toString)
  let held := joinWith " " ((lockedTrees d).map (fun k => s!"{k}:{walkTree d.s d.fuel k}"))
  s!"kv[{kv}] roots[{roots}] n={entries d} held[{held}]"

/-- After a step: compare every locked tree with its snapshot. -/
def checkSnaps (d : DSt) : DSt :=
  let bad := d.snaps.any (fun p => decide (0 < d.s.locked p.1) && walkTree d.s d.fuel p.1 != p.2)
  let stale := d.s.hist.flatten.any (fun op =>
    tget d.s op.key != (spec kd d.s.hist op.key).map Prod.fst)
  { d with unstable := d.unstable || bad, staleRead := d.staleRead || stale }

def act (d : DSt) (a : TAct Nat Nat Nat) : DSt :=
  let p := gstep d.var kd d.fuel (d.s, d.g) a
  let nd := if isProcess a && wouldDefer d.s then d.nDefer + 1 else d.nDefer
  checkSnaps { d with s := p.1, g := p.2, nDefer := nd }

def parseNats (sep : String) (w : String) : Option (List Nat) :=
  if w == "-" then some [] else (w.splitOn sep).mapM (·.toNat?)

def parseOps (w : String) : Option (List (Op Nat Nat)) :=
  if w == "-" then some []
  else (w.splitOn ",").mapM (fun kv =>
    match kv.splitOn "=" with
    | [k, v] => (k.toNat?).bind (fun k => (v.toNat?).map (fun v => Op.set k v))
    | _ => none)

def parseNode (w : String) : Option (Nat × List Nat) :=
  match w.splitOn ":" with
  | [a, ch] => (a.toNat?).bind (fun a => (parseNats "+" ch).map (fun ch => (a, ch)))
  | _ => none

def parseIns (w : String) : Option (Ins Nat) :=
  match w.splitOn "/" with
  | [k, rc, ns] =>
    (k.toNat?).bind (fun k => (parseNats "+" rc).bind (fun rc =>
      (if ns == "-" then some [] else (ns.splitOn ",").mapM parseNode).map (fun ns => (k, rc, ns))))
  | _ => none

def parseInserts (w : String) : Option (List (Ins Nat)) :=
  if w == "-" then some [] else (w.splitOn "|").mapM parseIns

def addNew (l : List Nat) (xs : List Nat) : List Nat := xs.foldl (fun l x => if l.contains x then l else l ++ [x]) l

def isDer (k : Nat) : Ev Nat → Bool
  | .der k' => k == k'
  | .ins _ => false

/-- Addresses reachable from the readable root of `k` (depth `n`). -/
def reachOf (s : S) (n : Nat) (k : Nat) : List Nat :=
  reachN (readNode s) n ((readRoot s k).getD [])

/-- The property's reference semantics on the observable state, at quiescence: ordinary keys as
    `spec` of the history in commit-return order (and no stale read on the way); every tree whose
    dereference was committed is gone, every other inserted tree reads back exactly as when its
    commit returned, no node outside the live trees is left; no locked tree ever changed. -/
def verdict (d : DSt) : String :=
  let s := d.s
  let order := !d.staleRead &&
    d.kvKeys.all (fun k => (s.tbl k).map Prod.fst == (spec kd s.hist k).map Prod.fst)
  let live := d.trees.filter (fun k => !d.g.hist.any (isDer k))
  let gone := d.trees.all (fun k => live.contains k || (readRoot s k).isNone)
  let intact := d.terms.all (fun p => !live.contains p.1 || walkTree s d.fuel p.1 == p.2)
  let reach := live.flatMap (reachOf s d.fuel)
  let noGarbage := d.addrs.all (fun a => (readNode s a).isNone || reach.contains a)
  let w (b : Bool) : String := if b then "ok" else "violated"
  s!"order={w order} forest={w (gone && intact && noGarbage)} stable={w (!d.unstable)}"

def step (st : State) (ws : List String) : State × String :=
  match st, ws with
  | _, "init" :: f :: rest =>
    match f.toNat?, (if rest == [] then some Variant.current
                     else if rest == ["patched"] then some Variant.patched
                     else if rest == ["early"] then some Variant.earlyUnlock else none) with
    | some f, some v =>
      (some { var := v, s := TSt.init, g := Ghost.init, fuel := f, addrs := [], kvKeys := [],
              trees := [], snaps := [], unstable := false, staleRead := false, terms := [],
              nDefer := 0 }, "ok")
    | _, _ => (st, "bad-op")
  | some d, ["commit", o, dr, i] =>
    match parseOps o, parseNats "," dr, parseInserts i with
    | some ops, some derefs, some inserts =>
      let okc := commitOk kd d.s ops derefs inserts
      let d1 := act d (.commit ops derefs inserts)
      let d2 := if okc then
          { d1 with addrs := addNew d1.addrs (inserts.flatMap insAddrs),
                    kvKeys := addNew d1.kvKeys (ops.map Op.key),
                    trees := addNew d1.trees (inserts.map (·.1)),
                    terms := d1.terms ++ inserts.map (fun i => (i.1, walkTree d1.s d1.fuel i.1)) }
        else d1
      (some d2, (if okc then "ok " else "rejected ") ++ obs d2)
    | _, _, _ => (st, "bad-op")
  | some d, ["lock", k] =>
    match k.toNat? with
    | some k =>
      let d1 := act d (.lock k)
      let d2 := { d1 with snaps := (k, walkTree d1.s d1.fuel k) :: d1.snaps.filter (fun p => p.1 != k) }
      (some d2, "ok " ++ obs d2)
    | none => (st, "bad-op")
  | some d, ["trylock", k] =>
    match k.toNat? with
    | some k =>
      if d.s.wlocked.contains k then (some d, "blocked " ++ obs d)
      else
        let d1 := act d (.lock k)
        let d2 := { d1 with snaps := (k, walkTree d1.s d1.fuel k) :: d1.snaps.filter (fun p => p.1 != k) }
        (some d2, "ok " ++ obs d2)
    | none => (st, "bad-op")
  | some d, ["unlock", k] =>
    match k.toNat? with
    | some k =>
      let d1 := act d (.unlock k)
      let d2 := if d1.s.locked k = 0 then { d1 with snaps := d1.snaps.filter (fun p => p.1 != k) } else d1
      (some d2, "ok " ++ obs d2)
    | none => (st, "bad-op")
  | some d, ["process"] => let d1 := act d .process; (some d1, "ok " ++ obs d1)
  | some d, ["publish"] => let d1 := act d .publish; (some d1, "ok " ++ obs d1)
  | some d, ["pp"] => let d1 := act (act d .process) .publish; (some d1, "ok " ++ obs d1)
  | some d, ["settle"] => (some d, "ok " ++ obs d)
  | some d, ["verdict"] => (some d, verdict d)
  | some d, ["ndefer"] => (some d, toString d.nDefer)
  | _, _ => (st, "bad-op")

end C11Driver
end Pdb
