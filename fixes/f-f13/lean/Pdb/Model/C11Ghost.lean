/-
C11Ghost: ghost history and schedule predicates for Part 3 (`Tr`) of Pdb/Model/ConcRead.lean
(which is shared with C05).  Everything here is DEFINITIONS used by
the C11 theorems (Pdb/Proofs/C11Forest.lean, C11Current.lean, C11Complete.lean, C11Fuel.lean)
and by the executable driver (Pdb/Model/C11Driver.lean).

  * tree events (`Ev`): one `InsertTree` / one `DereferenceTree`; a commit's tree effect
    (`applyTrees`) is the fold of its events, inserts first (`TCommit.evs`);
  * `seqForest`: the forest obtained by applying a list of events sequentially to the empty
    forest: the REFERENCE semantics "all transactions in commit-return order" when given
    `Ghost.hist`;
  * `Ghost` / `gstep` / `grun`: the run of `tstep` instrumented with the event history in
    commit-return order (`hist`) and in publication order (`done`);
  * `commitOk`: the acceptance test of `tstep (.commit ..)` as one Bool;
  * `wouldDefer`, `noDeferral`: "no commit is postponed in this run" as a decidable predicate
    on the action list (hypothesis of the positive theorems about `Variant.current`);
  * `inF13Window`, `lockedThroughoutV`: the publication gap of F13 as a predicate on states.
-/
import Pdb.Model.ConcRead

namespace Pdb
namespace CRd
namespace Tr

/-- One tree operation of a transaction. -/
inductive Ev (TK : Type) where
  | ins (i : Ins TK)
  | der (k : TK)

variable {K V TK : Type}

def Forest.empty : Forest TK := { root := fun _ => none, node := fun _ => none, rootKeys := [] }

/-- Tree part of the published state. -/
def TSt.forest (s : TSt K V TK) : Forest TK :=
  { root := s.root, node := s.node, rootKeys := s.rootKeys }

/-- Events of one transaction: inserts, then dereferences (the order of `applyTrees`). -/
def evsOf (inserts : List (Ins TK)) (derefs : List TK) : List (Ev TK) :=
  inserts.map Ev.ins ++ derefs.map Ev.der

def TCommit.evs (c : TCommit K V TK) : List (Ev TK) := evsOf c.inserts c.derefs

/-- Instrumentation of a run: tree events in commit-return order / in publication order. -/
structure Ghost (TK : Type) where
  hist : List (Ev TK)
  done : List (Ev TK)

def Ghost.init : Ghost TK := { hist := [], done := [] }

/-- Events of the commit planned and not yet published. -/
def pendEvs (s : TSt K V TK) : List (Ev TK) := (s.pend.map TCommit.evs).getD []

/-- Events of the queued commits, queue order. -/
def queueEvs (s : TSt K V TK) : List (Ev TK) := s.queue.flatMap TCommit.evs

/-- The head commit of the queue when the log worker is free to take it. -/
def headOf (s : TSt K V TK) : Option (TCommit K V TK × List (TCommit K V TK)) :=
  match s.pend, s.queue with
  | none, c :: rest => some (c, rest)
  | _, _ => none

/-- The publication gap of F13 for `key`: a commit that dereferences `key` is planned (its
    walk is finished) and not yet published.  In `Variant.earlyUnlock` (the code before
    fix-c11-tree-lock-until-published.diff) the tree's write lock is released in this window;
    in `Variant.current` it is held (`wlocked`), so no reader holds or gets the lock inside it
    (`Pdb/Proofs/C11Current.lean`, `WInv`). -/
def inF13Window [DecidableEq TK] (s : TSt K V TK) (key : TK) : Bool :=
  (s.pend.map (fun c => c.derefs.contains key)).getD false

section
variable [DecidableEq K] [DecidableEq TK]

def applyEv (fuel : Nat) (f : Forest TK) : Ev TK → Forest TK
  | .ins i => insertTree f i
  | .der k => derefTree fuel f k

/-- Sequential application of tree events to the empty forest. -/
def seqForest (fuel : Nat) (es : List (Ev TK)) : Forest TK := es.foldl (applyEv fuel) Forest.empty

/-- The acceptance test of `tstep (.commit ops derefs inserts)`. -/
def commitOk (kind : K → Kind) (s : TSt K V TK) (ops : List (Op K V)) (derefs : List TK)
    (inserts : List (Ins TK)) : Bool :=
  ops.all (opValid kind) &&
  derefs.all (fun k => (s.root k).isSome) &&
  inserts.all (fun i => !s.usedKeys.contains i.1) &&
  decide (inserts.map (·.1)).Nodup &&
  decide (inserts.flatMap insAddrs).Nodup &&
  (inserts.flatMap insAddrs).all (fun a => (s.node a).isNone && !s.claimed.contains a)

/-- Ghost update of one action, computed from the state BEFORE the action. -/
def gUpd (kind : K → Kind) (s : TSt K V TK) (g : Ghost TK) : TAct K V TK → Ghost TK
  | .commit ops derefs inserts =>
    if commitOk kind s ops derefs inserts then { g with hist := g.hist ++ evsOf inserts derefs }
    else g
  | .publish => { g with done := g.done ++ pendEvs s }
  | _ => g

def gstep (var : Variant) (kind : K → Kind) (fuel : Nat) (p : TSt K V TK × Ghost TK)
    (a : TAct K V TK) : TSt K V TK × Ghost TK :=
  (tstep var kind fuel p.1 a, gUpd kind p.1 p.2 a)

def grun (var : Variant) (kind : K → Kind) (fuel : Nat) (p : TSt K V TK × Ghost TK)
    (as : List (TAct K V TK)) : TSt K V TK × Ghost TK :=
  as.foldl (gstep var kind fuel) p

/-- `process` would postpone the head commit in this state (some tree it dereferences is
    read-locked, or recorded in `used_trees` of a later queued commit). -/
def wouldDefer (s : TSt K V TK) : Bool :=
  ((headOf s).map (fun p => p.1.derefs.any (mustDefer s p.2))).getD false

def isProcess : TAct K V TK → Bool
  | .process => true
  | _ => false

/-- No `process` step of the run postpones a commit: whenever a transaction reaches the head of
    the queue, no tree it dereferences is locked or used by a later queued commit. -/
def noDeferral (var : Variant) (kind : K → Kind) (fuel : Nat) :
    TSt K V TK → List (TAct K V TK) → Bool
  | _, [] => true
  | s, a :: as =>
    !(isProcess a && wouldDefer s) && noDeferral var kind fuel (tstep var kind fuel s a) as

/-- The read lock on `key` is held in every state of the run (any variant). -/
def lockedThroughoutV (var : Variant) (kind : K → Kind) (fuel : Nat) (key : TK) :
    TSt K V TK → List (TAct K V TK) → Prop
  | s, [] => 0 < s.locked key
  | s, a :: as =>
    0 < s.locked key ∧ lockedThroughoutV var kind fuel key (tstep var kind fuel s a) as

/-- The log worker's cycle. -/
def workerCycle : List (TAct K V TK) := [.process, .publish]

/-- `n` cycles of the log worker and nothing else. -/
def workerRun (n : Nat) : List (TAct K V TK) := (List.replicate n workerCycle).flatten

end
end Tr
end CRd
end Pdb
