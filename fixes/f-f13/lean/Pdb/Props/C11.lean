/-
C11  A locked tree reader is never invalidated, and deferral keeps commit order.

Model: Pdb/Model/ConcRead.lean, Part 3 (`Tr`): commit queue, commit overlay, the log worker's
two steps `process` (pop, deferral decision taking the tree write locks, plan) and `publish`
(`end_record` + overlay cleaning + release of those locks), the reader registry (`locked`, the
log worker's write locks `wlocked`,
`to_dereference`, `used_trees`) over a logical forest with claimed addresses, all interleavings
of {commit, process, publish, lock, unlock} as action lists.  Ghost history and schedule
predicates: Pdb/Model/C11Ghost.lean.  Executable driver (`c11`): Pdb/Model/C11Driver.lean.

WHICH THEOREM SPEAKS ABOUT WHICH CODE
  `Variant.current` = /repo as shipped (src/db.rs `process_commits` / `defer_commit` /
      `write_plan`), INCLUDING fixes/f-f13/fix-c11-tree-lock-until-published.diff: the deferral
      check takes the write lock of every tree the commit dereferences (`try_write`; a tree that
      is read-locked postpones the commit as before) and keeps it until `end_record` has
      published the record (`wlocked`).  It is this variant that is TIED TO THE CRATE: the driver
      command `c11` executes `tstep Variant.current` on the op lines that harness/src/c11.rs
      records from the real `Db` (every commit / lock / trylock / unlock / process_commits /
      end_record step of its deterministic scenarios, the F4 / F4' / F4c schedules and the
      publication-gap schedule included) and every observation (ordinary reads, readable roots,
      value-entry count, the walk of every locked tree through its guard, number of deferrals,
      `try_read` refused) must agree.
      Theorems about `current`:
        negative   C11_F4_counterexample, C11_order_false, C11_F4_insert_counterexample,
                   C11_current_livelock (F4c: no lock held, the queue rotates for ever)
        positive   C11_order_partial (any variant), C11_order_current, C11_forest_current
                   (commit-return order for ordinary keys AND for roots / nodes whenever no commit
                   is postponed: hypothesis `noDeferral`, decidable on the action list),
                   C11_locked_stable_current (FULL STRENGTH: a held lock protects the tree, no
                   side condition), C11_no_lock_in_window (no reader holds, or can get, the lock
                   of a tree whose removal is planned and not yet published),
                   C11_forest_published (any variant)
  `Variant.earlyUnlock` = the code BEFORE that fix (finding F13, kept as the negation witness):
      the dereference walk took the tree's write lock only for its own duration.
        negative   C11_F13_counterexample
        positive   C11_locked_stable_outside_window (any variant: a held lock protects the tree
                   unless it was taken inside the F13 window `inF13Window`), C11_F13_window_only
                   (any variant: the window cannot open while the lock is held)
      Tied to code by hand: the harness replays its scenarios on a crate with the fix reverted
      with `PDB_C11_VARIANT=early` (driver: `c11 init <fuel> early`), see
      fixes/f-f13/INTEGRATE.md.
  `Variant.patched` = /repo + fixes/fix-c11-defer-order.diff (~280 lines, judged not small, NOT
      applied to /repo).  The theorems say that the repair proposed there is sound in the model;
      the regular check never executes this variant.  It was tied to code once, by hand: a crate
      built WITH the diff, replayed by the same harness with `PDB_C11_VARIANT=patched` (driver:
      `c11 init <fuel> patched`), agrees with `tstep Variant.patched` on every step of the
      deterministic scenarios and shows none of F4 / F4' / F13 / F4c (fixes/f-c11/INTEGRATE.md):
        C11_order_patched, C11_forest_patched, C11_locked_stable, C11_released_completes,
        C11_released_completes_bounded
  variant independent: C11_fuel_adequate (the depth bound `fuel` of the dereference walk).

THE CURRENT CODE VIOLATES THE PROPERTY IN THREE WAYS (all replayed on the real crate by the
harness, `pdbverif c11`, and predicted step by step by the `current` model):
  F4   `C11_F4_counterexample`: T1 = {DereferenceTree A, Set k=1}, T2 = {Set k=2}, reader lock on
       A held when T1 reaches the head of the queue: the WHOLE of T1 is re-queued behind T2
       under a fresh id and its overlay entries are copied again: reads of k return 1 at once
       and the final value is 1.  Hence `C11_order` is false (`C11_order_false`).
  F4'  `C11_F4_insert_counterexample`: the same re-queueing applied to a transaction that
       inserts a tree B sharing nodes of A and dereferences another, locked, tree C (the
       pruning pattern): the later DereferenceTree A overtakes it, frees the shared nodes, B is
       left with dangling children although B was committed first under A's lock.
  F4c  `C11_current_livelock` (found while proving eventual completion): c0 = {Deref 2},
       c = {Insert 5, Deref 1} with used_trees {2}, c' = {Insert 6, Deref 2} with used_trees {2, 1},
       committed while trees 1 and 2 were locked; after BOTH locks are released each commit is
       re-queued behind another one that lists its tree in `used_trees`, for ever: the removals
       never complete, the inserted trees are never published, `drop(Db)` does not return.
A FOURTH ONE IS FIXED (fix-c11-tree-lock-until-published.diff), its witness is kept for the code
before the fix (`Variant.earlyUnlock`):
  F13  `C11_F13_counterexample`: the dereference walk took the tree's write lock only while it
       PLANNED; the plan was published (`end_record`) after the lock was released.  A reader that
       got the lock in between saw an intact tree whose root and nodes then vanished under its
       held lock.  With the fix the same schedule refuses the lock until the record is published
       and the reader then finds no root (example below `C11_F13_counterexample`).

THE FOREST HALF OF "COMMIT-RETURN ORDER" (roots / nodes).  The literal statement "the final
root / node maps are those of applying all transactions sequentially in commit-return order"
is FALSE for the patched variant and is not what the property wants: `C11_forest_literal_false`
(DereferenceTree A is committed, then InsertTree B sharing A's nodes is committed under A's
lock: applying them in that order frees the shared nodes before B references them; the
property demands that B stays valid, and the patched run keeps it valid by applying the
dereference later).  What holds, and what rules out F4', is `C11_forest_patched`: the final
forest is the sequential application of the tree events in PUBLICATION order, and the
publication order is the commit-return order with `DereferenceTree` events moved to the RIGHT
only (`DelayD`): inserts are never reordered among themselves (`DelayD.ins_order`), no
dereference is ever applied before a transaction committed before it, nothing is lost or
duplicated (`DelayD.perm`).  When nothing is postponed the literal statement holds
(`C11_forest_current`, any variant).

Not covered by a theorem: "trees inserted meanwhile that reuse its nodes stay valid" in
general (it needs the client contract "existing nodes are referenced only under the lock of a
tree that reaches them" plus reference-count correctness, C10); the patched model keeps B
intact on the F4' schedule (example below) and the harness checks it on the real crate.
-/
import Pdb.Proofs.C11Order
import Pdb.Proofs.C11Stable
import Pdb.Proofs.C11Forest
import Pdb.Proofs.C11Current
import Pdb.Proofs.C11Complete
import Pdb.Proofs.C11Fuel

namespace Pdb
open CRd CRd.Tr
variable {K V TK : Type} [DecidableEq K] [DecidableEq TK]

/-- Full statement: once everything is published the ordinary columns hold exactly the
    specification of all transactions in commit-return order. -/
def C11_order (var : Variant) : Prop :=
  ∀ (kind : Nat → Kind) (fuel : Nat) (as : List (TAct Nat Nat Nat)),
    let s := trun var kind fuel (TSt.init : TSt Nat Nat Nat) as
    s.queue = [] → s.pend = none → ∀ k, kind k = .plain → s.tbl k = spec kind s.hist k

private def kd : Nat → Kind := fun _ => .plain

/-- tree A under key 1: root -> 100 -> 101 -/
private def insA : TAct Nat Nat Nat := .commit [] [] [(1, [100], [(100, [101]), (101, [])])]
private def insC : TAct Nat Nat Nat := .commit [] [] [(3, [300], [(300, [])])]

/-- F4: T1 = {DereferenceTree A, Set 7 := 1}, T2 = {Set 7 := 2}; A is locked when T1 reaches the
    head of the queue. -/
private def f4Head : List (TAct Nat Nat Nat) :=
  [insA, .process, .publish, .lock 1, .commit [.set 7 1] [1] [], .commit [.set 7 2] [] [], .process]
private def f4Tail : List (TAct Nat Nat Nat) :=
  [.unlock 1, .process, .publish, .process, .publish, .process, .publish]

/-- F4 on the current code: right after the deferral a read of k returns T1's value although
    T2 committed later, and the final state keeps T1's value; the history says 2. -/
theorem C11_F4_counterexample :
    tget (trun .current kd 4 (TSt.init : TSt Nat Nat Nat) f4Head) 7 = some 1 ∧
    (let s := trun .current kd 4 (TSt.init : TSt Nat Nat Nat) (f4Head ++ f4Tail)
     s.queue = [] ∧ s.pend = none ∧ s.root 1 = none ∧ (s.tbl 7).map Prod.fst = some 1 ∧
     (spec kd s.hist 7).map Prod.fst = some 2) := by decide

theorem C11_order_false : ¬ C11_order .current := by
  intro h
  have := h kd 4 (f4Head ++ f4Tail) (by decide) (by decide) 7 rfl
  revert this
  decide

/-- F4': {InsertTree B sharing node 100 of A, DereferenceTree C} is committed under A's lock while
    C is locked by another reader; DereferenceTree A is committed afterwards.  On the current
    code B ends up with a dangling child. -/
private def f4Ins : List (TAct Nat Nat Nat) :=
  [insA, insC, .process, .publish, .process, .publish,
   .lock 3,
   .lock 1, .commit [] [3] [(2, [100, 200], [(200, [])])], .unlock 1,
   .commit [] [1] [],
   .process, .publish, .process, .publish, .process, .publish,
   .unlock 3, .process, .publish, .process, .publish]

theorem C11_F4_insert_counterexample :
    let s := trun .current kd 4 (TSt.init : TSt Nat Nat Nat) f4Ins
    s.queue = [] ∧ s.pend = none ∧ s.root 2 = some [100, 200] ∧ s.node 100 = none ∧
    treeIntact 4 s 2 = false := by decide

/-- F13: the removal of A is planned, the reader then gets the lock (nothing is visible yet),
    the removal is published under the held lock. -/
private def f13 : List (TAct Nat Nat Nat) :=
  [insA, .process, .publish, .commit [] [1] [], .process, .lock 1]

/-- F13 on the code BEFORE fix-c11-tree-lock-until-published.diff (`Variant.earlyUnlock`). -/
theorem C11_F13_counterexample :
    let s := trun .earlyUnlock kd 4 (TSt.init : TSt Nat Nat Nat) f13
    let s' := tstep .earlyUnlock kd 4 s .publish
    0 < s.locked 1 ∧ 0 < s'.locked 1 ∧ treeIntact 4 s 1 = true ∧ s'.root 1 = none ∧
    s'.node 100 = none := by decide

/-- The same schedule on the shipped code: the reader's `lock` inside the window is not granted
    (the state is unchanged, the window is open: `inF13Window`), the tree is still intact for
    everybody; after `publish` the lock is granted and the reader finds no root. -/
example :
    let s := trun .current kd 4 (TSt.init : TSt Nat Nat Nat) f13
    let s' := tstep .current kd 4 (tstep .current kd 4 s .publish) (.lock 1)
    inF13Window s 1 = true ∧ s.locked 1 = 0 ∧ s.wlocked = [1] ∧ treeIntact 4 s 1 = true ∧
    s'.locked 1 = 1 ∧ s'.wlocked = [] ∧ s'.root 1 = none ∧ s'.node 100 = none := by decide

/-- What remains true of the current code (and holds for the patched one as well): for every key
    that no re-queued transaction writes, the final value is the specification of all
    transactions in commit-return order. -/
theorem C11_order_partial (var : Variant) (kind : K → Kind) (fuel : Nat)
    (as : List (TAct K V TK)) (k : K) :
    let s := trun var kind fuel (TSt.init : TSt K V TK) as
    s.queue = [] → s.pend = none → k ∉ s.deferredKeys → s.tbl k = spec kind s.hist k := by
  intro s hq hp hk
  exact ((OInv.init kind).run as).final hq hp k hk

/-- With the patch nothing but tree dereferences is ever postponed: commit-return order holds
    for every key, whatever the readers lock. -/
theorem C11_order_patched (kind : K → Kind) (fuel : Nat) (as : List (TAct K V TK)) :
    let s := trun .patched kind fuel (TSt.init : TSt K V TK) as
    s.queue = [] → s.pend = none → s.tbl = spec kind s.hist := by
  intro s hq hp
  funext k
  have hd : s.deferredKeys = [] := patched_run_no_deferredKeys TSt.init rfl as
  exact ((OInv.init kind).run as).final hq hp k (by rw [hd]; simp)

/-- While a client holds the read lock of tree `key` (from the state reached by `pre` through
    the whole of `as`), its root and every present node reachable from it (within the depth
    bound `fuel`) are exactly as they were, whatever is committed, planned and published
    meanwhile: other trees dereferenced, trees inserted (also ones sharing its nodes), its own
    dereference committed and postponed. -/
theorem C11_locked_stable (kind : K → Kind) (fuel : Nat) (pre as : List (TAct K V TK)) (key : TK)
    (hr : ((trun .patched kind fuel (TSt.init : TSt K V TK) pre).root key).isSome)
    (hl : lockedThroughout kind fuel key (trun .patched kind fuel TSt.init pre) as) :
    let s0 := trun .patched kind fuel (TSt.init : TSt K V TK) pre
    let s := trun .patched kind fuel s0 as
    s.root key = s0.root key ∧
    ∀ x ∈ reachN s0.node fuel ((s0.root key).getD []), (s0.node x).isSome → s.node x = s0.node x := by
  intro s0 s
  have hi : SInv s0 := SInv.init.run pre
  exact stable_run hi ⟨rfl, fun _ _ _ => rfl⟩ hr as hl

/-- Once the lock is released (and no later commit uses the tree) the postponed removal, when it
    next reaches the head of the queue, is planned and its removal becomes visible with the
    following `publish` ("under fairness": the log worker keeps calling `process`). -/
theorem C11_released_completes (kind : K → Kind) (fuel : Nat) (s : TSt K V TK)
    (c : TCommit K V TK) (rest : List (TCommit K V TK)) (hp : s.pend = none)
    (hq : s.queue = c :: rest)
    (hfree : ∀ k ∈ c.derefs, s.locked k = 0 ∧ ∀ c' ∈ rest, k ∉ c'.used) :
    (Tr.process .patched kind s).pend = some c ∧
    ∀ k ∈ c.derefs, (Tr.publish kind fuel (Tr.process .patched kind s)).root k = none :=
  released_completes s c rest hp hq hfree

/-! ### non-vacuity: the patched variant on the three schedules -/

example :
    tget (trun .patched kd 4 (TSt.init : TSt Nat Nat Nat) f4Head) 7 = some 2 ∧
    (let s := trun .patched kd 4 (TSt.init : TSt Nat Nat Nat) (f4Head ++ f4Tail)
     s.queue = [] ∧ s.pend = none ∧ s.root 1 = none ∧ (s.tbl 7).map Prod.fst = some 2 ∧
     s.nDeferred = 1) := by decide

example :
    let s := trun .patched kd 4 (TSt.init : TSt Nat Nat Nat) f4Ins
    s.queue = [] ∧ s.pend = none ∧ treeIntact 4 s 2 = true ∧ s.root 1 = none ∧ s.root 3 = none ∧
    s.node 100 = some [101] ∧ s.node 300 = none ∧ s.nDeferred = 2 := by decide

/-- the reader is refused while the planner holds the write lock; `lockedThroughout` is
    satisfiable across a postponed dereference and a concurrent insert sharing nodes -/
example :
    (trun .patched kd 4 (TSt.init : TSt Nat Nat Nat) f13).locked 1 = 0 ∧
    lockedThroughout kd 4 1 (trun .patched kd 4 (TSt.init : TSt Nat Nat Nat) [insA, .process, .publish, .lock 1])
      [.commit [] [1] [], .commit [] [] [(2, [100, 200], [(200, [])])], .process, .process, .publish,
       .process] := by
  refine ⟨by decide, ?_⟩
  simp only [lockedThroughout]
  decide

/-! ## `Variant.current`: what does hold of the shipped code -/

/-- (b), ordinary columns.  If no `process` step of the run postpones a commit (`noDeferral`:
    whenever a transaction reaches the head of the queue, no tree it dereferences is read-locked
    or recorded in `used_trees` of a later queued commit; decidable on the action list), the
    shipped code publishes in commit-return order: the final table is the specification. -/
theorem C11_order_current (kind : K → Kind) (fuel : Nat) (as : List (TAct K V TK)) :
    noDeferral .current kind fuel (TSt.init : TSt K V TK) as = true →
    let s := trun .current kind fuel (TSt.init : TSt K V TK) as
    s.queue = [] → s.pend = none → s.tbl = spec kind s.hist :=
  order_noDeferral .current kind fuel as

/-- (b) + (2), tree state.  Under the same hypothesis the final roots, nodes and root keys are
    those of applying the tree events of all accepted transactions sequentially in
    commit-return order (`Ghost.hist`) to the empty forest.  Holds for either variant. -/
theorem C11_forest_current (var : Variant) (kind : K → Kind) (fuel : Nat)
    (as : List (TAct K V TK)) :
    noDeferral var kind fuel (TSt.init : TSt K V TK) as = true →
    let p := grun var kind fuel ((TSt.init : TSt K V TK), Ghost.init) as
    p.1.queue = [] → p.1.pend = none → p.1.forest = seqForest fuel p.2.hist :=
  forest_noDeferral var kind fuel as

/-- Any variant, any schedule, any state of the pipeline: the published forest is the
    sequential application of the tree events in PUBLICATION order. -/
theorem C11_forest_published (var : Variant) (kind : K → Kind) (fuel : Nat)
    (as : List (TAct K V TK)) :
    (grun var kind fuel ((TSt.init : TSt K V TK), Ghost.init) as).1.forest =
      seqForest fuel (grun var kind fuel ((TSt.init : TSt K V TK), Ghost.init) as).2.done :=
  forest_done_init var kind fuel as

/-- Readers on OTHER trees do not disturb the order: tree 3 is locked while
    T1 = {DereferenceTree 1, Set 7 := 1} and T2 = {Set 7 := 2} go through.  The hypothesis of
    `C11_order_current` / `C11_forest_current` holds, and the run is not trivial. -/
private def otherReader : List (TAct Nat Nat Nat) :=
  [insA, insC, .process, .publish, .process, .publish, .lock 3,
   .commit [.set 7 1] [1] [], .commit [.set 7 2] [] [],
   .process, .lock 3, .publish, .process, .unlock 3, .publish, .unlock 3]

example :
    noDeferral .current kd 4 (TSt.init : TSt Nat Nat Nat) otherReader = true ∧
    (let s := trun .current kd 4 (TSt.init : TSt Nat Nat Nat) otherReader
     s.queue = [] ∧ s.pend = none ∧ (s.tbl 7).map Prod.fst = some 2 ∧ s.root 1 = none ∧
     s.node 100 = none ∧ s.root 3 = some [300] ∧ s.nDeferred = 0) ∧
    -- and it fails on the F4 schedule, where the locked tree is the dereferenced one
    noDeferral .current kd 4 (TSt.init : TSt Nat Nat Nat) (f4Head ++ f4Tail) = false := by
  decide

/-- Locked-tree stability for the SHIPPED code, full strength (C11, first half).  If the reader's
    lock on an existing tree is held in every state from `s0` on, root and every present
    reachable node of the tree stay as they are, whatever is committed, postponed, planned and
    published meanwhile.  No side condition on when the lock was acquired: the log worker keeps
    the write lock of every tree a planned commit dereferences until the record is published
    (fix-c11-tree-lock-until-published.diff), so a held read lock is never inside the F13
    window (`C11_no_lock_in_window`). -/
theorem C11_locked_stable_current (kind : K → Kind) (fuel : Nat) (pre as : List (TAct K V TK))
    (key : TK) :
    let s0 := trun .current kind fuel (TSt.init : TSt K V TK) pre
    (s0.root key).isSome →
    lockedThroughoutV .current kind fuel key s0 as →
    (trun .current kind fuel s0 as).root key = s0.root key ∧
    ∀ x ∈ reachN s0.node fuel ((s0.root key).getD []), (s0.node x).isSome →
      (trun .current kind fuel s0 as).node x = s0.node x := by
  intro s0 hr hl
  exact locked_stable_current_full kind fuel pre as key hr hl

/-- The F13 window is closed to readers in the shipped code: in every reachable state a tree
    whose removal is planned and not yet published (`inF13Window`) is not read-locked, and a
    reader's `lock` on it is not enabled (it is granted only after `publish`). -/
theorem C11_no_lock_in_window (kind : K → Kind) (fuel : Nat) (pre : List (TAct K V TK)) (key : TK) :
    let s := trun .current kind fuel (TSt.init : TSt K V TK) pre
    inF13Window s key = true → s.locked key = 0 ∧ tstep .current kind fuel s (.lock key) = s := by
  intro s hw
  have hI : WInv s := WInv.run WInv.init pre
  refine ⟨?_, hI.lock_disabled key hw⟩
  cases hz : s.locked key with
  | zero => rfl
  | succ n =>
    have := hI.no_window key (by omega)
    rw [hw] at this
    cases this

/-- Any variant, in particular the code before the fix (`earlyUnlock`): if the lock is held in
    every state from `s0` on and `s0` is not inside the F13 window (the lock was not acquired
    between the `process` and the `publish` of a commit that dereferences the tree), root and
    every present reachable node of the tree stay as they are. -/
theorem C11_locked_stable_outside_window (var : Variant) (kind : K → Kind) (fuel : Nat)
    (pre as : List (TAct K V TK)) (key : TK) :
    let s0 := trun var kind fuel (TSt.init : TSt K V TK) pre
    (s0.root key).isSome → inF13Window s0 key = false →
    lockedThroughoutV var kind fuel key s0 as →
    (trun var kind fuel s0 as).root key = s0.root key ∧
    ∀ x ∈ reachN s0.node fuel ((s0.root key).getD []), (s0.node x).isSome →
      (trun var kind fuel s0 as).node x = s0.node x := by
  intro s0 hr hw hl
  exact locked_stable_var var kind fuel pre as key hr hw hl

/-- The window is precise, any variant: while the lock on `key` is held and the state is outside
    the window, no action of anybody leads into it (`process` postpones every commit that
    dereferences a locked tree).  So, before the fix, a held lock was invalidated ONLY if it was
    acquired inside the window: the F13 schedule, where `inF13Window` is true when the `lock`
    action is executed. -/
theorem C11_F13_window_only (var : Variant) (kind : K → Kind) (fuel : Nat) (s : TSt K V TK)
    (key : TK) (hw : inF13Window s key = false) (hl : 0 < s.locked key) (a : TAct K V TK) :
    inF13Window (tstep var kind fuel s a) key = false :=
  window_closed_under_lock var kind fuel s key hw hl a

/-- non-vacuity: on the shipped code the lock holds across the postponed dereference of its own
    tree and a concurrent insert sharing its nodes (hypotheses of `C11_locked_stable_current`);
    the window of `C11_no_lock_in_window` is reachable (F13 schedule without the reader); for
    the code before the fix the lock of the F13 schedule is taken inside the window (that
    hypothesis of `C11_locked_stable_outside_window` is exactly what fails there). -/
example :
    ((trun .current kd 4 (TSt.init : TSt Nat Nat Nat) [insA, .process, .publish, .lock 1]).root 1).isSome ∧
    lockedThroughoutV .current kd 4 1
      (trun .current kd 4 (TSt.init : TSt Nat Nat Nat) [insA, .process, .publish, .lock 1])
      [.commit [] [1] [], .commit [] [] [(2, [100, 200], [(200, [])])], .process, .process, .publish,
       .process] ∧
    inF13Window (trun .current kd 4 (TSt.init : TSt Nat Nat Nat)
      [insA, .process, .publish, .commit [] [1] [], .process]) 1 = true ∧
    inF13Window (trun .earlyUnlock kd 4 (TSt.init : TSt Nat Nat Nat)
      [insA, .process, .publish, .commit [] [1] [], .process]) 1 = true ∧
    inF13Window (trun .earlyUnlock kd 4 (TSt.init : TSt Nat Nat Nat) [insA, .process, .publish, .lock 1]) 1 = false ∧
    lockedThroughoutV .earlyUnlock kd 4 1
      (trun .earlyUnlock kd 4 (TSt.init : TSt Nat Nat Nat) [insA, .process, .publish, .lock 1])
      [.commit [] [1] [], .process, .publish] := by
  refine ⟨by decide, ?_, by decide, by decide, by decide, ?_⟩
  · simp only [lockedThroughoutV]
    decide
  · simp only [lockedThroughoutV]
    decide

/-- F4c: eventual completion FAILS for the shipped code.  In `curS` (reached by `curPre`, see
    Pdb/Proofs/C11Complete.lean) no reader lock is held, three commits are queued, and for EVERY
    number of log-worker cycles the queue still holds all three. -/
theorem C11_current_livelock (fuel : Nat) (n : Nat) :
    Unlocked curS ∧ (trun .current exKind fuel curS (.publish :: workerRun n)).queue.length = 3 :=
  current_livelock_forever fuel n

/-! ## `Variant.patched`: the forest half and bounded completion -/

/-- (2) Forest half of `C11_order_patched`.  Once everything is published, the roots / nodes are
    the sequential application of the tree events in publication order (`done`), and `done` is
    the commit-return order `hist` with `DereferenceTree` events moved to the right only. -/
theorem C11_forest_patched (kind : K → Kind) (fuel : Nat) (as : List (TAct K V TK)) :
    let p := grun .patched kind fuel ((TSt.init : TSt K V TK), Ghost.init) as
    p.1.queue = [] → p.1.pend = none →
      p.1.forest = seqForest fuel p.2.done ∧ DelayD p.2.hist p.2.done :=
  forest_patched kind fuel as

/-- What `DelayD` allows: inserts keep their order exactly, nothing is lost or duplicated. -/
theorem C11_delay_meaning {a b : List (Ev TK)} (h : DelayD a b) :
    b.filterMap insOf = a.filterMap insOf ∧ b.Perm a :=
  ⟨h.ins_order, h.perm⟩

/-- late lock: DereferenceTree A is committed, THEN InsertTree B sharing A's node 100 is
    committed under A's lock, the lock is released, the pipeline runs. -/
private def lateLock : List (TAct Nat Nat Nat) :=
  [insA, .process, .publish, .commit [] [1] [], .lock 1,
   .commit [] [] [(2, [100, 200], [(200, [])])], .unlock 1,
   .process, .publish, .process, .publish, .process, .publish]

/-- The LITERAL forest statement (final forest = all transactions applied sequentially in
    commit-return order) is false of the patched variant, and it is the patched run that is
    right: sequentially, A's nodes are freed before B refers to them (B dangling); the patched
    run postpones the removal behind B, B is intact, A is gone. -/
theorem C11_forest_literal_false :
    let p := grun .patched kd 4 ((TSt.init : TSt Nat Nat Nat), Ghost.init) lateLock
    p.1.queue = [] ∧ p.1.pend = none ∧
    (seqForest 4 p.2.hist).root 2 = some [100, 200] ∧ (seqForest 4 p.2.hist).node 100 = none ∧
    p.1.root 2 = some [100, 200] ∧ p.1.node 100 = some [101] ∧ treeIntact 4 p.1 2 = true ∧
    p.1.root 1 = none ∧ p.1.nDeferred = 1 := by decide

/-- (3) Eventual completion with a bound.  From ANY reachable state of the patched variant in
    which no reader lock is held, one `publish` and `2 * queue.length` cycles of the log worker
    (`workerRun n` = `n` times `[process, publish]`; `1 + 4 * queue.length` steps in all, no
    other action in between) empty the pipeline, and every tree with a queued or planned
    dereference has lost its root: every postponed removal is complete. -/
theorem C11_released_completes_bounded (kind : K → Kind) (fuel : Nat) (pre : List (TAct K V TK)) :
    let s := trun .patched kind fuel (TSt.init : TSt K V TK) pre
    Unlocked s →
    (let s' := trun .patched kind fuel s (.publish :: workerRun (2 * s.queue.length))
     s'.queue = [] ∧ s'.pend = none ∧ ∀ c ∈ unpub s, ∀ k ∈ c.derefs, s'.root k = none) :=
  reachable_completes kind fuel pre

/-- non-vacuity: `exPre` (Pdb/Proofs/C11Complete.lean) leaves TWO postponed removals queued
    (three deferrals happened), no lock held, both trees still present; the bound `2 * 2`
    suffices. -/
example :
    exS.queue.length = 2 ∧ 2 ≤ exS.nDeferred ∧ exS.root 1 = some [100] ∧ exS.root 3 = some [300] ∧
    Unlocked exS ∧ exS'.queue = [] ∧ exS'.pend = none ∧ exS'.root 1 = none ∧ exS'.root 3 = none := by
  have h := ex_facts
  refine ⟨h.1, h.2.2.1, h.2.2.2.2.2.1, h.2.2.2.2.2.2.1, exS_unlocked, ?_, ?_, ?_, ?_⟩
  · exact List.length_eq_zero_iff.mp h.2.2.2.2.2.2.2.2.2.1
  · exact Option.isNone_iff_eq_none.mp h.2.2.2.2.2.2.2.2.2.2.1
  · exact h.2.2.2.2.2.2.2.2.2.2.2.1
  · exact h.2.2.2.2.2.2.2.2.2.2.2.2.1

/-! ## the depth bound -/

/-- (5) Fuel adequacy.  `derefTree fuel` keeps what `reachN .. fuel` finds from the remaining
    roots and frees everything else; all theorems above quantify over every `fuel`, including
    too small ones (where the model walk frees too much).  If every path below the roots has at
    most `d` edges (`Forest.HeightLe f d`, decidable) and `d ≤ fuel`, the walk is exact: a node
    is kept iff it is reachable (`Reach`, unbounded) from a remaining root, and the result does
    not depend on `fuel`. -/
theorem C11_fuel_adequate (fuel fuel' d : Nat) (f : Forest TK) (key : TK)
    (hd : f.HeightLe d) (hle : d ≤ fuel) (hle' : d ≤ fuel') :
    derefTree fuel f key = derefTree fuel' f key ∧
    (∀ a, Reach f.node (remFrontier f key) a → (derefTree fuel f key).node a = f.node a) ∧
    (∀ a, (f.root key).isSome → ¬ Reach f.node (remFrontier f key) a →
      (derefTree fuel f key).node a = none) :=
  ⟨derefTree_fuel_irrelevant fuel fuel' d f key hd hle hle',
   fun a hr => derefTree_keeps_reachable fuel d f key a hd hle hr,
   fun a hr hn => derefTree_frees_unreachable fuel f key a hr hn⟩

/-- non-vacuity (and necessity of the hypothesis): `exForest` (Pdb/Proofs/C11Fuel.lean) has
    height 2; fuel 1 frees node 102 although root 2 still reaches it, fuel 2 and 7 keep it. -/
example :
    exForest.HeightLe 2 ∧ ¬ exForest.HeightLe 1 ∧ (derefTree 1 exForest 1).node 102 = none ∧
    (derefTree 2 exForest 1).node 102 = some [] ∧ (derefTree 7 exForest 1).node 102 = some [] := by
  decide

end Pdb

#print axioms Pdb.C11_F4_counterexample
#print axioms Pdb.C11_order_false
#print axioms Pdb.C11_F4_insert_counterexample
#print axioms Pdb.C11_F13_counterexample
#print axioms Pdb.C11_order_partial
#print axioms Pdb.C11_order_patched
#print axioms Pdb.C11_locked_stable
#print axioms Pdb.C11_released_completes
#print axioms Pdb.C11_order_current
#print axioms Pdb.C11_forest_current
#print axioms Pdb.C11_forest_published
#print axioms Pdb.C11_locked_stable_current
#print axioms Pdb.C11_no_lock_in_window
#print axioms Pdb.C11_locked_stable_outside_window
#print axioms Pdb.C11_F13_window_only
#print axioms Pdb.C11_current_livelock
#print axioms Pdb.C11_forest_patched
#print axioms Pdb.C11_delay_meaning
#print axioms Pdb.C11_forest_literal_false
#print axioms Pdb.C11_released_completes_bounded
#print axioms Pdb.C11_fuel_adequate
