//! C11: locked tree readers and the deferral of tree dereferences.
//!
//! Cases by `seed % 5`:
//!   0  F4 exactly: T1 = {DereferenceTree A, Set k=1}, T2 = {Set k=2}, a reader lock on A is
//!      held while T1 reaches the head of the queue.  Oracle: the commit-return-order map says
//!      k = 2 from the moment T2's commit returned, and 2 finally.
//!   1  locked-tree stability: hold the read lock of A; commit DereferenceTree A and InsertTree B
//!      (B shares subtrees of A through `NodeRef::Existing`) in either order; step the pipeline;
//!      every node of A read through the held guard is unchanged; release; step; A is gone, B is
//!      intact, the number of value entries is the number of live roots + distinct live nodes.
//!   2  deferral vs. a transaction that inserts AND dereferences (the pruning pattern):
//!      T_B = {InsertTree B sharing A's nodes, DereferenceTree C} with C locked by another
//!      reader, then T_A = {DereferenceTree A}.  Commit-return order keeps B valid.
//!   3  threaded: reader / writer / pruner threads with the background workers and a watchdog;
//!      a walk under a held lock must see the tree exactly as it was inserted; the counter
//!      written by the pruner's transactions must end at the last committed value.
//!   4  publication gap (needs the yield hook): the log worker is parked after planning the
//!      dereference walk and before `end_record`; a reader asks for the tree's lock.  The crate
//!      (fixes/f-f13/fix-c11-tree-lock-until-published.diff) holds the tree's write lock from the
//!      deferral check until the record is published: `try_read` fails, a blocking `read()` issued
//!      from a probe thread does not return while the worker is parked, it returns after the
//!      publication and finds the tree gone; nothing is ever seen changing under a held lock.
//!      A crate without that fix grants the lock inside the gap and the tree vanishes under it
//!      (finding F13, fixed): that is an ORACLE FAILURE here.
//!
//! Oracle: a logical forest (Arc-shared immutable nodes) + a map in commit-return order.
//!
//! MODEL CORRESPONDENCE (kinds 0, 1, 2, 4; stepping API, `with_background_thread = false`): every
//! action is emitted as an op line of the driver command `c11` (lean/Pdb/Model/C11Driver.lean:
//! `tstep Variant.current`, the model of the code as shipped) together with the state observed on
//! the real crate after it: `Db::get` of every ordinary key written so far, the tree keys with a
//! readable root, `get_num_column_value_entries`, and the full walk of every tree whose read lock
//! is held, through the held guard.  The F4 scenarios are included: there the model predicts
//! the (wrong) behaviour of the shipped code.  Each case ends with `c11 verdict`, answered by THIS
//! file's independent oracle (order / forest / stable = ok | violated): the known findings are
//! exactly the cases where the shipped-code model leaves the property's reference semantics.
//!
//! KNOWN-FINDING lines are emitted only when the finding's own sequence is SHOWN:
//!   F4   (kv)      every wrong read returns T1's value (the re-published one), nothing else;
//!   F4'  (insert)  the only damage to B are missing nodes that B shares with A, freed by the
//!                  overtaking dereference of A; B's root and B's own nodes are intact;
//! Everything else is an ORACLE failure.  In particular F13 (fixed in the crate): a lock granted
//! after the dereferencing commit passed its deferral check / was planned and before its record
//! was published (yield points `process_commits.before_deferral_check`, `.before_end_record`,
//! `.after_end_record`, stamped with one global counter) is reported as `F13-SEQUENCE ..`, as an
//! oracle failure; known_findings.json lists F13 as fixed, so nothing masks it.
use crate::util::*;
use parity_db::{ColumnOptions, Db, NewNode, NodeRef, Operation, Options, TreeReader};
use std::collections::{BTreeMap, HashMap, HashSet};
use std::path::Path;
use std::sync::atomic::{AtomicBool, AtomicU64, Ordering};
use std::sync::{Arc, Mutex};
use std::time::{Duration, Instant};

const TREE_COL: u8 = 0;
const KV_COL: u8 = 1;

fn options(path: &Path, background: bool) -> Options {
	let mut o = Options::with_columns(path, 2);
	o.columns[0] = ColumnOptions { multitree: true, allow_direct_node_access: true, ..Default::default() };
	o.columns[1] = ColumnOptions::default();
	o.salt = Some([7u8; 32]);
	o.with_background_thread = background;
	o.always_flush = true;
	o.stats = false;
	o.sync_wal = !background;
	o.sync_data = !background;
	o
}

/// Logical (immutable, shared) tree node.
pub struct LNode {
	data: Vec<u8>,
	children: Vec<L>,
}
type L = Arc<LNode>;

fn ptr(n: &L) -> usize {
	Arc::as_ptr(n) as usize
}

fn gen_data(rng: &mut Rng, tag: u64) -> Vec<u8> {
	let len = *rng.pick(&[1u64, 8, 20, 33, 60, 200, 700]) as usize;
	let mut d = tag.to_le_bytes().to_vec();
	let mut r = rng.fork();
	while d.len() < len.max(8) {
		d.push(r.next() as u8);
	}
	d
}

fn gen_tree(rng: &mut Rng, depth: u32, tag: &mut u64) -> L {
	*tag += 1;
	let data = gen_data(rng, *tag);
	let n = if depth == 0 { 0 } else { rng.range(if depth >= 2 { 1 } else { 0 }, 3) };
	let children = (0..n).map(|_| gen_tree(rng, depth - 1, tag)).collect();
	Arc::new(LNode { data, children })
}

/// New tree derived from `prev`: keeps some subtrees (shared), replaces others.
fn gen_derived(rng: &mut Rng, prev: &L, tag: &mut u64) -> L {
	*tag += 1;
	let mut children = vec![];
	for c in prev.children.iter() {
		match rng.below(4) {
			0 => children.push(gen_tree(rng, 1, tag)),       // replaced
			1 if !c.children.is_empty() => children.push(gen_derived(rng, c, tag)), // partly shared below
			_ => children.push(c.clone()),                    // shared as is
		}
	}
	if children.is_empty() || (children.len() < 5 && rng.chance(1, 3)) {
		children.push(gen_tree(rng, 1, tag));
	}
	if children.len() > 3 && rng.chance(1, 3) {
		let i = rng.below(children.len() as u64) as usize;
		children.remove(i);
	}
	Arc::new(LNode { data: gen_data(rng, *tag), children })
}

fn distinct_nodes(root: &L, acc: &mut HashSet<usize>) {
	// the root itself is stored under its key, its descendants at addresses
	for c in root.children.iter() {
		if acc.insert(ptr(c)) {
			distinct_nodes(c, acc);
		}
	}
}

fn expected_entries(live: &[&L]) -> u64 {
	let mut acc = HashSet::new();
	for r in live {
		distinct_nodes(r, &mut acc);
	}
	(acc.len() + live.len()) as u64
}

/// Build the `NewNode` of an InsertTree: subtrees with a known address become `Existing`.
fn to_new(node: &L, known: &HashMap<usize, u64>) -> NewNode {
	NewNode {
		data: node.data.clone(),
		children: node
			.children
			.iter()
			.map(|c| match known.get(&ptr(c)) {
				Some(a) => NodeRef::Existing(*a),
				None => NodeRef::New(to_new(c, known)),
			})
			.collect(),
	}
}

/// Walk the stored tree through a (locked) reader and compare with the logical tree;
/// records the address of every logical node.
fn walk(
	rd: &dyn TreeReader,
	root: &L,
	addrs: &mut HashMap<usize, u64>,
	visited: &mut u64,
) -> Result<bool, String> {
	let (data, children) = match rd.get_root().map_err(|e| format!("get_root error {:?}", e))? {
		Some(x) => x,
		None => return Ok(false),
	};
	if data != root.data {
		return Err("root data differs".into())
	}
	if children.len() != root.children.len() {
		return Err(format!("root has {} children, expected {}", children.len(), root.children.len()))
	}
	*visited += 1;
	for (c, a) in root.children.iter().zip(children.iter()) {
		walk_node(rd, c, *a, addrs, visited)?;
	}
	Ok(true)
}

fn walk_node(
	rd: &dyn TreeReader,
	node: &L,
	addr: u64,
	addrs: &mut HashMap<usize, u64>,
	visited: &mut u64,
) -> Result<(), String> {
	let (data, children) = match rd.get_node(addr).map_err(|e| format!("get_node({:#x}) error {:?}", addr, e))? {
		Some(x) => x,
		None => return Err(format!("node at {:#x} is missing", addr)),
	};
	if data != node.data {
		return Err(format!("node at {:#x} was rewritten (data differs, {} vs {} bytes)", addr, data.len(), node.data.len()))
	}
	if children.len() != node.children.len() {
		return Err(format!("node at {:#x} has {} children, expected {}", addr, children.len(), node.children.len()))
	}
	if let Some(prev) = addrs.insert(ptr(node), addr) {
		if prev != addr {
			return Err(format!("shared node seen at two addresses {:#x} / {:#x}", prev, addr))
		}
	}
	*visited += 1;
	for (c, a) in node.children.iter().zip(children.iter()) {
		walk_node(rd, c, *a, addrs, visited)?;
	}
	Ok(())
}

fn key_of(id: u64) -> Vec<u8> {
	let mut r = Rng::new(id ^ 0x7ee5);
	let mut k = vec![];
	for _ in 0..4 {
		k.extend_from_slice(&r.next().to_le_bytes());
	}
	k[0..8].copy_from_slice(&id.to_be_bytes());
	k
}

fn insert_tree(db: &Db, key: &[u8], tree: &L, known: &HashMap<usize, u64>) -> Result<(), parity_db::Error> {
	db.commit_changes(vec![(TREE_COL, Operation::InsertTree(key.to_vec(), to_new(tree, known)))])
}

/// verify tree under a fresh lock; Ok(false) when the root is absent
fn verify_tree(db: &Db, key: &[u8], tree: &L, addrs: &mut HashMap<usize, u64>) -> Result<bool, String> {
	match db.get_tree(TREE_COL, key).map_err(|e| format!("get_tree error {:?}", e))? {
		None => Ok(false),
		Some(reader) => {
			let g = reader.read();
			let mut n = 0;
			walk(&**g, tree, addrs, &mut n)
		},
	}
}

fn kv_get(db: &Db, k: &[u8]) -> Option<Vec<u8>> {
	db.get(KV_COL, k).unwrap()
}

// ------------------------------------------------------------------------------------------
// yield hook of this module: counts the deferral decisions of `process_commits`, stamps the
// planning / publication of records with one global counter, can park the log worker at one point

#[derive(Default)]
struct ParkState {
	parked: bool,
	release: bool,
	armed: bool,
}

/// (deferral check, planned, published, publication of the previous record) stamps of the record
/// that removed a tree's root
type Window = (u64, u64, u64, u64);

struct Hook11 {
	clock: AtomicU64,
	checks: AtomicU64,
	deferred: AtomicU64,
	planned: AtomicU64,
	published: AtomicU64,
	last_check: AtomicU64,
	last_plan: AtomicU64,
	last_pub: AtomicU64,
	park_point: &'static str,
	park: Mutex<ParkState>,
	cv: std::sync::Condvar,
	/// called on the log worker's thread right after a record was published: (check, plan, now)
	on_published: Mutex<Option<Box<dyn Fn(Window) + Send + Sync>>>,
}

thread_local! {
	static PARK_ME11: std::cell::Cell<bool> = const { std::cell::Cell::new(false) };
}

impl Hook11 {
	fn new(park_point: &'static str) -> Arc<Hook11> {
		Arc::new(Hook11 {
			clock: AtomicU64::new(1),
			checks: AtomicU64::new(0),
			deferred: AtomicU64::new(0),
			planned: AtomicU64::new(0),
			published: AtomicU64::new(0),
			last_check: AtomicU64::new(0),
			last_plan: AtomicU64::new(0),
			last_pub: AtomicU64::new(0),
			park_point,
			park: Mutex::new(ParkState::default()),
			cv: std::sync::Condvar::new(),
			on_published: Mutex::new(None),
		})
	}
	fn tick(&self) -> u64 {
		self.clock.fetch_add(1, Ordering::SeqCst)
	}
	fn install(self: &Arc<Hook11>) {
		let h = self.clone();
		parity_db::verif::set_yield_hook(Some(Arc::new(move |name: &'static str| {
			match name {
				"process_commits.before_deferral_check" => {
					h.checks.fetch_add(1, Ordering::SeqCst);
					h.last_check.store(h.tick(), Ordering::SeqCst);
				},
				"process_commits.deferred" => {
					h.deferred.fetch_add(1, Ordering::SeqCst);
				},
				"process_commits.before_end_record" => {
					h.planned.fetch_add(1, Ordering::SeqCst);
					h.last_plan.store(h.tick(), Ordering::SeqCst);
				},
				"process_commits.after_end_record" => {
					h.published.fetch_add(1, Ordering::SeqCst);
					let now = h.tick();
					let w = (
						h.last_check.load(Ordering::SeqCst),
						h.last_plan.load(Ordering::SeqCst),
						now,
						h.last_pub.load(Ordering::SeqCst),
					);
					if let Some(f) = &*h.on_published.lock().unwrap() {
						f(w);
					}
					h.last_pub.store(now, Ordering::SeqCst);
				},
				_ => {},
			}
			if name == h.park_point && PARK_ME11.with(|p| p.get()) {
				let mut st = h.park.lock().unwrap();
				if !st.armed {
					return
				}
				st.armed = false;
				st.parked = true;
				h.cv.notify_all();
				while !st.release {
					st = h.cv.wait(st).unwrap();
				}
				st.parked = false;
				st.release = false;
				h.cv.notify_all();
			}
		})));
	}
	fn uninstall() {
		parity_db::verif::set_yield_hook(None);
	}
	fn arm(&self) {
		let mut st = self.park.lock().unwrap();
		st.armed = true;
		st.release = false;
	}
	fn wait_parked(&self, ms: u64) -> bool {
		let st = self.park.lock().unwrap();
		let (st, _) = self.cv.wait_timeout_while(st, Duration::from_millis(ms), |s| !s.parked).unwrap();
		st.parked
	}
	fn release(&self) {
		let mut st = self.park.lock().unwrap();
		st.release = true;
		st.armed = false;
		self.cv.notify_all();
	}
}

/// 0 = not probed, 1 = yield points of fixes/f-c11/hook-c11.diff absent, 2 = present
static DEFER_HOOK: std::sync::atomic::AtomicU8 = std::sync::atomic::AtomicU8::new(0);

/// Does this build of the crate have `process_commits.before_deferral_check` / `.deferred`?
fn defer_hook_present(root: &Path) -> bool {
	match DEFER_HOOK.load(Ordering::SeqCst) {
		1 => return false,
		2 => return true,
		_ => {},
	}
	let dir = fresh_dir(root, "c11-probe");
	let db = Db::open_or_create(&options(&dir, false)).expect("create");
	let h = Hook11::new("");
	h.install();
	let leaf = Arc::new(LNode { data: vec![1u8; 8], children: vec![] });
	insert_tree(&db, &key_of(1), &leaf, &HashMap::new()).unwrap();
	db.process_commits().unwrap();
	db.commit_changes(vec![(TREE_COL, Operation::DereferenceTree(key_of(1)))]).unwrap();
	db.process_commits().unwrap();
	Hook11::uninstall();
	let present = h.checks.load(Ordering::SeqCst) > 0;
	db.flush_logs().unwrap();
	db.enact_logs().unwrap();
	db.clean_logs().unwrap();
	drop(db);
	let _ = std::fs::remove_dir_all(&dir);
	DEFER_HOOK.store(if present { 2 } else { 1 }, Ordering::SeqCst);
	present
}

// ------------------------------------------------------------------------------------------
// model recorder: performs an action on the real Db, observes, emits the `c11` op line

/// depth bound of the model's walks and of its dereference walk (trees here are at most 5 deep)
const MODEL_FUEL: u64 = 8;
/// model id of the ordinary key b"counter"
const K: u64 = 7;

fn kv_key(id: u64) -> Vec<u8> {
	if id == K {
		b"counter".to_vec()
	} else {
		format!("key-{}", id).into_bytes()
	}
}

fn fmt_children(ch: &[u64]) -> String {
	if ch.is_empty() {
		"-".into()
	} else {
		ch.iter().map(|a| a.to_string()).collect::<Vec<_>>().join("+")
	}
}

fn walk_text_node(rd: &dyn TreeReader, a: u64, fuel: u64, parts: &mut Vec<String>) {
	if fuel == 0 {
		parts.push(format!("{}=!", a));
		return
	}
	match rd.get_node(a) {
		Ok(Some((_, ch))) => {
			parts.push(format!("{}={}", a, fmt_children(&ch)));
			for c in ch.iter() {
				walk_text_node(rd, *c, fuel - 1, parts);
			}
		},
		Ok(None) => parts.push(format!("{}=?", a)),
		Err(e) => parts.push(format!("{}=err:{:?}", a, e).replace(' ', "_")),
	}
}

/// the walk of a locked tree through its guard, in the model's text form
fn walk_text(rd: &dyn TreeReader) -> String {
	match rd.get_root() {
		Ok(Some((_, ch))) => {
			let mut parts = vec![format!("root={}", fmt_children(&ch))];
			for a in ch.iter() {
				walk_text_node(rd, *a, MODEL_FUEL, &mut parts);
			}
			parts.join(";")
		},
		Ok(None) => "gone".into(),
		Err(e) => format!("err:{:?}", e).replace(' ', "_"),
	}
}

type Held<'h> = [(u64, &'h dyn TreeReader)];

struct Rec<'a> {
	db: &'a Db,
	vlen: usize,
	kv: Vec<u64>,
	trees: Vec<u64>,
	/// independent oracle: ordinary keys in commit-return order
	want: BTreeMap<u64, u64>,
	/// reads that did not return the last committed value: (key, got, want, after op)
	stale: Vec<(u64, Option<u64>, u64, String)>,
	hook: Option<Arc<Hook11>>,
	panicked: bool,
}

impl<'a> Rec<'a> {
	fn new(db: &'a Db, vlen: usize, hook: Option<Arc<Hook11>>, t: &mut Trace) -> Rec<'a> {
		// PDB_C11_VARIANT=patched: the crate under test was built with fixes/fix-c11-defer-order.diff
		// and is compared with the model's `Variant.patched`
		// PDB_C11_VARIANT=early: the crate under test lacks fix-c11-tree-lock-until-published.diff
		// (finding F13) and is compared with the model's `Variant.earlyUnlock`; its F13 behaviour is
		// still reported as an oracle failure
		let variant = match std::env::var("PDB_C11_VARIANT").as_deref() {
			Ok("patched") => " patched",
			Ok("early") => " early",
			_ => "",
		};
		t.op(&format!("c11 init {}{}", MODEL_FUEL, variant), "ok");
		Rec { db, vlen, kv: vec![], trees: vec![], want: BTreeMap::new(), stale: vec![], hook, panicked: false }
	}
	fn val(&self, n: u64) -> Vec<u8> {
		let mut v = n.to_le_bytes().to_vec();
		v.resize(self.vlen.max(8), n as u8);
		v
	}
	fn observe(&mut self, held: &Held, after: &str) -> String {
		let mut kvs = vec![];
		for id in self.kv.clone() {
			let got = match self.db.get(KV_COL, &kv_key(id)) {
				Ok(Some(v)) if v.len() >= 8 => {
					let n = u64::from_le_bytes(v[0..8].try_into().unwrap());
					if v == self.val(n) {
						kvs.push(format!("{}={}", id, n));
						Some(n)
					} else {
						kvs.push(format!("{}=?", id));
						Some(u64::MAX)
					}
				},
				Ok(Some(_)) => {
					kvs.push(format!("{}=?", id));
					Some(u64::MAX)
				},
				Ok(None) => {
					kvs.push(format!("{}=-", id));
					None
				},
				Err(e) => {
					kvs.push(format!("{}=err:{:?}", id, e).replace(' ', "_"));
					Some(u64::MAX)
				},
			};
			let want = self.want.get(&id).copied();
			if got != want {
				self.stale.push((id, got, want.unwrap_or(0), after.to_string()));
			}
		}
		let mut roots = vec![];
		for id in self.trees.iter() {
			match self.db.get_root(TREE_COL, &key_of(*id)) {
				Ok(Some(_)) => roots.push(id.to_string()),
				Ok(None) => {},
				Err(e) => roots.push(format!("{}:err:{:?}", id, e).replace(' ', "_")),
			}
		}
		let n = match self.db.get_num_column_value_entries(TREE_COL) {
			Ok(n) => n.to_string(),
			Err(e) => format!("err:{:?}", e).replace(' ', "_"),
		};
		// the model lists locked trees in the order their inserts were committed
		let mut hs = vec![];
		for id in self.trees.iter() {
			if let Some((_, rd)) = held.iter().find(|(h, _)| h == id) {
				hs.push(format!("{}:{}", id, walk_text(*rd)));
			}
		}
		format!("kv[{}] roots[{}] n={} held[{}]", kvs.join(","), roots.join(","), n, hs.join(" "))
	}
	fn emit(&mut self, t: &mut Trace, op: &str, status: &str, held: &Held) {
		let o = self.observe(held, op);
		t.op(&format!("c11 {}", op), &format!("{} {}", status, o));
	}
	/// Learn the addresses the crate claimed for the new nodes of `tree` (readable through the
	/// commit overlay as soon as `commit` returned).
	fn learn(&self, id: u64, tree: &L, known: &HashMap<usize, u64>, learned: &mut HashMap<usize, u64>) -> String {
		fn node(db: &Db, n: &L, a: u64, known: &HashMap<usize, u64>, learned: &mut HashMap<usize, u64>, out: &mut Vec<String>) {
			if known.contains_key(&ptr(n)) {
				return
			}
			learned.insert(ptr(n), a);
			match db.get_node(TREE_COL, a) {
				Ok(Some((_, ch))) => {
					out.push(format!("{}:{}", a, fmt_children(&ch)));
					for (c, ca) in n.children.iter().zip(ch.iter()) {
						node(db, c, *ca, known, learned, out);
					}
				},
				_ => out.push(format!("{}:unreadable", a)),
			}
		}
		match self.db.get_root(TREE_COL, &key_of(id)) {
			Ok(Some((_, ch))) => {
				let mut out = vec![];
				for (c, ca) in tree.children.iter().zip(ch.iter()) {
					node(self.db, c, *ca, known, learned, &mut out);
				}
				format!("{}/{}/{}", id, fmt_children(&ch), if out.is_empty() { "-".to_string() } else { out.join(",") })
			},
			_ => format!("{}/unreadable/-", id),
		}
	}
	/// One transaction: inserts, dereferences (tree column), sets (ordinary column).
	fn commit(
		&mut self,
		t: &mut Trace,
		sets: &[(u64, u64)],
		derefs: &[u64],
		inserts: &[(u64, &L, &HashMap<usize, u64>)],
		held: &Held,
		learned: &mut HashMap<usize, u64>,
	) -> Result<(), parity_db::Error> {
		let mut tx = vec![];
		for (id, tree, known) in inserts.iter() {
			tx.push((TREE_COL, Operation::InsertTree(key_of(*id), to_new(tree, known))));
		}
		for id in derefs.iter() {
			tx.push((TREE_COL, Operation::DereferenceTree(key_of(*id))));
		}
		for (k, v) in sets.iter() {
			tx.push((KV_COL, Operation::Set(kv_key(*k), self.val(*v))));
		}
		let r = self.db.commit_changes(tx);
		let mut ins_txt = vec![];
		if r.is_ok() {
			for (k, v) in sets.iter() {
				if !self.kv.contains(k) {
					self.kv.push(*k);
				}
				self.want.insert(*k, *v);
			}
			for (id, tree, known) in inserts.iter() {
				self.trees.push(*id);
				ins_txt.push(self.learn(*id, tree, known, learned));
			}
		}
		let dash = |v: Vec<String>, sep: &str| if v.is_empty() { "-".to_string() } else { v.join(sep) };
		let op = format!(
			"commit {} {} {}",
			dash(sets.iter().map(|(k, v)| format!("{}={}", k, v)).collect(), ","),
			dash(derefs.iter().map(|d| d.to_string()).collect(), ","),
			dash(ins_txt, "|")
		);
		self.emit(t, &op, if r.is_ok() { "ok" } else { "rejected" }, held);
		r
	}
	fn lock(&mut self, t: &mut Trace, id: u64, held: &Held) {
		self.emit(t, &format!("lock {}", id), "ok", held);
	}
	/// `try_read` of the tree's lock: granted (`held` contains the guard) or refused because the
	/// log worker holds the tree's write lock
	fn trylock(&mut self, t: &mut Trace, id: u64, granted: bool, held: &Held) {
		self.emit(t, &format!("trylock {}", id), if granted { "ok" } else { "blocked" }, held);
	}
	fn unlock(&mut self, t: &mut Trace, id: u64, held: &Held) {
		self.emit(t, &format!("unlock {}", id), "ok", held);
	}
	/// one whole `process_commits` call
	fn pp(&mut self, t: &mut Trace, held: &Held) {
		let db = self.db;
		if std::panic::catch_unwind(std::panic::AssertUnwindSafe(|| db.process_commits().unwrap())).is_err() {
			self.panicked = true;
			t.op("c11 pp", "panic");
			return
		}
		self.emit(t, "pp", "ok", held);
		if let Some(h) = &self.hook {
			t.op("c11 ndefer", &h.deferred.load(Ordering::SeqCst).to_string());
		}
	}
	fn settle(&mut self, t: &mut Trace, held: &Held) {
		if self.panicked {
			return
		}
		self.db.flush_logs().unwrap();
		self.db.enact_logs().unwrap();
		self.db.clean_logs().unwrap();
		self.emit(t, "settle", "ok", held);
	}
	fn drain(&mut self, t: &mut Trace, n: usize, held: &Held) {
		for _ in 0..n {
			if self.panicked {
				return
			}
			self.pp(t, held);
			self.settle(t, held);
		}
	}
	/// the verdict of this file's oracle, in the form of the model's `c11 verdict`
	fn verdict(&mut self, t: &mut Trace, forest_ok: bool, stable_ok: bool) {
		let w = |b: bool| if b { "ok" } else { "violated" };
		t.op(
			"c11 verdict",
			&format!("order={} forest={} stable={}", w(self.stale.is_empty()), w(forest_ok), w(stable_ok)),
		);
	}
	/// F4 is shown iff every wrong read returned `t1` (the value of the re-queued transaction,
	/// which the history overwrote later) and the first wrong read came after a `process_commits`.
	fn order_report(&self, t1: u64) -> Result<Option<String>, String> {
		if self.stale.is_empty() {
			return Ok(None)
		}
		let show = |x: &(u64, Option<u64>, u64, String)| {
			format!("after `{}` get(key {}) = {:?}, commit-return order says {}", x.3.split(' ').next().unwrap_or(""), x.0, x.1, x.2)
		};
		for x in self.stale.iter() {
			if x.1 != Some(t1) || x.2 <= t1 || x.3.starts_with("commit") || x.3.starts_with("lock") {
				return Err(format!("wrong read that is NOT the F4 pattern (value of the re-queued transaction {}): {}", t1, show(x)))
			}
		}
		Ok(Some(format!("{}; {} wrong reads in all, last: {}", show(&self.stale[0]), self.stale.len(), show(self.stale.last().unwrap()))))
	}
}

fn hook_for_case(root: &Path, park_point: &'static str) -> Option<Arc<Hook11>> {
	let present = defer_hook_present(root);
	let h = Hook11::new(park_point);
	h.install();
	if present || !park_point.is_empty() {
		Some(h)
	} else {
		Hook11::uninstall();
		None
	}
}

/// `Some(hook)` only when the deferral yield points exist (then `c11 ndefer` lines are emitted)
fn counting(root: &Path, h: &Option<Arc<Hook11>>) -> Option<Arc<Hook11>> {
	if defer_hook_present(root) {
		h.clone()
	} else {
		None
	}
}

// ------------------------------------------------------------------------------------------
// 0: F4

fn f4(seed: u64, root: &Path, t: &mut Trace, ctr: &mut Counters, prop: &str) -> bool {
	if (seed / 5) % 2 == 1 {
		return requeue_livelock(seed, root, t, ctr, prop)
	}
	let mut rng = Rng::new(seed);
	let later = rng.range(1, 3); // transactions committed after T1 writing the same key
	let vlen = *rng.pick(&[1usize, 30, 400]);
	t.begin_case(&format!("seed={} f4 later={} vlen={}", seed, later, vlen));
	let dir = fresh_dir(root, &format!("c11-f4-{}", seed));
	let hook = hook_for_case(root, "");
	let db = Db::open_or_create(&options(&dir, false)).expect("create");
	let mut rec = Rec::new(&db, vlen, counting(root, &hook), t);
	let mut tag = 0;
	let a = gen_tree(&mut rng, 2, &mut tag);
	let none = HashMap::new();
	let mut addrs_a = HashMap::new();
	rec.commit(t, &[], &[], &[(1, &a, &none)], &[], &mut addrs_a).unwrap();
	rec.drain(t, 2, &[]);
	let ka = key_of(1);
	let mut ok = true;
	let mut stable_ok = true;
	let reader = db.get_tree(TREE_COL, &ka).unwrap().expect("tree A exists");
	let guard = reader.read();
	{
		let held: &Held = &[(1, &**guard)];
		rec.lock(t, 1, held);
		// T1, then the later transactions
		rec.commit(t, &[(K, 1)], &[1], &[], held, &mut HashMap::new()).unwrap();
		for i in 0..later {
			rec.commit(t, &[(K, 2 + i)], &[], &[], held, &mut HashMap::new()).unwrap();
		}
		// T1 reaches the head of the queue while the lock is held
		rec.pp(t, held);
		// the tree itself is untouched while locked
		let mut addrs = HashMap::new();
		let mut n = 0;
		match walk(&**guard, &a, &mut addrs, &mut n) {
			Ok(true) if addrs == addrs_a => {},
			Ok(true) => {
				t.oracle_fail(prop, "f4: node addresses of locked tree A changed");
				ok = false;
				stable_ok = false;
			},
			Ok(false) => {
				t.oracle_fail(prop, "f4: locked tree A lost its root");
				ok = false;
				stable_ok = false;
			},
			Err(m) => {
				t.oracle_fail(prop, &format!("f4: locked tree A changed: {}", m));
				ok = false;
				stable_ok = false;
			},
		}
	}
	drop(guard);
	drop(reader);
	rec.unlock(t, 1, &[]);
	rec.drain(t, later as usize + 3, &[]);
	// the postponed removal completed
	let mut forest_ok = true;
	match verify_tree(&db, &ka, &a, &mut HashMap::new()) {
		Ok(false) => {},
		other => {
			t.oracle_fail(prop, &format!("f4: tree A still present after unlock + drain: {:?}", other));
			ok = false;
			forest_ok = false;
		},
	}
	let entries = db.get_num_column_value_entries(TREE_COL).unwrap();
	if entries != 0 {
		t.oracle_fail(prop, &format!("f4: {} value entries left after the only tree was dereferenced", entries));
		ok = false;
		forest_ok = false;
	}
	rec.verdict(t, forest_ok, stable_ok);
	match rec.order_report(1) {
		Ok(None) => ctr.inc("f4.order_kept"),
		Ok(Some(m)) => {
			ctr.inc("f4.order_violated");
			t.known(prop, "F4", &format!("deferred commit overtaken and re-published (every wrong read returns T1's value): {}", m));
		},
		Err(m) => {
			t.oracle_fail(prop, &format!("f4: {}", m));
			ok = false;
		},
	}
	Hook11::uninstall();
	drop(rec);
	drop(db);
	let _ = std::fs::remove_dir_all(&dir);
	ctr.inc("cases.f4");
	t.end_case(true);
	ok
}

// ------------------------------------------------------------------------------------------
// 0 (second variant): three transactions that each dereference a tree listed in `used_trees` of
// another queued transaction.  All reader locks are released, yet `process_commits` re-queues the
// head commit whole on every call (the model's `current_livelock_forever`): none of the removals
// ever completes, none of the inserted trees is ever published.

fn requeue_livelock(seed: u64, root: &Path, t: &mut Trace, ctr: &mut Counters, prop: &str) -> bool {
	let mut rng = Rng::new(seed ^ 0x11fe);
	let rounds = rng.range(9, 20) as usize;
	let keep_handles = rng.chance(1, 2);
	t.begin_case(&format!("seed={} requeue-livelock rounds={} keep_handles={}", seed, rounds, keep_handles));
	let dir = fresh_dir(root, &format!("c11-ll3-{}", seed));
	let hook = hook_for_case(root, "");
	let db = Db::open_or_create(&options(&dir, false)).expect("create");
	let mut rec = Rec::new(&db, 8, counting(root, &hook), t);
	let mut tag = 0;
	let mut ok = true;
	let none = HashMap::new();
	let t1 = gen_tree(&mut rng, 1, &mut tag);
	let t2 = gen_tree(&mut rng, 1, &mut tag);
	let t5 = gen_tree(&mut rng, 1, &mut tag);
	let t6 = gen_tree(&mut rng, 1, &mut tag);
	rec.commit(t, &[], &[], &[(1, &t1, &none)], &[], &mut HashMap::new()).unwrap();
	rec.commit(t, &[], &[], &[(2, &t2, &none)], &[], &mut HashMap::new()).unwrap();
	rec.drain(t, 3, &[]);
	let r1 = db.get_tree(TREE_COL, &key_of(1)).unwrap().expect("tree 1 exists");
	let r2 = db.get_tree(TREE_COL, &key_of(2)).unwrap().expect("tree 2 exists");
	let g1 = r1.read();
	let g2 = r2.read();
	{
		rec.lock(t, 1, &[(1, &**g1)]);
		let held: &Held = &[(1, &**g1), (2, &**g2)];
		rec.lock(t, 2, held);
		// c0 = {Deref 2}; c = {Insert 5, Deref 1}: used_trees = {2}; c' = {Insert 6, Deref 2}:
		// used_trees = {2, 1}
		rec.commit(t, &[], &[2], &[], held, &mut HashMap::new()).unwrap();
		rec.commit(t, &[], &[1], &[(5, &t5, &none)], held, &mut HashMap::new()).unwrap();
		rec.commit(t, &[], &[2], &[(6, &t6, &none)], held, &mut HashMap::new()).unwrap();
	}
	drop(g1);
	rec.unlock(t, 1, &[(2, &**g2)]);
	drop(g2);
	rec.unlock(t, 2, &[]);
	let handles = if keep_handles { Some((r1, r2)) } else { drop(r1); drop(r2); None };
	// no lock is held any more, nothing else is committed: the log worker runs
	let published0 = hook.as_ref().map(|h| h.published.load(Ordering::SeqCst));
	rec.drain(t, rounds, &[]);
	let published1 = hook.as_ref().map(|h| h.published.load(Ordering::SeqCst));
	let stuck = matches!(db.get_root(TREE_COL, &key_of(1)), Ok(Some(_))) && matches!(db.get_root(TREE_COL, &key_of(2)), Ok(Some(_)));
	let entries = db.get_num_column_value_entries(TREE_COL).unwrap();
	let want = expected_entries(&[&t5, &t6]);
	rec.verdict(t, !stuck && entries == want, true);
	if !stuck && entries == want {
		ctr.inc("livelock.completed");
	} else if stuck && published0 == published1 {
		ctr.inc("livelock.stuck");
		t.known(prop, "F4c", &format!(
			"REQUEUE-LIVELOCK: no reader lock held, {} process_commits calls, 0 records published: {{Deref 2}}, {{Insert 5, Deref 1}} (used_trees {{2}}), {{Insert 6, Deref 2}} (used_trees {{2, 1}}) re-queue each other for ever; trees 1 and 2 still present, {} value entries instead of {}",
			rounds, entries, want));
	} else {
		t.oracle_fail(prop, &format!("requeue-livelock: postponed removals incomplete after {} process_commits calls without any lock (stuck={} entries={} want={} published {:?} -> {:?})", rounds, stuck, entries, want, published0, published1));
		ok = false;
	}
	if !rec.stale.is_empty() {
		t.oracle_fail(prop, "requeue-livelock: ordinary reads changed");
		ok = false;
	}
	drop(handles);
	Hook11::uninstall();
	drop(rec);
	// the three commits stay queued and `drop` would try to drain them for ever: store an error
	// first (the drain is skipped then)
	if stuck {
		db.verif_store_err(Err(parity_db::Error::Io(std::io::Error::new(std::io::ErrorKind::Other, "abandoned by harness"))));
	}
	let dropper = std::thread::spawn(move || drop(db));
	let t0 = Instant::now();
	while !dropper.is_finished() && t0.elapsed() < Duration::from_secs(20) {
		std::thread::sleep(Duration::from_millis(5));
	}
	if !dropper.is_finished() {
		t.comment("requeue-livelock: drop(Db) did not return within 20 s");
		ctr.inc("livelock.drop_hang");
	}
	let _ = std::fs::remove_dir_all(&dir);
	ctr.inc("cases.requeue_livelock");
	t.end_case(true);
	ok
}

// ------------------------------------------------------------------------------------------
// 1: locked-tree stability

fn shared_count(b: &L, addrs: &HashMap<usize, u64>) -> u64 {
	let mut hs = HashSet::new();
	distinct_nodes(b, &mut hs);
	hs.into_iter().filter(|p| addrs.contains_key(p)).count() as u64
}

/// Variant: the removal of A is already queued when the reader locks A; B (sharing A's nodes) is
/// inserted under the lock; the lock AND the reader handle are released before the log worker
/// makes any step.  The removal of A must still wait for B's references.
fn late_lock(seed: u64, root: &Path, t: &mut Trace, ctr: &mut Counters, prop: &str) -> bool {
	let mut rng = Rng::new(seed ^ 0x1a7e);
	let depth = rng.range(2, 3) as u32;
	let keep_handle = rng.chance(1, 3);
	t.begin_case(&format!("seed={} stability late-lock depth={} keep_handle={}", seed, depth, keep_handle));
	let dir = fresh_dir(root, &format!("c11-ll-{}", seed));
	let hook = hook_for_case(root, "");
	let db = Db::open_or_create(&options(&dir, false)).expect("create");
	let mut rec = Rec::new(&db, 8, counting(root, &hook), t);
	let mut tag = 0;
	let mut ok = true;
	let mut forest_ok = true;
	let mut stable_ok = true;
	let a = gen_tree(&mut rng, depth, &mut tag);
	let (ka, kb) = (key_of(1), key_of(2));
	let none = HashMap::new();
	let mut addrs_a = HashMap::new();
	rec.commit(t, &[], &[], &[(1, &a, &none)], &[], &mut addrs_a).unwrap();
	rec.drain(t, 2, &[]);
	// removal of A queued, nothing processed yet
	rec.commit(t, &[], &[1], &[], &[], &mut HashMap::new()).unwrap();
	let reader = db.get_tree(TREE_COL, &ka).unwrap().expect("tree A exists");
	let guard = reader.read();
	let b = gen_derived(&mut rng, &a, &mut tag);
	{
		let held: &Held = &[(1, &**guard)];
		rec.lock(t, 1, held);
		let mut addrs = HashMap::new();
		let mut n_a = 0;
		if !matches!(walk(&**guard, &a, &mut addrs, &mut n_a), Ok(true)) || addrs != addrs_a {
			t.oracle_fail(prop, "late-lock: tree A does not read back under the lock");
			ok = false;
			stable_ok = false;
		}
		rec.commit(t, &[], &[], &[(2, &b, &addrs)], held, &mut HashMap::new()).unwrap();
	}
	drop(guard);
	let kept = if keep_handle { Some(reader) } else { drop(reader); None };
	rec.unlock(t, 1, &[]);
	rec.drain(t, 8, &[]);
	match verify_tree(&db, &ka, &a, &mut HashMap::new()) {
		Ok(false) => ctr.inc("latelock.removal_completed"),
		other => {
			t.oracle_fail(prop, &format!("late-lock: postponed removal of A did not complete after unlock: {:?}", other));
			ok = false;
			forest_ok = false;
		},
	}
	match verify_tree(&db, &kb, &b, &mut HashMap::new()) {
		Ok(true) => ctr.inc("latelock.b_intact"),
		other => {
			t.oracle_fail(prop, &format!("late-lock: tree B (inserted under the lock, sharing nodes of A) not intact after the removal of A: {:?}", other));
			ok = false;
			forest_ok = false;
		},
	}
	let entries = db.get_num_column_value_entries(TREE_COL).unwrap();
	let want = expected_entries(&[&b]);
	if entries != want {
		t.oracle_fail(prop, &format!("late-lock: {} value entries, expected {}", entries, want));
		ok = false;
		forest_ok = false;
	}
	rec.verdict(t, forest_ok, stable_ok);
	drop(kept);
	rec.commit(t, &[], &[2], &[], &[], &mut HashMap::new()).unwrap();
	rec.drain(t, 3, &[]);
	let entries = db.get_num_column_value_entries(TREE_COL).unwrap();
	if entries != 0 {
		t.oracle_fail(prop, &format!("late-lock: {} value entries left after every tree was dereferenced", entries));
		ok = false;
		forest_ok = false;
	}
	rec.verdict(t, forest_ok, stable_ok);
	Hook11::uninstall();
	let shared = shared_count(&b, &addrs_a);
	drop(rec);
	drop(db);
	let _ = std::fs::remove_dir_all(&dir);
	ctr.inc("cases.stability_late_lock");
	t.end_case(shared > 0);
	ok
}

fn stability(seed: u64, root: &Path, t: &mut Trace, ctr: &mut Counters, prop: &str) -> bool {
	if (seed / 5) % 2 == 1 {
		return late_lock(seed, root, t, ctr, prop)
	}
	let mut rng = Rng::new(seed);
	let deref_first = rng.chance(1, 2);
	let depth = rng.range(2, 3) as u32;
	let extra_trees = rng.below(3);
	t.begin_case(&format!("seed={} stability deref_first={} depth={} extra={}", seed, deref_first, depth, extra_trees));
	let dir = fresh_dir(root, &format!("c11-st-{}", seed));
	let hook = hook_for_case(root, "");
	let db = Db::open_or_create(&options(&dir, false)).expect("create");
	let mut rec = Rec::new(&db, 8, counting(root, &hook), t);
	let mut tag = 0;
	let mut ok = true;
	let mut forest_ok = true;
	let mut stable_ok = true;
	let a = gen_tree(&mut rng, depth, &mut tag);
	let (ka, kb) = (key_of(1), key_of(2));
	let none = HashMap::new();
	let mut addrs_a = HashMap::new();
	rec.commit(t, &[], &[], &[(1, &a, &none)], &[], &mut addrs_a).unwrap();
	rec.drain(t, 2, &[]);
	// earlier reader handles of the same tree, taken and dropped again (the registry then holds a
	// dead weak reference for the key when the real reader is created)
	let prior = rng.below(3);
	for _ in 0..prior {
		let r = db.get_tree(TREE_COL, &ka).unwrap().expect("tree A exists");
		if rng.chance(1, 2) {
			let g = r.read();
			rec.lock(t, 1, &[(1, &**g)]);
			drop(g);
			rec.unlock(t, 1, &[]);
		}
		drop(r);
	}
	ctr.inc(&format!("stability.prior_handles.{}", prior));
	let reader = db.get_tree(TREE_COL, &ka).unwrap().expect("tree A exists");
	let guard = reader.read();
	let b = gen_derived(&mut rng, &a, &mut tag);
	let shared = shared_count(&b, &addrs_a);
	let mut others: Vec<(u64, L)> = vec![];
	let mut addrs_b = HashMap::new();
	{
		let held: &Held = &[(1, &**guard)];
		rec.lock(t, 1, held);
		let mut addrs = HashMap::new();
		let mut n_a = 0;
		if !matches!(walk(&**guard, &a, &mut addrs, &mut n_a), Ok(true)) || addrs != addrs_a {
			t.oracle_fail(prop, "stability: tree A does not read back after insertion");
			ok = false;
			stable_ok = false;
		}
		ctr.add("stability.nodes_in_A", n_a);
		ctr.add("stability.shared_nodes", shared);
		if deref_first {
			rec.commit(t, &[], &[1], &[], held, &mut HashMap::new()).unwrap();
			rec.commit(t, &[], &[], &[(2, &b, &addrs)], held, &mut addrs_b).unwrap();
		} else {
			rec.commit(t, &[], &[], &[(2, &b, &addrs)], held, &mut addrs_b).unwrap();
			rec.commit(t, &[], &[1], &[], held, &mut HashMap::new()).unwrap();
		}
		// unrelated trees come and go meanwhile
		for i in 0..extra_trees {
			let o = gen_tree(&mut rng, 2, &mut tag);
			rec.commit(t, &[], &[], &[(10 + i, &o, &none)], held, &mut HashMap::new()).unwrap();
			others.push((10 + i, o));
		}
		// the pipeline runs while the lock is held
		for round in 0..4 {
			rec.drain(t, 2, held);
			let mut seen = HashMap::new();
			let mut n = 0;
			match walk(&**guard, &a, &mut seen, &mut n) {
				Ok(true) if seen == addrs => ctr.inc("stability.locked_walks_ok"),
				Ok(true) => {
					t.oracle_fail(prop, &format!("stability: node addresses of locked tree A changed in round {}", round));
					ok = false;
					stable_ok = false;
				},
				Ok(false) => {
					t.oracle_fail(prop, &format!("stability: root of locked tree A disappeared in round {}", round));
					ok = false;
					stable_ok = false;
				},
				Err(m) => {
					t.oracle_fail(prop, &format!("stability: locked tree A changed in round {}: {}", round, m));
					ok = false;
					stable_ok = false;
				},
			}
		}
	}
	// B was inserted meanwhile and is complete
	let mut addrs_b1 = HashMap::new();
	match verify_tree(&db, &kb, &b, &mut addrs_b1) {
		Ok(true) => {},
		other => {
			t.oracle_fail(prop, &format!("stability: tree B (sharing nodes of locked A) not intact while A is locked: {:?}", other));
			ok = false;
			forest_ok = false;
		},
	}
	drop(guard);
	drop(reader);
	rec.unlock(t, 1, &[]);
	rec.drain(t, 6, &[]);
	match verify_tree(&db, &ka, &a, &mut HashMap::new()) {
		Ok(false) => ctr.inc("stability.removal_completed"),
		other => {
			t.oracle_fail(prop, &format!("stability: postponed removal of A did not complete after unlock: {:?}", other));
			ok = false;
			forest_ok = false;
		},
	}
	let mut addrs_b2 = HashMap::new();
	match verify_tree(&db, &kb, &b, &mut addrs_b2) {
		Ok(true) if addrs_b2 == addrs_b1 => {},
		other => {
			t.oracle_fail(prop, &format!("stability: tree B not intact after A was removed: {:?}", other.map(|_| "addresses changed")));
			ok = false;
			forest_ok = false;
		},
	}
	let mut live: Vec<&L> = vec![&b];
	for (io, o) in others.iter() {
		match verify_tree(&db, &key_of(*io), o, &mut HashMap::new()) {
			Ok(true) => {},
			other => {
				t.oracle_fail(prop, &format!("stability: unrelated tree damaged: {:?}", other));
				ok = false;
				forest_ok = false;
			},
		}
		live.push(o);
	}
	let entries = db.get_num_column_value_entries(TREE_COL).unwrap();
	let want = expected_entries(&live);
	if entries != want {
		t.oracle_fail(prop, &format!("stability: {} value entries, expected {} (live roots + distinct live nodes)", entries, want));
		ok = false;
		forest_ok = false;
	}
	rec.verdict(t, forest_ok, stable_ok);
	// dereference the rest: nothing may remain
	rec.commit(t, &[], &[2], &[], &[], &mut HashMap::new()).unwrap();
	for (io, _) in others.iter() {
		rec.commit(t, &[], &[*io], &[], &[], &mut HashMap::new()).unwrap();
	}
	rec.drain(t, extra_trees as usize + 3, &[]);
	let entries = db.get_num_column_value_entries(TREE_COL).unwrap();
	if entries != 0 {
		t.oracle_fail(prop, &format!("stability: {} value entries left after every tree was dereferenced", entries));
		ok = false;
		forest_ok = false;
	}
	rec.verdict(t, forest_ok, stable_ok);
	Hook11::uninstall();
	drop(rec);
	drop(db);
	let _ = std::fs::remove_dir_all(&dir);
	ctr.inc("cases.stability");
	ctr.inc(if deref_first { "stability.deref_before_insert" } else { "stability.insert_before_deref" });
	t.end_case(shared > 0);
	ok
}

// ------------------------------------------------------------------------------------------
// 2: insert + dereference in one transaction, deferred behind the dereference of the shared tree

/// Damage report for B against its logical tree: addresses of missing nodes that B shares with A
/// (`Ok`), or any other kind of damage (`Err`).
fn b_damage(db: &Db, kb: &[u8], b: &L, addrs_a: &HashMap<usize, u64>) -> Result<Vec<u64>, String> {
	fn node(db: &Db, n: &L, a: u64, addrs_a: &HashMap<usize, u64>, missing: &mut Vec<u64>) -> Result<(), String> {
		let shared = addrs_a.get(&ptr(n)).copied();
		if let Some(sa) = shared {
			if sa != a {
				return Err(format!("B refers to a node of A at {:#x} instead of {:#x}", a, sa))
			}
		}
		match db.get_node(TREE_COL, a).map_err(|e| format!("get_node({:#x}) error {:?}", a, e))? {
			None if shared.is_some() => {
				missing.push(a);
				Ok(())
			},
			None => Err(format!("B's own node at {:#x} is missing", a)),
			Some((data, ch)) => {
				if data != n.data || ch.len() != n.children.len() {
					return Err(format!("node at {:#x} was rewritten", a))
				}
				for (c, ca) in n.children.iter().zip(ch.iter()) {
					node(db, c, *ca, addrs_a, missing)?;
				}
				Ok(())
			},
		}
	}
	let (data, ch) = match db.get_root(TREE_COL, kb).map_err(|e| format!("get_root error {:?}", e))? {
		Some(x) => x,
		None => return Err("tree B has no root".into()),
	};
	if data != b.data || ch.len() != b.children.len() {
		return Err("root of B differs".into())
	}
	let mut missing = vec![];
	for (c, ca) in b.children.iter().zip(ch.iter()) {
		node(db, c, *ca, addrs_a, &mut missing)?;
	}
	Ok(missing)
}

fn f4_insert(seed: u64, root: &Path, t: &mut Trace, ctr: &mut Counters, prop: &str) -> bool {
	let mut rng = Rng::new(seed);
	t.begin_case(&format!("seed={} f4-insert", seed));
	let dir = fresh_dir(root, &format!("c11-f4i-{}", seed));
	let hook = hook_for_case(root, "");
	let db = Db::open_or_create(&options(&dir, false)).expect("create");
	let mut rec = Rec::new(&db, 8, counting(root, &hook), t);
	let mut tag = 0;
	let mut ok = true;
	let a = gen_tree(&mut rng, 2, &mut tag);
	let c = gen_tree(&mut rng, 1, &mut tag);
	let (ka, kb, kc) = (key_of(1), key_of(2), key_of(3));
	let none = HashMap::new();
	let mut addrs_a = HashMap::new();
	rec.commit(t, &[], &[], &[(1, &a, &none)], &[], &mut addrs_a).unwrap();
	rec.commit(t, &[], &[], &[(3, &c, &none)], &[], &mut HashMap::new()).unwrap();
	rec.drain(t, 3, &[]);
	// another client reads C for a long time
	let reader_c = db.get_tree(TREE_COL, &kc).unwrap().expect("tree C exists");
	let guard_c = reader_c.read();
	// the writer builds B from A under A's lock and prunes C in the same transaction
	let b = gen_derived(&mut rng, &a, &mut tag);
	let mut addrs_b = HashMap::new();
	let shared = shared_count(&b, &addrs_a);
	{
		rec.lock(t, 3, &[(3, &**guard_c)]);
		let reader_a = db.get_tree(TREE_COL, &ka).unwrap().expect("tree A exists");
		let guard_a = reader_a.read();
		{
			let held: &Held = &[(1, &**guard_a), (3, &**guard_c)];
			rec.lock(t, 1, held);
			let mut addrs = HashMap::new();
			let mut n = 0;
			walk(&**guard_a, &a, &mut addrs, &mut n).unwrap();
			rec.commit(t, &[], &[3], &[(2, &b, &addrs)], held, &mut addrs_b).unwrap();
		}
		drop(guard_a);
		drop(reader_a);
		let held: &Held = &[(3, &**guard_c)];
		rec.unlock(t, 1, held);
		// later: A is pruned
		rec.commit(t, &[], &[1], &[], held, &mut HashMap::new()).unwrap();
		rec.drain(t, 4, held);
	}
	drop(guard_c);
	drop(reader_c);
	rec.unlock(t, 3, &[]);
	rec.drain(t, 5, &[]);
	let mut violated = vec![];
	let mut other = vec![];
	if rec.panicked {
		other.push("the pipeline panicked while planning the overtaken transaction".to_string());
	} else {
		match b_damage(&db, &kb, &b, &addrs_a) {
			Ok(missing) if missing.is_empty() => {},
			Ok(missing) => violated.push(format!(
				"tree B (committed before the dereference of A) lost {} node(s) it shares with A, first at {:#x}; B's root and own nodes are intact",
				missing.len(),
				missing[0]
			)),
			Err(m) => other.push(format!("tree B is damaged in another way: {}", m)),
		}
		for (k, name) in [(&ka, "A"), (&kc, "C")] {
			if !matches!(db.get_root(TREE_COL, k), Ok(None)) {
				other.push(format!("tree {} still has a root after its dereference was processed", name));
			}
		}
		let entries = db.get_num_column_value_entries(TREE_COL).unwrap();
		let want = expected_entries(&[&b]);
		if entries > want {
			other.push(format!("{} value entries, more than the {} of commit-return order", entries, want));
		} else if entries < want {
			if violated.is_empty() {
				other.push(format!("{} value entries although B is intact, commit-return order gives {}", entries, want));
			} else {
				violated.push(format!("{} value entries, commit-return order gives {}", entries, want));
			}
		}
	}
	rec.verdict(t, violated.is_empty() && other.is_empty(), true);
	if !rec.stale.is_empty() {
		other.push("ordinary reads changed although no ordinary key was written".into());
	}
	if !other.is_empty() {
		t.oracle_fail(prop, &format!("f4-insert: {}", other.join("; ")));
		ok = false;
	} else if violated.is_empty() {
		ctr.inc("f4_insert.order_kept");
	} else if shared == 0 {
		t.oracle_fail(prop, &format!("f4-insert without shared nodes: {}", violated.join("; ")));
		ok = false;
	} else {
		ctr.inc("f4_insert.order_violated");
		t.known(prop, "F4", &format!("deferred commit {{InsertTree B, DereferenceTree C}} overtaken by DereferenceTree A: {}", violated.join("; ")));
	}
	Hook11::uninstall();
	let panicked = rec.panicked;
	drop(rec);
	if !panicked {
		drop(db);
	} else {
		std::mem::forget(db);
	}
	let _ = std::fs::remove_dir_all(&dir);
	ctr.inc("cases.f4_insert");
	t.end_case(shared > 0);
	ok
}

// ------------------------------------------------------------------------------------------
// 3: threaded

fn threaded(seed: u64, thorough: bool, root: &Path, t: &mut Trace, ctr: &mut Counters, prop: &str) -> bool {
	let mut rng = Rng::new(seed);
	let nreaders = rng.range(2, 4) as usize;
	let keep = rng.range(2, 5); // trees kept before pruning
	let millis = if thorough { 15_000 } else { 1_500 };
	let hold_us = *rng.pick(&[0u64, 50, 400, 2000]);
	t.begin_case(&format!("seed={} threaded readers={} keep={} ms={} hold_us={}", seed, nreaders, keep, millis, hold_us));
	let dir = fresh_dir(root, &format!("c11-th-{}", seed));
	let have_defer_hook = defer_hook_present(root);
	let db = Arc::new(Db::open_or_create(&options(&dir, true)).expect("create"));
	// Publication window of the record that removes the root of a tree some reader holds locked,
	// recorded on the log worker's thread: a reader announces (slot = reader number) the tree it
	// has just locked; right after every `end_record` the announced trees whose root has vanished
	// were removed by THIS record: (its deferral check, its planning, its publication, the
	// previous publication).  At most one `get_root` per reader and record.
	let hook = Hook11::new("");
	let windows: Arc<Mutex<Vec<Option<(u64, Option<Window>)>>>> = Arc::new(Mutex::new(vec![None; nreaders]));
	{
		let (wdb, windows) = (Arc::downgrade(&db), windows.clone());
		*hook.on_published.lock().unwrap() = Some(Box::new(move |w: Window| {
			let db = match wdb.upgrade() {
				Some(db) => db,
				None => return,
			};
			let mut ws = windows.lock().unwrap_or_else(|e| e.into_inner());
			for slot in ws.iter_mut() {
				if let Some((i, win)) = slot {
					let gone = std::panic::catch_unwind(std::panic::AssertUnwindSafe(|| {
						matches!(db.get_root(TREE_COL, &key_of(*i)), Ok(None))
					}));
					if win.is_none() && gone.unwrap_or(false) {
						*win = Some(w);
					}
				}
			}
		}));
	}
	hook.install();
	// shared logical state: tree index -> (key, tree); `pruned` = dereference committed
	struct Shared {
		trees: BTreeMap<u64, (Vec<u8>, L)>,
		pruned_upto: u64, // trees with index < this have a committed DereferenceTree
	}
	let shared = Arc::new(Mutex::new(Shared { trees: BTreeMap::new(), pruned_upto: 0 }));
	let stop = Arc::new(AtomicBool::new(false));
	let inserted = Arc::new(AtomicU64::new(0));
	let removed_committed = Arc::new(AtomicU64::new(0));
	let mut tag = 0u64;
	let first = gen_tree(&mut rng, 3, &mut tag);
	insert_tree(&db, &key_of(0), &first, &HashMap::new()).unwrap();
	shared.lock().unwrap().trees.insert(0, (key_of(0), first));
	inserted.store(1, Ordering::SeqCst);

	// prelude: a postponed removal that is alone in the queue must neither be forgotten nor keep
	// the log worker spinning while the reader holds on to the tree
	let mut ok = true;
	{
		let kx = key_of(1 << 40);
		let x = gen_tree(&mut rng, 2, &mut tag);
		insert_tree(&db, &kx, &x, &HashMap::new()).unwrap();
		let reader = db.get_tree(TREE_COL, &kx).unwrap().expect("tree X exists");
		let guard = reader.read();
		db.commit_changes(vec![(TREE_COL, Operation::DereferenceTree(kx.clone()))]).unwrap();
		std::thread::sleep(Duration::from_millis(50));
		let cpu = |_: ()| {
			let mut ts = libc::timespec { tv_sec: 0, tv_nsec: 0 };
			unsafe { libc::clock_gettime(libc::CLOCK_PROCESS_CPUTIME_ID, &mut ts) };
			ts.tv_sec as u64 * 1000 + ts.tv_nsec as u64 / 1_000_000
		};
		let c0 = cpu(());
		std::thread::sleep(Duration::from_millis(300));
		let used = cpu(()) - c0;
		let mut n = 0;
		if !matches!(walk(&**guard, &x, &mut HashMap::new(), &mut n), Ok(true)) {
			t.oracle_fail(prop, "threaded prelude: locked tree X changed while its removal was postponed");
			ok = false;
		}
		drop(guard);
		drop(reader);
		let td = Instant::now();
		let mut gone = false;
		while td.elapsed() < Duration::from_secs(5) {
			if matches!(db.get_tree(TREE_COL, &kx), Ok(None)) {
				gone = true;
				break
			}
			std::thread::sleep(Duration::from_millis(2));
		}
		if !gone {
			t.oracle_fail(prop, "threaded prelude: postponed removal of X did not complete within 5 s of the unlock (no further commit)");
			ok = false;
		} else {
			ctr.inc("threaded.released_completes");
		}
		t.comment(&format!("threaded prelude: {} ms of CPU in 300 ms while the only queued commit was postponed behind a reader lock", used));
		ctr.inc(if used >= 150 { "threaded.log_worker_spins_while_postponed" } else { "threaded.log_worker_idle_while_postponed" });
	}

	let writer = {
		let (db, shared, stop, inserted) = (db.clone(), shared.clone(), stop.clone(), inserted.clone());
		let mut rng = rng.fork();
		std::thread::spawn(move || -> Result<u64, String> {
			let mut idx = 1u64;
			while !stop.load(Ordering::Relaxed) {
				let (pk, prev) = {
					let s = shared.lock().unwrap();
					let (_, (k, tr)) = s.trees.iter().next_back().unwrap();
					(k.clone(), tr.clone())
				};
				// build the next tree from the previous one under its lock (as the bench does)
				let reader = match db.get_tree(TREE_COL, &pk).map_err(|e| format!("{:?}", e))? {
					Some(r) => r,
					None => return Err(format!("writer: previous tree {} not found", idx - 1)),
				};
				let guard = reader.read();
				let mut addrs = HashMap::new();
				let mut n = 0;
				match walk(&**guard, &prev, &mut addrs, &mut n) {
					Ok(true) => {},
					Ok(false) => return Err(format!("writer: previous tree {} has no root under lock", idx - 1)),
					Err(m) => return Err(format!("writer: previous tree {} damaged under lock: {}", idx - 1, m)),
				}
				let next = gen_derived(&mut rng, &prev, &mut tag);
				let k = key_of(idx);
				db.commit_changes(vec![(TREE_COL, Operation::InsertTree(k.clone(), to_new(&next, &addrs)))])
					.map_err(|e| format!("writer commit: {:?}", e))?;
				drop(guard);
				shared.lock().unwrap().trees.insert(idx, (k, next));
				idx += 1;
				inserted.store(idx, Ordering::SeqCst);
				std::thread::sleep(Duration::from_micros(200));
			}
			Ok(idx)
		})
	};
	let pruner = {
		let (db, shared, stop, inserted, removed_committed) =
			(db.clone(), shared.clone(), stop.clone(), inserted.clone(), removed_committed.clone());
		std::thread::spawn(move || -> Result<u64, String> {
			let mut removed = 0u64;
			while !stop.load(Ordering::Relaxed) {
				if inserted.load(Ordering::SeqCst) > removed + keep {
					let k = key_of(removed);
					// mark first: readers that lock afterwards may legitimately find no root
					shared.lock().unwrap().pruned_upto = removed + 1;
					db.commit_changes(vec![
						(TREE_COL, Operation::DereferenceTree(k)),
						(KV_COL, Operation::Set(b"removed".to_vec(), (removed + 1).to_le_bytes().to_vec())),
					])
					.map_err(|e| format!("pruner commit {}: {:?}", removed, e))?;
					removed += 1;
					removed_committed.store(removed, Ordering::SeqCst);
				} else {
					std::thread::sleep(Duration::from_micros(100));
				}
			}
			Ok(removed)
		})
	};
	let mut readers = vec![];
	for r in 0..nreaders {
		let (db, shared, stop) = (db.clone(), shared.clone(), stop.clone());
		let (hook, windows) = (hook.clone(), windows.clone());
		let mut rr = Rng::new(seed ^ (0x77 + r as u64));
		readers.push(std::thread::spawn(move || -> (u64, u64, u64, Vec<String>, Vec<String>) {
			let (mut walks, mut nodes, mut gone) = (0u64, 0u64, 0u64);
			let mut bad = vec![];
			let mut f13 = vec![];
			// Damage seen under a held lock on tree `i`, the lock granted at stamp `ta`: it is the
			// F13 sequence iff the record that removed the tree's root passed its deferral check
			// (yield point of fixes/f-c11/hook-c11.diff) before `ta` and was published after `ta`.
			// A lock granted BEFORE the deferral check must have postponed the commit: damage under
			// such a lock is a different defect.  Without that yield point only "planned before
			// `ta`" can be shown.
			let classify = |i: u64, ta: u64, what: String, f13: &mut Vec<String>, bad: &mut Vec<String>| {
				// the hook of the removing record may still be running: give it a moment
				let mut w = None;
				for _ in 0..200 {
					w = windows.lock().unwrap_or_else(|e| e.into_inner())[r].and_then(|(_, win)| win);
					if w.is_some() {
						break
					}
					std::thread::sleep(Duration::from_millis(1));
				}
				match w {
					Some((_tc, tp, t2, _)) if tp < ta && ta < t2 => f13.push(format!(
						"F13-SEQUENCE planned@{} < locked@{} < published@{}: tree write lock released before the dereference is published: {}", tp, ta, t2, what)),
					Some((tc, tp, t2, _)) if have_defer_hook && tc < ta && ta < t2 => f13.push(format!(
						"F13-SEQUENCE checked@{} < locked@{} < planned@{} < published@{} (a lock requested during the walk is granted when the walk's write lock is released): tree write lock released before the dereference is published: {}", tc, ta, tp, t2, what)),
					// weaker evidence when the crate lacks the deferral yield points: the lock was
					// granted after the PREVIOUS record was published, i.e. possibly before the
					// deferral check of this one
					Some((_, tp, t2, pp)) if !have_defer_hook && pp < ta && ta < t2 => f13.push(format!(
						"F13-SEQUENCE (weak, yield point process_commits.before_deferral_check absent) previous-publication@{} < locked@{} < planned@{} < published@{}: tree write lock released before the dereference is published: {}", pp, ta, tp, t2, what)),
					Some((tc, tp, t2, _)) => bad.push(format!(
						"LOCK-STABILITY (not the F13 sequence: checked@{} planned@{} published@{}, lock granted @{}): {}", tc, tp, t2, ta, what)),
					None => bad.push(format!("LOCK-STABILITY (no publication removed the root of tree {}; lock granted @{}): {}", i, ta, what)),
				}
			};
			while !stop.load(Ordering::Relaxed) && bad.len() < 3 {
				let pick = {
					let s = shared.lock().unwrap();
					let lo = s.pruned_upto.saturating_sub(1);
					let hi = *s.trees.keys().next_back().unwrap();
					let i = lo + rr.below(hi - lo + 1);
					s.trees.get(&i).map(|(k, tr)| (i, k.clone(), tr.clone()))
				};
				let (i, k, tr) = match pick {
					Some(x) => x,
					None => continue,
				};
				let reader = match db.get_tree(TREE_COL, &k) {
					Ok(Some(r)) => r,
					Ok(None) => {
						if shared.lock().unwrap().pruned_upto <= i {
							bad.push(format!("tree {} not found although its dereference was never committed", i));
						}
						gone += 1;
						continue
					},
					Err(e) => {
						bad.push(format!("get_tree({}) error {:?}", i, e));
						continue
					},
				};
				let guard = reader.read();
				let ta = hook.tick();
				windows.lock().unwrap_or_else(|e| e.into_inner())[r] = Some((i, None));
				let mut addrs = HashMap::new();
				let mut n = 0;
				// reading a tree that is being removed under the lock may hit reused slots: a panic
				// inside the crate is damage like any other
				let first = std::panic::catch_unwind(std::panic::AssertUnwindSafe(|| walk(&**guard, &tr, &mut addrs, &mut n)))
					.unwrap_or_else(|_| Err("the crate panicked while the tree was read".to_string()));
				match first {
					Ok(true) => {
						walks += 1;
						nodes += n;
						if hold_us > 0 {
							std::thread::sleep(Duration::from_micros(rr.below(hold_us + 1)));
						}
						// still the same at the end of the critical section
						let mut addrs2 = HashMap::new();
						let mut n2 = 0;
						match std::panic::catch_unwind(std::panic::AssertUnwindSafe(|| walk(&**guard, &tr, &mut addrs2, &mut n2)))
								.unwrap_or_else(|_| Err("the crate panicked while the tree was read".to_string()))
							{
							Ok(true) if addrs2 == addrs => {},
							other => classify(i, ta, format!("tree {} differs at the end of the critical section from the walk at its start: {:?}", i, other), &mut f13, &mut bad),
						}
					},
					Ok(false) => {
						if shared.lock().unwrap().pruned_upto <= i {
							bad.push(format!("LOCK-STABILITY: tree {} has no root under its read lock; its dereference was never committed", i));
						}
						gone += 1;
					},
					Err(m) => classify(i, ta, format!("tree {} is damaged during the first walk under its read lock: {}", i, m), &mut f13, &mut bad),
				}
				windows.lock().unwrap_or_else(|e| e.into_inner())[r] = None;
				drop(guard);
			}
			(walks, nodes, gone, bad, f13)
		}));
	}
	std::thread::sleep(Duration::from_millis(millis));
	stop.store(true, Ordering::SeqCst);
	fn wait<T>(h: &std::thread::JoinHandle<T>, deadline: Instant) -> bool {
		while !h.is_finished() && Instant::now() < deadline {
			std::thread::sleep(Duration::from_millis(5));
		}
		h.is_finished()
	}
	let deadline = Instant::now() + Duration::from_secs(60);
	let mut hung = !wait(&writer, deadline) || !wait(&pruner, deadline);
	for h in &readers {
		hung |= !wait(h, deadline);
	}
	if hung {
		t.oracle_fail(prop, "watchdog: reader / writer / pruner thread did not finish within 60 s of the stop signal");
		t.end_case(true);
		t.flush();
		std::process::exit(3);
	}
	let n_inserted = match writer.join().unwrap_or_else(|_| Err("writer thread panicked".to_string())) {
		Ok(n) => n,
		Err(m) => {
			t.oracle_fail(prop, &m);
			ok = false;
			inserted.load(Ordering::SeqCst)
		},
	};
	let n_removed = match pruner.join().unwrap_or_else(|_| Err("pruner thread panicked".to_string())) {
		Ok(n) => n,
		Err(m) => {
			t.oracle_fail(prop, &m);
			ok = false;
			removed_committed.load(Ordering::SeqCst)
		},
	};
	for h in readers {
		let (walks, nodes, gone, bad, f13) = match h.join() {
			Ok(x) => x,
			Err(_) => {
				t.oracle_fail(prop, "threaded: a reader thread panicked outside the tree walks");
				ok = false;
				continue
			},
		};
		ctr.add("threaded.f13_sequences_shown", f13.len() as u64);
		// every shown sequence is counted, the first few of each reader are reported
		for m in f13.iter().take(3) {
			t.oracle_fail(prop, m);
			ok = false;
		}
		ctr.add("threaded.locked_walks", walks);
		ctr.add("threaded.nodes_read_under_lock", nodes);
		ctr.add("threaded.reads_of_pruned_trees", gone);
		for m in bad {
			t.oracle_fail(prop, &m);
			ok = false;
		}
	}
	// quiesce: wait until the removals are visible, then check the final state
	let td = Instant::now();
	let live_want: Vec<(u64, Vec<u8>, L)> = {
		let s = shared.lock().unwrap();
		s.trees.iter().filter(|(i, _)| **i >= n_removed).map(|(i, (k, tr))| (*i, k.clone(), tr.clone())).collect()
	};
	let want_entries = expected_entries(&live_want.iter().map(|x| &x.2).collect::<Vec<_>>());
	let mut entries = 0;
	while td.elapsed() < Duration::from_secs(20) {
		entries = db.get_num_column_value_entries(TREE_COL).unwrap();
		let oldest_gone = n_removed == 0 || matches!(db.get_tree(TREE_COL, &key_of(n_removed - 1)), Ok(None));
		if entries == want_entries && oldest_gone {
			break
		}
		std::thread::sleep(Duration::from_millis(50));
	}
	if entries != want_entries {
		t.oracle_fail(prop, &format!("threaded: {} value entries after quiescence, expected {} ({} live trees)", entries, want_entries, live_want.len()));
		ok = false;
	}
	for (i, k, tr) in live_want.iter() {
		match verify_tree(&db, k, tr, &mut HashMap::new()) {
			Ok(true) => {},
			other => {
				t.oracle_fail(prop, &format!("threaded: live tree {} not intact at the end: {:?}", i, other));
				ok = false;
			},
		}
	}
	let removed_val = kv_get(&db, b"removed").map(|v| u64::from_le_bytes(v[0..8].try_into().unwrap())).unwrap_or(0);
	let n_deferred = hook.deferred.load(Ordering::SeqCst);
	ctr.add("threaded.deferrals", n_deferred);
	if removed_val != n_removed {
		// F4 is shown iff the final value is the one an EARLIER pruning transaction wrote and (when
		// the yield point exists) at least one commit was re-queued
		if removed_val >= 1 && removed_val < n_removed && (n_deferred > 0 || !have_defer_hook) {
			ctr.inc("threaded.order_violated");
			t.known(prop, "F4", &format!("deferred commit overtaken and re-published: counter written by the pruning transactions ends at {} (value of an earlier, re-queued transaction; {} deferrals) although the last committed transaction wrote {}", removed_val, n_deferred, n_removed));
		} else {
			t.oracle_fail(prop, &format!("threaded: counter ends at {} although the last committed transaction wrote {}; NOT the F4 pattern ({} deferrals)", removed_val, n_removed, n_deferred));
			ok = false;
		}
	} else {
		ctr.inc("threaded.order_kept");
	}
	t.comment(&format!("threaded: inserted={} removed={} live={} entries={} counter={}", n_inserted, n_removed, live_want.len(), entries, removed_val));
	ctr.add("threaded.trees_inserted", n_inserted);
	ctr.add("threaded.trees_removed", n_removed);
	drop(shared);
	Hook11::uninstall();
	*hook.on_published.lock().unwrap() = None;
	let mut db = db;
	let db = loop {
		// a hook invocation in flight may hold a temporary strong reference
		match Arc::try_unwrap(db) {
			Ok(d) => break d,
			Err(a) => {
				db = a;
				std::thread::sleep(Duration::from_millis(1));
			},
		}
	};
	let dropper = std::thread::spawn(move || drop(db));
	if !wait(&dropper, Instant::now() + Duration::from_secs(30)) {
		t.comment("threaded: drop(Db) did not return within 30 s (pre-finding F7)");
		ctr.inc("threaded.drop_hang_F7");
	}
	let _ = std::fs::remove_dir_all(&dir);
	ctr.inc("cases.threaded");
	t.end_case(n_inserted > 5);
	ok
}

// ------------------------------------------------------------------------------------------
// 4: a reader asks for the lock after the dereference walk was planned, before it is published

fn publish_gap(seed: u64, root: &Path, t: &mut Trace, ctr: &mut Counters, prop: &str) -> bool {
	let mut rng = Rng::new(seed);
	let depth = rng.range(2, 3) as u32;
	let reuse = rng.chance(2, 3);
	t.begin_case(&format!("seed={} publish-gap depth={} reuse={}", seed, depth, reuse));
	let dir = fresh_dir(root, &format!("c11-pg-{}", seed));
	let hook = hook_for_case(root, "process_commits.before_end_record").expect("hook with a park point");
	let db = Db::open_or_create(&options(&dir, false)).expect("create");
	let mut rec = Rec::new(&db, 8, counting(root, &Some(hook.clone())), t);
	let mut tag = 0;
	let mut ok = true;
	let a = gen_tree(&mut rng, depth, &mut tag);
	let ka = key_of(1);
	let none = HashMap::new();
	let mut addrs_a = HashMap::new();
	rec.commit(t, &[], &[], &[(1, &a, &none)], &[], &mut addrs_a).unwrap();
	rec.drain(t, 2, &[]);
	rec.commit(t, &[], &[1], &[], &[], &mut HashMap::new()).unwrap();
	hook.arm();
	let mut violated = vec![];
	let mut other = vec![];
	let mut reached = false;
	let mut excluded = false;
	// stamps: the dereferencing record planned / the reader's lock granted / the record published
	let (mut t_plan, mut t_lock, mut t_pub) = (0u64, 0u64, 0u64);
	std::thread::scope(|s| {
		let dbr = &db;
		let worker = s.spawn(move || {
			PARK_ME11.with(|p| p.set(true));
			let r = dbr.process_commits();
			PARK_ME11.with(|p| p.set(false));
			r
		});
		if !hook.wait_parked(5000) {
			hook.release();
			worker.join().unwrap().unwrap();
			return
		}
		reached = true;
		t_plan = hook.last_plan.load(Ordering::SeqCst);
		// the walk is planned, nothing is published: the tree still looks intact to `Db::get_root`
		// (the slots are already on the free list: the entry count has dropped)
		rec.emit(t, "process", "ok", &[]);
		let reader = match db.get_tree(TREE_COL, &ka) {
			Ok(Some(r)) => r,
			other_r => {
				other.push(format!("get_tree before publication returned {:?}", other_r.map(|o| o.is_some())));
				hook.release();
				worker.join().unwrap().unwrap();
				return
			},
		};
		let guard = match reader.try_read() {
			Some(g) => {
				// a crate WITHOUT fix-c11-tree-lock-until-published.diff: the walk's write lock is
				// gone, the reader gets the tree although its removal is planned (finding F13)
				t_lock = hook.tick();
				rec.trylock(t, 1, true, &[(1, &**g)]);
				g
			},
			None => {
				// the log worker holds the tree's write lock until the record is published
				excluded = true;
				rec.trylock(t, 1, false, &[]);
				// a blocking `read()` must not return while the worker is parked in front of
				// `end_record`: probe thread, observed for 150 ms
				let granted = Arc::new(AtomicU64::new(0));
				let probe = {
					let (reader, granted, hook) = (reader.clone(), granted.clone(), hook.clone());
					s.spawn(move || {
						let g = reader.read();
						granted.store(hook.tick(), Ordering::SeqCst);
						g.get_root().map(|o| o.is_some()).map_err(|e| format!("{:?}", e))
					})
				};
				std::thread::sleep(Duration::from_millis(150));
				if granted.load(Ordering::SeqCst) != 0 {
					other.push("a blocking read() of tree A returned while the record that dereferences A was planned and not published".to_string());
				}
				// nothing changed for the other clients meanwhile
				rec.emit(t, "settle", "ok", &[]);
				hook.release();
				worker.join().unwrap().unwrap();
				t_pub = hook.last_pub.load(Ordering::SeqCst);
				match probe.join() {
					Ok(Ok(false)) => {},
					r => other.push(format!("the reader that waited for the log worker found the root of A: {:?} (expected: gone)", r)),
				}
				t_lock = granted.load(Ordering::SeqCst);
				if t_pub == 0 || t_lock <= t_pub {
					other.push(format!("the waiting reader's lock was granted @{}, not after the publication @{}", t_lock, t_pub));
				}
				rec.emit(t, "publish", "ok", &[]);
				// this thread's reader: the lock is free again, the tree is gone and stays gone
				let g = reader.read();
				let held: &Held = &[(1, &**g)];
				rec.lock(t, 1, held);
				if !matches!(g.get_root(), Ok(None)) {
					other.push("after the publication the root of A is still readable under a new lock".to_string());
				}
				rec.settle(t, held);
				if reuse {
					let d = gen_tree(&mut rng, depth, &mut tag);
					rec.commit(t, &[], &[], &[(9, &d, &none)], held, &mut HashMap::new()).unwrap();
					rec.drain(t, 2, held);
					if !matches!(g.get_root(), Ok(None)) {
						violated.push("root of A reappeared under the held lock (after reuse of its slots)".to_string());
					}
				}
				drop(g);
				rec.unlock(t, 1, &[]);
				return
			},
		};
		let held: &Held = &[(1, &**guard)];
		let mut addrs = HashMap::new();
		let mut n = 0;
		match walk(&**guard, &a, &mut addrs, &mut n) {
			Ok(true) if addrs == addrs_a => {},
			other_r => other.push(format!("tree not intact when the lock was acquired: {:?}", other_r)),
		}
		hook.release();
		worker.join().unwrap().unwrap();
		t_pub = hook.last_pub.load(Ordering::SeqCst);
		// the removal is now published while the read lock is STILL held
		rec.emit(t, "publish", "ok", held);
		let mut addrs2 = HashMap::new();
		let mut n2 = 0;
		match walk(&**guard, &a, &mut addrs2, &mut n2) {
			Ok(true) if addrs2 == addrs => {},
			Ok(true) => violated.push("node addresses changed under the held lock".to_string()),
			Ok(false) => violated.push("root disappeared under the held lock".to_string()),
			Err(m) => violated.push(format!("tree changed under the held lock: {}", m)),
		}
		rec.settle(t, held);
		if reuse {
			// freed slots are handed out again while the reader still holds its lock
			let d = gen_tree(&mut rng, depth, &mut tag);
			rec.commit(t, &[], &[], &[(9, &d, &none)], held, &mut HashMap::new()).unwrap();
			rec.drain(t, 2, held);
			let mut addrs3 = HashMap::new();
			let mut n3 = 0;
			match walk(&**guard, &a, &mut addrs3, &mut n3) {
				Ok(true) if addrs3 == addrs => {},
				Ok(true) => violated.push("node addresses changed under the held lock (after reuse)".to_string()),
				Ok(false) => {},
				Err(m) => violated.push(format!("after a later InsertTree: {}", m)),
			}
		}
		drop(guard);
		rec.unlock(t, 1, &[]);
	});
	rec.drain(t, 3, &[]);
	let mut forest_ok = true;
	if !matches!(verify_tree(&db, &ka, &a, &mut HashMap::new()), Ok(false)) {
		t.oracle_fail(prop, "publish-gap: tree A still present at the end");
		ok = false;
		forest_ok = false;
	}
	if reached {
		rec.verdict(t, forest_ok, violated.is_empty() && other.is_empty());
	}
	Hook11::uninstall();
	// the F13 sequence: the lock was granted after the dereferencing record was planned and before
	// it was published
	let shown = t_plan != 0 && t_plan < t_lock && t_lock < t_pub;
	if !reached {
		t.comment("publish-gap: yield point not reached");
		ctr.inc("publish_gap.not_reached");
	} else if !other.is_empty() || !rec.stale.is_empty() {
		t.oracle_fail(prop, &format!("publish-gap: {} {}", other.join("; "), if rec.stale.is_empty() { "" } else { "ordinary reads changed" }));
		ok = false;
	} else if excluded && violated.is_empty() {
		ctr.inc("publish_gap.reader_blocked_until_published");
	} else if shown {
		ctr.inc("publish_gap.violated");
		t.oracle_fail(prop, &format!("publish-gap: F13-SEQUENCE planned@{} < locked@{} < published@{}: tree write lock released before the dereference is published: reader locked tree A between the walk and end_record: {}", t_plan, t_lock, t_pub, if violated.is_empty() { "(nothing changed under the lock in this run)".to_string() } else { violated.join("; ") }));
		ok = false;
	} else {
		t.oracle_fail(prop, &format!("publish-gap: LOCK-STABILITY (not the F13 sequence; planned@{} locked@{} published@{}): {}", t_plan, t_lock, t_pub, violated.join("; ")));
		ok = false;
	}
	drop(rec);
	drop(db);
	let _ = std::fs::remove_dir_all(&dir);
	ctr.inc("cases.publish_gap");
	t.end_case(reached);
	ok
}

pub fn run(seeds: &[u64], thorough: bool, root: &Path, t: &mut Trace, ctr: &mut Counters, prop: &str) -> u64 {
	let mut fails = 0;
	for (i, s) in seeds.iter().copied().enumerate() {
		// a run of several cases covers every kind (and both stability variants) in turn; the
		// adjusted seed is the one printed, so `--case-seed` replays it
		let s = if seeds.len() > 1 { s - (s % 10) + (i as u64 % 10) } else { s };
		let ok = match s % 5 {
			0 => f4(s, root, t, ctr, prop),
			1 => stability(s, root, t, ctr, prop),
			2 => f4_insert(s, root, t, ctr, prop),
			3 => threaded(s, thorough, root, t, ctr, prop),
			_ => publish_gap(s, root, t, ctr, prop),
		};
		ctr.inc("cases");
		if !ok {
			fails += 1;
			t.comment(&format!("FAILED-CASE seed={}", s));
		}
	}
	fails
}
