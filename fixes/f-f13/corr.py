#!/usr/bin/env python3
"""Replays a pdbverif run through pdbdriver exactly as /verif/check's `correspondence` does."""
import sys, os, subprocess, time, json, re
KNOWN = [k for k in json.load(open(os.environ.get("KNOWNF", "/verif/known_findings.json")))["findings"] if k.get("status") == "open"]
BIN = os.environ.get("PDBVERIF", "/dev/shm/f-f13/target/release/pdbverif")
DRIVER = "/dev/shm/f-f13/lean/.lake/build/bin/pdbdriver"


def parse_trace(path):
    cases, stats = [], {}
    cur = {"desc": "preamble", "ops": [], "oracle": [], "known": [], "nontrivial": False}
    for line in open(path, errors="replace"):
        line = line.rstrip("\n")
        if line.startswith("#CASE "):
            if cur["ops"] or cur["oracle"] or cur["known"] or cur["desc"] != "preamble":
                cases.append(cur)
            cur = {"desc": line[6:], "ops": [], "oracle": [], "known": [], "nontrivial": False}
        elif line.startswith("#CASEEND"):
            cur["nontrivial"] = "nontrivial=1" in line
        elif line.startswith("#STAT "):
            _, k, v = line.split(" ", 2)
            stats[k] = v
        elif line.startswith("!ORACLE "):
            cur["oracle"].append(line[8:])
        elif line.startswith("!KNOWN "):
            cur["known"].append(line[7:])
        elif line.startswith("#"):
            continue
        elif "\t" in line:
            op, obs = line.split("\t", 1)
            cur["ops"].append((op, obs))
    if cur["ops"] or cur["oracle"] or cur["known"] or cur["desc"] != "preamble":
        cases.append(cur)
    return cases, stats


def main():
    args = sys.argv[1:]
    show_stats = "--stats" in args
    args = [a for a in args if a != "--stats"]
    trace = "/dev/shm/f-f13/runs/trace_%d.txt" % os.getpid()
    cmd = [BIN] + args + ["--out", trace]
    t0 = time.time()
    p = subprocess.run(cmd, stdout=subprocess.PIPE, stderr=subprocess.STDOUT, timeout=int(os.environ.get("TMO","1500")))
    dt = time.time() - t0
    print("harness rc=%d %.1fs" % (p.returncode, dt))
    if p.returncode not in (0, 1):
        print(p.stdout.decode()[-1500:])
    cases, stats = parse_trace(trace)
    os.remove(trace)
    ops = [o for c in cases for o, _ in c["ops"]]
    t0 = time.time()
    d = subprocess.run([DRIVER], input=("\n".join(ops) + "\n").encode(), stdout=subprocess.PIPE, stderr=subprocess.PIPE, timeout=int(os.environ.get("TMO","1500")))
    outs = d.stdout.decode("utf-8", "replace").split("\n")
    print("driver %.1fs, %d ops" % (time.time() - t0, len(ops)))
    i, dis, orc, nontriv = 0, 0, 0, 0
    kn_cnt = {}
    for c in cases:
        first = None
        for op, obs in c["ops"]:
            got = outs[i] if i < len(outs) else "<driver-eof>"
            i += 1
            if got.strip() != obs.strip() and first is None:
                first = (op, obs, got)
        if first:
            dis += 1
            print("DISAGREE", c["desc"][:200], "\n   op:", first[0][:300], "\n   impl:", first[1][:300], "\n   model:", first[2][:300])
        for kn in c["known"]:
            pid = args[args.index("--prop") + 1]
            parts = kn.split(" ", 2)
            kid = parts[1] if len(parts) > 1 else "?"
            hit = [x for x in KNOWN if x.get("id") == kid and x.get("property") == pid and re.search(x["signature"], kn)]
            if hit:
                kn_cnt[kid] = kn_cnt.get(kid, 0) + 1
            else:
                orc += 1
                print("UNMATCHED-KNOWN", c["desc"][:120], "\n    ", kn[:300])
        for o in c["oracle"]:
            pid = args[args.index("--prop") + 1]
            text = o + " || " + c["desc"]
            hit = [k for k in KNOWN if k.get("property") == pid and re.search(k["signature"], text)]
            if hit:
                kn_cnt[hit[0]["id"]] = kn_cnt.get(hit[0]["id"], 0) + 1
                continue
            orc += 1
            print("ORACLE", c["desc"][:200], "\n   ", o[:600])
        nontriv += c["nontrivial"]
    print("cases=%d nontrivial=%d disagreements=%d unclassified_oracle_failures=%d known=%s" % (len(cases), nontriv, dis, orc, kn_cnt))
    if show_stats:
        for k in sorted(stats):
            print("  ", k, stats[k])


main()
