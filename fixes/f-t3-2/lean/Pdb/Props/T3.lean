/-
T3  Journals of real multi-threaded runs are traces of the concurrency LTS of C05.

`T3.accepts kind n j` (Pdb/Model/Journal.lean) is the executable acceptor that the check runs
(driver command `t3`) on event journals recorded by harness/src/t3.rs from runs of the crate with
its four background workers, several committing clients and several readers.

  * T3_sound: an accepted journal IS a trace of the LTS `CRd.cstep` of Model/ConcRead.lean (the
    LTS of all `C05_*` theorems): there is a schedule `as` in which EVERY action is enabled at
    its turn (`AllEnabled`, nothing is a no-op), whose pipeline actions (commit | pop | publish |
    cleanOverlay | flush | endRead) are exactly the journal's pipeline events in journal order,
    whose history is the list of the journal's transactions, and in whose final state every read
    of the journal occurs as a completed LTS read of the same reader and key, WITH THE VALUE THE
    REAL RUN OBSERVED, its snapshot taken inside the window [commits before its start event,
    commits before its end event].  Hence every `C05_*` theorem applies to the observed run.
    Second part: `orderOk j`, the ORDER the ids reported by the crate imply, as a property of the
    journal alone (Model/Journal.lean: commit ids consecutive per session, commits popped in queue
    order after they were queued and one at a time, publish / clean of the commit popped /
    published last, record ids consecutive, only flushed records enacted, in record order, one
    at a time); `T3_order` spells out its list form (enact ids = 1..k, commit ids = pop ids
    prefix = 1..n per session).  Stated for every column kind (`kind` is a parameter: the
    driver maps key tokens `p..` to preimage and `r..` to ref-counted columns); the read
    theorems below are for plain keys, for the other kinds the guarantee is `T3_sound` itself
    (the observed value is the value of an LTS read), as C05 weakens for them (C07).
  * T3_linearizable (C05 on the observed run): every read of an accepted journal returned the
    sequential specification value of its key after the first q transactions of the journal, for
    some q inside its window.
  * T3_never_back_in_time: for two reads of an accepted journal, the first ended before the
    second began (in particular two reads of one reader), the snapshots can be chosen in order.
-/
import Pdb.Proofs.T3
import Pdb.Props.C05
import Pdb.Proofs.T3Pipe
import Pdb.Props.C15

namespace Pdb
open CRd CRdDriver T3

variable {K V : Type} [DecidableEq K] [DecidableEq V]

/-- Soundness of the acceptor. -/
theorem T3_sound (kind : K → Kind) (n : Nat) (j : List (Ev K V))
    (h : accepts kind n j = true) :
    (∃ as : List (CAct K V),
      AllEnabled kind n CSt.init as ∧
      pipeProj as = j.filterMap evAct ∧
      (crun kind n CSt.init as).hist = journalCommits j ∧
      ∀ r ∈ journalReads j, ∃ e ∈ (crun kind n CSt.init as).reads,
        e.tid = r.tid ∧ e.key = r.key ∧ e.result = r.obs ∧ r.lo ≤ e.startSeq ∧ e.endSeq ≤ r.hi) ∧
    orderOk j = true := by
  simp only [accepts, check, Bool.and_eq_true, decide_eq_true_eq, Option.isNone_iff_eq_none,
    List.all_eq_true, List.contains_iff_mem] at h
  obtain ⟨⟨_, hord⟩, ⟨⟨⟨⟨hen, hproj⟩, hhist⟩, hreads⟩, hcover⟩⟩ := h
  refine ⟨⟨(elaborate kind n j).sched, allEnabled_of_firstDisabled _ _ _ _ hen, hproj, ?_, ?_⟩, hord⟩
  · rw [← crunX_eq]; exact hhist
  · intro r hr
    obtain ⟨e, he, hp⟩ := all2_mem readOk _ _ hreads r (hcover r hr)
    rw [← crunX_eq]
    simp only [readOk, Bool.and_eq_true, decide_eq_true_eq] at hp
    exact ⟨e, he, hp.1.1.1.1, hp.1.1.1.2, hp.1.1.2, hp.1.2, hp.2⟩

/-- What the ids say about the ORDER of the real run (second part of `T3_sound`, spelled out):
    records are enacted in record order 1, 2, 3, .. (across sessions); within one session (a
    journal without `reopen`) the commit ids are 1, 2, 3, .. in the order the commits entered
    overlay and queue, and the commits are popped in exactly that order (pop ids 1, 2, 3, ..):
    the log worker processes commits in queue order.  (`orderOk` also says: a commit is popped
    after it was queued and only when its predecessor is published and cleaned; `publish` /
    `clean` concern the commit popped / published last; record ids consecutive; only records
    handed over by a `flush` are enacted; `endread` ends the record enacted last.) -/
theorem T3_order (kind : K → Kind) (n : Nat) (j : List (Ev K V)) (h : accepts kind n j = true) :
    enactIds j = List.range' 1 (enactIds j).length ∧
    (noReopen j = true →
      commitIds j = List.range' 1 (commitIds j).length ∧
      popIds j = List.range' 1 (popIds j).length) := by
  have ho := (T3_sound kind n j h).2
  exact ⟨enactIds_of_ok j {} ho, fun hn => ⟨commitIds_of_ok j {} ho hn, popIds_of_ok j {} ho hn⟩⟩

/-- C05 on the observed run: every read of an accepted journal is linearizable inside its
    window. -/
theorem T3_linearizable (kind : K → Kind) (n : Nat) (j : List (Ev K V))
    (h : accepts kind n j = true) (r : JRead K V) (hr : r ∈ journalReads j)
    (hk : kind r.key = .plain) :
    ∃ q, r.lo ≤ q ∧ q ≤ r.hi ∧
      r.obs = (spec kind ((journalCommits j).take q) r.key).map Prod.fst := by
  obtain ⟨as, _, _, hhist, hreads⟩ := (T3_sound kind n j h).1
  obtain ⟨e, he, _, hkey, hres, hlo, hhi⟩ := hreads r hr
  have hl := C05_read_linearizable kind n as e he (by rw [hkey]; exact hk)
  refine ⟨e.startSeq, hlo, by have := hl.2.1; omega, ?_⟩
  rw [← hres, hl.2.2.2, hhist, hkey]

/-- Reads never go back in time: if one read ended before another one began (two reads of one
    reader, or of different readers), their snapshots can be chosen in that order. -/
theorem T3_never_back_in_time (kind : K → Kind) (n : Nat) (j : List (Ev K V))
    (h : accepts kind n j = true) (r1 r2 : JRead K V) (h1 : r1 ∈ journalReads j)
    (h2 : r2 ∈ journalReads j) (hk1 : kind r1.key = .plain) (hk2 : kind r2.key = .plain)
    (hord : r1.hi ≤ r2.lo) :
    ∃ q1 q2, q1 ≤ q2 ∧
      r1.obs = (spec kind ((journalCommits j).take q1) r1.key).map Prod.fst ∧
      r2.obs = (spec kind ((journalCommits j).take q2) r2.key).map Prod.fst := by
  obtain ⟨q1, _, hq1, e1⟩ := T3_linearizable kind n j h r1 h1 hk1
  obtain ⟨q2, hq2, _, e2⟩ := T3_linearizable kind n j h r2 h2 hk2
  exact ⟨q1, q2, by omega, e1, e2⟩

/-! ### non-vacuity -/
section Example
private def kd : Nat → Kind := fun _ => .plain

/-- Two clients, two readers, the workers in between: commit 2 is accepted while commit 1 is in
    flight and while reader 0 is inside its read of key 1; reader 0 returns the OLD value 10 (its
    snapshot lies before commit 2, inside its window), reader 1 reads key 2 across clean / flush
    / enact, reader 0 then reads key 1 across endread / pop / publish of the commit writing it. -/
private def jGood : List (Ev Nat Nat) :=
  [.commit 1 [.set 1 10, .set 2 20], .rs 0 1, .pop 1, .publish 1 1, .commit 2 [.set 1 11],
   .rs 1 2, .clean 1, .re 0 1 (some 10), .flush, .enact 1, .re 1 2 (some 20), .rs 0 1,
   .endread 1, .pop 2, .publish 2 2, .re 0 1 (some 11), .clean 2, .cleanlogs, .flush, .enact 2,
   .endread 2, .rs 1 1, .re 1 1 (some 11)]

example : accepts kd 2 jGood = true := by decide

example : journalReads jGood =
    [⟨0, 1, some 10, 1, 2⟩, ⟨1, 2, some 20, 2, 2⟩, ⟨0, 1, some 11, 2, 2⟩, ⟨1, 1, some 11, 2, 2⟩] := by
  decide

/-- The same run, but the last read goes BACK IN TIME: it returns 10 after both commits were
    accepted (and after 11 had been observed): rejected at that event. -/
private def jBad : List (Ev Nat Nat) :=
  jGood.take 22 ++ [.re 1 1 (some 10)]

example : accepts kd 2 jBad = false := by decide
example : ((elaborate kd 2 (jGood.take 22)).bad.isNone = true) ∧
    (elaborate kd 2 jBad).bad.isSome = true := by decide

/-- ... and rightly so: no snapshot inside its window explains the value -/
example : ¬ ∃ q, 2 ≤ q ∧ q ≤ 2 ∧
    (some 10 : Option Nat) = (spec kd ((journalCommits jBad).take q) 1).map Prod.fst := by
  rintro ⟨q, h1, h2, h⟩
  have : q = 2 := by omega
  subst this
  revert h
  decide

/-- The order statement of `T3_sound` on the example, and a journal that violates only it: the
    ids say commit 2 was popped before commit 1. -/
example : orderOk jGood = true ∧ noReopen jGood = true ∧ popIds jGood = [1, 2] := by decide
example : orderOk ([.commit 1 [.set 1 10], .commit 2 [.set 1 11], .pop 2] : List (Ev Nat Nat)) = false := by
  decide

/-- Pipeline order is enforced too: `clean` before the record is published is not a transition. -/
example : accepts kd 1 ([.commit 1 [.set 1 10], .pop 1, .clean 1] : List (Ev Nat Nat)) = false := by
  decide
/-- `endread` of a record that was never flushed / enacted is not a transition. -/
example : accepts kd 1 ([.commit 1 [.set 1 10], .pop 1, .publish 1 1, .endread 1] : List (Ev Nat Nat))
    = false := by decide
end Example

end Pdb

/-! ### the same journals on the worker LTS of C15 -/
namespace Pdb
open Conc.Pipe T3P

/-- Soundness of the worker-LTS acceptor: an accepted journal is the visible part of a panic-free
    run of `Conc.Pipe` (the LTS of the `C15_*` theorems) from its initial state: the strict part
    of the journal (everything up to the drop of the handle: commits with their byte counts, pops
    in queue order with the same byte counts, publishes, flushes, enacted records) is a prefix of
    the visible steps of the schedule, every wait the LTS makes in between was followed by its
    wake-up (the schedule RUNS: no worker was parked when the real one acted), and the run ends
    with the handle dropped, all threads finished, no background error, as many accepted
    commits and written records as the journal has `commit` / `publish` events, and no condvar
    with a parked waiter. -/
theorem T3_pipe_sound (cfg : Conc.Pipe.Cfg) (nCm : Nat) (j : List Vis) (h : acceptsP cfg nCm j = true) :
    ∃ (sched : List Conc.Pipe.Act) (s : Conc.Pipe.St), (∀ a ∈ sched, a.isPanic = false) ∧
      Conc.Pipe.run cfg (Conc.Pipe.init cfg nCm 0) sched = some s ∧
      strictPart j <+: visRun cfg (Conc.Pipe.init cfg nCm 0) sched ∧
      Conc.Pipe.Reachable cfg nCm 0 s ∧
      s.pd = .done ∧ s.bgErr = false ∧ s.accepted = countCommits j ∧
      s.nLogged = countPublish j + 1 ∧ waitingCount s = 0 := by
  simp only [acceptsP, checkP, Bool.and_eq_true] at h
  obtain ⟨_, ⟨hnp, hpre⟩, hrun⟩ := h
  split at hrun
  · rename_i s hs
    have hnp' : ∀ a ∈ (elaborateP cfg nCm j).sched.reverse, a.isPanic = false := by
      intro a ha
      have := List.all_eq_true.1 hnp a ha
      simpa using this
    simp only [finalOk, Bool.and_eq_true, decide_eq_true_eq, Bool.not_eq_true'] at hrun
    exact ⟨_, s, hnp', hs, (T3P.isPrefix_iff _ _).1 hpre, ⟨_, hnp', hs⟩, hrun.1.1.1.1, hrun.1.1.1.2,
      hrun.1.1.2, hrun.1.2, hrun.2⟩
  · cases hrun

/-- ... hence, for the configurations of the current source tree (`C15_gen_fixed`), what C15
    proves of every dropped handle holds of the observed run: nothing is left in the queue or in
    the appending file, no log file is half read, every accepted commit was written, every
    record written is enacted or sits in a complete flushed file. -/
theorem T3_pipe_drop_persists (cfg : Conc.Pipe.Cfg) (hF : Fixed cfg) (nCm : Nat) (j : List Vis)
    (h : acceptsP cfg nCm j = true) :
    ∃ s : Conc.Pipe.St, Conc.Pipe.Reachable cfg nCm 0 s ∧ s.accepted = countCommits j ∧ s.nLogged = countPublish j + 1 ∧
      s.dirty = 0 ∧ s.q = [] ∧ s.app = [] ∧ s.reading = none ∧ s.killLost = 0 ∧
      s.accepted + s.nBatches + 1 = s.nLogged ∧ s.nLogged = s.nEnacted + lenSum s.readQ := by
  obtain ⟨_, s, _, _, _, hr, hd, hb, ha, hl, _⟩ := T3_pipe_sound cfg nCm j h
  exact ⟨s, hr, ha, hl, C15_drop_persists_all cfg hF nCm 0 s hr hd hb⟩

section ExampleP
private def cfgAF : Cfg := cfgOfGen 0 false true
/-- three commits of two clients overlapping the workers, the third processed by the drain of the drop -/
private def jP : List Vis :=
  [.commit 0 10, .pop 10, .commit 1 7, .publish, .flush, .pop 7, .enact, .publish, .commit 0 3, .flush,
   .enact, .drop, .pop 3, .publish, .flush, .enact]
example : acceptsP cfgAF 2 jP = true := by decide
example : Fixed cfgAF := fixed_of_patched rfl (by decide)
/-- the 16 MiB commit-queue throttle: with 18 MB queued client 2 goes to wait, the pop that brings
    the queue back under the limit wakes it up, then its commit enters the queue -/
private def jThrottle : List Vis :=
  [.commit 0 9000000, .commit 1 9000000, .cwait 2 5000000, .pop 9000000, .commit 2 5000000, .publish,
   .flush, .enact, .drop, .pop 9000000, .publish, .flush, .enact, .pop 5000000, .publish, .flush, .enact]
example : acceptsP cfgAF 3 jThrottle = true := by decide
/-- a throttled commit that enters the queue BEFORE any pop woke it up is not a run of the LTS -/
example : acceptsP cfgAF 3 [.commit 0 9000000, .commit 1 9000000, .cwait 2 5000000, .commit 2 5000000,
    .pop 9000000, .publish, .drop] = false := by decide
/-- ... nor is a wait while the queue is below the limit -/
example : acceptsP cfgAF 2 [.commit 0 9000000, .cwait 1 5000000, .drop] = false := by decide
/-- commits are popped in queue order with their own byte counts -/
example : acceptsP cfgAF 1 [.commit 0 10, .commit 0 7, .pop 7, .publish, .drop] = false := by decide
/-- a flush while the appending file is below the threshold (no always_flush) is not a step -/
example : acceptsP (cfgOfGen Gen.MIN_LOG_SIZE_BYTES false true) 1
    [.commit 0 10, .pop 10, .publish, .flush, .drop] = false := by decide
/-- an enact before any flush is not a step -/
example : acceptsP cfgAF 1 [.commit 0 10, .pop 10, .publish, .enact, .drop] = false := by decide
end ExampleP
end Pdb

#print axioms Pdb.T3_sound
#print axioms Pdb.T3_order
#print axioms Pdb.T3_linearizable
#print axioms Pdb.T3_never_back_in_time
#print axioms Pdb.T3_pipe_sound
#print axioms Pdb.T3_pipe_drop_persists
