/-
JournalPipe (tie T3, C15 side): the journals of real multi-threaded runs (harness/src/t3.rs) are
also replayed on the LTS of the four background workers of `Pdb/Model/Conc.lean` (`Conc.Pipe`,
the LTS of the `C15_*` theorems: program counters at lock / wait / signal / check granularity,
`WaitCondvar` flags, byte counters of the commit queue and of the log queue, throttles).

Of a journal the worker LTS sees the VISIBLE steps
  commit i b client i's `commit_raw` queued b bytes          `Act.commit i b` (queue not full) or
                                                             `Act.cmTick i` of a parked, woken committer
  cwait i b  client i found more than 16 MiB queued, waits   `Act.commit i b` with the queue full (-> about)
  pop b      the log worker popped the oldest commit (b bytes) tick L at `pop`, queue non-empty
  publish    `end_record`                                      tick L at `write1`
  flush      `flush_one` handed a log file over                tick F at `flOne`, above the threshold
  enact      `enact_logs` read one record                      tick C at `enRead`, record available
  drop       the owner drops the handle                        `Act.drop`
Every other step of the LTS (loop heads, condvar waits and wake-ups, signals, counter updates,
throttle tests, the cleanup worker) is SILENT.  The acceptor keeps the LTS state normalised: after
every visible step each worker runs its silent steps until it is blocked in a wait or stands in
front of a visible step (`normalize`).  A journal event is accepted iff the worker concerned
stands in front of exactly that visible step (same byte count for `pop`): a worker that the LTS
has parked without a wake-up while the real worker went on is a rejection (`blocked`).  After
the `drop` event the remaining journal events (the tail of the workers' loops and the drain of
`kill_logs`, which is ONE atomic step of the LTS) are only counted; the LTS is run to the end
(`drain`) and must reach `pd = done` with as many accepted commits and written records as the
journal has `commit` and `publish` events.

As for the C05 side the schedule built is then CHECKED FROM SCRATCH (`checkP`): it runs
(`Conc.Pipe.run`), has no panic action, its visible steps begin with the journal's strict part
(`visRun`), and the final state has the counts above.  `Props/T3.lean`: `T3_pipe_sound`.
-/
import Pdb.Model.Conc

namespace Pdb
namespace T3P
open Pdb.Conc.Pipe

/-- visible steps -/
inductive Vis where
  | commit (i b : Nat)     -- committer i: `commit_raw` queued b bytes (directly, or after its throttle wait)
  | cwait (i b : Nat)      -- committer i found the queue above 16 MiB and goes to wait
  | pop (b : Nat)
  | publish
  | flush
  | enact
  | drop
  | stuck                  -- harness watchdog: the real run made no progress (never a step of the LTS)
deriving DecidableEq, Repr

/-- the visible step the next tick of worker `t` would be, if any -/
def visTick (cfg : Cfg) (s : St) : Tid → Option Vis
  | .L =>
    match s.pl with
    | .pop =>
      match s.q with
      | b :: _ => some (.pop b)
      | [] => none
    | .write1 _ => some .publish
    | _ => none
  | .F => if s.pf = .flOne ∧ sum s.app > cfg.minLog then some .flush else none
  | .C =>
    if s.pc = .enRead then
      match curFile s with
      | (some (_ :: _), _) => some .enact
      | _ => none
    else none
  | _ => none

/-- the queue-full test of `commit_raw` -/
def throttled (cfg : Cfg) (s : St) : Bool :=
  cfg.workers && decide (sum s.q > MAXQ) && (!cfg.commitChecksErrBeforeWait || !s.bgErr)

def visOf (cfg : Cfg) (s : St) : Act → Option Vis
  | .tick t => visTick cfg s t
  | .commit i b => if throttled cfg s then some (.cwait i b) else some (.commit i b)
  | .cmTick i =>
    match s.cms[i]? with
    | some (.parked b true) => some (.commit i b)
    | _ => none
  | .drop => some .drop
  | _ => none

/-- the visible steps of a schedule (up to the first disabled action) -/
def visRun (cfg : Cfg) : St → List Act → List Vis
  | _, [] => []
  | s, a :: as =>
    match step cfg s a with
    | some s' => (visOf cfg s a).toList ++ visRun cfg s' as
    | none => []

def isPrefix : List Vis → List Vis → Bool
  | [], _ => true
  | _ :: _, [] => false
  | a :: as, b :: bs => decide (a = b) && isPrefix as bs

/-- one round: every worker takes one SILENT step if it can; a committer that has decided to wait
    parks -/
def silentRound (cfg : Cfg) (s : St) (acc : List Act) : St × List Act × Bool :=
  let r := [Tid.L, Tid.F, Tid.C, Tid.K].foldl (fun (x : St × List Act × Bool) t =>
    if (visTick cfg x.1 t).isSome then x
    else
      match step cfg x.1 (.tick t) with
      | some s' => (s', Act.tick t :: x.2.1, true)
      | none => x) (s, acc, false)
  (List.range s.cms.length).foldl (fun (x : St × List Act × Bool) i =>
    match x.1.cms[i]? with
    | some (Cm.about _) =>
      match step cfg x.1 (.cmTick i) with
      | some s' => (s', Act.cmTick i :: x.2.1, true)
      | none => x
    | _ => x) r

def normalize (cfg : Cfg) : Nat → St → List Act → St × List Act
  | 0, s, acc => (s, acc)
  | n + 1, s, acc =>
    let r := silentRound cfg s acc
    if r.2.2 then normalize cfg n r.1 r.2.1 else (r.1, r.2.1)

/-- one round of everybody, visible steps included (after the drop) -/
def anyRound (cfg : Cfg) (s : St) (acc : List Act) : St × List Act × Bool :=
  [Tid.L, Tid.F, Tid.C, Tid.K, Tid.D].foldl (fun (x : St × List Act × Bool) t =>
    match step cfg x.1 (.tick t) with
    | some s' => (s', Act.tick t :: x.2.1, true)
    | none => x) (s, acc, false)

def drain (cfg : Cfg) : Nat → St → List Act → St × List Act
  | 0, s, acc => (s, acc)
  | n + 1, s, acc =>
    let r := anyRound cfg s acc
    if r.2.2 then drain cfg n r.1 r.2.1 else (r.1, r.2.1)

structure PAcc where
  cfg : Cfg
  s : St
  sched : List Act := []          -- newest first
  vis : List Vis := []            -- strict part of the journal, newest first
  dropped : Bool := false
  nCommits : Nat := 0
  nPublish : Nat := 0
  bad : Option String := none

def normFuel : Nat := 200

def PAcc.init (cfg : Cfg) (nCm : Nat) : PAcc :=
  let r := normalize cfg normFuel (Conc.Pipe.init cfg nCm 0) []
  { cfg := cfg, s := r.1, sched := r.2 }

def visName : Vis → String
  | .commit i b => s!"commit c={i} b={b}"
  | .cwait i b => s!"cwait c={i} b={b}"
  | .stuck => "stuck"
  | .pop b => s!"pop b={b}"
  | .publish => "publish"
  | .flush => "flush"
  | .enact => "enact"
  | .drop => "drop"

def pStep (a : PAcc) (e : Vis) : PAcc :=
  if a.bad.isSome then a
  else
    let a := match e with
      | .commit _ _ => { a with nCommits := a.nCommits + 1 }
      | .publish => { a with nPublish := a.nPublish + 1 }
      | _ => a
    if e = .stuck then
      -- the real run made no progress although (C15) the LTS never gets stuck: say who could move
      let who := (if (visTick a.cfg a.s .L).isSome then " L" else "") ++
        (if (visTick a.cfg a.s .F).isSome then " F" else "") ++
        (if (visTick a.cfg a.s .C).isSome then " C" else "") ++
        ((List.range a.s.cms.length).foldl (fun w i =>
          match a.s.cms[i]? with
          | some (.parked _ true) => w ++ s!" committer{i}(woken)"
          | some (.parked _ false) => w ++ s!" committer{i}(parked)"
          | _ => w) "")
      { a with bad := some ("stuck: the LTS can go on with:" ++ who) }
    else if a.dropped then a
    else
      let act : Act := match e with
        | .commit i b =>
          match a.s.cms[i]? with
          | some (.parked _ _) => .cmTick i
          | _ => .commit i b
        | .cwait i b => .commit i b
        | .drop => .drop
        | .pop _ | .publish => .tick .L
        | .flush => .tick .F
        | .enact => .tick .C
        | .stuck => .drop
      if visOf a.cfg a.s act != some e then { a with bad := some ("blocked:" ++ visName e) }
      else
        match step a.cfg a.s act with
        | none => { a with bad := some ("disabled:" ++ visName e) }
        | some s' =>
          let r := normalize a.cfg normFuel s' (act :: a.sched)
          { a with s := r.1, sched := r.2, vis := e :: a.vis, dropped := decide (e = .drop) }

/-- run the LTS to the end (after the drop) -/
def PAcc.finish (a : PAcc) : PAcc :=
  let r := drain a.cfg (1000 + 20 * a.sched.length) a.s a.sched
  { a with s := r.1, sched := r.2 }

/-- number of condvars with a parked waiter -/
def waitingCount (s : St) : Nat :=
  [s.cvL, s.cvF, s.cvC, s.cvK, s.cvQ].foldl (fun n c => if c.waiting then n + 1 else n) 0

def finalOk (nCommits nPublish : Nat) (s : St) : Bool :=
  decide (s.pd = .done) && !s.bgErr && decide (s.accepted = nCommits) && decide (s.nLogged = nPublish + 1) &&
  decide (waitingCount s = 0)

/-- the visible commits / publishes of a journal (all of it, after the drop included) -/
def countCommits (j : List Vis) : Nat := (j.filter (fun e => match e with | .commit _ _ => true | _ => false)).length
def countPublish (j : List Vis) : Nat := (j.filter (fun e => decide (e = .publish))).length

/-- the strict part: everything up to and including the `drop` event -/
def strictPart : List Vis → List Vis
  | [] => []
  | e :: es => if e = .drop then [e] else e :: strictPart es

/-- the certificate check, from scratch -/
def checkP (cfg : Cfg) (nCm : Nat) (j : List Vis) (sched : List Act) : Bool :=
  sched.all (fun a => !a.isPanic) &&
  isPrefix (strictPart j) (visRun cfg (Conc.Pipe.init cfg nCm 0) sched) &&
  match run cfg (Conc.Pipe.init cfg nCm 0) sched with
  | some s => finalOk (countCommits j) (countPublish j) s
  | none => false

/-- measurement: how often a worker parked in a `WaitCondvar` (flag not set) and how often a parked
    worker was woken up, along a schedule -/
def parkStats (cfg : Cfg) : St → List Act → Nat × Nat → Nat × Nat
  | _, [], r => r
  | s, a :: as, r =>
    match step cfg s a with
    | some s' =>
      let w := waitingCount s
      let w' := waitingCount s'
      parkStats cfg s' as (r.1 + (w' - w), r.2 + (w - w'))
    | none => r

def elaborateP (cfg : Cfg) (nCm : Nat) (j : List Vis) : PAcc := (j.foldl pStep (PAcc.init cfg nCm)).finish

/-- The acceptor of the worker LTS. -/
def acceptsP (cfg : Cfg) (nCm : Nat) (j : List Vis) : Bool :=
  (elaborateP cfg nCm j).bad.isNone && (elaborateP cfg nCm j).dropped &&
  checkP cfg nCm j (elaborateP cfg nCm j).sched.reverse

end T3P
end Pdb
