/-
Journal (tie T3): an executable ACCEPTOR for event journals of REAL multi-threaded runs of the
crate (harness/src/t3.rs: `with_background_thread = true`, several committing clients, several
readers; every pipeline hand-over is journaled from INSIDE the critical section that performs it
by the `parity_db::verif::event` hook, reads are journaled as a start and an end event with the
observed value; one global sequence = the position in the journal).

The acceptor replays the journal on the state of the key-level concurrency LTS of
`Pdb/Model/ConcRead.lean` Part 1 (`CSt` / `cstep`, the LTS all `C05_*` theorems quantify over):

  * every pipeline event must denote ENABLED actions of the LTS in the replayed state
    (`CRdDriver.enabled`): `commit` (overlay + queue), `pop`, `publish` (`end_record`), `clean`
    (`clean_overlay`), `flush`, `enact` (every table write of the oldest flushed record),
    `endread` (`end_read`); on top of that the ids the crate reports must be the ones the LTS
    state holds (`idOk`): commit ids consecutive, the popped commit is the head of the queue, the
    published / cleaned commit is the one in flight, record ids consecutive, `enact` / `endread`
    of record number `nEnacted + 1` only;
  * every read [rs .. re] of key k that observed v must be justified: v is the answer of the LTS
    read (`getNow`: commit overlay, log overlay, tables) in SOME replayed state between its start
    and its end event; the acceptor then inserts the five reader actions of the LTS
    (rBegin rOverlay rLog rTable rEnd) at that point of the schedule it builds;
  * at the end the schedule built (`Acc.sched`) is CHECKED FROM SCRATCH (`check`): every action
    enabled at its turn, its pipeline actions are exactly the journal's events, the history is
    the journal's commits, and the completed reads of the final LTS state are the journal's reads
    with the observed values and with their snapshot inside the window
    [#commits before rs, #commits before re].

`Props/T3.lean` proves: an accepted journal IS a trace of the LTS (so every `C05_*` theorem
applies to the observed run) and every read in it is linearizable inside its window.

`reopen` (crash image reopened: the journal's commit ids restart at 1, record ids go on) is not
an LTS action; it is accepted only when queue and in-flight slot are empty (a crash with an
unpublished commit would lose it) and only shifts the id offset.  `cleanlogs` is a stutter here.
-/
import Pdb.Model.ConcReadDriver
import Pdb.Model.JournalPipe

namespace Pdb

namespace T3
open CRd CRdDriver

-- (derived inside this namespace so that the instance names cannot clash with another module's)
deriving instance DecidableEq for Op
deriving instance DecidableEq for CRd.CAct

/-- One journal line. -/
inductive Ev (K V : Type) where
  | commit (cid : Nat) (tx : List (Op K V))
  | pop (cid : Nat)
  | publish (cid rid : Nat)
  | clean (cid : Nat)
  | flush
  | enact (rid : Nat)
  | endread (rid : Nat)
  | cleanlogs
  | reopen
  | rs (t : Nat) (k : K)
  | re (t : Nat) (k : K) (v : Option V)
  | other                     -- lines the key-level LTS does not see (`cfg`, `drop`): stutter

/-- A completed read of the journal: reader, key, observed value, number of `commit` events before
    its start event and before its end event. -/
structure JRead (K V : Type) where
  tid : Nat
  key : K
  obs : Option V
  lo : Nat
  hi : Nat
deriving DecidableEq, Repr

section Generic
variable {K V : Type}

/-- The pipeline action an event denotes (the table writes of `enact` are projected away). -/
def evAct : Ev K V → Option (CAct K V)
  | .commit _ tx => some (.commit tx)
  | .pop _ => some .pop
  | .publish _ _ => some .publish
  | .clean _ => some .cleanOverlay
  | .flush => some .flush
  | .endread _ => some .endRead
  | _ => none

def isPipe : CAct K V → Bool
  | .commit _ | .pop | .publish | .cleanOverlay | .flush | .endRead => true
  | _ => false

/-- The pipeline actions of a schedule (reader actions and single table writes dropped). -/
def pipeProj (as : List (CAct K V)) : List (CAct K V) := as.filter isPipe

/-- The transactions of the journal, in journal order. -/
def journalCommits (j : List (Ev K V)) : List (List (Op K V)) :=
  j.filterMap (fun e => match e with | .commit _ tx => some tx | _ => none)

def all2 {α β : Type} (p : α → β → Bool) : List α → List β → Bool
  | [], [] => true
  | a :: as, b :: bs => p a b && all2 p as bs
  | _, _ => false

variable [DecidableEq K]

/-! ### the reads of a journal (specification side: independent of the LTS) -/

structure Scan (K V : Type) where
  n : Nat := 0                              -- commit events so far
  opened : List (Nat × K × Nat) := []       -- reader, key, commits before its `rs`
  out : List (JRead K V) := []

def scanStep (s : Scan K V) : Ev K V → Scan K V
  | .commit _ _ => { s with n := s.n + 1 }
  | .rs t k => { s with opened := (t, k, s.n) :: s.opened.filter (fun o => o.1 != t) }
  | .re t k v =>
    match s.opened.find? (fun o => o.1 == t) with
    | some (_, k0, lo) =>
      if k0 = k then
        { s with opened := s.opened.filter (fun o => o.1 != t),
                 out := s.out ++ [{ tid := t, key := k, obs := v, lo := lo, hi := s.n }] }
      else s
    | none => s
  | _ => s

/-- Every `rs t k` .. `re t k v` pair of the journal with its commit counts. -/
def journalReads (j : List (Ev K V)) : List (JRead K V) := (j.foldl scanStep {}).out

/-! ### the order of the pipeline events, on the journal alone

`orderOk j`: what the ids reported by the crate say about the ORDER of the real run, as a property
of the journal itself (no LTS state involved):
  * commit ids are consecutive from 1 within a session (a session ends at `reopen`);
  * commits are popped in queue order: pop ids are consecutive from 1, a commit is popped after
    its commit event, and only when the previous popped commit has been published and cleaned;
  * `publish c r` publishes the commit popped last, record ids are consecutive (over sessions);
  * `clean c` cleans the overlay of the commit published last (so: after `end_record`);
  * `enact r`: records are enacted in record order, one at a time, only records that a `flush`
    event has handed over; `endread r` ends the record enacted last;
  * `reopen` only with every commit of the session popped, published and cleaned.
The acceptor checks it directly (`accepts`) and, redundantly, checks every id against the ids
held by the replayed LTS state (`idOk`). -/

structure OrdSt where
  nCommit : Nat := 0              -- last commit id of the session
  nPop : Nat := 0                 -- last popped commit id of the session
  popped : Option Nat := none     -- popped, not yet published
  published : Option Nat := none  -- published, overlay not yet cleaned
  nPub : Nat := 0                 -- last record id published
  nFlushed : Nat := 0             -- records covered by a flush event
  nEnact : Nat := 0               -- last record id enacted
  enacting : Option Nat := none   -- enacted, `end_read` not yet done
  ok : Bool := true
deriving DecidableEq, Repr

def ordStep (o : OrdSt) : Ev K V → OrdSt
  | .commit cid _ => { o with nCommit := cid, ok := o.ok && cid == o.nCommit + 1 }
  | .pop cid =>
    { o with nPop := cid, popped := some cid,
             ok := o.ok && cid == o.nPop + 1 && decide (cid ≤ o.nCommit) && o.popped.isNone &&
                   o.published.isNone }
  | .publish cid rid =>
    { o with popped := none, published := some cid, nPub := rid,
             ok := o.ok && o.popped == some cid && rid == o.nPub + 1 }
  | .clean cid => { o with published := none, ok := o.ok && o.published == some cid }
  | .flush => { o with nFlushed := o.nPub }
  | .enact rid =>
    { o with nEnact := rid, enacting := some rid,
             ok := o.ok && rid == o.nEnact + 1 && decide (rid ≤ o.nFlushed) && o.enacting.isNone }
  | .endread rid => { o with enacting := none, ok := o.ok && o.enacting == some rid }
  | .reopen =>
    { o with nCommit := 0, nPop := 0,
             ok := o.ok && o.nPop == o.nCommit && o.popped.isNone && o.published.isNone }
  | _ => o

def orderOk (j : List (Ev K V)) : Bool := (j.foldl ordStep {}).ok

/-- the ids of the commit / pop / enact events, in journal order -/
def commitIds (j : List (Ev K V)) : List Nat :=
  j.filterMap (fun e => match e with | .commit c _ => some c | _ => none)
def popIds (j : List (Ev K V)) : List Nat :=
  j.filterMap (fun e => match e with | .pop c => some c | _ => none)
def enactIds (j : List (Ev K V)) : List Nat :=
  j.filterMap (fun e => match e with | .enact r => some r | _ => none)
def noReopen (j : List (Ev K V)) : Bool := j.all (fun e => match e with | .reopen => false | _ => true)


/-! ### the acceptor -/

/-- The answer of an LTS read that runs without interleaving in state `s`. -/
def getNow (s : CSt K V) (k : K) : Option V :=
  match s.overlay k with
  | some (_, v) => v
  | none =>
    match logLookup s.logged k with
    | some c => c.map Prod.fst
    | none => (s.tables k).map Prod.fst

/-- The actions of that read: the lookups after a hit do not happen (they are disabled). -/
def readActsAt (s : CSt K V) (t : Nat) (k : K) : List (CAct K V) :=
  match s.overlay k with
  | some _ => [.rBegin t k, .rOverlay t, .rEnd t]
  | none =>
    match logLookup s.logged k with
    | some _ => [.rBegin t k, .rOverlay t, .rLog t, .rEnd t]
    | none => [.rBegin t k, .rOverlay t, .rLog t, .rTable t, .rEnd t]

structure Active (K V : Type) where
  t : Nat
  k : K
  lo : Nat
  /-- (segment, answer of the LTS read after that segment, its actions) -/
  cands : List (Nat × Option V × List (CAct K V))

structure Acc (K V : Type) where
  n : Nat
  st : CSt K V
  /-- newest first; one segment per accepted event: its actions followed by the reads linearized
      right after it, and those reads -/
  segs : List (List (CAct K V) × List (JRead K V)) := []
  active : List (Active K V) := []
  cOff : Nat := 0                   -- LTS commit id = journal commit id + cOff
  bad : Option String := none

def Acc.init (n : Nat) : Acc K V := { n := n, st := CSt.init }

def Acc.sched (a : Acc K V) : List (CAct K V) := a.segs.reverse.flatMap (·.1)
def Acc.exp (a : Acc K V) : List (JRead K V) := a.segs.reverse.flatMap (·.2)

/-- The LTS actions an event denotes in state `s`. -/
def evActs (s : CSt K V) : Ev K V → List (CAct K V)
  | .commit _ tx => [.commit tx]
  | .pop _ => [.pop]
  | .publish _ _ => [.publish]
  | .clean _ => [.cleanOverlay]
  | .flush => [.flush]
  | .enact _ => enactWritesActs s
  | .endread _ => [.endRead]
  | _ => []

/-- The ids reported by the crate are the ones the LTS state holds. -/
def idOk (a : Acc K V) : Ev K V → Bool
  | .commit cid _ => cid + a.cOff == a.st.nextId + 1
  | .pop cid =>
    match a.st.queue with
    | c :: _ => c.id == cid + a.cOff
    | [] => false
  | .publish cid rid =>
    (match a.st.inflight with
     | some (c, false) => c.id == cid + a.cOff
     | _ => false) && rid == a.st.nEnacted + a.st.logged.length + 1
  | .clean cid =>
    match a.st.inflight with
    | some (c, true) => c.id == cid + a.cOff
    | _ => false
  | .flush => true
  | .enact rid => rid == a.st.nEnacted + 1 && hasFlushed a.st && a.st.enactPos == 0
  | .endread rid => rid == a.st.nEnacted + 1
  | .cleanlogs => true
  | .reopen => a.st.queue.isEmpty && a.st.inflight.isNone && a.active.isEmpty
  | .rs t _ => decide (t < a.n) && !a.active.any (fun r => r.t == t)
  | .re _ _ _ => true
  | .other => true

def evName : Ev K V → String
  | .commit c _ => s!"commit {c}"
  | .pop c => s!"pop {c}"
  | .publish c r => s!"publish {c} {r}"
  | .clean c => s!"clean {c}"
  | .flush => "flush"
  | .enact r => s!"enact {r}"
  | .endread r => s!"endread {r}"
  | .cleanlogs => "cleanlogs"
  | .reopen => "reopen"
  | .rs t _ => s!"rs {t}"
  | .re t _ _ => s!"re {t}"
  | .other => "other"

/-- insert a read into the segment at position `i` (from the head) -/
def insertAt (as : List (CAct K V)) (r : JRead K V) :
    Nat → List (List (CAct K V) × List (JRead K V)) → List (List (CAct K V) × List (JRead K V))
  | _, [] => []
  | 0, sg :: rest => (sg.1 ++ as, sg.2 ++ [r]) :: rest
  | i + 1, sg :: rest => sg :: insertAt as r i rest

variable [DecidableEq V]

def addCand (idx : Nat) (s : CSt K V) (r : Active K V) : Active K V :=
  if r.cands.any (fun c => c.2.1 == getNow s r.k) then r
  else { r with cands := (idx, getNow s r.k, readActsAt s r.t r.k) :: r.cands }

def accStep (kind : K → Kind) (a : Acc K V) (e : Ev K V) : Acc K V :=
  if a.bad.isSome then a
  else
    match e with
    | .re t k v =>
      match a.active.find? (fun r => r.t == t) with
      | none => { a with bad := some ("no-read-open:" ++ evName e) }
      | some r =>
        if r.k ≠ k then { a with bad := some ("key-mismatch:" ++ evName e) }
        else
          match r.cands.find? (fun c => c.2.1 == v) with
          | none => { a with bad := some ("read-not-justified:" ++ evName e) }
          | some (p, _, racts) =>
            let jr : JRead K V := { tid := t, key := k, obs := v, lo := r.lo, hi := a.st.hist.length }
            { a with segs := ([], []) :: insertAt racts jr (a.segs.length - 1 - p) a.segs,
                     active := a.active.filter (fun r => r.t != t) }
    | _ =>
      if !idOk a e then { a with bad := some ("id:" ++ evName e) }
      else
        let acts := evActs a.st e
        match firstDisabled kind a.n a.st acts with
        | some nm => { a with bad := some ("disabled:" ++ nm ++ ":" ++ evName e) }
        | none =>
          let st' := crunX kind a.n a.st acts
          let idx := a.segs.length
          let active : List (Active K V) := match e with
            | .rs t k => ({ t := t, k := k, lo := st'.hist.length, cands := [] } : Active K V) :: a.active
            | _ => a.active
          { a with st := st', segs := (acts, []) :: a.segs,
                   active := active.map (addCand idx st'),
                   cOff := match e with | .reopen => st'.nextId | _ => a.cOff }

def readOk (r : JRead K V) (e : ReadEvt K V) : Bool :=
  decide (e.tid = r.tid) && decide (e.key = r.key) && decide (e.result = r.obs) &&
  decide (r.lo ≤ e.startSeq) && decide (e.endSeq ≤ r.hi)

/-- The certificate check, from scratch: `as` is a schedule of enabled actions whose pipeline
    actions are the journal's events, whose history is the journal's commits and whose completed
    reads are the reads `exp`, which cover every read of the journal. -/
def check (kind : K → Kind) (n : Nat) (j : List (Ev K V)) (as : List (CAct K V))
    (exp : List (JRead K V)) : Bool :=
  (firstDisabled kind n CSt.init as).isNone &&
  decide (pipeProj as = j.filterMap evAct) &&
  decide ((crunX kind n CSt.init as).hist = journalCommits j) &&
  all2 readOk exp (crunX kind n CSt.init as).reads &&
  (journalReads j).all (fun r => exp.contains r)

def elaborate (kind : K → Kind) (n : Nat) (j : List (Ev K V)) : Acc K V :=
  j.foldl (accStep kind) (Acc.init n)

/-- The acceptor. -/
def accepts (kind : K → Kind) (n : Nat) (j : List (Ev K V)) : Bool :=
  (elaborate kind n j).bad.isNone && orderOk j &&
  check kind n j (elaborate kind n j).sched (elaborate kind n j).exp

/-- One verdict line per journal. -/
def verdict (kind : K → Kind) (n : Nat) (j : List (Ev K V)) : String :=
  match (elaborate kind n j).bad with
  | some b => "bad:" ++ b
  | none => if accepts kind n j then "ok" else "bad:check"

end Generic

/-! ### the driver (command word `t3`), K = V = String, every key `Kind.plain`

  t3 begin <nReaders>                    -> ok
  t3 ev commit <cid> set:<k>:<v> | del:<k> ...
  t3 ev pop <cid> | publish <cid> <rid> | clean <cid> | flush | enact <rid> | endread <rid>
  t3 ev cleanlogs | reopen | rs <t> <k> | re <t> <k> <none|v>
                                         -> ok | bad:<reason>:<event>   (sticky)
  t3 ev cfg <always_flush> <sync_data>   the handle with workers is open: the worker-LTS acceptor
                                         (Model/JournalPipe.lean) starts here; `commit <cid> b=<bytes> ..`,
                                         `pop <cid> b=<bytes>` carry the byte counts of the crate
  t3 ev drop                             the owner drops the handle
  t3 end15                               -> ok accepted=<C> logged=<P> | skip | bad15:<reason>
  t3 end                                 -> ok commits=<C> reads=<R> enacted=<E> | bad:<reason>
The state is `(elaborate j, j reversed)` for the journal `j` read so far, so `t3 end` answers
`ok ..` iff `accepts kindOf n j`. -/

/-- column kind of a key token: `p..` preimage column, `r..` ref-counted column, else plain -/
def kindOfKey (k : CRdDriver.K) : Kind :=
  if k.startsWith "p" then .preimage else if k.startsWith "r" then .rc else .plain

structure Drv where
  acc : Acc CRdDriver.K CRdDriver.V
  evs : List (Ev CRdDriver.K CRdDriver.V)     -- newest first
  pipe : Option T3P.PAcc := none              -- worker-LTS acceptor, from the `cfg` line on
  jvis : List T3P.Vis := []                   -- visible steps since the `cfg` line, newest first

abbrev State := Option Drv

/-- `b=<n>` -/
def parseB (w : String) : Option Nat :=
  match w.splitOn "=" with
  | ["b", n] => n.toNat?
  | _ => none

/-- `c=<n>` -/
def parseC (w : String) : Option Nat :=
  match w.splitOn "=" with
  | ["c", n] => n.toNat?
  | _ => none

def isTag (w : String) : Bool := (parseB w).isSome || (parseC w).isSome
def tagB (ws : List String) : Nat := (ws.findSome? parseB).getD 0
def tagC (ws : List String) : Nat := (ws.findSome? parseC).getD 0

def parseEv : List String → Option (Ev CRdDriver.K CRdDriver.V)
  | "commit" :: cid :: ops =>
    let ops := ops.filter (fun w => !isTag w)
    match cid.toNat?, ops.mapM CRdDriver.parseOp with
    | some c, some tx => some (.commit c tx)
    | _, _ => none
  | ["pop", c] => c.toNat?.map .pop
  | ["pop", c, _] => c.toNat?.map .pop
  | ["publish", c, r] =>
    match c.toNat?, r.toNat? with
    | some c, some r => some (.publish c r)
    | _, _ => none
  | ["clean", c] => c.toNat?.map .clean
  | ["flush"] => some .flush
  | ["enact", r] => r.toNat?.map .enact
  | ["endread", r] => r.toNat?.map .endread
  | ["cleanlogs"] => some .cleanlogs
  | ["reopen"] => some .reopen
  | ["rs", t, k] => t.toNat?.map (fun t => .rs t k)
  | ["re", t, k, v] => t.toNat?.map (fun t => .re t k (if v == "none" then none else some v))
  | ["cfg", _, _] => some .other
  | ["cfg", _, _, _] => some .other
  | ["cwait", _, _] => some .other
  | ["stuck"] => some .other
  | ["hold"] => some .other          -- a client entered an `iter_column_while` callback (holds `iteration_lock`)
  | ["release"] => some .other       -- ... and left it
  | ["drop"] => some .other
  | _ => none

/-- the visible step of the worker LTS a journal line denotes (byte counts as reported by the crate) -/
def parseVis : List String → Option T3P.Vis
  | "commit" :: _ :: ws => some (.commit (tagC ws) (tagB ws))
  | "cwait" :: i :: ws => some (.cwait (i.toNat?.getD 0) (tagB ws))
  | ["stuck"] => some .stuck
  | ["pop", _, w] => some (.pop ((parseB w).getD 0))
  | ["pop", _] => some (.pop 0)
  | "publish" :: _ => some .publish
  | ["flush"] => some .flush
  | "enact" :: _ => some .enact
  | ["drop"] => some .drop
  | _ => none

/-- `cfg <always_flush> <sync_data>`: the configuration of the handle with workers -/
def parseCfg : List String → Option (Conc.Pipe.Cfg × Nat)
  | ["cfg", af, sd] =>
    some (Conc.Pipe.cfgOfGen (if af == "1" then 0 else Gen.MIN_LOG_SIZE_BYTES) (sd == "1") true, 1)
  | ["cfg", af, sd, n] =>
    some (Conc.Pipe.cfgOfGen (if af == "1" then 0 else Gen.MIN_LOG_SIZE_BYTES) (sd == "1") true,
          (n.toNat?.getD 1))
  | _ => none

def endLine (d : Drv) : String :=
  let j := d.evs.reverse
  match d.acc.bad with
  | some b => "bad:" ++ b
  | none =>
    if !orderOk j then "bad:order"
    else if check kindOfKey d.acc.n j d.acc.sched d.acc.exp then
      s!"ok commits={d.acc.st.hist.length} reads={d.acc.exp.length} enacted={d.acc.st.nEnacted}"
    else "bad:check"

/-- the verdict of the worker-LTS acceptor: `ok ..` iff `T3P.acceptsP cfg j` for the visible steps
    `j` since the `cfg` line -/
def endLine15 (d : Drv) : String :=
  match d.pipe with
  | none => "skip"
  | some p =>
    match p.bad with
    | some b => "bad15:" ++ b
    | none =>
      if !p.dropped then "bad15:no-drop"
      else
        let f := p.finish
        if T3P.checkP p.cfg p.s.cms.length d.jvis.reverse f.sched.reverse then
          s!"ok accepted={f.s.accepted} logged={f.s.nLogged - 1}"
        else s!"bad15:check pd={repr f.s.pd} accepted={f.s.accepted} logged={f.s.nLogged}"

def step (s : State) (args : List String) : State × String :=
  match args with
  | ["begin", n] =>
    match n.toNat? with
    | some n => (some { acc := Acc.init n, evs := [] }, "ok")
    | none => (s, "bad-op")
  | "ev" :: rest =>
    match s, parseEv rest with
    | some d, some e =>
      let acc := accStep kindOfKey d.acc e
      let (pipe, jvis) : Option T3P.PAcc × List T3P.Vis :=
        match parseCfg rest with
        | some cfg => (some (T3P.PAcc.init cfg.1 cfg.2), [])
        | none =>
          match d.pipe, parseVis rest with
          | some p, some v => (some (T3P.pStep p v), v :: d.jvis)
          | p, _ => (p, d.jvis)
      (some { acc := acc, evs := e :: d.evs, pipe := pipe, jvis := jvis },
       match acc.bad with
       | some b => "bad:" ++ b
       | none =>
         match pipe.bind (·.bad) with
         | some b => "bad15:" ++ b
         | none => "ok")
    | _, _ => (s, "bad-op")
  | ["end15"] =>
    match s with
    | some d => (s, endLine15 d)
    | none => (s, "bad-op")
  | ["stat15"] =>     -- measurement only (not emitted by the harness)
    match s.bind (·.pipe) with
    | some p =>
      let f := p.finish
      let sched := f.sched.reverse
      let st := T3P.parkStats p.cfg (Conc.Pipe.init p.cfg p.s.cms.length 0) sched (0, 0)
      (s, s!"sched={sched.length} visible={(T3P.visRun p.cfg (Conc.Pipe.init p.cfg p.s.cms.length 0) sched).length} parks={st.1} wakeups={st.2} still_waiting={T3P.waitingCount f.s}")
    | none => (s, "skip")
  | ["end"] =>
    match s with
    | some d => (none, endLine d)
    | none => (s, "bad-op")
  | _ => (s, "bad-op")

end T3
end Pdb
