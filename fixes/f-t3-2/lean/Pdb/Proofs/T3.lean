/-
Lemmas for Props/T3.lean: a schedule on which `firstDisabled` finds nothing is a genuine trace of
the LTS (`AllEnabled`), and the element-wise check `all2`.
-/
import Pdb.Model.Journal
import Pdb.Proofs.C05Driver

namespace Pdb.T3
open Pdb.CRd Pdb.CRdDriver

variable {K V : Type} [DecidableEq K]

/-- Every action of the schedule is enabled when its turn comes (`CRdDriver.enabled` = the guard of
    `cstep`): the schedule is a trace of the LTS in the strict sense, no action is a no-op. -/
def AllEnabled (kind : K → Kind) (N : Nat) : CSt K V → List (CAct K V) → Prop
  | _, [] => True
  | s, a :: as => enabled kind N s a = true ∧ AllEnabled kind N (cstep kind N s a) as

theorem allEnabled_of_firstDisabled (kind : K → Kind) (N : Nat) (s : CSt K V)
    (as : List (CAct K V)) (h : firstDisabled kind N s as = none) : AllEnabled kind N s as := by
  induction as generalizing s with
  | nil => trivial
  | cons a as ih =>
    simp only [firstDisabled] at h
    by_cases he : enabled kind N s a = true
    · simp only [he, if_true] at h
      refine ⟨he, ?_⟩
      rw [← cstepX_eq]
      exact ih _ h
    · simp only [he] at h
      cases h

theorem all2_mem {α β : Type} (p : α → β → Bool) :
    ∀ (xs : List α) (ys : List β), all2 p xs ys = true → ∀ x ∈ xs, ∃ y ∈ ys, p x y = true := by
  intro xs
  induction xs with
  | nil => intro ys _ x hx; cases hx
  | cons a as ih =>
    intro ys h x hx
    cases ys with
    | nil => simp [all2] at h
    | cons b bs =>
      simp only [all2, Bool.and_eq_true] at h
      rcases List.mem_cons.mp hx with rfl | hx
      · exact ⟨b, List.mem_cons_self, h.1⟩
      · obtain ⟨y, hy, hp⟩ := ih bs h.2 x hx
        exact ⟨y, List.mem_cons_of_mem _ hy, hp⟩

/-! ### consequences of `orderOk` (no `DecidableEq` needed) -/
section Order
variable {K V : Type}

theorem ordStep_ok_mono (o : OrdSt) (e : Ev K V) (h : (ordStep o e).ok = true) : o.ok = true := by
  cases e <;> simp only [ordStep, Bool.and_eq_true] at h <;> first | exact h | exact h.1 | exact h.1.1 | exact h.1.1.1 | exact h.1.1.1.1

theorem fold_ok_mono (j : List (Ev K V)) (o : OrdSt) (h : (j.foldl ordStep o).ok = true) : o.ok = true := by
  induction j generalizing o with
  | nil => exact h
  | cons e es ih => exact ordStep_ok_mono o e (ih _ h)

theorem commitIds_of_ok (j : List (Ev K V)) (o : OrdSt) (h : (j.foldl ordStep o).ok = true)
    (hn : noReopen j = true) : commitIds j = List.range' (o.nCommit + 1) (commitIds j).length := by
  induction j generalizing o with
  | nil => rfl
  | cons e es ih =>
    have hn' : noReopen es = true := by simp only [noReopen, List.all_cons, Bool.and_eq_true] at hn ⊢; exact hn.2
    have h1 := fold_ok_mono es _ h
    have := ih (ordStep o e) h hn'
    cases e <;> simp only [commitIds, List.filterMap_cons, ordStep] at this h1 ⊢ <;> first
      | exact this
      | skip
    · simp only [Bool.and_eq_true, beq_iff_eq] at h1
      obtain ⟨_, rfl⟩ := h1
      rw [List.length_cons, List.range'_succ, ← this]
    · simp [noReopen] at hn

theorem popIds_of_ok (j : List (Ev K V)) (o : OrdSt) (h : (j.foldl ordStep o).ok = true)
    (hn : noReopen j = true) : popIds j = List.range' (o.nPop + 1) (popIds j).length := by
  induction j generalizing o with
  | nil => rfl
  | cons e es ih =>
    have hn' : noReopen es = true := by simp only [noReopen, List.all_cons, Bool.and_eq_true] at hn ⊢; exact hn.2
    have h1 := fold_ok_mono es _ h
    have := ih (ordStep o e) h hn'
    cases e <;> simp only [popIds, List.filterMap_cons, ordStep] at this h1 ⊢ <;> first
      | exact this
      | skip
    · simp only [Bool.and_eq_true, beq_iff_eq] at h1
      obtain ⟨⟨⟨⟨_, rfl⟩, _⟩, _⟩, _⟩ := h1
      rw [List.length_cons, List.range'_succ, ← this]
    · simp [noReopen] at hn

theorem enactIds_of_ok (j : List (Ev K V)) (o : OrdSt) (h : (j.foldl ordStep o).ok = true) :
    enactIds j = List.range' (o.nEnact + 1) (enactIds j).length := by
  induction j generalizing o with
  | nil => rfl
  | cons e es ih =>
    have h1 := fold_ok_mono es _ h
    have := ih (ordStep o e) h
    cases e <;> simp only [enactIds, List.filterMap_cons, ordStep] at this h1 ⊢ <;> first
      | exact this
      | skip
    · simp only [Bool.and_eq_true, beq_iff_eq] at h1
      obtain ⟨⟨⟨_, rfl⟩, _⟩, _⟩ := h1
      rw [List.length_cons, List.range'_succ, ← this]

end Order

end Pdb.T3

#print axioms Pdb.T3.allEnabled_of_firstDisabled
#print axioms Pdb.T3.all2_mem
#print axioms Pdb.T3.commitIds_of_ok
#print axioms Pdb.T3.popIds_of_ok
#print axioms Pdb.T3.enactIds_of_ok
