/-
Lemma for Props/T3.lean (worker-LTS side): the executable prefix test is `<+:`.
-/
import Pdb.Model.JournalPipe

namespace Pdb.T3P

theorem isPrefix_iff (a b : List Vis) : isPrefix a b = true ↔ a <+: b := by
  induction a generalizing b with
  | nil => simp [isPrefix]
  | cons x xs ih =>
    cases b with
    | nil => simp [isPrefix]
    | cons y ys =>
      simp only [isPrefix, Bool.and_eq_true, decide_eq_true_eq, ih, List.cons_prefix_cons]

end Pdb.T3P

#print axioms Pdb.T3P.isPrefix_iff
