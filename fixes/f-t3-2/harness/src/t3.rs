//! T3: EVENT JOURNALS of real multi-threaded runs (`with_background_thread = true`: the real log /
//! flush / commit / cleanup workers) for the Lean acceptor (command word `t3`).
//!
//! The crate reports named pipeline events through `parity_db::verif::set_event_hook` from INSIDE
//! the critical section that performs the step (commit: commit-queue mutex + commit-overlay write
//! guard; pop: commit-queue mutex; publish / endread: log-overlay write guard; clean: commit-overlay
//! write guard; flush: `appending` write guard).  The journal is ONE global `Mutex<Vec<String>>`:
//! the position of a line is its global sequence number.  Readers push `rs` immediately before
//! `db.get` and `re` immediately after it returned.
//!
//! Journal lines (one `t.op` each, expected `ok`):
//!   t3 begin <nReaders>
//!   t3 ev commit <cid> b=<bytes> c=<ci> <set:<key>:<value> | del:<key>>...   (ci: 0-based client index)
//!   t3 ev cwait <ci> b=<bytes of its transaction>   (the client is about to wait: commit queue above 16 MiB)
//!   t3 ev stuck                        (a watchdog fired: the journal ends here)
//!   t3 ev pop <cid> | publish <cid> <rid> | clean <cid> | flush | enact <rid> | endread <rid> | cleanlogs
//!   t3 ev cfg <always_flush> <sync_data> <nClients>   (the handle with workers is open; C15 side starts) | drop (the owner drops it)
//!   t3 end15                          -> ok accepted=<commits since cfg> logged=<publishes since cfg>  (worker LTS of C15)
//!   commit / pop lines carry `b=<bytes>` (byte count of that commit as the crate added it to / removes it from the queue total)
//!   t3 ev reopen                       (scenario B: crash image reopened; commit ids restart, record ids go on;
//!                                       and after the final clean shutdown: reopened without workers, every key read: C03)
//!   t3 ev rs <t> <key> | re <t> <key> <none|value>
//!   t3 end                             -> ok commits=<C> reads=<R> enacted=<E>
//!
//! The Rust oracle is independent of the Lean model: a read whose window [rs, re] has `lo` commit
//! events before `rs` and `hi` before `re` must return the sequential value of its key after the first
//! q commits for some q in lo..=hi.
use crate::util::*;
use parity_db::{ColumnOptions, Db, Options};
use std::cell::{Cell, RefCell};
use std::collections::{BTreeSet, HashMap};
use std::path::Path;
use std::sync::atomic::{AtomicBool, AtomicU64, AtomicUsize, Ordering};
use std::sync::{Arc, Mutex};
use std::time::{Duration, Instant};

static RECORDING: AtomicBool = AtomicBool::new(false);
static LAST_POP: AtomicU64 = AtomicU64::new(0);
static JOURNAL: Mutex<Vec<String>> = Mutex::new(Vec::new());
static YIELD_SALT: AtomicU64 = AtomicU64::new(0x2545_f491_4f6c_dd1d);
/// a yield point delays the worker with probability 1 / YIELD_DEN (per case, seeded)
static YIELD_DEN: AtomicU64 = AtomicU64::new(2);

/// yield-hook delay (microseconds, lo..=hi) at "process_commits.before_end_record" on every hit; 0 = off (scenario C)
static BIG_DELAY_LO_US: AtomicU64 = AtomicU64::new(0);
static BIG_DELAY_HI_US: AtomicU64 = AtomicU64::new(0);
static WAITING: AtomicU64 = AtomicU64::new(0);
static MAX_WAITING: AtomicU64 = AtomicU64::new(0);
static READERS: AtomicUsize = AtomicUsize::new(0);

thread_local! {
	/// (op text, client index, bytes as `copy_to_overlay` counts them) of the transaction the calling thread is about to commit
	static TX_TEXT: RefCell<(String, usize, u64)> = const { RefCell::new((String::new(), 0, 0)) };
	/// the calling thread reported `cwait` for its current commit call
	static WAITED: Cell<bool> = const { Cell::new(false) };
}

fn jpush(line: String) {
	JOURNAL.lock().unwrap_or_else(|e| e.into_inner()).push(line);
}

fn install_hooks() {
	parity_db::verif::set_event_hook(Some(Arc::new(|name: &'static str, a: u64, b: u64| {
		if !RECORDING.load(Ordering::SeqCst) {
			return
		}
		let line = match name {
			"commit" => {
				if WAITED.with(|w| w.replace(false)) {
					WAITING.fetch_sub(1, Ordering::SeqCst);
				}
				TX_TEXT.with(|t| {
					let t = t.borrow();
					format!("commit {} b={} c={}{}", a, b, t.1, t.0)
				})
			},
			"cwait" => {
				if !WAITED.with(|w| w.replace(true)) {
					let n = WAITING.fetch_add(1, Ordering::SeqCst) + 1;
					MAX_WAITING.fetch_max(n, Ordering::SeqCst);
				}
				TX_TEXT.with(|t| {
					let t = t.borrow();
					format!("cwait {} b={}", t.1, t.2)
				})
			},
			"pop" => {
				LAST_POP.store(a, Ordering::SeqCst);
				format!("pop {} b={}", a, b)
			},
			"publish" => format!("publish {} {}", LAST_POP.load(Ordering::SeqCst), a),
			"clean" => format!("clean {}", a),
			"flush" => "flush".to_string(),
			"enact" => format!("enact {}", a),
			"endread" => format!("endread {}", a),
			"cleanlogs" => "cleanlogs".to_string(),
			_ => return,
		};
		jpush(line);
		// now and then stay inside the critical section for a moment: readers and committers that arrive
		// meanwhile block on the lock, so their windows contain this event (schedule only, not reproducible)
		if matches!(name, "commit" | "publish" | "clean" | "endread") {
			let mut x = YIELD_SALT.fetch_add(0x9E37_79B9_7F4A_7C15, Ordering::Relaxed);
			x = (x ^ (x >> 30)).wrapping_mul(0xBF58_476D_1CE4_E5B9);
			x ^= x >> 27;
			if (x >> 40) % 6 == 0 {
				let us = 3 + (x >> 8) % 28;
				let t0 = Instant::now();
				while t0.elapsed() < Duration::from_micros(us) {
					std::hint::spin_loop();
				}
			}
		}
	})));
	parity_db::verif::set_yield_hook(Some(Arc::new(|name: &'static str| {
		match name {
			"process_commits.before_end_record" |
			"process_commits.after_end_record" |
			"enact_logs.before_end_read" => {},
			_ => return,
		}
		// cheap, not reproducible: only the schedule depends on it
		let mut x = YIELD_SALT.fetch_add(0x9E37_79B9_7F4A_7C15, Ordering::Relaxed);
		x = (x ^ (x >> 30)).wrapping_mul(0xBF58_476D_1CE4_E5B9);
		x ^= x >> 27;
		let hi = BIG_DELAY_HI_US.load(Ordering::Relaxed);
		if hi > 0 {
			// scenario C: the log worker is slower than the clients, on every commit it processes
			if name == "process_commits.before_end_record" {
				let lo = BIG_DELAY_LO_US.load(Ordering::Relaxed);
				std::thread::sleep(Duration::from_micros(lo + (x >> 8) % (hi - lo + 1)));
			}
			return
		}
		if (x >> 40) % YIELD_DEN.load(Ordering::Relaxed).max(1) != 0 {
			return
		}
		let us = (x >> 8) % 301;
		if us < 40 {
			let t0 = Instant::now();
			while t0.elapsed() < Duration::from_micros(us) {
				std::hint::spin_loop();
			}
		} else {
			std::thread::sleep(Duration::from_micros(us));
		}
	})));
}

fn remove_hooks() {
	RECORDING.store(false, Ordering::SeqCst);
	parity_db::verif::set_event_hook(None);
	parity_db::verif::set_yield_hook(None);
}

fn options(path: &Path, background: bool, always_flush: bool) -> Options {
	let mut o = Options::with_columns(path, 3);
	o.columns[0] = ColumnOptions::default(); // plain hash column, keys of any length are hashed
	o.columns[1] = ColumnOptions { preimage: true, uniform: false, ..ColumnOptions::default() }; // `p` keys
	o.columns[2] = ColumnOptions { preimage: true, ref_counted: true, uniform: false, ..ColumnOptions::default() }; // `r` keys
	o.salt = Some([0u8; 32]);
	o.with_background_thread = background;
	o.always_flush = always_flush;
	o.stats = false;
	o.sync_wal = false;
	o.sync_data = false;
	o
}

type Tx = Vec<(u8, Vec<u8>, Option<Vec<u8>>)>;

/// the column is chosen by the first letter of the key token
fn col_of(key: &str) -> u8 {
	match key.as_bytes().first() {
		Some(b'p') => 1,
		Some(b'r') => 2,
		_ => 0,
	}
}

/// random transaction of 1..=max_ops ops on pool keys; returns (journal text with a leading space per op, tx)
fn random_tx(rng: &mut Rng, pool: &[String], client: usize, seq: &mut u64, max_ops: u64) -> (String, Tx) {
	let n = rng.range(1, max_ops);
	let mut text = String::new();
	let mut tx = Vec::with_capacity(n as usize);
	for _ in 0..n {
		let k = rng.pick(pool).clone();
		let col = col_of(&k);
		let set = if col == 2 { rng.chance(60, 100) } else { rng.chance(85, 100) };
		if set {
			let v = if col == 0 {
				*seq += 1;
				format!("c{}n{}", client, *seq)
			} else {
				format!("v{}", k) // preimage columns: the value is a function of the key
			};
			text.push_str(&format!(" set:{}:{}", k, v));
			tx.push((col, k.into_bytes(), Some(v.into_bytes())));
		} else {
			text.push_str(&format!(" del:{}", k));
			tx.push((col, k.into_bytes(), None));
		}
	}
	(text, tx)
}

/// scenario C: ONE set of a plain key, value = token `c<client>n<seq>z<len>` + `len` bytes of b'z'
fn big_tx(rng: &mut Rng, pool: &[String], client: usize, seq: &mut u64, fixed_len: usize) -> (String, Tx) {
	let k = rng.pick(pool).clone();
	*seq += 1;
	// scenario D2: every value has `fixed_len` padding bytes (0: scenario C, 3..6 MiB drawn)
	let len = if fixed_len > 0 { fixed_len } else { rng.range(3 << 20, 6 << 20) as usize };
	let tok = format!("c{}n{}z{}", client, *seq, len);
	let mut v = Vec::with_capacity(tok.len() + len);
	v.extend_from_slice(tok.as_bytes());
	v.resize(tok.len() + len, b'z');
	(format!(" set:{}:{}", k, tok), vec![(0u8, k.into_bytes(), Some(v))])
}

/// bytes of the transaction exactly as `copy_to_overlay` counts them: 32 (hashed key) + value length per set, 0 per del
fn tx_bytes(tx: &Tx) -> u64 {
	tx.iter().map(|(_, _, v)| v.as_ref().map_or(0, |v| 32 + v.len() as u64)).sum()
}

fn do_commit(db: &Db, ci: usize, text: String, tx: Tx) -> Result<(), String> {
	let bytes = tx_bytes(&tx);
	TX_TEXT.with(|t| *t.borrow_mut() = (text, ci, bytes));
	let r = db.commit(tx).map_err(|e| format!("commit failed: {:?}", e));
	if WAITED.with(|w| w.replace(false)) {
		WAITING.fetch_sub(1, Ordering::SeqCst);
	}
	r
}

/// journal token of a value read back; `padded`: scenario C values (token + `z` padding) are rendered as the token
fn render(b: &[u8], padded: bool) -> String {
	if padded {
		// c<d>n<d>z<len> followed by exactly len bytes b'z'
		if let Some(zpos) = b.iter().position(|&x| x == b'z') {
			let dend = zpos + 1 + b[zpos + 1..].iter().take_while(|x| x.is_ascii_digit()).count();
			let head = &b[..zpos];
			let head_ok = head.len() >= 4 &&
				head[0] == b'c' &&
				head[1..].iter().filter(|&&x| x == b'n').count() == 1 &&
				head[1..].iter().all(|x| x.is_ascii_digit() || *x == b'n') &&
				head[1].is_ascii_digit() &&
				head[head.len() - 1].is_ascii_digit();
			let len = std::str::from_utf8(&b[zpos + 1..dend]).ok().and_then(|x| x.parse::<usize>().ok());
			if head_ok && dend > zpos + 1 && len == Some(b.len() - dend) && b[dend..].iter().all(|&x| x == b'z') {
				return String::from_utf8_lossy(&b[..dend]).into_owned()
			}
		}
		return format!("CORRUPT{}", hex(&b[..b.len().min(16)]))
	}
	match std::str::from_utf8(b) {
		Ok(v) if !v.is_empty() && !v.contains(' ') && !v.contains(':') => v.to_string(),
		_ => format!("CORRUPT{}", hex(&b[..b.len().min(16)])),
	}
}

/// `t3 begin`, the journal as op lines, `t3 end15` (if the handle with workers was opened, or `force`)
fn print_journal(t: &mut Trace, journal: &[String], readers: usize, force_end15: bool) {
	t.op(&format!("t3 begin {}", readers), "ok");
	for l in journal {
		t.op(&format!("t3 ev {}", l), "ok");
	}
	// C15 side: commits accepted and records written by the handle with workers (since the `cfg` line)
	match journal.iter().rposition(|l| l.starts_with("cfg ")) {
		Some(i) => {
			let c15 = journal[i..].iter().filter(|l| l.starts_with("commit ")).count();
			let p15 = journal[i..].iter().filter(|l| l.starts_with("publish ")).count();
			t.op("t3 end15", &format!("ok accepted={} logged={}", c15, p15));
		},
		None if force_end15 => t.op("t3 end15", "ok accepted=0 logged=0"),
		None => {},
	}
}

/// a watchdog fired: the journal collected so far ends with `stuck`; the process exits with status 3
fn stuck_exit(t: &mut Trace, prop: &str, msg: &str) -> ! {
	jpush("stuck".to_string());
	RECORDING.store(false, Ordering::SeqCst);
	t.oracle_fail(prop, msg);
	let journal: Vec<String> = JOURNAL.lock().unwrap_or_else(|e| e.into_inner()).clone();
	print_journal(t, &journal, READERS.load(Ordering::SeqCst), true);
	t.end_case(true);
	t.flush();
	std::process::exit(3);
}

fn drop_with_watchdog(db: Db, t: &mut Trace, prop: &str, what: &str) {
	let h = std::thread::spawn(move || drop(db));
	let deadline = Instant::now() + Duration::from_secs(30);
	while !h.is_finished() && Instant::now() < deadline {
		std::thread::sleep(Duration::from_micros(200));
	}
	if !h.is_finished() {
		stuck_exit(t, prop, &format!("watchdog: drop(Db) [{}] did not return within 30 s", what));
	}
	let _ = h.join();
}

struct Plan {
	clients: usize,
	readers: usize,
	pool: Vec<String>,
	commits_per_client: Vec<u64>,
	max_reads: u64,
	/// scenario C: big padded values, no sleeps between commits, a relaxed reader
	big: bool,
	/// scenario D2: padding length of every big value (0: drawn per value)
	big_len: usize,
	/// the reader sleeps 3..15 ms between reads (scenarios C, D)
	relaxed_reader: bool,
	/// scenario D: the flag is set this long after the clients were started (the holder of the iteration lock leaves)
	release: Option<(Duration, Arc<AtomicBool>)>,
}

/// the concurrent phase (scenario A, and the second half of scenario B) on an open Db with workers
fn concurrent_phase(db: &Db, seed: u64, plan: &Plan, t: &mut Trace, prop: &str) -> Vec<String> {
	let clients_left = AtomicUsize::new(plan.clients);
	let errors: Mutex<Vec<String>> = Mutex::new(vec![]);
	std::thread::scope(|s| {
		for c in 0..plan.clients {
			let mut rng = Rng::new(seed ^ (0xC11E_0000 + c as u64).wrapping_mul(0x1_0000_0001));
			let n = plan.commits_per_client[c];
			let (pool, clients_left, errors) = (&plan.pool, &clients_left, &errors);
			let big = plan.big;
			let big_len = plan.big_len;
			s.spawn(move || {
				let mut seq = 0u64;
				for _ in 0..n {
					let (text, tx) = if big { big_tx(&mut rng, pool, c, &mut seq, big_len) } else { random_tx(&mut rng, pool, c, &mut seq, 3) };
					if let Err(m) = do_commit(db, c, text, tx) {
						errors.lock().unwrap().push(format!("client {}: {}", c, m));
						break
					}
					if big {
						continue // no pause: the commit queue must fill
					}
					if rng.chance(1, 2) {
						std::thread::yield_now();
					} else {
						let us = rng.below(201);
						if us > 0 {
							std::thread::sleep(Duration::from_micros(us));
						}
					}
				}
				clients_left.fetch_sub(1, Ordering::SeqCst);
			});
		}
		for r in 0..plan.readers {
			let mut rng = Rng::new(seed ^ (0x4EAD_0000 + r as u64).wrapping_mul(0x1_0000_0001));
			let (pool, clients_left, errors) = (&plan.pool, &clients_left, &errors);
			let max_reads = plan.max_reads;
			let big = plan.big;
			let relaxed = plan.relaxed_reader;
			s.spawn(move || {
				let mut reads = 0u64;
				let mut after = 0u64;
				loop {
					let done = clients_left.load(Ordering::SeqCst) == 0;
					if done {
						if after >= 5 {
							break
						}
						after += 1;
					} else if reads >= max_reads {
						// budget used up: wait for the clients, then the closing reads
						std::thread::sleep(Duration::from_micros(100));
						continue
					}
					let k = rng.pick(pool);
					jpush(format!("rs {} {}", r, k));
					let got = db.get(col_of(k), k.as_bytes());
					let line = match &got {
						Ok(None) => format!("re {} {} none", r, k),
						Ok(Some(b)) => format!("re {} {} {}", r, k, render(b, big)),
						Err(e) => format!("re {} {} ERR{}", r, k, err_kind(e)),
					};
					jpush(line);
					if let Err(e) = got {
						errors.lock().unwrap().push(format!("reader {}: get failed: {:?}", r, e));
						break
					}
					reads += 1;
					if relaxed {
						std::thread::sleep(Duration::from_millis(3 + rng.below(13)));
					} else if rng.chance(1, 3) {
						let us = rng.below(101);
						if us > 0 {
							std::thread::sleep(Duration::from_micros(us));
						}
					}
				}
			});
		}
		// watchdog: a commit call that never returns (the scope could not be left)
		let started = Instant::now();
		let deadline = started + Duration::from_secs(60);
		let mut release = plan.release.clone();
		let fire = |r: &mut Option<(Duration, Arc<AtomicBool>)>| {
			if let Some((_, flag)) = r.take() {
				flag.store(true, Ordering::SeqCst);
			}
		};
		while clients_left.load(Ordering::SeqCst) != 0 {
			if release.as_ref().map_or(false, |(d, _)| started.elapsed() >= *d) {
				fire(&mut release);
			}
			if Instant::now() >= deadline {
				stuck_exit(t, prop, &format!(
					"watchdog: commit() did not return within 60 s ({} of {} clients not finished)",
					clients_left.load(Ordering::SeqCst), plan.clients
				));
			}
			std::thread::sleep(Duration::from_micros(500));
		}
		// the clients finished before the planned time: the holder stays for the rest of it
		if let Some((d, _)) = &release {
			std::thread::sleep(d.saturating_sub(started.elapsed()));
		}
		fire(&mut release);
	});
	errors.into_inner().unwrap()
}

/// scenario D: one commit, wait for its enactment, a holder thread enters an `iter_column_while` callback (it holds the
/// crate's `iteration_lock`, which `enact_logs` needs: the commit worker stalls), then the concurrent phase; the
/// watchdog loop of the concurrent phase sets the release flag
fn stall_phase(db: &Db, seed: u64, plan: &Plan, t: &mut Trace, prop: &str) -> Vec<String> {
	let mut errors = vec![];
	let release = plan.release.as_ref().expect("scenario D plan").1.clone();
	// D2 reads render padded values: the first value is a padded token with an empty padding
	let v0 = if plan.big { "c9n1z0" } else { "c9n1" };
	let tx: Tx = vec![(0u8, b"k0".to_vec(), Some(v0.as_bytes().to_vec()))];
	if let Err(m) = do_commit(db, 0, format!(" set:k0:{}", v0), tx) {
		errors.push(m);
		return errors
	}
	let t0 = Instant::now();
	let enacted = || JOURNAL.lock().unwrap_or_else(|e| e.into_inner()).iter().any(|l| l.starts_with("endread "));
	while !enacted() && t0.elapsed() < Duration::from_secs(5) {
		std::thread::sleep(Duration::from_millis(1));
	}
	if !enacted() {
		errors.push("stall: the first commit was not enacted within 5 s".to_string());
	}
	let entered = AtomicBool::new(false);
	std::thread::scope(|s| {
		let (entered, release) = (&entered, &release);
		let h = s.spawn(move || {
			let mut first = true;
			db.iter_column_while(0, |_st| {
				if first {
					first = false;
					jpush("hold".to_string());
					entered.store(true, Ordering::SeqCst);
					while !release.load(Ordering::SeqCst) {
						std::thread::sleep(Duration::from_millis(1));
					}
					jpush("release".to_string());
				}
				false
			})
		});
		let t0 = Instant::now();
		while !entered.load(Ordering::SeqCst) && !h.is_finished() && t0.elapsed() < Duration::from_secs(5) {
			std::thread::sleep(Duration::from_micros(200));
		}
		if !entered.load(Ordering::SeqCst) {
			errors.push("stall: the iteration callback was not entered within 5 s (no hold)".to_string());
		}
		errors.extend(concurrent_phase(db, seed, plan, t, prop));
		release.store(true, Ordering::SeqCst);
		match h.join() {
			Ok(Ok(())) => {},
			Ok(Err(e)) => errors.push(format!("stall: iter_column_while failed: {:?}", e)),
			Err(_) => errors.push("stall: the holder thread panicked".to_string()),
		}
	});
	errors
}

#[derive(Default)]
struct Analysis {
	commits: u64,
	reads: u64,
	enacted: u64,
	events: u64,
	reads_none: u64,
	reads_some: u64,
	overlap_pipeline: u64,
	overlap_commit: u64,
	window_gt0: u64,
	max_window: u64,
	max_queue_depth: u64,
	not_latest_at_rs: u64,
	/// records published but not enacted when the journal ends (drop enacts at most a few log files)
	undrained_records: u64,
	/// scenario D: `flush` lines / bytes (pop `b=`) of the commits published between `hold` and `release`
	held_flushes: u64,
	held_logged_bytes: u64,
	held_publishes: u64,
	anomalies: Vec<String>,
	violations: Vec<String>,
}

/// statistics, ordering sanity (reported, not a verdict) and the sequential-window oracle
fn analyse(journal: &[String], pool: &[String]) -> Analysis {
	let mut a = Analysis::default();
	a.events = journal.len() as u64;
	// hist[key][q] = value of key after the first q commits
	let mut hist: HashMap<&str, Vec<Option<String>>> = pool.iter().map(|k| (k.as_str(), vec![None])).collect();
	let mut cid_keys: HashMap<u64, BTreeSet<String>> = HashMap::new(); // current session
	let mut rid_keys: HashMap<u64, BTreeSet<String>> = HashMap::new();
	let mut pipe_events: Vec<(usize, BTreeSet<String>)> = vec![]; // journal index, keys written by the commit concerned
	let mut commit_events: Vec<(usize, BTreeSet<String>)> = vec![];
	let mut open_reads: HashMap<usize, (usize, u64, String)> = HashMap::new(); // reader -> (rs index, lo, key)
	let mut finished: Vec<(usize, usize, u64, u64, String, Option<String>)> = vec![]; // rs, re, lo, hi, key, value
	let mut depth = 0u64;
	// ordering sanity
	let mut last_pop = 0u64;
	let mut last_commit = 0u64;
	let mut last_publish_rid = 0u64;
	let mut last_enact = 0u64;
	let mut published_unflushed: BTreeSet<u64> = BTreeSet::new();
	let mut flushed: BTreeSet<u64> = BTreeSet::new();
	let mut popped_unpublished: Option<u64> = None;
	let mut published_cids: BTreeSet<u64> = BTreeSet::new();
	let mut enacted_open: Option<u64> = None;
	let mut held = false;
	let mut pop_bytes: HashMap<u64, u64> = HashMap::new();
	for (i, line) in journal.iter().enumerate() {
		let mut w = line.split_whitespace();
		let kind = w.next().unwrap_or("");
		let num = |s: Option<&str>| s.and_then(|x| x.parse::<u64>().ok()).unwrap_or(u64::MAX);
		if held && (kind == "enact" || kind == "endread") {
			a.anomalies.push(format!("#{} enact while the iteration lock is held: {}", i, line));
		}
		match kind {
			"commit" => {
				let cid = num(w.next());
				if cid != last_commit + 1 {
					a.anomalies.push(format!("#{} commit id {} after {}", i, cid, last_commit));
				}
				last_commit = cid;
				let mut keys = BTreeSet::new();
				let mut cur: HashMap<&str, Option<String>> = HashMap::new();
				for op in w {
					if op.starts_with("b=") || op.starts_with("c=") {
						continue // byte count of the crate, client index (C15 side)
					}
					let mut p = op.split(':');
					match (p.next(), p.next(), p.next()) {
						(Some("set"), Some(k), Some(v)) => {
							keys.insert(k.to_string());
							cur.insert(pool.iter().find(|x| x.as_str() == k).map(|x| x.as_str()).unwrap_or(""), Some(v.to_string()));
						},
						(Some("del"), Some(k), None) => {
							keys.insert(k.to_string());
							cur.insert(pool.iter().find(|x| x.as_str() == k).map(|x| x.as_str()).unwrap_or(""), None);
						},
						_ => a.anomalies.push(format!("#{} malformed op {}", i, op)),
					}
				}
				for (k, h) in hist.iter_mut() {
					let v = match cur.get(k) {
						Some(v) => v.clone(),
						None => h.last().unwrap().clone(),
					};
					h.push(v);
				}
				a.commits += 1;
				depth += 1;
				a.max_queue_depth = a.max_queue_depth.max(depth);
				cid_keys.insert(cid, keys.clone());
				commit_events.push((i, keys.clone()));
				pipe_events.push((i, keys));
			},
			"pop" => {
				let cid = num(w.next());
				if cid != last_pop + 1 {
					a.anomalies.push(format!("#{} pop {} after pop {}", i, cid, last_pop));
				}
				if cid > last_commit {
					a.anomalies.push(format!("#{} pop {} before its commit event", i, cid));
				}
				if let Some(p) = popped_unpublished {
					a.anomalies.push(format!("#{} pop {} while popped commit {} is not published", i, cid, p));
				}
				popped_unpublished = Some(cid);
				pop_bytes.insert(cid, w.next().and_then(|x| x.strip_prefix("b=")).and_then(|x| x.parse::<u64>().ok()).unwrap_or(0));
				last_pop = cid;
				depth = depth.saturating_sub(1);
				pipe_events.push((i, cid_keys.get(&cid).cloned().unwrap_or_default()));
			},
			"publish" => {
				let cid = num(w.next());
				let rid = num(w.next());
				if popped_unpublished != Some(cid) {
					a.anomalies.push(format!("#{} publish cid {} rid {} without a pending pop ({:?})", i, cid, rid, popped_unpublished));
				}
				popped_unpublished = None;
				if rid != last_publish_rid + 1 && last_publish_rid != 0 {
					a.anomalies.push(format!("#{} publish rid {} after rid {}", i, rid, last_publish_rid));
				}
				last_publish_rid = rid;
				if held {
					a.held_publishes += 1;
					a.held_logged_bytes += pop_bytes.get(&cid).copied().unwrap_or(0);
				}
				published_cids.insert(cid);
				published_unflushed.insert(rid);
				let keys = cid_keys.get(&cid).cloned().unwrap_or_default();
				rid_keys.insert(rid, keys.clone());
				pipe_events.push((i, keys));
			},
			"clean" => {
				let cid = num(w.next());
				if !published_cids.contains(&cid) {
					a.anomalies.push(format!("#{} clean {} before publish", i, cid));
				}
				pipe_events.push((i, cid_keys.get(&cid).cloned().unwrap_or_default()));
			},
			"flush" => {
				flushed.append(&mut published_unflushed);
				if held {
					a.held_flushes += 1;
				}
			},
			"enact" => {
				let rid = num(w.next());
				if !flushed.contains(&rid) {
					a.anomalies.push(format!("#{} enact of record {} before a flush event covering it", i, rid));
				}
				if rid != last_enact + 1 {
					a.anomalies.push(format!("#{} enact {} after enact {}", i, rid, last_enact));
				}
				if let Some(o) = enacted_open {
					a.anomalies.push(format!("#{} enact {} while record {} has no endread", i, rid, o));
				}
				enacted_open = Some(rid);
				last_enact = rid;
				pipe_events.push((i, rid_keys.get(&rid).cloned().unwrap_or_default()));
			},
			"endread" => {
				let rid = num(w.next());
				if enacted_open != Some(rid) {
					a.anomalies.push(format!("#{} endread {} without enact ({:?})", i, rid, enacted_open));
				}
				enacted_open = None;
				a.enacted += 1;
				pipe_events.push((i, rid_keys.get(&rid).cloned().unwrap_or_default()));
			},
			"cleanlogs" | "cfg" | "cwait" | "drop" | "stuck" => {},
			"hold" => held = true,
			"release" => held = false,
			"reopen" => {
				// new session: commit ids restart, the queue of the old handle is gone, record ids go on
				cid_keys.clear();
				pop_bytes.clear();
				published_cids.clear();
				last_pop = 0;
				last_commit = 0;
				depth = 0;
				popped_unpublished = None;
				enacted_open = None;
			},
			"rs" => {
				let r = num(w.next()) as usize;
				let k = w.next().unwrap_or("").to_string();
				open_reads.insert(r, (i, a.commits, k));
			},
			"re" => {
				let r = num(w.next()) as usize;
				let k = w.next().unwrap_or("").to_string();
				let v = w.next().unwrap_or("");
				let v = if v == "none" { None } else { Some(v.to_string()) };
				match open_reads.remove(&r) {
					Some((rs, lo, k0)) if k0 == k => finished.push((rs, i, lo, a.commits, k, v)),
					_ => a.anomalies.push(format!("#{} re of reader {} without matching rs", i, r)),
				}
				a.reads += 1;
			},
			_ => a.anomalies.push(format!("#{} unknown journal line {}", i, line)),
		}
	}
	if depth != 0 || popped_unpublished.is_some() || enacted_open.is_some() || !published_unflushed.is_empty() {
		a.anomalies.push(format!(
			"pipeline not drained at the end: queue depth {} popped {:?} enacting {:?} unflushed {:?} last enact {} last publish {}",
			depth, popped_unpublished, enacted_open, published_unflushed, last_enact, last_publish_rid
		));
	}
	a.undrained_records = last_publish_rid.saturating_sub(last_enact);
	for (rs, re, lo, hi, k, v) in finished {
		match &v {
			None => a.reads_none += 1,
			Some(_) => a.reads_some += 1,
		}
		a.max_window = a.max_window.max(hi - lo);
		if hi > lo {
			a.window_gt0 += 1;
		}
		let touches = |evs: &Vec<(usize, BTreeSet<String>)>| {
			let from = evs.partition_point(|(i, _)| *i < rs);
			evs[from..].iter().take_while(|(i, _)| *i <= re).any(|(_, keys)| keys.contains(&k))
		};
		if touches(&pipe_events) {
			a.overlap_pipeline += 1;
		}
		if touches(&commit_events) {
			a.overlap_commit += 1;
		}
		if col_of(&k) != 0 {
			// preimage columns: well-formedness only; the exact check (counts, visibility) is the Lean acceptor's
			if !pool.contains(&k) {
				a.violations.push(format!("read of unknown key {}", k));
			} else if v.is_some() && v.as_deref() != Some(format!("v{}", k).as_str()) {
				a.violations.push(format!("read of {} (journal #{}..#{}) returned {} but the only value of the key is v{}", k, rs, re, v.clone().unwrap(), k));
			}
			continue
		}
		match hist.get(k.as_str()) {
			Some(h) => {
				let ok = (lo..=hi).any(|q| h[q as usize] == v);
				if h[lo as usize] != v {
					a.not_latest_at_rs += 1;
				}
				if !ok {
					let window: Vec<String> = (lo..=hi).map(|q| format!("{}:{}", q, h[q as usize].clone().unwrap_or_else(|| "none".into()))).collect();
					a.violations.push(format!(
						"read of {} (journal #{}..#{}) returned {} but the sequential values after {}..={} commits are [{}]",
						k, rs, re, v.clone().unwrap_or_else(|| "none".into()), lo, hi, window.join(" ")
					));
				}
			},
			None => a.violations.push(format!("read of unknown key {}", k)),
		}
	}
	a
}

fn case(seed: u64, thorough: bool, root: &Path, t: &mut Trace, ctr: &mut Counters, prop: &str) -> bool {
	let mut rng = Rng::new(seed);
	let sc = rng.below(6);
	// scenario D (stall): an independent draw, so the A / B / C choice of the other seeds is what it was
	let mut drng = Rng::new(seed ^ 0xD5_7A11_0000);
	let dsel = drng.below(14);
	let scenario_d = dsel % 7 == 4 || dsel % 7 == 1; // (2/7 of the cases) the commit worker is stalled by a holder of the iteration lock
	let d2 = scenario_d && dsel != 1; // D2 "logq": big values, log-queue throttle; D1 "files": many small log files
	let scenario_c = !scenario_d && sc == 4; // bigtx: commit calls block in the 16 MiB commit-queue throttle
	let scenario_b = !scenario_d && (sc == 1 || sc == 2);
	let mut clients = if scenario_c { rng.range(3, 4) } else { rng.range(2, 4) } as usize;
	let mut readers = if scenario_c { 1 } else { rng.range(1, 3) as usize };
	let mut nkeys = if scenario_c { 4 } else { rng.range(3, 6) as usize };
	if scenario_d {
		clients = drng.range(2, 3) as usize;
		readers = 1;
		nkeys = 4;
	}
	let mut pool: Vec<String> = (0..nkeys).map(|i| format!("k{}", i)).collect();
	// column kinds: 2 preimage keys (column 1) and 2 reference-counted keys (column 2) in the pool
	let kinds = !scenario_c && !scenario_d && rng.chance(1, 2);
	if kinds {
		pool.extend(["p0", "p1", "r0", "r1"].iter().map(|x| x.to_string()));
	}
	// false: the flush worker leaves small logs alone, flush / enact / endread only happen at drop
	let always_flush = scenario_c || scenario_d || rng.below(3) != 0;
	let yield_den = *rng.pick(&[2u64, 4, 8, 8, 16, 64]);
	YIELD_DEN.store(yield_den, Ordering::SeqCst);
	let hi_commits = if thorough { 80 } else { 40 };
	let release_flag = Arc::new(AtomicBool::new(false));
	let mut commits_per_client: Vec<u64> = (0..clients)
		.map(|_| {
			if scenario_d {
				if d2 { drng.range(14, 20) } else { drng.range(15, 25) }
			} else if scenario_c {
				rng.range(6, 10)
			} else {
				rng.range(15, hi_commits)
			}
		})
		.collect();
	if d2 {
		// more than 140 MiB in all: 128 MiB logged but not enacted, then the 16 MiB commit queue
		let per = (36 + clients as u64 - 1) / clients as u64;
		for n in commits_per_client.iter_mut() {
			*n = (*n).max(per);
		}
	}
	let hold_ms = if d2 { drng.range(600, 1200) } else { drng.range(150, 400) };
	let plan = Plan {
		clients,
		readers,
		commits_per_client,
		big_len: if d2 { 4 << 20 } else { 0 },
		relaxed_reader: scenario_c || scenario_d,
		release: if scenario_d { Some((Duration::from_millis(hold_ms), release_flag.clone())) } else { None },
		pool: pool.clone(),
		max_reads: if scenario_c || scenario_d {
			60
		} else if thorough {
			600
		} else {
			250
		},
		big: scenario_c || d2,
	};
	if scenario_c {
		let lo = rng.range(2000, 3500);
		BIG_DELAY_LO_US.store(lo, Ordering::SeqCst);
		BIG_DELAY_HI_US.store(rng.range(lo, 5000), Ordering::SeqCst);
	} else {
		BIG_DELAY_LO_US.store(0, Ordering::SeqCst);
		BIG_DELAY_HI_US.store(0, Ordering::SeqCst);
	}
	READERS.store(readers, Ordering::SeqCst);
	WAITING.store(0, Ordering::SeqCst);
	MAX_WAITING.store(0, Ordering::SeqCst);
	t.begin_case(&format!(
		"seed={} scenario={} clients={} readers={} keys={} kinds={} always_flush={} yield_den={}",
		seed,
		if scenario_d {
			if d2 { "D2" } else { "D1" }
		} else if scenario_c {
			"C"
		} else if scenario_b {
			"B"
		} else {
			"A"
		},
		clients,
		readers,
		nkeys,
		kinds,
		always_flush,
		yield_den
	));
	JOURNAL.lock().unwrap_or_else(|e| e.into_inner()).clear();
	LAST_POP.store(0, Ordering::SeqCst);
	let t0 = Instant::now();
	let dir = fresh_dir(root, &format!("t3-{}", seed));
	let dir_b = fresh_dir(root, &format!("t3-{}-b", seed));
	let mut errors: Vec<String> = vec![];
	let mut precrash = 0u64;

	let open_dir = if scenario_b {
		let db = match Db::open_or_create(&options(&dir, false, true)) {
			Ok(db) => db,
			Err(e) => {
				t.oracle_fail(prop, &format!("open (stepping) failed: {:?}", e));
				t.end_case(false);
				return false
			},
		};
		RECORDING.store(true, Ordering::SeqCst);
		let d = rng.range(1, 3);
		precrash = d;
		let mut seq = 0u64;
		for _ in 0..d {
			let (text, tx) = random_tx(&mut rng, &pool, 9, &mut seq, 2);
			if let Err(m) = do_commit(&db, 0, text, tx) {
				errors.push(m);
			}
		}
		for _ in 0..d {
			if let Err(e) = db.process_commits() {
				errors.push(format!("process_commits failed: {:?}", e));
			}
		}
		if let Err(e) = db.flush_logs() {
			errors.push(format!("flush_logs failed: {:?}", e));
		}
		RECORDING.store(false, Ordering::SeqCst);
		copy_dir(&dir, &dir_b);
		drop_with_watchdog(db, t, prop, "stepping handle of the crash image");
		let _ = std::fs::remove_file(dir_b.join("lock"));
		jpush("reopen".to_string());
		RECORDING.store(true, Ordering::SeqCst);
		dir_b.clone()
	} else {
		RECORDING.store(true, Ordering::SeqCst);
		dir.clone()
	};

	let opened = if scenario_b {
		Db::open(&options(&open_dir, true, always_flush))
	} else {
		Db::open_or_create(&options(&open_dir, true, always_flush))
	};
	match opened {
		Ok(db) => {
			// the handle with workers is open: the worker-LTS acceptor (C15 side) starts here
			jpush(format!("cfg {} 0 {}", always_flush as u8, clients));
			if scenario_d {
				precrash = 1; // the commit of step 1 (same session: counted with the clients' commits)
				errors.extend(stall_phase(&db, seed, &plan, t, prop));
			} else {
				errors.extend(concurrent_phase(&db, seed, &plan, t, prop));
			}
			// the shutdown drains the pipeline: its events belong to the journal
			jpush("drop".to_string());
			drop_with_watchdog(db, t, prop, "handle with workers");
			// C03: the clean shutdown persisted everything.  Reopen WITHOUT workers (the replay at open enacts
			// the records that kill_logs left in complete flushed files: `enact` / `endread` events) and
			// read every key as reader 0: the acceptor (and the oracle) demand the value after ALL commits.
			jpush("reopen".to_string());
			match Db::open(&options(&open_dir, false, always_flush)) {
				Ok(db2) => {
					for k in &pool {
						jpush(format!("rs 0 {}", k));
						let line = match db2.get(col_of(k), k.as_bytes()) {
							Ok(None) => format!("re 0 {} none", k),
							Ok(Some(b)) => format!("re 0 {} {}", k, render(&b, plan.big)),
							Err(e) => {
								errors.push(format!("closing read failed: {:?}", e));
								format!("re 0 {} ERR{}", k, err_kind(&e))
							},
						};
						jpush(line);
					}
					RECORDING.store(false, Ordering::SeqCst);
					drop_with_watchdog(db2, t, prop, "closing handle");
				},
				Err(e) => errors.push(format!("reopen after the clean shutdown failed: {:?}", e)),
			}
		},
		Err(e) => errors.push(format!("open with workers failed: {:?}", e)),
	}
	RECORDING.store(false, Ordering::SeqCst);
	let journal: Vec<String> = std::mem::take(&mut *JOURNAL.lock().unwrap_or_else(|e| e.into_inner()));
	let run_ms = t0.elapsed().as_millis();

	// print: `begin` first; in scenario B the pre-crash events precede `reopen` in the journal already
	print_journal(t, &journal, readers, false);
	let a = analyse(&journal, &pool);
	t.op("t3 end", &format!("ok commits={} reads={} enacted={}", a.commits, a.reads, a.enacted));

	let mut ok = true;
	for m in &errors {
		t.oracle_fail(prop, m);
		ok = false;
	}
	for m in a.violations.iter().take(10) {
		t.oracle_fail(prop, m);
		ok = false;
	}
	if a.violations.len() > 10 {
		t.comment(&format!("{} more oracle violations suppressed", a.violations.len() - 10));
	}
	for m in a.anomalies.iter().take(10) {
		t.comment(&format!("t3 ANOMALY {}", m));
	}
	let expected_commits: u64 = plan.commits_per_client.iter().sum::<u64>() + precrash;
	if errors.is_empty() && a.commits != expected_commits {
		t.comment(&format!("t3 ANOMALY journal has {} commit events, clients did {}", a.commits, expected_commits));
		ctr.inc("anomalies");
	}
	t.comment(&format!(
		"t3: events={} commits={} reads={} enacted={} none={} some={} overlap_pipeline={} overlap_commit={} window>0={} max_window={} max_queue_depth={} not_latest_at_rs={} anomalies={} run_ms={}",
		a.events, a.commits, a.reads, a.enacted, a.reads_none, a.reads_some, a.overlap_pipeline, a.overlap_commit, a.window_gt0, a.max_window, a.max_queue_depth, a.not_latest_at_rs, a.anomalies.len(), run_ms
	));
	ctr.inc("journals");
	ctr.inc(if always_flush { "always_flush" } else { "always_flush_off" });
	ctr.inc(&format!("yield_den.{}", yield_den));
	if a.undrained_records > 0 {
		t.comment(&format!("t3: drop(Db) left {} flushed records un-enacted (kill_logs enacts at most three log files; they stay on disk for the replay at the next open)", a.undrained_records));
		ctr.inc("journals_with_unenacted_records_after_drop");
		ctr.add("unenacted_records_after_drop", a.undrained_records);
	}
	ctr.inc(if scenario_d {
		"scenario.D_stall"
	} else if scenario_c {
		"scenario.C_bigtx"
	} else if scenario_b {
		"scenario.B_crash_reopen"
	} else {
		"scenario.A_fresh"
	});
	if kinds {
		ctr.inc("kinds");
	}
	let cwaits = journal.iter().filter(|l| l.starts_with("cwait ")).count() as u64;
	ctr.add("cwait_events", cwaits);
	if scenario_d {
		ctr.inc(if d2 { "scenario.D2_logq" } else { "scenario.D1_files" });
		t.comment(&format!(
			"t3: stall {} hold_ms={} backlog_files={} publishes_while_held={} logged_bytes_while_held={} cwait_events={} max_waiting_clients={} run_ms={}",
			if d2 { "D2" } else { "D1" }, hold_ms, a.held_flushes, a.held_publishes, a.held_logged_bytes, cwaits, MAX_WAITING.load(Ordering::SeqCst), run_ms
		));
		ctr.add("d_logged_bytes_while_held", a.held_logged_bytes);
		let e = ctr.0.entry("d_backlog_files_max".to_string()).or_insert(0);
		*e = (*e).max(a.held_flushes);
		let e = ctr.0.entry("d_logged_bytes_while_held_max".to_string()).or_insert(0);
		*e = (*e).max(a.held_logged_bytes);
		let e = ctr.0.entry("d_max_case_ms".to_string()).or_insert(0);
		*e = (*e).max(run_ms as u64);
		if d2 {
			ctr.add("d2_cwait_events", cwaits);
			if cwaits == 0 {
				ctr.inc("d2_cases_without_cwait");
			}
		}
	}
	if scenario_c {
		t.comment(&format!("t3: bigtx cwait_events={} max_waiting_clients={}", cwaits, MAX_WAITING.load(Ordering::SeqCst)));
		if cwaits == 0 {
			ctr.inc("bigtx_cases_without_cwait");
		}
	}
	ctr.add("events", a.events);
	ctr.add("commits", a.commits);
	ctr.add("reads", a.reads);
	ctr.add("enacted", a.enacted);
	ctr.add("reads_none", a.reads_none);
	ctr.add("reads_some", a.reads_some);
	ctr.add("reads_overlapping_own_key_pipeline_step", a.overlap_pipeline);
	ctr.add("reads_overlapping_commit", a.overlap_commit);
	ctr.add("reads_with_commit_in_window_any_key", a.window_gt0);
	ctr.add("reads_not_latest_at_rs", a.not_latest_at_rs);
	ctr.add("anomalies", a.anomalies.len() as u64);
	ctr.add("oracle_violations", a.violations.len() as u64);
	{
		let e = ctr.0.entry("max_queue_depth".to_string()).or_insert(0);
		*e = (*e).max(a.max_queue_depth);
		let e = ctr.0.entry("max_events_in_one_journal".to_string()).or_insert(0);
		*e = (*e).max(a.events);
		let e = ctr.0.entry("min_events_in_one_journal".to_string()).or_insert(u64::MAX);
		*e = (*e).min(a.events);
		let e = ctr.0.entry("max_read_window_commits".to_string()).or_insert(0);
		*e = (*e).max(a.max_window);
		let e = ctr.0.entry("max_waiting_clients".to_string()).or_insert(0);
		*e = (*e).max(MAX_WAITING.load(Ordering::SeqCst));
		let e = ctr.0.entry("max_case_ms".to_string()).or_insert(0);
		*e = (*e).max(run_ms as u64);
	}
	let _ = std::fs::remove_dir_all(&dir);
	let _ = std::fs::remove_dir_all(&dir_b);
	t.end_case(true);
	ok
}

pub fn run(seeds: &[u64], thorough: bool, root: &Path, t: &mut Trace, ctr: &mut Counters, prop: &str) -> u64 {
	let mut fails = 0;
	install_hooks();
	for s in seeds.iter().copied() {
		let ok = case(s, thorough, root, t, ctr, prop);
		ctr.inc("cases");
		if !ok {
			fails += 1;
			t.comment(&format!("FAILED-CASE seed={}", s));
		}
	}
	remove_hooks();
	fails
}
