/-
R7, enactment of a record WITH its validation pass.  `Db::enact_logs` validates the whole record
before it applies any action; the validation of an INSERT_INDEX naming an index table the column
does not have (more bits than the current one) calls `trigger_reindex` (Pdb/Model/Wal.lean
`checkIndex`).  `validate` is that pass for one growth step, `enact` = validation + apply pass,
`enactAll` = replay of a list of records.

Driver: `stepV` = `stepR` (command `physrec`) with `physrec torn <j>` re-defined through `enact`:
the crash state is `applyWrites (validate p ws) (ws.take j)` and the replay is `enact` of the whole
record over it (the existing `physrec torn` lines of harness/src/physrec.rs exercise it, growth and
reindex records included).
-/
import Pdb.Model.PhysRecRc

namespace Pdb.PhysRec
open Pdb.Gen Pdb.Index Pdb.ValueTable Pdb.Refine

/-- some index write of the record names a table the column does not have -/
def namesMissing (q : PCol) (ws : List Write) : Bool :=
  ws.any (fun w => match w.1 with
    | .idx b _ _ => !(shape q).contains b
    | _ => false)

/-- validation pass: `trigger_reindex` if the record names a missing index table -/
def validate (q : PCol) (ws : List Write) : PCol :=
  if namesMissing q ws then q.withIx (triggerReindex q.ix) else q

/-- `enact_logs` for one record: validation pass, then apply pass -/
def enact (q : PCol) (ws : List Write) : PCol := applyWrites (validate q ws) ws

/-- replay of a list of records -/
def enactAll (q : PCol) (recs : List (List Write)) : PCol := recs.foldl enact q

def tornCmdV (d : DState) (j : Nat) : DState × String :=
  match d.last with
  | none => (d, "ok")
  | some (p, ws, p') =>
    let crash := applyWrites (validate p ws) (ws.take j)
    let q := enact crash ws
    let cs := ws.map (·.1)
    if cs.all (fun l => decide (mem q l = mem p' l)) && decide (shape q = shape p') then (d, "ok")
    else (d, "DIFF")

def stepV (d : DState) (ws : List String) : DState × String :=
  match ws with
  | ["torn", j] =>
    match j.toNat? with
    | some j => tornCmdV d j
    | none => (d, "bad-op")
  | _ => stepR d ws

end Pdb.PhysRec
