/-
R7 for histories WITH index growth inside (the `NoGrow` hypothesis of `Hist` / `R7_history` /
`R7_redo_history` dropped).

Records are enacted as `Db::enact_logs` does: validation pass of the whole record (`validate`: an
INSERT_INDEX naming an index table the column does not have triggers `trigger_reindex`), then the
apply pass (`enact`, `enactAll`; Pdb/Model/PhysRecV.lean).  A step of a history (`StepShape`) either
keeps the tables - this covers plain transactions AND reindex batch records (`PAction.reindex`) - or
grows the index by one step.

WHAT REMAINS ASSUMED for a growing step: (i) the index bits of the tables after it are pairwise
distinct (`IdxInv.order` of C09 for reachable states); (ii) `namesMissing`: its record contains an
index write into the new table.  (ii) is true of every growing record of the crate (the insert that
did not fit goes into the new table), is decidable, is checked in the examples below and seen by
the `physrec` tie (an `I<bits+1>` token in every growing record: 997 + 1030 records in the
validation runs); it is NOT derived from `insertLoop` here.
Not covered: `DropTable` (the tables never shrink inside a `HistV`), several growth steps inside
ONE transaction.
-/
import Pdb.Proofs.PhysRecV
import Pdb.Props.PhysRecGrow
import Pdb.Props.PhysRecRc

namespace Pdb.PhysRec
open Pdb.Gen Pdb.Index Pdb.ValueTable Pdb.Refine Pdb.RefineRc

/-- histories of transactions on a column of kind `kind` (`rRun`; for `.plain` use `HistPV`), with
or without growth -/
inductive HistRV (kind : Pdb.Kind) (cmp : Bytes → Bytes) (thr : Nat) :
    PCol → List TxR → List (List Write) → PCol → Prop
  | nil (p : PCol) : HistRV kind cmp thr p [] [] p
  | cons {p p1 p' : PCol} {tx : TxR} {txs : List TxR} {recs : List (List Write)} :
      runTxR kind cmp thr p tx = some p1 → StepShape p p1 (planWritesR kind cmp thr p tx) →
      HistRV kind cmp thr p1 txs recs p' →
      HistRV kind cmp thr p (tx :: txs) (planWritesR kind cmp thr p tx :: recs) p'

/-- histories of transactions (sets, removals, reindex batches, ...) on the plain physical column
(`pRun`), with or without growth -/
inductive HistPV (cmp : Bytes → Bytes) (thr : Nat) :
    PCol → List Tx → List (List Write) → PCol → Prop
  | nil (p : PCol) : HistPV cmp thr p [] [] p
  | cons {p p1 p' : PCol} {tx : Tx} {txs : List Tx} {recs : List (List Write)} :
      runTx cmp thr p tx = some p1 → StepShape p p1 (planWrites cmp thr p tx) →
      HistPV cmp thr p1 txs recs p' →
      HistPV cmp thr p (tx :: txs) (planWrites cmp thr p tx :: recs) p'

theorem HistPV.gen {cmp thr p txs recs p'} (h : HistPV cmp thr p txs recs p') : HistV p recs p' := by
  induction h with
  | nil p => exact .nil p
  | @cons p p1 p' tx txs recs hrun hs _ ih =>
    have e : planWrites cmp thr p tx = recOf (txTouched cmp thr p tx) p p1 :=
      planWrites_eq cmp thr p p1 tx hrun
    rw [e] at hs ⊢
    exact .cons (pRun_frame cmp thr tx p p1 (runTx_pRun hrun)) hs ih

theorem HistRV.gen {kind cmp thr p txs recs p'} (h : HistRV kind cmp thr p txs recs p') :
    HistV p recs p' := by
  induction h with
  | nil p => exact .nil p
  | @cons p p1 p' tx txs recs hrun hs _ ih =>
    rw [planWritesR_eq kind cmp thr p p1 tx hrun] at hs ⊢
    exact .cons (runTxR_frame kind cmp thr p p1 tx hrun) hs ih

/-- a history without growth is a history -/
theorem Hist.toV {cmp thr p txs recs p'} (h : Hist cmp thr p txs recs p') :
    HistPV cmp thr p txs recs p' := by
  induction h with
  | nil p => exact .nil p
  | cons hrun hng _ ih => exact .cons hrun (Or.inl hng) ih

/-- R7_history WITH GROWTH: replaying (validation pass + apply pass per record) all records of a
history over its start state gives a column that reads like its end state and has its tables. -/
theorem R7v_history (cmp : Bytes → Bytes) (thr : Nat) (p p' : PCol) (txs : List Tx)
    (recs : List (List Write)) (h : HistPV cmp thr p txs recs p') :
    (∀ l, Loc.Ok l → mem (enactAll p recs) l = mem p' l) ∧ shape (enactAll p recs) = shape p' := by
  obtain ⟨hm, hs⟩ := h.gen.enact p rfl
  exact ⟨fun l hl => by rw [hm l hl]; exact h.gen.mapplys l hl (mem p) rfl, hs⟩

/-- R7_redo_history WITH GROWTH.  The records of the history split as `pre ++ mid ++ r :: post`;
`pb` / `pc` are the states of the history before / after the transaction of `r`.  The crash state
`c` reads like "`pre ++ mid` enacted, the first `j` writes of `r` enacted" and has the tables of
`pb` or of `pc` (if `r` grows the index, the new table exists on disk iff an enacted write went
into it).  Replaying the consecutive records `mid ++ r :: post` - each with its validation pass -
gives a column that reads like the record boundary `p'` and has its tables. -/
theorem R7v_redo_history (cmp : Bytes → Bytes) (thr : Nat) (p p' : PCol) (txs : List Tx)
    (pre mid post : List (List Write)) (r : List Write)
    (h : HistPV cmp thr p txs (pre ++ mid ++ r :: post) p') (j : Nat) (c : PCol)
    (hcm : ∀ l, Loc.Ok l → mem c l = mapplys (mapplys (mem p) (pre ++ mid).flatten) (r.take j) l) :
    ∃ pb pc, HistV p (pre ++ mid) pb ∧ HistV pb [r] pc ∧
      ((shape c = shape pb ∨ shape c = shape pc) →
        (∀ l, Loc.Ok l → mem (enactAll c (mid ++ r :: post)) l = mem p' l) ∧
          shape (enactAll c (mid ++ r :: post)) = shape p') :=
  h.gen.redo pre mid post r j c hcm

/-- the same for columns of every kind -/
theorem R7rcv_redo_history (kind : Pdb.Kind) (cmp : Bytes → Bytes) (thr : Nat) (p p' : PCol)
    (txs : List TxR) (pre mid post : List (List Write)) (r : List Write)
    (h : HistRV kind cmp thr p txs (pre ++ mid ++ r :: post) p') (j : Nat) (c : PCol)
    (hcm : ∀ l, Loc.Ok l → mem c l = mapplys (mapplys (mem p) (pre ++ mid).flatten) (r.take j) l) :
    ∃ pb pc, HistV p (pre ++ mid) pb ∧ HistV pb [r] pc ∧
      ((shape c = shape pb ∨ shape c = shape pc) →
        (∀ l, Loc.Ok l → mem (enactAll c (mid ++ r :: post)) l = mem p' l) ∧
          shape (enactAll c (mid ++ r :: post)) = shape p') :=
  h.gen.redo pre mid post r j c hcm

/-- The crash states of the statement exist: the torn enactment itself (validation pass of `r`, then
its first `j` writes) over the replayed boundary before `r` is one (tables of `pc` when `r` grows,
of `pb` otherwise), for a history that starts at `p`. -/
theorem R7v_crash_state (cmp : Bytes → Bytes) (thr : Nat) (p pb : PCol) (txs : List Tx)
    (recs : List (List Write)) (hA : HistPV cmp thr p txs recs pb) (r : List Write) (j : Nat)
    (hok : ∀ w ∈ r, Write.Ok (shape pb) w) (l : Loc) (hl : Loc.Ok l) :
    mem (applyWrites (enactAll p recs) (r.take j)) l =
      mapplys (mapplys (mem p) recs.flatten) (r.take j) l ∧
    shape (applyWrites (enactAll p recs) (r.take j)) = shape pb := by
  obtain ⟨hm, hs⟩ := hA.gen.enact p rfl
  obtain ⟨h2, s2⟩ := mem_applyWrites (r.take j) (enactAll p recs)
    (fun w hw => by rw [hs]; exact hok w (List.mem_of_mem_take hw))
  exact ⟨by rw [h2 l hl]; exact mapplys_congr _ _ _ l (hm l hl), s2.shape.trans hs⟩

/-! ## non-vacuity: a history with a growing transaction in the middle, torn while growing -/

section Example

/-- after the growth: a transaction that touches the new 17-bit table and the queued 16-bit one -/
def exTxH : Tx := [.set exKa [4, 4, 4, 4], .set exKb [6]]
def exPH : PCol := (runTx exCmp 0 exPG exTxH).getD exP0

theorem exRunH : runTx exCmp 0 exPG exTxH = some exPH := getD_of_isSome _ _ (by decide +kernel)

theorem exStepG : StepShape exP2 exPG (planWrites exCmp 0 exP2 exTxG) :=
  Or.inr ⟨exShG, exNdG, by decide +kernel⟩
theorem exStepH : StepShape exPG exPH (planWrites exCmp 0 exPG exTxH) :=
  Or.inl (by decide +kernel)

theorem exHistV : HistPV exCmp 0 exP0 [exTx1, exTx2, exTxG, exTxH]
    ([planWrites exCmp 0 exP0 exTx1] ++ [planWrites exCmp 0 exP1 exTx2] ++
      planWrites exCmp 0 exP2 exTxG :: [planWrites exCmp 0 exPG exTxH])
    exPH :=
  .cons exRun1 (Or.inl exNg1) (.cons exRun2 (Or.inl exNg2) (.cons exRunG exStepG
    (.cons exRunH exStepH (.nil _))))

example : shape exPH = [17, 16] := by decide +kernel

example := R7v_history exCmp 0 exP0 exPH _ _ exHistV
/-- records 1, 2 enacted; the GROWING record 3 torn after 1 write; replay from record 2 -/
example := R7v_redo_history exCmp 0 exP0 exPH _ [planWrites exCmp 0 exP0 exTx1]
  [planWrites exCmp 0 exP1 exTx2] _ (planWrites exCmp 0 exP2 exTxG) exHistV 1

end Example

end Pdb.PhysRec

#print axioms Pdb.PhysRec.R7v_history
#print axioms Pdb.PhysRec.R7v_redo_history
#print axioms Pdb.PhysRec.R7rcv_redo_history
#print axioms Pdb.PhysRec.R7v_crash_state
