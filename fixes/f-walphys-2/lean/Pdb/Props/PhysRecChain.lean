/-
Item 3: `C02_phys_replay_prefix` WITHOUT the side hypothesis `hacc` about what `realAccepted`
returns.  The file layouts the recovery model produces (`diskFiles` of Pdb/Model/Recover.lean) are
CHAINS: non-empty files whose record ids continue one another from some `a ≥ 1`
(`C02_crash_files`, second conjunct), listed by the directory in any order; for a chain
`realAccepted` returns all records in id order (`realAccepted_chain`).  So `hacc` is replaced by
"the log files are a permutation of a chain whose records are the physical records
`mid ++ r :: post`": a statement about the FILES, the same one `C02_real_recovery_eq` /
`C02_crash_files` make about the logical files.

What remains assumed here (unchanged): `StableWF` of every record (no configuration change, so no
growing record in the composition), `Write.Enc`, `PRunHypFull`, and the correspondence between the
logical records of P1 in `diskFiles` and the physical records (the ids and the file boundaries are
shared: `toRecord col id ws`; that each logical record's physical record is `planWrites` of its
transaction is R4 + R7_full, not restated here).
-/
import Pdb.Props.PhysRecReplay
import Pdb.Proofs.Recover

namespace Pdb.PhysRec
open Pdb.Gen Pdb.Index Pdb.ValueTable Pdb.Refine

theorem allRecs_toLFile (cfiles : List (List Wal.Record)) :
    (allRecs (cfiles.map Wal.toLFile)).map (·.2) = cfiles.flatten := by
  induction cfiles with
  | nil => rfl
  | cons f fs ih =>
    simp only [allRecs, List.map_cons, List.flatMap_cons, List.map_append, List.flatten_cons] at ih ⊢
    rw [ih]
    congr 1
    exact Wal.keyed_snd f

/-- what `Db::open` accepts from a chain of encoded physical records, in any directory order -/
theorem realAccepted_phys_chain (a : Nat) (ha : 1 ≤ a) (cfiles files : List (List Wal.Record))
    (hchain : Chain a (cfiles.map Wal.toLFile))
    (hperm : (files.map Wal.toLFile).Perm (cfiles.map Wal.toLFile)) :
    realAccepted (files.map Wal.toLFile) = cfiles.flatten := by
  rw [realAccepted_chain hchain ha _ hperm, allRecs_toLFile]

/-- C02_phys_replay_prefix for log files that are a chain (the layouts `Recover.lean` produces),
in any directory order; no hypothesis on `realAccepted`. -/
theorem C02_phys_replay_prefix_chain
    (cmp : Bytes → Bytes) (decomp : Bytes → Option Bytes) (thr : Nat) (U : Key → Prop)
    (icfg : Index.Cfg) (b0 : Nat) (txs : List Tx) (pre mid post : List (List Write)) (r : List Write)
    (pm : PCol)
    (hA : ∀ v, decomp (cmp v) = some v)
    (hyp : PRunHypFull cmp thr U icfg b0 txs.flatten)
    (hist : Hist cmp thr (PCol.init icfg b0) txs (pre ++ mid ++ r :: post) pm)
    (henc : ∀ w ∈ (mid ++ r :: post).flatten, Write.Enc w)
    (crc : Wal.Bytes → Nat) (wcfg : Wal.Cfg) (hs : wcfg.Sane) (col : Nat) (hcol : col < 256)
    (files cfiles : List (List Wal.Record)) (hne : ∀ f ∈ files, f ≠ [])
    (hwf : ∀ f ∈ files, ∀ r ∈ f, Wal.StableWF wcfg r)
    (a : Nat) (ha : 1 ≤ a) (hchain : Chain a (cfiles.map Wal.toLFile))
    (hperm : (files.map Wal.toLFile).Perm (cfiles.map Wal.toLFile))
    (hrecs : cfiles.flatten.map (·.actions) = (mid ++ r :: post).map (fun ws => ws.map (toAction col)))
    (j : Nat) (ops : List (List (Op Key Bytes)))
    (hops : txs.flatten.flatMap PAction.ops = ops.flatten) (k : Key) (hk : U k) :
    (pGet decomp
      (Wal.replayOpenWith (fun T e => stepAction T e.action) crc wcfg
        (applyWrites (applyWrites (PCol.init icfg b0) (pre ++ mid).flatten) (r.take j))
        (files.map (Wal.encodeRecords crc))) k).map (fun v => (v, 1)) =
      spec (fun _ => Kind.plain) ops k :=
  C02_phys_replay_prefix cmp decomp thr U icfg b0 txs pre mid post r pm hA hyp hist henc crc wcfg hs
    col hcol files hne hwf
    (by rw [realAccepted_phys_chain a ha cfiles files hchain hperm]; exact hrecs)
    j ops hops k hk

/-! ## non-vacuity: the instance of Props/PhysRecReplay.lean, its one file being a chain from id 1 -/

theorem exChain : Chain 1 (exFiles.map Wal.toLFile) := by
  show Chain 1 [Wal.toLFile [toRecord 0 1 exRecA, toRecord 0 2 exRecB]]
  refine ⟨by simp [Wal.toLFile, Wal.keyed], by simp [Wal.toLFile, Wal.keyed, toRecord, List.range'],
    trivial⟩

example := C02_phys_replay_prefix_chain exCmp some 0 Index.exU ⟨true, true, true⟩ 16 [exTx1, exTx2]
  [] [exRecA] [] exRecB exP2 (fun _ => rfl) exHyp exHist exEnc Wal.crcSum Wal.exCfg (by decide) 0
  (by decide) exFiles exFiles (by decide) exStable 1 (by decide)
  exChain (List.Perm.refl _) (by decide +kernel) 5
  [[.set Index.exK1 [1, 2, 3], .set Index.exK2 (List.replicate 40 7)],
   [.deref Index.exK1, .set Index.exK3 (List.replicate 300 9), .set Index.exK2 [5]]]
  rfl Index.exK1 (Or.inl rfl)

end Pdb.PhysRec

#print axioms Pdb.PhysRec.realAccepted_phys_chain
#print axioms Pdb.PhysRec.C02_phys_replay_prefix_chain
