/-
DROP_TABLE in a record: memory after the drop, replay of the record over the torn apply pass and
over the state in which the table is already gone.
-/
import Pdb.Model.PhysRecD
import Pdb.Proofs.PhysRecV

namespace Pdb.PhysRec
open Pdb.Gen Pdb.Index Pdb.IndexPage Pdb.ValueTable Pdb.Refine

/-- the location belongs to the index table with `b` bits -/
def Loc.inTable (b : Nat) : Loc → Prop
  | .idx b' _ _ => b' = b
  | _ => False

instance (b : Nat) (l : Loc) : Decidable (Loc.inTable b l) := by
  cases l <;> simp only [Loc.inTable] <;> infer_instance

/-- the queue front is the table with `b` bits, and index bits are pairwise distinct -/
structure FrontIs (p : PCol) (b : Nat) : Prop where
  front : ∃ t ts, p.older = t :: ts ∧ t.bits = b
  nodup : (shape p).Nodup

theorem shape_dropTable (p : PCol) (b : Nat) (h : FrontIs p b) :
    shape (dropTable p b) = (shape p).filter (fun x => x != b) := by
  obtain ⟨t, ts, ho, hb⟩ := h.front
  have hnd := h.nodup
  simp only [shape, PCol.tables, ho, List.map_cons, List.nodup_cons, List.mem_cons, not_or] at hnd
  have e : dropTable p b = { p with older := ts } := by simp [dropTable, ho, hb]
  rw [e]
  simp only [shape, PCol.tables, ho, List.map_cons]
  have h1 : p.current.bits ≠ b := fun x => hnd.1.1 (x.trans hb.symm)
  have h2 : ∀ x ∈ ts.map (·.bits), x ≠ b := fun x hx e => hnd.2.1 (hb ▸ e ▸ hx)
  rw [List.filter_cons, List.filter_cons]
  simp only [bne_iff_ne, ne_eq, h1, not_false_eq_true, if_true, hb, not_true_eq_false, if_false]
  congr 1
  exact (List.filter_eq_self.2 (fun x hx => by simpa using h2 x hx)).symm

/-- MEMORY AFTER THE DROP: the dropped table reads as empty, nothing else changes. -/
theorem mem_dropTable (p : PCol) (b : Nat) (h : FrontIs p b) (l : Loc) :
    mem (dropTable p b) l = if Loc.inTable b l then [0] else mem p l := by
  obtain ⟨t, ts, ho, hb⟩ := h.front
  have hnd := h.nodup
  simp only [shape, PCol.tables, ho, List.map_cons, List.nodup_cons, List.mem_cons, not_or] at hnd
  have e : dropTable p b = { p with older := ts } := by simp [dropTable, ho, hb]
  rw [e]
  cases l with
  | val tier s => simp [mem, Loc.inTable]
  | hdr tier => simp [mem, Loc.inTable]
  | idx b' c i =>
    simp only [mem, PCol.tables, ho, tableByBits, Loc.inTable]
    by_cases hc : p.current.bits = b'
    · have : b' ≠ b := fun x => hnd.1.1 ((hc.trans x).trans hb.symm)
      simp [hc, this]
    · simp only [hc, if_false]
      by_cases hbb : b' = b
      · subst hbb
        have : tableByBits ts b' = none := tableByBits_none (fun x => hnd.2.1 (hb ▸ x))
        simp [this]
      · have : ¬ t.bits = b' := fun x => hbb (x.symm.trans hb)
        simp [hbb, this]

/-- naming a table that is not at the front of the queue (e.g. already dropped) is a no-op -/
theorem dropTable_noop (p : PCol) (b : Nat) (h : ∀ t ts, p.older = t :: ts → t.bits ≠ b) :
    dropTable p b = p := by
  unfold dropTable
  split
  · rename_i t ts ho
    rw [if_neg (h t ts ho)]
  · rfl

theorem FrontIs.of_shape {p p' : PCol} {b : Nat} (hs : shape p' = shape p) (h : FrontIs p b) :
    FrontIs p' b := by
  obtain ⟨t, ts, ho, hb⟩ := h.front
  refine ⟨?_, hs ▸ h.nodup⟩
  simp only [shape, PCol.tables, List.map_cons, List.cons.injEq, ho] at hs
  cases ho' : p'.older with
  | nil => rw [ho'] at hs; simp at hs
  | cons t' ts' =>
    rw [ho'] at hs
    simp only [List.map_cons, List.cons.injEq] at hs
    exact ⟨t', ts', rfl, hs.2.1.trans hb⟩

theorem enact_eq_apply (q : PCol) (ws : List Write) (h : ∀ w ∈ ws, Write.Ok (shape q) w) :
    enact q ws = applyWrites q ws := by
  simp only [enact, validate_eq_self q ws (namesMissing_false q ws h)]

/-- a reindex batch record with its DROP_TABLE: writes `ws` (none into the dropped table, all into
tables the column has), then the drop of the queue front `b` -/
structure DropRec (q : PCol) (ws : List Write) (b : Nat) : Prop where
  ok : ∀ w ∈ ws, Write.Ok (shape q) w
  notInto : ∀ w ∈ ws, ¬ Loc.inTable b w.1
  front : FrontIs q b

/-- TORN IN THE APPLY PASS, replayed with the drop -/
theorem dropRec_redo_torn (q : PCol) (ws : List Write) (b : Nat) (h : DropRec q ws b) (j : Nat) :
    (∀ l, Loc.Ok l → mem (enactD (applyWrites q (ws.take j)) (ws, some b)) l =
      mem (enactD q (ws, some b)) l) ∧
    shape (enactD (applyWrites q (ws.take j)) (ws, some b)) = shape (enactD q (ws, some b)) := by
  obtain ⟨_, s1⟩ := mem_applyWrites (ws.take j) q (fun w hw => h.ok w (List.mem_of_mem_take hw))
  have hokc : ∀ w ∈ ws, Write.Ok (shape (applyWrites q (ws.take j))) w := by rw [s1.shape]; exact h.ok
  obtain ⟨_, s2⟩ := mem_applyWrites ws (applyWrites q (ws.take j)) hokc
  obtain ⟨_, s3⟩ := mem_applyWrites ws q h.ok
  have f2 : FrontIs (applyWrites (applyWrites q (ws.take j)) ws) b :=
    FrontIs.of_shape (s2.shape.trans s1.shape) h.front
  have f3 : FrontIs (applyWrites q ws) b := FrontIs.of_shape s3.shape h.front
  simp only [enactD, enact_eq_apply _ _ hokc, enact_eq_apply _ _ h.ok]
  refine ⟨fun l hl => ?_, ?_⟩
  · rw [mem_dropTable _ b f2 l, mem_dropTable _ b f3 l, col_redo_torn q ws j h.ok l hl]
  · rw [shape_dropTable _ b f2, shape_dropTable _ b f3, s2.shape, s1.shape, s3.shape]

/-- REPLAYED OVER THE STATE IN WHICH THE TABLE IS ALREADY GONE (crash after the drop, the log file
not yet removed): the writes are applied again, the drop is a no-op, nothing changes. -/
theorem dropRec_redo_gone (q : PCol) (ws : List Write) (b : Nat) (h : DropRec q ws b) :
    (∀ l, Loc.Ok l → mem (enactD (enactD q (ws, some b)) (ws, some b)) l =
      mem (enactD q (ws, some b)) l) ∧
    shape (enactD (enactD q (ws, some b)) (ws, some b)) = shape (enactD q (ws, some b)) := by
  obtain ⟨m3, s3⟩ := mem_applyWrites ws q h.ok
  have f3 : FrontIs (applyWrites q ws) b := FrontIs.of_shape s3.shape h.front
  have eF : enactD q (ws, some b) = dropTable (applyWrites q ws) b := by
    simp only [enactD, enact_eq_apply _ _ h.ok]
  rw [eF]
  have shF : shape (dropTable (applyWrites q ws) b) = (shape q).filter (fun x => x != b) := by
    rw [shape_dropTable _ b f3, s3.shape]
  have hokF : ∀ w ∈ ws, Write.Ok (shape (dropTable (applyWrites q ws) b)) w := by
    intro w hw
    rw [shF]
    have h1 := h.ok w hw
    have h2 := h.notInto w hw
    obtain ⟨wl, wi⟩ := w
    cases wl with
    | idx b' c i =>
      refine ⟨List.mem_filter.2 ⟨h1.1, ?_⟩, h1.2⟩
      simpa [Loc.inTable] using h2
    | val tier s => trivial
    | hdr tier => exact h1
  obtain ⟨m4, s4⟩ := mem_applyWrites ws _ hokF
  have hnoop : dropTable (applyWrites (dropTable (applyWrites q ws) b) ws) b =
      applyWrites (dropTable (applyWrites q ws) b) ws := by
    apply dropTable_noop
    intro t ts ho hb
    have : b ∈ shape (applyWrites (dropTable (applyWrites q ws) b) ws) := by
      simp only [shape, PCol.tables, ho, List.map_cons, List.mem_cons]
      exact Or.inr (Or.inl hb.symm)
    rw [s4.shape, shF] at this
    simpa using (List.mem_filter.1 this).2
  have e2 : enactD (dropTable (applyWrites q ws) b) (ws, some b) =
      applyWrites (dropTable (applyWrites q ws) b) ws := by
    simp only [enactD, enact_eq_apply _ _ hokF, hnoop]
  rw [e2]
  refine ⟨fun l hl => ?_, s4.shape⟩
  rw [m4 l hl]
  by_cases hw : Written ws l
  · rw [mapplys_written ws _ (mem q) l hw, ← m3 l hl, mem_dropTable _ b f3 l]
    obtain ⟨w, hwm, e⟩ := hw
    have := h.notInto w hwm
    rw [e] at this
    rw [if_neg this]
  · exact mapplys_not_written ws _ l hw

end Pdb.PhysRec
