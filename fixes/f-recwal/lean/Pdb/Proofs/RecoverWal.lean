/-
The recovery algorithm of Model/Recover.lean (`orderKeyed`, `startId`, `acceptRecs`,
`acceptFiles`, `realAccepted`) IS the byte-level replay of Model/Wal.lean (`orderFiles`,
`initialLastEnacted`, `parseRecord` = validation pass + apply pass with every panic site,
`replayFileWith`, `replaySortedWith`, `replayOpen`) restricted to log files that are encodings
of well-formed records.

Proved here (`replayOpen_eq_realAccepted`): in a `Sane` configuration `cfg` (no table file
above MAX_INDEX_BITS; needed by the codec theorem `parseRecord_encode`, i.e. by the proof that
the apply pass never reaches a panic site), for ANY list of non-empty record lists (ids
arbitrary: gaps, duplicates, wrong order inside a file, any directory order), each record well
formed in `cfg` and leaving `cfg` unchanged (`StableWF`: no reindex is triggered or finished by
the record, e.g. every record made of value inserts only), the records that `Wal.replayOpen`
applies to the ENCODED files are exactly `realAccepted` of the abstract files, the start id is
`startId` of the same replay queue, and the tables are the fold of the write function
`step : σ → EAct → σ` over the EFFECTS of the accepted records.

The effects of a stable record (`recEffects_stable`, `stableEffects`): one `EAct` per action,
in the order of the record, `⟨a, isEnacted cfg a⟩` with `cfg` the configuration at open
(every validation and every drop of a stable record leaves it as it is):
  * INSERT_VALUE: `enacted = true`;
  * INSERT_INDEX / INSERT_REF_COUNT: `enacted = true` iff the table named is the current one
    or is in the reindex queue of its column; `false` (`skip_plan`) for a table that is neither;
  * DROP_TABLE / DROP_REF_COUNT_TABLE: `enacted = false` (a stable record drops nothing: an
    enacted drop shortens a reindex queue and the apply pass never lengthens one).
`replayOpen_tables_actions`: for a write function that ignores the flags the tables are the
fold over the ACTIONS of the accepted records (the statement of the earlier version).

What remains unproved (stated precisely):
  (1) torn tails: a crash can leave, at the end of the YOUNGEST file only, a strict prefix `p`
      of an encoded record.  That `parseRecord crc cfg last p` is never `.ok` needs
      prefix-freeness of the record encoding together with the CRC assumption; given that,
      `replayFile_encodeRecords` (Proofs/C13Intact) shows that the records before the tail
      are processed exactly as here and the tail ends the replay of the last file.  (That it
      is never `.panic` / `.applyFailed` either is proved for ALL bytes: `C13_total`.)
  (2) records that change the configuration (`cfgAfter cfg r ≠ cfg`: an insert that starts a
      reindex, a drop that removes the queue front): their acceptance and their `enacted`
      flags depend on the configuration threaded through the replay;
      `C13_only_valid_consecutive` / `replaySorted_explains` (Proofs/C13Replay) cover them in
      the weaker "everything applied is a consecutive chain of well-formed records, effects =
      `chainEffects`" form, for arbitrary bytes rather than for given records.
  (3) configurations that are not `Sane` (a table file named with more than 49 index bits
      found at open): there the apply pass of the model can reach a panic site (E5) and
      `parseRecord_encode` does not hold.
  (4) the map from P1's logical after-images (`Rec K V`) to physical actions is tied by the
      correspondence runs only (for plain hash columns by the refinement R1-R4 of the table
      contents, not of the log records).
-/
import Pdb.Proofs.Recover
import Pdb.Proofs.C13Intact

namespace Pdb.Wal
open Pdb Pdb.Gen

/-- A record the validators accept in `cfg` and that leaves `cfg` as it is. -/
def StableWF (cfg : Cfg) (r : Record) : Prop := WellFormed cfg r ∧ cfgAfter cfg r = cfg

def keyed (f : List Record) : List (Nat × Record) := f.map (fun r => (r.id, r))

/-- The abstract log file of a list of records (the file number plays no role in replay). -/
def toLFile (f : List Record) : LFile Record := ⟨0, keyed f⟩

theorem keyed_snd (f : List Record) : (keyed f).map (·.2) = f := by
  simp [keyed, List.map_map, Function.comp_def]

/-! ### the effects of a stable record

`recEffects cfg r` (what the apply pass of `r` does when `r` is validated in `cfg`) evaluates
every action in the configuration the validations of the WHOLE record and the drops of the
EARLIER actions left.  For a stable record all of these are `cfg` itself:
  * a validation changes the configuration only by "Missing table, starting reindex", which
    strictly increases the index bits of a current table (`bitsM`), and nothing on the replay
    path decreases them; so `cfgAfter cfg r = cfg` forces every validation to leave `cfg`;
  * an enacted drop removes a queue entry (`queueM`) and the apply pass never adds one; so
    `cfgAfter cfg r = cfg` forces every drop of the record to be a no-op ("Dropping invalid
    index", `enacted = false`). -/

/-- One effect per action, in order, flag = `isEnacted` in the (unchanged) configuration. -/
def stableEffects (cfg : Cfg) (r : Record) : List EAct :=
  r.actions.map (fun a => ⟨a, isEnacted cfg a⟩)

def bitsM (cfg : Cfg) : Nat := (cfg.cols.map (fun cc => cc.indexBits + cc.rcBits.getD 0)).sum

def queueM (cfg : Cfg) : Nat := (cfg.cols.map (fun cc => cc.queue.length)).sum

theorem sum_map_set {α : Type} (f : α → Nat) :
    ∀ (l : List α) (c : Nat) (x y : α), l[c]? = some y →
      ((l.set c x).map f).sum + f y = (l.map f).sum + f x := by
  intro l
  induction l with
  | nil => intro c x y h; simp at h
  | cons a l ih =>
    intro c x y h
    cases c with
    | zero =>
      simp only [List.getElem?_cons_zero, Option.some.injEq] at h
      subst h
      simp only [List.set_cons_zero, List.map_cons, List.sum_cons]; omega
    | succ c =>
      simp only [List.getElem?_cons_succ] at h
      have := ih c x y h
      simp only [List.set_cons_succ, List.map_cons, List.sum_cons]; omega

theorem set_self {α : Type} : ∀ (l : List α) (c : Nat) (y : α), l[c]? = some y → l.set c y = l := by
  intro l
  induction l with
  | nil => intro c y h; simp at h
  | cons a l ih =>
    intro c y h
    cases c with
    | zero => simp only [List.getElem?_cons_zero, Option.some.injEq] at h; subst h; rfl
    | succ c =>
      simp only [List.getElem?_cons_succ] at h
      simp only [List.set_cons_succ, ih c y h]

theorem setCol_self {cfg : Cfg} {c : Nat} {cc : ColCfg} (h : cfg.cols[c]? = some cc) :
    cfg.setCol c cc = cfg := by
  simp only [Cfg.setCol, set_self _ _ _ h]

theorem VStep.bits {cfg cfg' : Cfg} (h : VStep cfg cfg') :
    bitsM cfg ≤ bitsM cfg' ∧ (bitsM cfg' ≤ bitsM cfg → cfg' = cfg) := by
  cases h with
  | refl => exact ⟨Nat.le_refl _, fun _ => rfl⟩
  | reindex c cc tb hc hle _ =>
    have hsum := sum_map_set (fun cc : ColCfg => cc.indexBits + cc.rcBits.getD 0) cfg.cols c
      (reindexCol cc tb) cc hc
    simp only [reindexCol] at hsum
    simp only [bitsM, Cfg.setCol, reindexCol]
    refine ⟨by omega, fun hle' => ?_⟩
    have e : tb = cc.indexBits := by omega
    subst e
    have e2 : ({ cc with indexBits := cc.indexBits
                         queue := cc.queue ++
                           (List.range' cc.indexBits (cc.indexBits - cc.indexBits)).map .index } :
        ColCfg) = cc := by
      cases cc; simp
    rw [e2]
    exact setCol_self hc
  | reindexRc c cc rb tb hc hrb hle _ =>
    have hsum := sum_map_set (fun cc : ColCfg => cc.indexBits + cc.rcBits.getD 0) cfg.cols c
      (reindexRcCol cc rb tb) cc hc
    simp only [reindexRcCol, hrb, Option.getD_some] at hsum
    simp only [bitsM, Cfg.setCol, reindexRcCol]
    refine ⟨by omega, fun hle' => ?_⟩
    have e : tb = rb := by omega
    subst e
    have e2 : ({ cc with rcBits := some tb
                         queue := cc.queue ++ (List.range' tb (tb - tb)).map .refCount } :
        ColCfg) = cc := by
      cases cc; simp only [] at hrb; simp [hrb]
    rw [e2]
    exact setCol_self hc

theorem validAction_vstep {cfg cfg' : Cfg} {a : Action} (hs : cfg.Sane)
    (h : validAction cfg a = some cfg') : VStep cfg cfg' := by
  cases a with
  | insertIndex t i m es =>
    simp only [validAction] at h
    split at h
    · rcases checkIndex_spec hs t i with ⟨c', _, e⟩ | ⟨c', hv, e, _⟩
      · rw [e] at h; cases h
      · rw [e] at h; cases h; exact hv
    · cases h
  | insertRefCount t i m es =>
    simp only [validAction] at h
    split at h
    · rcases checkRefCount_spec hs t i with ⟨c', _, e⟩ | ⟨c', hv, e, _⟩
      · rw [e] at h; cases h
      · rw [e] at h; cases h; exact hv
    · cases h
  | insertValue t i p =>
    simp only [validAction] at h
    split at h
    · cases h; exact .refl
    · cases h
  | dropTable t =>
    simp only [validAction] at h
    split at h
    · cases h; exact .refl
    · cases h
  | dropRefCountTable t =>
    simp only [validAction] at h
    split at h
    · cases h; exact .refl
    · cases h

theorem validActions_bits : ∀ (as : List Action) (cfg cfgV : Cfg), cfg.Sane →
    validActions cfg as = some cfgV →
    bitsM cfg ≤ bitsM cfgV ∧ (bitsM cfgV ≤ bitsM cfg → cfgV = cfg) := by
  intro as
  induction as with
  | nil =>
    intro cfg cfgV _ h
    simp only [validActions, Option.some.injEq] at h
    subst h
    exact ⟨Nat.le_refl _, fun _ => rfl⟩
  | cons a as ih =>
    intro cfg cfgV hs h
    simp only [validActions] at h
    cases ha : validAction cfg a with
    | none => rw [ha] at h; cases h
    | some c1 =>
      rw [ha] at h
      simp only [] at h
      have v := validAction_vstep hs ha
      obtain ⟨b1, b2⟩ := v.bits
      obtain ⟨i1, i2⟩ := ih c1 cfgV (v.sane hs) h
      refine ⟨by omega, fun hle => ?_⟩
      have e1 : c1 = cfg := b2 (by omega)
      rw [e1] at i2
      exact i2 (by omega)

theorem dropFront_bits (cfg : Cfg) (t : Nat) (b : Bool) : bitsM (dropFront cfg t b) = bitsM cfg := by
  unfold dropFront
  simp only []
  split
  · rfl
  · rename_i cc hc
    split
    · rfl
    · split
      · have hsum := sum_map_set (fun cc : ColCfg => cc.indexBits + cc.rcBits.getD 0) cfg.cols
          (TableId.col t) { cc with queue := cc.queue.tail } cc hc
        simp only [] at hsum
        simp only [bitsM, Cfg.setCol]
        omega
      · rfl

theorem dropFront_queue (cfg : Cfg) (t : Nat) (b : Bool) :
    (dropsTable cfg t b = false ∧ dropFront cfg t b = cfg) ∨
    (dropsTable cfg t b = true ∧ queueM (dropFront cfg t b) < queueM cfg) := by
  unfold dropFront dropsTable
  simp only []
  cases hc : cfg.cols[TableId.col t]? with
  | none => exact Or.inl ⟨rfl, rfl⟩
  | some cc =>
    simp only []
    cases hb : cc.btree with
    | true => exact Or.inl ⟨by simp, by simp⟩
    | false =>
      cases hf : frontIs cc (TableId.col t) t b with
      | false => exact Or.inl ⟨by simp, by simp⟩
      | true =>
        refine Or.inr ⟨by simp, ?_⟩
        simp only [Bool.false_eq_true, if_false, if_true]
        cases hq : cc.queue with
        | nil => simp [frontIs, hq] at hf
        | cons q qs =>
          have hsum := sum_map_set (fun cc : ColCfg => cc.queue.length) cfg.cols
            (TableId.col t) { cc with queue := cc.queue.tail } cc hc
          simp only [hq, hb, List.tail_cons, List.length_cons] at hsum
          simp only [queueM, Cfg.setCol, List.tail_cons]
          omega

theorem applyCfg_bits (cfg : Cfg) (a : Action) : bitsM (applyCfg cfg a) = bitsM cfg := by
  cases a <;> simp only [applyCfg, dropFront_bits]

theorem applyPass_bits : ∀ (as : List Action) (cfg : Cfg), bitsM (applyPass cfg as) = bitsM cfg := by
  intro as
  induction as with
  | nil => intro cfg; rfl
  | cons a as ih =>
    intro cfg
    simp only [applyPass, List.foldl_cons] at ih ⊢
    rw [ih, applyCfg_bits]

/-- One action of the apply pass: either nothing happens to the configuration (and if the
    action is a drop, it is not enacted), or a queue gets shorter. -/
theorem applyCfg_queue (cfg : Cfg) (a : Action) :
    (applyCfg cfg a = cfg ∧
      (∀ t, a = .dropTable t ∨ a = .dropRefCountTable t → isEnacted cfg a = false)) ∨
    queueM (applyCfg cfg a) < queueM cfg := by
  cases a with
  | insertIndex t i m es => exact Or.inl ⟨rfl, fun _ h => by rcases h with h | h <;> cases h⟩
  | insertValue t i p => exact Or.inl ⟨rfl, fun _ h => by rcases h with h | h <;> cases h⟩
  | insertRefCount t i m es => exact Or.inl ⟨rfl, fun _ h => by rcases h with h | h <;> cases h⟩
  | dropTable t =>
    rcases dropFront_queue cfg t true with ⟨h1, h2⟩ | ⟨_, h2⟩
    · exact Or.inl ⟨h2, fun _ _ => h1⟩
    · exact Or.inr h2
  | dropRefCountTable t =>
    rcases dropFront_queue cfg t false with ⟨h1, h2⟩ | ⟨_, h2⟩
    · exact Or.inl ⟨h2, fun _ _ => h1⟩
    · exact Or.inr h2

theorem applyPass_queue : ∀ (as : List Action) (cfg : Cfg),
    queueM (applyPass cfg as) ≤ queueM cfg ∧
    (applyPass cfg as = cfg →
      effectsOf cfg as = as.map (fun a => ⟨a, isEnacted cfg a⟩) ∧
      ∀ a ∈ as, ∀ t, a = .dropTable t ∨ a = .dropRefCountTable t → isEnacted cfg a = false) := by
  intro as
  induction as with
  | nil => intro cfg; exact ⟨Nat.le_refl _, fun _ => ⟨rfl, fun _ h => by cases h⟩⟩
  | cons a as ih =>
    intro cfg
    obtain ⟨i1, i2⟩ := ih (applyCfg cfg a)
    have e : applyPass cfg (a :: as) = applyPass (applyCfg cfg a) as := rfl
    rw [e]
    rcases applyCfg_queue cfg a with ⟨h1, h2⟩ | h
    · rw [h1] at i1 i2 ⊢
      refine ⟨i1, fun hfix => ?_⟩
      obtain ⟨j1, j2⟩ := i2 hfix
      refine ⟨by simp only [effectsOf, h1, j1, List.map_cons], ?_⟩
      intro a' ha'
      rcases List.mem_cons.mp ha' with rfl | ha'
      · exact h2
      · exact j2 a' ha'
    · refine ⟨by omega, fun hfix => ?_⟩
      rw [hfix] at i1
      omega

/-- The effects of a stable record: one per action, in order; every action is judged in `cfg`
    itself; the drops of a stable record are never enacted (an insert IS enacted unless it is
    an INSERT_INDEX / INSERT_REF_COUNT naming a table that is neither current nor queued,
    i.e. an index table older than the current one: `skip_plan`). -/
theorem recEffects_stable {cfg : Cfg} {r : Record} (hs : cfg.Sane) (h : StableWF cfg r) :
    recEffects cfg r = stableEffects cfg r ∧
    ∀ a ∈ r.actions, ∀ t, a = .dropTable t ∨ a = .dropRefCountTable t →
      isEnacted cfg a = false := by
  obtain ⟨⟨_, hv⟩, hst⟩ := h
  obtain ⟨cfgV, hv⟩ := isSome_validActions hv
  simp only [cfgAfter, hv] at hst
  obtain ⟨b1, b2⟩ := validActions_bits r.actions cfg cfgV hs hv
  have hb := applyPass_bits r.actions cfgV
  rw [hst] at hb
  have e : cfgV = cfg := b2 (by omega)
  rw [e] at hv hst
  simp only [recEffects, hv, stableEffects]
  exact (applyPass_queue r.actions cfg).2 hst

/-! ### one record with the wrong id -/

theorem parseRecord_encode_seq (crc : Bytes → Nat) (cfg : Cfg) (last : Nat) (r : Record)
    (rest : Bytes) (hlt : r.id < U64) (hid : r.id ≠ last + 1) :
    parseRecord crc cfg last (encodeRecord crc r ++ rest) = .invalid .sequence cfg := by
  unfold parseRecord validatePass
  simp only [encodeRecord, encodeBody, encodeHeader, List.append_assoc, next_begin crc hlt]
  simp [hid]

/-! ### one file -/

theorem replayFile_accept {σ : Type} (step : σ → EAct → σ) (crc : Bytes → Nat) (cfg : Cfg)
    (hs : cfg.Sane) :
    ∀ (f : List Record) (fuel last : Nat) (T : σ) (acc : List Record) (eacc : List EAct),
    (∀ r ∈ f, StableWF cfg r) → f.length + 1 ≤ fuel →
    ∃ tail stop,
      replayFileWith step crc fuel ⟨cfg, last, T⟩ (encodeRecords crc f) acc eacc =
        (⟨cfg, (acceptRecs last (keyed f)).last,
          ((acceptRecs last (keyed f)).recs.flatMap (stableEffects cfg)).foldl step T⟩,
         ⟨acc ++ (acceptRecs last (keyed f)).recs,
          eacc ++ (acceptRecs last (keyed f)).recs.flatMap (stableEffects cfg), tail, stop⟩) ∧
      stop.clears = (acceptRecs last (keyed f)).cleared ∧ stop.aborts = false := by
  intro f
  induction f with
  | nil =>
    intro fuel last T acc eacc _ hf
    obtain ⟨k, rfl⟩ : ∃ k, fuel = k + 1 := ⟨fuel - 1, by omega⟩
    refine ⟨[], .endOfLog, ?_, rfl, rfl⟩
    simp [replayFileWith_succ, encodeRecords, parseRecord_nil, keyed, acceptRecs]
  | cons r rs ih =>
    intro fuel last T acc eacc hwf hf
    obtain ⟨k, rfl⟩ : ∃ k, fuel = k + 1 := ⟨fuel - 1, by omega⟩
    simp only [List.length_cons] at hf
    have hstable := hwf r List.mem_cons_self
    obtain ⟨⟨hlt, hv⟩, hfix⟩ := hwf r List.mem_cons_self
    have hwfr : WellFormed cfg r := ⟨hlt, hv⟩
    by_cases hid : r.id = last + 1
    · obtain ⟨tail, stop, h1, h2, h3⟩ := ih k r.id ((stableEffects cfg r).foldl step T) (acc ++ [r])
        (eacc ++ stableEffects cfg r)
        (fun r' hr' => hwf r' (List.mem_cons_of_mem _ hr')) (by omega)
      refine ⟨tail, stop, ?_, ?_, h3⟩
      · rw [replayFileWith_succ]
        simp only [encodeRecords, parseRecord_encode crc hs hwfr hid, hfix,
          (recEffects_stable hs hstable).1]
        rw [h1]
        simp [keyed, acceptRecs, hid, List.foldl_append]
      · rw [h2]; simp [keyed, acceptRecs, hid]
    · refine ⟨encodeRecords crc (r :: rs), .invalid .sequence, ?_, ?_, rfl⟩
      · rw [replayFileWith_succ]
        have hlt' : r.id < U64 := by omega
        simp only [encodeRecords, parseRecord_encode_seq crc cfg last r _ hlt' hid]
        simp [keyed, acceptRecs, hid]
      · simp [keyed, acceptRecs, hid, Stop.clears, Reason.clears]

/-! ### all files -/

theorem replaySortedWith_accept {σ : Type} (step : σ → EAct → σ) (crc : Bytes → Nat)
    (cfg : Cfg) (hs : cfg.Sane) :
    ∀ (files : List (List Record)) (last : Nat) (T : σ),
    (∀ f ∈ files, ∀ r ∈ f, StableWF cfg r) →
    (replaySortedWith step crc ⟨cfg, last, T⟩ (files.map (encodeRecords crc))).2.flatMap
      (·.applied) = acceptFiles last (files.map keyed) ∧
    (replaySortedWith step crc ⟨cfg, last, T⟩ (files.map (encodeRecords crc))).1.tables =
      ((acceptFiles last (files.map keyed)).flatMap (stableEffects cfg)).foldl step T := by
  intro files
  induction files with
  | nil => intro last T _; simp [replaySortedWith, acceptFiles]
  | cons f fs ih =>
    intro last T hwf
    obtain ⟨tail, stop, h1, h2, h3⟩ := replayFile_accept step crc cfg hs f
      ((encodeRecords crc f).length + 1) last T [] [] (fun r hr => hwf f List.mem_cons_self r hr)
      (by have := length_encodeRecords_ge crc f; omega)
    have ih' := ih (acceptRecs last (keyed f)).last
      (((acceptRecs last (keyed f)).recs.flatMap (stableEffects cfg)).foldl step T)
      (fun g hg => hwf g (List.mem_cons_of_mem _ hg))
    simp only [List.map_cons, replaySortedWith, h1, List.nil_append, h2, h3, Bool.or_false,
      acceptFiles]
    by_cases hc : (acceptRecs last (keyed f)).cleared = true
    · simp [hc]
    · have hc' : (acceptRecs last (keyed f)).cleared = false := by simpa using hc
      simp only [hc', Bool.false_eq_true, if_false]
      generalize hout : replaySortedWith step crc
        ⟨cfg, (acceptRecs last (keyed f)).last,
          ((acceptRecs last (keyed f)).recs.flatMap (stableEffects cfg)).foldl step T⟩
        (fs.map (encodeRecords crc)) = out at ih'
      obtain ⟨st2, reps⟩ := out
      simp only at ih' ⊢
      simp [ih'.1, ih'.2, List.foldl_append]

/-! ### the replay queue -/

theorem firstId_encodeRecords (crc : Bytes → Nat) (r : Record) (rs : List Record)
    (hlt : r.id < U64) : firstId (encodeRecords crc (r :: rs)) = some r.id := by
  have hlen := length_encodeRecord crc r
  have e : encodeRecords crc (r :: rs) =
      leBytes 1 BEGIN_RECORD ++ (leBytes 8 r.id ++
        (encodeActions r.actions ++ leBytes 1 END_RECORD ++ leBytes 4 (crc (encodeBody r)) ++
          encodeRecords crc rs)) := by
    simp [encodeRecords, encodeRecord, encodeBody, encodeHeader]
  have h9 : ¬ (encodeRecords crc (r :: rs)).length < 9 := by
    simp only [encodeRecords, List.length_append, hlen]; omega
  unfold firstId
  rw [if_neg h9, e]
  have d1 : (leBytes 1 BEGIN_RECORD ++ (leBytes 8 r.id ++
        (encodeActions r.actions ++ leBytes 1 END_RECORD ++ leBytes 4 (crc (encodeBody r)) ++
          encodeRecords crc rs))).drop 1 = leBytes 8 r.id ++
        (encodeActions r.actions ++ leBytes 1 END_RECORD ++ leBytes 4 (crc (encodeBody r)) ++
          encodeRecords crc rs) := by
    rw [List.drop_append_of_le_length (by simp)]
    simp [List.drop_of_length_le]
  rw [d1, List.take_append_of_le_length (by simp), List.take_of_length_le (by simp)]
  rw [leVal_leBytes_of_lt (by simpa [U64] using hlt)]

theorem insertFile_map {α : Type} (e : α → Bytes) (k : Nat) (x : α) (l : List (Nat × α)) :
    insertFile k (e x) (l.map (fun p => (p.1, e p.2))) =
      (insertKeyed k x l).map (fun p => (p.1, e p.2)) := by
  induction l with
  | nil => rfl
  | cons y ys ih =>
    obtain ⟨k', y'⟩ := y
    by_cases h : k ≤ k'
    · simp [insertFile, insertKeyed, h]
    · simp only [List.map_cons, insertFile, insertKeyed, h, if_false, ih]

theorem toLFile_firstId (r : Record) (rs : List Record) : (toLFile (r :: rs)).firstId = some r.id := by
  simp [toLFile, keyed, LFile.firstId]

theorem orderFilesKeyed_encode (crc : Bytes → Nat) (files : List (List Record))
    (hne : ∀ f ∈ files, f ≠ []) (hlt : ∀ f ∈ files, ∀ r ∈ f, r.id < U64) :
    orderFilesKeyed (files.map (encodeRecords crc)) =
      (orderKeyed LFile.firstId (files.map toLFile)).map
        (fun p => (p.1, encodeRecords crc (p.2.recs.map (·.2)))) := by
  induction files with
  | nil => rfl
  | cons f fs ih =>
    cases f with
    | nil => exact absurd rfl (hne [] List.mem_cons_self)
    | cons r rs =>
      have ih' := ih (fun g hg => hne g (List.mem_cons_of_mem _ hg))
        (fun g hg => hlt g (List.mem_cons_of_mem _ hg))
      have hk := firstId_encodeRecords crc r rs (hlt _ List.mem_cons_self r List.mem_cons_self)
      have e : encodeRecords crc (r :: rs) =
          (fun lf : LFile Record => encodeRecords crc (lf.recs.map (·.2))) (toLFile (r :: rs)) := by
        simp only [toLFile, keyed_snd]
      simp only [List.map_cons, orderFilesKeyed, hk, ih']
      rw [orderKeyed_cons_some LFile.firstId _ _ r.id (toLFile_firstId r rs), e]
      exact insertFile_map (fun lf : LFile Record => encodeRecords crc (lf.recs.map (·.2))) r.id
        (toLFile (r :: rs)) _

theorem mem_insertKeyed {α : Type} {k : Nat} {x : α} {l : List (Nat × α)} {p : Nat × α}
    (h : p ∈ insertKeyed k x l) : p = (k, x) ∨ p ∈ l := by
  induction l with
  | nil => simp [insertKeyed] at h; exact Or.inl h
  | cons y ys ih =>
    obtain ⟨k', y'⟩ := y
    by_cases hk : k ≤ k'
    · simp only [insertKeyed, hk, if_true, List.mem_cons] at h
      rcases h with h | h | h
      · exact Or.inl h
      · exact Or.inr (by simp [h])
      · exact Or.inr (List.mem_cons_of_mem _ h)
    · simp only [insertKeyed, hk, if_false, List.mem_cons] at h
      rcases h with h | h
      · exact Or.inr (by simp [h])
      · rcases ih h with h | h
        · exact Or.inl h
        · exact Or.inr (List.mem_cons_of_mem _ h)

theorem mem_orderKeyed {α : Type} (key : α → Option Nat) {l : List α} {p : Nat × α}
    (h : p ∈ orderKeyed key l) : p.2 ∈ l ∧ key p.2 = some p.1 := by
  induction l with
  | nil => simp [orderKeyed] at h
  | cons f fs ih =>
    cases hk : key f with
    | none =>
      rw [orderKeyed_cons_none key f fs hk] at h
      exact ⟨List.mem_cons_of_mem _ (ih h).1, (ih h).2⟩
    | some k =>
      rw [orderKeyed_cons_some key f fs k hk] at h
      rcases mem_insertKeyed h with rfl | h
      · exact ⟨List.mem_cons_self, hk⟩
      · exact ⟨List.mem_cons_of_mem _ (ih h).1, (ih h).2⟩

/-! ### `Db::open` -/

/-- The id logic of Model/Recover.lean is the byte-level replay of Model/Wal.lean on encoded
    well-formed records: same replay order, same start id, same accepted records; the tables
    are the fold of the write function over the EFFECTS of the accepted records: one effect per
    action, in order, flagged `isEnacted cfg` (`stableEffects`, see `recEffects_stable`). -/
theorem replayOpen_eq_realAccepted (crc : Bytes → Nat) (cfg : Cfg) (hs : cfg.Sane)
    (files : List (List Record))
    (hne : ∀ f ∈ files, f ≠ []) (hwf : ∀ f ∈ files, ∀ r ∈ f, StableWF cfg r) :
    (replayOpen crc cfg (files.map (encodeRecords crc))).applied =
      realAccepted (files.map toLFile) ∧
    initialLastEnacted (files.map (encodeRecords crc)) =
      startId (replayOrder LFile.firstId (files.map toLFile)) ∧
    ∀ (σ : Type) (step : σ → EAct → σ) (T : σ),
      (replaySortedWith step crc
        ⟨cfg, initialLastEnacted (files.map (encodeRecords crc)), T⟩
        (orderFiles (files.map (encodeRecords crc)))).1.tables =
      ((realAccepted (files.map toLFile)).flatMap (stableEffects cfg)).foldl step T := by
  have hlt : ∀ f ∈ files, ∀ r ∈ f, r.id < U64 := by
    intro f hf r hr
    have := (hwf f hf r hr).1.1
    omega
  have hord := orderFilesKeyed_encode crc files hne hlt
  -- every queued abstract file is one of the given ones
  have hq : ∀ p ∈ orderKeyed LFile.firstId (files.map toLFile),
      ∃ f ∈ files, p.2 = toLFile f ∧ p.2.firstId = some p.1 := by
    intro p hp
    obtain ⟨h1, h2⟩ := mem_orderKeyed LFile.firstId hp
    obtain ⟨f, hf, hpf⟩ := List.mem_map.mp h1
    exact ⟨f, hf, hpf.symm, h2⟩
  have hstart : initialLastEnacted (files.map (encodeRecords crc)) =
      startId (replayOrder LFile.firstId (files.map toLFile)) := by
    unfold initialLastEnacted startId replayOrder
    rw [hord]
    cases ho : orderKeyed LFile.firstId (files.map toLFile) with
    | nil => rfl
    | cons p ps =>
      obtain ⟨f, _, _, hk⟩ := hq p (by rw [ho]; exact List.mem_cons_self)
      simp [hk]
  have hfiles : orderFiles (files.map (encodeRecords crc)) =
      ((replayOrder LFile.firstId (files.map toLFile)).map (fun lf => lf.recs.map (·.2))).map
        (encodeRecords crc) := by
    unfold orderFiles replayOrder
    rw [hord]; simp [List.map_map, Function.comp_def]
  have hkeyed : ((replayOrder LFile.firstId (files.map toLFile)).map
      (fun lf => lf.recs.map (·.2))).map keyed =
      (replayOrder LFile.firstId (files.map toLFile)).map (·.recs) := by
    unfold replayOrder
    simp only [List.map_map]
    apply List.map_congr_left
    intro p hp
    obtain ⟨f, _, hpf, _⟩ := hq p hp
    simp only [Function.comp_def, hpf, toLFile, keyed_snd]
  have hwf' : ∀ g ∈ (replayOrder LFile.firstId (files.map toLFile)).map
      (fun lf => lf.recs.map (·.2)), ∀ r ∈ g, StableWF cfg r := by
    intro g hg r hr
    unfold replayOrder at hg
    rw [List.map_map] at hg
    obtain ⟨p, hp, rfl⟩ := List.mem_map.mp hg
    obtain ⟨f, hf, hpf, _⟩ := hq p hp
    simp only [Function.comp_def, hpf, toLFile, keyed_snd] at hr
    exact hwf f hf r hr
  have hacc : acceptFiles (startId (replayOrder LFile.firstId (files.map toLFile)))
      ((replayOrder LFile.firstId (files.map toLFile)).map (·.recs)) =
      realAccepted (files.map toLFile) := rfl
  have key : ∀ (σ : Type) (step : σ → EAct → σ) (T : σ),
      (replaySortedWith step crc ⟨cfg, initialLastEnacted (files.map (encodeRecords crc)), T⟩
        (orderFiles (files.map (encodeRecords crc)))).2.flatMap (·.applied) =
        realAccepted (files.map toLFile) ∧
      (replaySortedWith step crc ⟨cfg, initialLastEnacted (files.map (encodeRecords crc)), T⟩
        (orderFiles (files.map (encodeRecords crc)))).1.tables =
        ((realAccepted (files.map toLFile)).flatMap (stableEffects cfg)).foldl step T := by
    intro σ step T
    have h := replaySortedWith_accept step crc cfg hs _
      (initialLastEnacted (files.map (encodeRecords crc))) T hwf'
    rw [← hfiles, hkeyed, hstart, hacc] at h
    rw [hstart]
    exact h
  refine ⟨?_, hstart, fun σ step T => (key σ step T).2⟩
  have := (key Unit (fun _ _ => ()) ()).1
  unfold replayOpen replay replaySorted ReplayResult.applied
  generalize hout : replaySortedWith (σ := Unit) (fun _ _ => ()) crc
    ⟨cfg, initialLastEnacted (files.map (encodeRecords crc)), ()⟩
    (orderFiles (files.map (encodeRecords crc))) = out at this
  obtain ⟨st, reps⟩ := out
  exact this

/-- The same for a write function that does not look at the `enacted` flags (the abstract
    tables `stepTablesE` of Proofs/C13Tables are of this kind): the tables are the fold over
    the ACTIONS of the accepted records, as stated before the apply pass was modelled. -/
theorem replayOpen_tables_actions (crc : Bytes → Nat) (cfg : Cfg) (hs : cfg.Sane)
    (files : List (List Record))
    (hne : ∀ f ∈ files, f ≠ []) (hwf : ∀ f ∈ files, ∀ r ∈ f, StableWF cfg r)
    (σ : Type) (stepA : σ → Action → σ) (T : σ) :
    (replaySortedWith (fun T e => stepA T e.action) crc
      ⟨cfg, initialLastEnacted (files.map (encodeRecords crc)), T⟩
      (orderFiles (files.map (encodeRecords crc)))).1.tables =
    ((realAccepted (files.map toLFile)).flatMap (·.actions)).foldl stepA T := by
  rw [(replayOpen_eq_realAccepted crc cfg hs files hne hwf).2.2 σ _ T]
  have hfold : ∀ (es : List EAct) (T : σ),
      es.foldl (fun T e => stepA T e.action) T = (es.map (·.action)).foldl stepA T := by
    intro es T; rw [List.foldl_map]
  rw [hfold]
  congr 1
  generalize realAccepted (files.map toLFile) = rs
  induction rs with
  | nil => rfl
  | cons r rs ih =>
    simp only [List.flatMap_cons, List.map_append, ih]
    simp [stableEffects, List.map_map, Function.comp_def]

end Pdb.Wal
