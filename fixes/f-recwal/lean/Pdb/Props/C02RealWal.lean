/-
C02 / C13 link: the id logic of the real-recovery function of Props/C02Real.lean is the byte-level
replay of Model/Wal.lean (validation pass + apply pass, literal panic-site model) on encoded
well-formed records (moved here from Props/C02Real.lean).
-/
import Pdb.Proofs.RecoverInv
import Pdb.Proofs.RecoverWal
import Pdb.Props.C13

namespace Pdb

/-! ### (iii) the id logic is the WAL replay of C13 -/

open Wal in
/-- In a sane configuration (no table file above MAX_INDEX_BITS: the hypothesis of the codec
    theorem `C13_parse_encode`), for any list of non-empty record lists (ids arbitrary), every
    record well formed in `cfg` and leaving `cfg` unchanged: the records `Wal.replayOpen`
    applies to the ENCODED files are exactly `realAccepted` of the abstract files, the start id
    is `startId` of the same replay queue, and the tables are the fold of the write function
    over the EFFECTS of the accepted records: one effect per action, in the order of the
    record, flagged `isEnacted cfg` (see `C02_real_wal_effects`).  (What remains unproved -
    torn tails, configuration-changing records, configurations that are not sane, the map from
    logical to physical records - is listed in Proofs/RecoverWal.lean.) -/
theorem C02_real_is_wal_replay (crc : Wal.Bytes → Nat) (cfg : Wal.Cfg) (hs : cfg.Sane)
    (files : List (List Wal.Record))
    (hne : ∀ f ∈ files, f ≠ []) (hwf : ∀ f ∈ files, ∀ r ∈ f, Wal.StableWF cfg r) :
    (Wal.replayOpen crc cfg (files.map (Wal.encodeRecords crc))).applied =
      realAccepted (files.map Wal.toLFile) ∧
    Wal.initialLastEnacted (files.map (Wal.encodeRecords crc)) =
      startId (replayOrder LFile.firstId (files.map Wal.toLFile)) ∧
    ∀ (σ : Type) (step : σ → Wal.EAct → σ) (T : σ),
      (Wal.replaySortedWith step crc
        ⟨cfg, Wal.initialLastEnacted (files.map (Wal.encodeRecords crc)), T⟩
        (Wal.orderFiles (files.map (Wal.encodeRecords crc)))).1.tables =
      ((realAccepted (files.map Wal.toLFile)).flatMap
        (fun r => r.actions.map (fun a => (⟨a, Wal.isEnacted cfg a⟩ : Wal.EAct)))).foldl step T :=
  Wal.replayOpen_eq_realAccepted crc cfg hs files hne hwf

open Wal in
/-- The effects of a stable record, i.e. what the apply pass of the model (`parseRecord`,
    `enactPass_of_validatePass`) does with it: one effect per action, in order, each judged in
    `cfg` itself.  INSERT_VALUE is always enacted; INSERT_INDEX / INSERT_REF_COUNT is enacted
    iff the table it names is current or queued (otherwise `skip_plan`); the drops of a stable
    record are never enacted. -/
theorem C02_real_wal_effects (cfg : Wal.Cfg) (hs : cfg.Sane) (r : Wal.Record)
    (h : Wal.StableWF cfg r) :
    Wal.recEffects cfg r = r.actions.map (fun a => (⟨a, Wal.isEnacted cfg a⟩ : Wal.EAct)) ∧
    (∀ t i p, Wal.isEnacted cfg (.insertValue t i p) = true) ∧
    (∀ t, .dropTable t ∈ r.actions → Wal.isEnacted cfg (.dropTable t) = false) ∧
    (∀ t, .dropRefCountTable t ∈ r.actions → Wal.isEnacted cfg (.dropRefCountTable t) = false) :=
  ⟨(Wal.recEffects_stable hs h).1, fun _ _ _ => rfl,
    fun t ht => (Wal.recEffects_stable hs h).2 _ ht t (Or.inl rfl),
    fun t ht => (Wal.recEffects_stable hs h).2 _ ht t (Or.inr rfl)⟩

open Wal in
/-- For a write function that does not look at the `enacted` flags: the tables are the fold
    over the ACTIONS of the accepted records (the third conclusion as it was stated against the
    earlier Wal model, whose `step` took actions). -/
theorem C02_real_is_wal_replay_actions (crc : Wal.Bytes → Nat) (cfg : Wal.Cfg) (hs : cfg.Sane)
    (files : List (List Wal.Record))
    (hne : ∀ f ∈ files, f ≠ []) (hwf : ∀ f ∈ files, ∀ r ∈ f, Wal.StableWF cfg r)
    (σ : Type) (stepA : σ → Wal.Action → σ) (T : σ) :
    (Wal.replaySortedWith (fun T e => stepA T e.action) crc
      ⟨cfg, Wal.initialLastEnacted (files.map (Wal.encodeRecords crc)), T⟩
      (Wal.orderFiles (files.map (Wal.encodeRecords crc)))).1.tables =
    ((realAccepted (files.map Wal.toLFile)).flatMap (·.actions)).foldl stepA T :=
  Wal.replayOpen_tables_actions crc cfg hs files hne hwf σ stepA T

section Example
open Wal

example : exCfg.Sane := by decide
example : StableWF exCfg exR1 ∧ StableWF exCfg exR2 ∧ StableWF exCfg exR3 := by
  refine ⟨⟨by decide +kernel, by decide +kernel⟩, ⟨by decide +kernel, by decide +kernel⟩,
    ⟨by decide +kernel, by decide +kernel⟩⟩
example : realAccepted ([[exR3], [exR1, exR2]].map toLFile) = [exR1, exR2, exR3] ∧
    realAccepted ([[exR3], [exR1]].map toLFile) = [exR1] ∧
    (replayOpen crcSum exCfg ([[exR3], [exR1, exR2]].map (encodeRecords crcSum))).applied =
      [exR1, exR2, exR3] ∧
    (replayOpen crcSum exCfg ([[exR3], [exR1, exR2]].map (encodeRecords crcSum))).effects =
      (exR1.actions ++ exR2.actions ++ exR3.actions).map (fun a => ⟨a, true⟩) := by
  refine ⟨by decide +kernel, by decide +kernel, by decide +kernel, by decide +kernel⟩

/-- A stable record with all kinds of flags: an index insert into the current table (17 bits,
    enacted), one into a table older than the current one (16 bits: skipped), a value insert,
    and a drop of a table that is not at the front of the reindex queue (not enacted). -/
def exStableCfg : Cfg := ⟨false, [⟨false, 17, none, []⟩]⟩
def exStable : Record :=
  ⟨1, [.insertIndex 17 0 1 [1, 2, 3, 4, 5, 6, 7, 8], .insertIndex 16 0 0 [],
       .insertValue 4 1 (exEntry 0xAA), .dropTable 16]⟩

example : exStableCfg.Sane ∧ StableWF exStableCfg exStable := by
  refine ⟨by decide, by decide +kernel, by decide +kernel⟩
example : (replayOpen crcSum exStableCfg [encodeRecords crcSum [exStable]]).applied = [exStable] ∧
    (replayOpen crcSum exStableCfg [encodeRecords crcSum [exStable]]).effects.map (·.enacted) =
      [true, false, true, false] ∧
    exStable.actions.map (isEnacted exStableCfg) = [true, false, true, false] := by
  refine ⟨by decide +kernel, by decide +kernel, by decide +kernel⟩
end Example

end Pdb

#print axioms Pdb.C02_real_is_wal_replay
#print axioms Pdb.C02_real_wal_effects
#print axioms Pdb.C02_real_is_wal_replay_actions
