/-
C12: accepted journals keep the invariant; power-loss images of invariant states recover to a
prefix (the core of `C12_discipline_suffices`).
-/
import Pdb.Proofs.C12Log

set_option linter.unusedSectionVars false
set_option linter.unusedSimpArgs false
set_option linter.unusedVariables false
namespace Pdb
namespace Dur
variable {V : Type}

/-! ### every allowed event preserves the invariant -/

theorem Inv.dropLog {t0 : Tbl Loc V} {s : St V} (h : Inv t0 s) (f : Nat)
    (hc : checkDrop s f = none) : Inv t0 (dropLog s f) := by
  unfold checkDrop at hc
  unfold Dur.dropLog
  cases hfl : findLog s.logs f with
  | none => simp only; exact h
  | some lf =>
    rw [hfl] at hc
    simp only at hc ⊢
    obtain ⟨hlf, hf⟩ := findLog_some hfl
    obtain ⟨first, g1, g2, g3, g4, g5, g6, g7⟩ := h.log.block lf hlf
    obtain ⟨x, xs, hx⟩ := List.exists_cons_of_length_pos g2
    have hlen : lf.recs.length = xs.length + 1 := by rw [hx]; rfl
    rw [hx] at hc
    simp only [List.length_cons] at hc
    by_cases c1 : x.1 ≠ s.cleaned + 1
    · simp [c1] at hc
    · simp only [c1, if_false] at hc
      have c1' : x.1 = s.cleaned + 1 := by omega
      by_cases c2 : s.done < s.cleaned + (xs.length + 1)
      · simp [c2] at hc
      · simp only [c2, if_false] at hc
        by_cases c3 : s.dirty.any (fun d => decide (d.2 ≤ s.cleaned + (xs.length + 1))) = true
        · simp [c3] at hc
        · have c3' : ∀ d ∈ s.dirty, s.cleaned + lf.recs.length < d.2 := by
            intro d hd
            rw [hlen]
            have : ¬ d.2 ≤ s.cleaned + (xs.length + 1) := by
              intro hle
              exact c3 (List.any_eq_true.mpr ⟨d, hd, by simpa using hle⟩)
            omega
          exact ⟨h.ctl.clean (s.cleaned + lf.recs.length) (by omega),
            h.tbl.clean (s.cleaned + lf.recs.length) c3', h.log.drop f lf hlf hf x xs hx c1'⟩

theorem Inv.step [DecidableEq V] {t0 : Tbl Loc V} {s : St V} (h : Inv t0 s) (e : Ev V)
    (hc : check s e = none) : Inv t0 (step s e) := by
  cases e with
  | logAppend r f ws =>
    simp only [check] at hc
    by_cases c1 : r ≠ s.recs.length + 1
    · simp [c1] at hc
    · have c1' : r = s.recs.length + 1 := by omega
      subst c1'
      simp only [ne_eq, not_true_eq_false, if_false] at hc
      have hok : s.cur = some f ∨ (s.synced = s.recs.length ∧
          s.logs.any (fun lf => lf.file = f) = false) := by
        by_cases c2 : s.cur = some f
        · exact Or.inl c2
        · simp only [c2, if_false] at hc
          by_cases c3 : s.synced < s.recs.length
          · simp [c3] at hc
          · simp only [c3, if_false] at hc
            right
            refine ⟨by have := h.ctl.sn; omega, ?_⟩
            cases hh : s.logs.any (fun lf => decide (lf.file = f)) with
            | true => simp [hh] at hc
            | false => rfl
      have hcn : s.cleaned ≤ s.recs.length := Nat.le_trans h.ctl.cd h.ctl.done_le
      exact ⟨h.ctl.logAppend ws, h.tbl.logAppend h.ctl ws,
        h.log.logAppend hcn h.ctl.sn f ws hok⟩
  | logSync f =>
    exact ⟨h.ctl.logSync _, h.tbl, h.log.logSync f⟩
  | tableWrite r loc val =>
    simp only [check] at hc
    by_cases c1 : r ≠ s.done + 1
    · simp [c1] at hc
    · have c1' : r = s.done + 1 := by omega
      subst c1'
      simp only [ne_eq, not_true_eq_false, if_false] at hc
      by_cases c2 : s.synced < s.done + 1
      · simp [c2] at hc
      · simp only [c2, if_false] at hc
        by_cases c3 : (recOf s.recs (s.done + 1))[s.wr]? = some (loc, val)
        · exact ⟨h.ctl.tableWrite (by omega) (loc, val) c3, h.tbl.tableWrite h.ctl loc val c3, h.log⟩
        · simp [c3] at hc
  | enactEnd r =>
    simp only [check] at hc
    by_cases c1 : r ≠ s.done + 1
    · simp [c1] at hc
    · have c1' : r = s.done + 1 := by omega
      subst c1'
      simp only [ne_eq, not_true_eq_false, if_false] at hc
      by_cases c2 : s.synced < s.done + 1
      · simp [c2] at hc
      · simp only [c2, if_false] at hc
        by_cases c3 : s.wr = (recOf s.recs (s.done + 1)).length
        · have := h.ctl.sn
          exact ⟨h.ctl.enactEnd (by omega), h.tbl.enactEnd c3 (by omega), h.log⟩
        · simp [c3] at hc
  | tableSync t => exact ⟨h.ctl, h.tbl.tableSync t, h.log⟩
  | tableDelete r t val =>
    simp only [check] at hc
    by_cases c1 : r ≠ s.done + 1
    · simp [c1] at hc
    · have c1' : r = s.done + 1 := by omega
      subst c1'
      simp only [ne_eq, not_true_eq_false, if_false] at hc
      by_cases c2 : s.synced < s.done + 1
      · simp [c2] at hc
      · simp only [c2, if_false] at hc
        by_cases c3 : (recOf s.recs (s.done + 1))[s.wr]? = some (dropLoc t, val)
        · exact ⟨h.ctl.tableWrite (by omega) (dropLoc t, val) c3,
            h.tbl.tableDelete h.ctl t val c3, h.log⟩
        · simp [c3] at hc
  | logTruncate f => exact h.dropLog f hc
  | logDelete f => exact h.dropLog f hc
  | logReuse f => exact h.dropLog f hc

theorem Inv.stateFrom [DecidableEq V] {t0 : Tbl Loc V} (j : Journal V) (s : St V) (h : Inv t0 s)
    (ha : acceptsFrom s j = true) : Inv t0 (Dur.stateFrom s j) := by
  induction j generalizing s with
  | nil => exact h
  | cons e es ih =>
    simp only [acceptsFrom, Bool.and_eq_true, Option.isNone_iff_eq_none] at ha
    exact ih (Dur.step s e) (h.step e ha.1) ha.2

theorem acceptsFrom_append [DecidableEq V] (s : St V) (j1 j2 : Journal V) :
    acceptsFrom s (j1 ++ j2) = (acceptsFrom s j1 && acceptsFrom (stateFrom s j1) j2) := by
  induction j1 generalizing s with
  | nil => simp [acceptsFrom, stateFrom]
  | cons e es ih =>
    simp only [List.cons_append, acceptsFrom, ih, stateFrom, List.foldl_cons, Bool.and_assoc]

theorem stateFrom_append (s : St V) (j1 j2 : Journal V) :
    stateFrom s (j1 ++ j2) = stateFrom (stateFrom s j1) j2 := by
  simp [stateFrom, List.foldl_append]

end Dur
end Pdb
