/-
C12: the acceptor does not look at table contents: acceptance and all ghost counters are the
same whatever the initial tables are.  Prefixes of accepted journals are accepted.
-/
import Pdb.Proofs.C12Recover

set_option linter.unusedSectionVars false
set_option linter.unusedSimpArgs false
set_option linter.unusedVariables false
namespace Pdb
namespace Dur
variable {V : Type}

/-- Equal except for the table contents. -/
structure Same (a b : St V) : Prop where
  logs : a.logs = b.logs
  recs : a.recs = b.recs
  cur : a.cur = b.cur
  synced : a.synced = b.synced
  cleaned : a.cleaned = b.cleaned
  done : a.done = b.done
  wr : a.wr = b.wr
  dirty : a.dirty = b.dirty
  hz : a.hz = b.hz

theorem Same.init (t0 t1 : Tbl Loc V) : Same (St.init t0) (St.init t1) := by
  constructor <;> rfl

theorem Same.check [DecidableEq V] {a b : St V} (h : Same a b) (e : Ev V) :
    check a e = check b e := by
  cases e <;>
    simp only [Dur.check, checkDrop, h.logs, h.recs, h.cur, h.synced, h.cleaned, h.done, h.wr, h.dirty, h.hz]

theorem Same.dropLog {a b : St V} (h : Same a b) (f : Nat) : Same (dropLog a f) (dropLog b f) := by
  unfold Dur.dropLog
  rw [h.logs]
  cases findLog b.logs f with
  | none => exact h
  | some lf =>
    constructor <;> simp only [h.logs, h.recs, h.cur, h.synced, h.cleaned, h.done, h.wr, h.dirty, h.hz]

theorem Same.step {a b : St V} (h : Same a b) (e : Ev V) : Same (step a e) (step b e) := by
  cases e with
  | logTruncate f => exact h.dropLog f
  | logDelete f => exact h.dropLog f
  | logReuse f => exact h.dropLog f
  | _ =>
    constructor <;>
      simp only [Dur.step, h.logs, h.recs, h.cur, h.synced, h.cleaned, h.done, h.wr, h.dirty, h.hz]

theorem Same.acceptsFrom [DecidableEq V] {a b : St V} (h : Same a b) (j : Journal V) :
    acceptsFrom a j = acceptsFrom b j := by
  induction j generalizing a b with
  | nil => rfl
  | cons e es ih =>
    simp only [Dur.acceptsFrom, h.check e, ih (h.step e)]

theorem Same.stateFrom {a b : St V} (h : Same a b) (j : Journal V) :
    Same (stateFrom a j) (stateFrom b j) := by
  induction j generalizing a b with
  | nil => exact h
  | cons e es ih => exact ih (h.step e)

theorem accepts_init [DecidableEq V] (t0 : Tbl Loc V) (j : Journal V) :
    acceptsFrom (St.init t0) j = accepts j :=
  (Same.init t0 _).acceptsFrom j

theorem accepts_prefix [DecidableEq V] (j pre : Journal V) (hp : pre <+: j)
    (h : accepts j = true) : accepts pre = true := by
  obtain ⟨t, rfl⟩ := hp
  unfold accepts at h ⊢
  rw [acceptsFrom_append] at h
  simp only [Bool.and_eq_true] at h
  exact h.1

theorem Inv.stateOf [DecidableEq V] (t0 : Tbl Loc V) (j : Journal V) (h : accepts j = true) :
    Inv t0 (stateOf t0 j) :=
  Inv.stateFrom j _ (Inv.init t0) (by rw [accepts_init]; exact h)

theorem syncedRecords_eq (t0 : Tbl Loc V) (j : Journal V) :
    (stateOf t0 j).synced = syncedRecords j :=
  ((Same.init t0 _).stateFrom j).synced

theorem appendedRecords_eq (t0 : Tbl Loc V) (j : Journal V) :
    (stateOf t0 j).recs.length = appendedRecords j := by
  unfold appendedRecords stateOf
  rw [((Same.init t0 (fun _ => none)).stateFrom j).recs]

end Dur
end Pdb
