/-
C12: recovery from a power-loss image of an invariant state yields the tables after records
1..keep, where keep lies between the number of synced and the number of appended records.
-/
import Pdb.Proofs.C12Main

set_option linter.unusedSectionVars false
set_option linter.unusedSimpArgs false
set_option linter.unusedVariables false
namespace Pdb
namespace Dur
variable {V : Type}

/-! ### which records survive in the log files of the image -/

theorem IsBlock.take {recs : List (Rec Loc V)} {l : List (Nat × Rec Loc V)} {first : Nat}
    (h : IsBlock recs l first) (k : Nat) : IsBlock recs (l.take k) first := by
  intro i hi
  rw [List.length_take] at hi
  rw [List.getElem?_take]
  have : i < k := by omega
  simp only [this, if_true]
  exact h i (by omega)

/-- Characterisation of the surviving records: exactly the ids in (cleaned, keep]. -/
theorem survivors_spec {t0 : Tbl Loc V} {s : St V} (h : Inv t0 s) (c : Choice) :
    ∃ keep, s.synced ≤ keep ∧ keep ≤ s.recs.length ∧ s.cleaned ≤ keep ∧
      ∀ id ws, (id, ws) ∈ survivors s c ↔
        (s.cleaned < id ∧ id ≤ keep ∧ ws = recOf s.recs id) := by
  have hcn : s.cleaned ≤ s.recs.length := Nat.le_trans h.ctl.cd h.ctl.done_le
  have hsn := h.ctl.sn
  -- membership in the image of one file
  have hmem : ∀ lf ∈ s.logs, ∀ first, IsBlock s.recs lf.recs first → ∀ id ws,
      (id, ws) ∈ imgLog c lf ↔ (first ≤ id ∧
        id < first + min (lf.nsynced + c.extra lf.file) lf.recs.length ∧ ws = recOf s.recs id) := by
    intro lf _ first hb id ws
    unfold imgLog
    rw [(hb.take _).mem id ws, List.length_take]
  unfold survivors
  by_cases hex : ∃ lfc ∈ s.logs, some lfc.file = s.cur
  · obtain ⟨lfc, hlfc, hcur⟩ := hex
    obtain ⟨fc, c1, c2, c3, c4, c5, c6, c7⟩ := h.log.block lfc hlfc
    obtain ⟨c61, c62⟩ := c6 hcur
    let m := min (lfc.nsynced + c.extra lfc.file) lfc.recs.length
    have hm1 : lfc.nsynced ≤ m := by simp only [m]; omega
    have hm2 : m ≤ lfc.recs.length := by simp only [m]; omega
    refine ⟨fc + m - 1, by omega, by omega, by omega, ?_⟩
    intro id ws
    rw [List.mem_flatMap]
    constructor
    · rintro ⟨lf, hlf, hin⟩
      by_cases e : some lf.file = s.cur
      · have : lf = lfc := eq_of_file_eq h.log.nodup hlf hlfc (by
          have := e.trans hcur.symm; exact Option.some.inj this)
        subst this
        have := (hmem lf hlf fc c4 id ws).mp hin
        exact ⟨by omega, by simp only [m] at *; omega, this.2.2⟩
      · obtain ⟨f1, d1, d2, d3, d4, d5, d6, d7⟩ := h.log.block lf hlf
        have hin' := (hmem lf hlf f1 d4 id ws).mp hin
        refine ⟨by omega, ?_, hin'.2.2⟩
        -- id cannot lie in the current file's block
        by_cases hge : fc ≤ id
        · exfalso
          have m1 : (id, recOf s.recs id) ∈ lfc.recs :=
            (c4.mem id _).mpr ⟨hge, by omega, rfl⟩
          have m2 : (id, ws) ∈ lf.recs :=
            (d4.mem id ws).mpr ⟨hin'.1, by omega, hin'.2.2⟩
          have := h.log.disj lfc hlfc lf hlf id _ _ m1 m2
          rw [← this] at e
          exact e hcur
        · omega
    · rintro ⟨h1, h2, h3⟩
      obtain ⟨lf, hlf, w, hw⟩ := h.log.cover id h1 (by omega)
      refine ⟨lf, hlf, ?_⟩
      by_cases e : some lf.file = s.cur
      · have : lf = lfc := eq_of_file_eq h.log.nodup hlf hlfc (by
          have := e.trans hcur.symm; exact Option.some.inj this)
        subst this
        have hw' := (c4.mem id w).mp hw
        exact (hmem lf hlf fc c4 id ws).mpr ⟨hw'.1, by simp only [m] at *; omega, h3⟩
      · obtain ⟨f1, d1, d2, d3, d4, d5, d6, d7⟩ := h.log.block lf hlf
        have hw' := (d4.mem id w).mp hw
        have hfull := d7 e
        exact (hmem lf hlf f1 d4 id ws).mpr ⟨hw'.1, by omega, h3⟩
  · -- no current file in the logs: every file is completely synced
    refine ⟨s.recs.length, hsn, Nat.le_refl _, hcn, ?_⟩
    intro id ws
    rw [List.mem_flatMap]
    constructor
    · rintro ⟨lf, hlf, hin⟩
      obtain ⟨f1, d1, d2, d3, d4, d5, d6, d7⟩ := h.log.block lf hlf
      have hin' := (hmem lf hlf f1 d4 id ws).mp hin
      exact ⟨by omega, by omega, hin'.2.2⟩
    · rintro ⟨h1, h2, h3⟩
      obtain ⟨lf, hlf, w, hw⟩ := h.log.cover id h1 h2
      refine ⟨lf, hlf, ?_⟩
      obtain ⟨f1, d1, d2, d3, d4, d5, d6, d7⟩ := h.log.block lf hlf
      have hw' := (d4.mem id w).mp hw
      have hfull := d7 (fun e => hex ⟨lf, hlf, e⟩)
      exact (hmem lf hlf f1 d4 id ws).mpr ⟨hw'.1, by omega, h3⟩

/-! ### replay of the surviving records -/

theorem findRec_some (sv : List (Nat × Rec Loc V)) (id : Nat) (r : Rec Loc V)
    (hex : ∃ w, (id, w) ∈ sv) (huniq : ∀ w, (id, w) ∈ sv → w = r) : findRec sv id = some r := by
  unfold findRec
  cases hf : sv.find? (fun x => x.1 = id) with
  | none =>
    obtain ⟨w, hw⟩ := hex
    rw [List.find?_eq_none] at hf
    exact absurd (by simp) (hf (id, w) hw)
  | some x =>
    have h1 := List.mem_of_find?_eq_some hf
    have h2 := List.find?_some hf
    simp only [decide_eq_true_eq] at h2
    obtain ⟨a, b⟩ := x
    simp only at h2
    subst h2
    simp [huniq b h1]

theorem findRec_none (sv : List (Nat × Rec Loc V)) (id : Nat) (h : ∀ w, (id, w) ∉ sv) :
    findRec sv id = none := by
  unfold findRec
  cases hf : sv.find? (fun x => x.1 = id) with
  | none => rfl
  | some x =>
    have h1 := List.mem_of_find?_eq_some hf
    have h2 := List.find?_some hf
    simp only [decide_eq_true_eq] at h2
    obtain ⟨a, b⟩ := x
    simp only at h2
    subst h2
    exact absurd h1 (h b)

theorem foldl_min_le (xs : List (Nat × Rec Loc V)) (m : Nat) :
    xs.foldl (fun m y => min m y.1) m ≤ m ∧
    (∀ x ∈ xs, xs.foldl (fun m y => min m y.1) m ≤ x.1) ∧
    (xs.foldl (fun m y => min m y.1) m = m ∨ ∃ x ∈ xs, xs.foldl (fun m y => min m y.1) m = x.1) := by
  induction xs generalizing m with
  | nil => simp
  | cons a xs ih =>
    simp only [List.foldl_cons]
    obtain ⟨i1, i2, i3⟩ := ih (min m a.1)
    refine ⟨by omega, ?_, ?_⟩
    · intro x hx
      rcases List.mem_cons.mp hx with hx | hx
      · subst hx; omega
      · exact i2 x hx
    · rcases i3 with i3 | ⟨x, hx, i3⟩
      · by_cases hle : m ≤ a.1
        · left; rw [i3]; omega
        · right; exact ⟨a, List.mem_cons_self, by rw [i3]; omega⟩
      · right; exact ⟨x, List.mem_cons_of_mem _ hx, i3⟩

theorem minId_spec (sv : List (Nat × Rec Loc V)) (m : Nat) (h : minId sv = some m) :
    (∃ x ∈ sv, x.1 = m) ∧ ∀ x ∈ sv, m ≤ x.1 := by
  cases sv with
  | nil => simp [minId] at h
  | cons a xs =>
    simp only [minId, Option.some.injEq] at h
    obtain ⟨i1, i2, i3⟩ := foldl_min_le xs a.1
    rw [h] at i1 i2 i3
    constructor
    · rcases i3 with i3 | ⟨x, hx, i3⟩
      · exact ⟨a, List.mem_cons_self, i3.symm⟩
      · exact ⟨x, List.mem_cons_of_mem _ hx, i3.symm⟩
    · intro x hx
      rcases List.mem_cons.mp hx with hx | hx
      · subst hx; exact i1
      · exact i2 x hx

theorem le_foldl_max (xs : List (Nat × Rec Loc V)) (m : Nat) :
    m ≤ xs.foldl (fun m y => max m y.1) m ∧ ∀ x ∈ xs, x.1 ≤ xs.foldl (fun m y => max m y.1) m := by
  induction xs generalizing m with
  | nil => simp
  | cons a xs ih =>
    simp only [List.foldl_cons]
    obtain ⟨i1, i2⟩ := ih (max m a.1)
    refine ⟨by omega, ?_⟩
    intro x hx
    rcases List.mem_cons.mp hx with hx | hx
    · subst hx; omega
    · exact i2 x hx

theorem slice_cons (recs : List (Rec Loc V)) (keep id : Nat) (h1 : 1 ≤ id) (h2 : id ≤ keep)
    (h3 : keep ≤ recs.length) :
    (recs.take keep).drop (id - 1) = recOf recs id :: (recs.take keep).drop id := by
  have hlt : id - 1 < (recs.take keep).length := by rw [List.length_take]; omega
  rw [List.drop_eq_getElem_cons hlt]
  have e : id - 1 + 1 = id := by omega
  rw [e]
  congr 1
  unfold recOf
  rw [List.getElem_take]
  simp [List.getD_eq_getElem?_getD]
  have : id - 1 < recs.length := by omega
  simp [this]

theorem replayFrom_spec (recs : List (Rec Loc V)) (sv : List (Nat × Rec Loc V)) (cl keep : Nat)
    (hk : keep ≤ recs.length)
    (hsv : ∀ id ws, (id, ws) ∈ sv ↔ (cl < id ∧ id ≤ keep ∧ ws = recOf recs id)) :
    ∀ fuel id (t : Tbl Loc V), cl < id → id ≤ keep + 1 → keep + 1 - id ≤ fuel →
      replayFrom sv fuel id t = applyRecs t ((recs.take keep).drop (id - 1)) := by
  intro fuel
  induction fuel with
  | zero =>
    intro id t h1 h2 h3
    have : id = keep + 1 := by omega
    subst this
    simp only [replayFrom, Nat.add_sub_cancel]
    rw [List.drop_of_length_le (by rw [List.length_take]; omega)]
    rfl
  | succ fuel ih =>
    intro id t h1 h2 h3
    by_cases hid : id = keep + 1
    · subst hid
      have : findRec sv (keep + 1) = none := by
        apply findRec_none
        intro w hw
        have := (hsv _ _).mp hw
        omega
      simp only [replayFrom, this, Nat.add_sub_cancel]
      rw [List.drop_of_length_le (by rw [List.length_take]; omega)]
      rfl
    · have hle : id ≤ keep := by omega
      have : findRec sv id = some (recOf recs id) := by
        apply findRec_some
        · exact ⟨_, (hsv id _).mpr ⟨h1, hle, rfl⟩⟩
        · intro w hw; exact ((hsv id w).mp hw).2.2
      simp only [replayFrom, this]
      rw [ih (id + 1) _ (by omega) (by omega) (by omega), slice_cons recs keep id (by omega) hle hk,
        applyRecs_cons]
      simp

theorem recover_spec (recs : List (Rec Loc V)) (sv : List (Nat × Rec Loc V)) (cl keep : Nat)
    (hck : cl ≤ keep) (hk : keep ≤ recs.length)
    (hsv : ∀ id ws, (id, ws) ∈ sv ↔ (cl < id ∧ id ≤ keep ∧ ws = recOf recs id))
    (t : Tbl Loc V) : recover t sv = applyRecs t ((recs.take keep).drop cl) := by
  unfold recover
  cases hm : minId sv with
  | none =>
    simp only
    have : sv = [] := by
      cases sv with
      | nil => rfl
      | cons a xs => simp [minId] at hm
    have hkeep : keep = cl := by
      by_cases e : cl < keep
      · have := (hsv (cl + 1) (recOf recs (cl + 1))).mpr ⟨by omega, by omega, rfl⟩
        rw [‹sv = []›] at this
        simp at this
      · omega
    rw [hkeep, List.drop_of_length_le (by rw [List.length_take]; omega)]
    rfl
  | some lo =>
    simp only
    obtain ⟨⟨x, hx, hxe⟩, hmin⟩ := minId_spec sv lo hm
    obtain ⟨a, b⟩ := x
    have hx' := (hsv a b).mp hx
    simp only at hxe
    subst hxe
    have hlo : a = cl + 1 := by
      have := (hsv (cl + 1) (recOf recs (cl + 1))).mpr ⟨by omega, by omega, rfl⟩
      have := hmin _ this
      simp only at this
      omega
    subst hlo
    have hmax : keep ≤ maxId sv := by
      have := (hsv keep (recOf recs keep)).mpr ⟨by omega, Nat.le_refl _, rfl⟩
      exact (le_foldl_max sv 0).2 _ this
    rw [replayFrom_spec recs sv cl keep hk hsv _ (cl + 1) t (by omega) (by omega) (by omega)]
    simp

/-! ### the image tables agree with the prefix state wherever replay does not rewrite -/

theorem recOf_mem_slice (recs : List (Rec Loc V)) (a b id : Nat) (h1 : a < id) (h2 : id ≤ b)
    (h3 : b ≤ recs.length) : recOf recs id ∈ (recs.take b).drop a := by
  rw [List.mem_iff_getElem?]
  refine ⟨id - 1 - a, ?_⟩
  rw [List.getElem?_drop, List.getElem?_take]
  have e : a + (id - 1 - a) = id - 1 := by omega
  have : id - 1 < b := by omega
  rw [e]
  simp only [this, if_true]
  unfold recOf
  have : id - 1 < recs.length := by omega
  simp [List.getD_eq_getElem?_getD, this]

/-- Where no surviving record (ids cleaned+1..keep) rewrites it, the image holds the content
    after the reclaimed records: torn pages only sit where the replay overwrites them. -/
theorem image_agree {t0 : Tbl Loc V} {s : St V} (h : Inv t0 s) (c : Choice) (keep : Nat)
    (hs : s.synced ≤ keep) (l : Loc)
    (H : ∀ id, s.cleaned < id → id ≤ keep → lastW (recOf s.recs id) l = none) :
    imgTables s c l = tablesAfter t0 s.recs s.cleaned l := by
  have hcd := h.ctl.cd
  have hds := h.ctl.ds
  have hhs := h.ctl.hs
  have hdb := le_busyOf s.done s.wr
  -- the volatile content at l is the content after records 1..cleaned
  have hvol : s.vol l = tablesAfter t0 s.recs s.cleaned l := by
    have hnp : ¬ Pend s.recs s.done s.wr s.hz l := by
      rintro (⟨p1, p2⟩ | ⟨r, r1, r2, r3⟩)
      · apply p2
        have := H (s.done + 1) (by omega) (by omega)
        have hsplit : recOf s.recs (s.done + 1) =
            (recOf s.recs (s.done + 1)).take s.wr ++ (recOf s.recs (s.done + 1)).drop s.wr :=
          (List.take_append_drop _ _).symm
        rw [hsplit, lastW_append] at this
        cases hd : lastW ((recOf s.recs (s.done + 1)).drop s.wr) l with
        | none => rfl
        | some x => rw [hd] at this; simp at this
      · exact r3 (H r (by omega) (by omega))
    rw [h.tbl.hvol l hnp]
    unfold ideal
    rw [applyRec_eq]
    have h1 : lastW ((recOf s.recs (s.done + 1)).take s.wr) l = none := by
      by_cases hw : s.wr = 0
      · rw [hw]; simp [lastW]
      · have hb : busyOf s.done s.wr = s.done + 1 := by simp [busyOf, hw]
        exact lastW_take_none _ _ _ (H (s.done + 1) (by omega) (by omega))
    rw [h1]
    simp only [Option.getD_none]
    rw [tablesAfter_split t0 s.recs s.cleaned s.done hcd]
    apply applyRecs_untouched
    intro ws hws
    obtain ⟨id, a, b, e⟩ := mem_slice_recOf s.recs s.cleaned s.done ws hws
    rw [← e]
    exact H id a (by omega)
  have hdur : s.dur l = s.vol l := by
    apply h.tbl.hdur
    intro d hd _ r r1 r2
    have := (h.tbl.hdirty d hd).1
    exact H r (by omega) (by omega)
  unfold imgTables
  split
  · exact hvol
  · rw [hdur]; exact hvol

theorem image_core {t0 : Tbl Loc V} {s : St V} (h : Inv t0 s) (c : Choice) (keep : Nat)
    (hs : s.synced ≤ keep) (hk : keep ≤ s.recs.length) :
    applyRecs (imgTables s c) ((s.recs.take keep).drop s.cleaned) = tablesAfter t0 s.recs keep := by
  have hcd := h.ctl.cd
  have hds := h.ctl.ds
  have hdb := le_busyOf s.done s.wr
  have hck : s.cleaned ≤ keep := by omega
  funext l
  rw [tablesAfter_split t0 s.recs s.cleaned keep hck]
  apply applyRecs_congr_loc
  intro hun
  apply image_agree h c keep hs l
  intro id a b
  exact hun _ (recOf_mem_slice s.recs s.cleaned keep id a b hk)

/-- Recovery from any power-loss image of a state satisfying the invariant. -/
theorem recover_of_inv {t0 : Tbl Loc V} {s : St V} (h : Inv t0 s) (c : Choice) :
    ∃ n, s.synced ≤ n ∧ n ≤ s.recs.length ∧ recoverImage s c = tablesAfter t0 s.recs n := by
  obtain ⟨keep, k1, k2, k3, k4⟩ := survivors_spec h c
  refine ⟨keep, k1, k2, ?_⟩
  unfold recoverImage
  rw [recover_spec s.recs (survivors s c) s.cleaned keep k3 k2 k4, image_core h c keep k1 k2]

end Dur
end Pdb
