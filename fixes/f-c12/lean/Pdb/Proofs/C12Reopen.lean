/-
C12: the recovery program (`Db::open` on a power-loss image: replay of the surviving records in
id order, flush of every table, reclaim of every log file oldest first) satisfies the discipline
from the state a power loss leaves, and ends with all logs reclaimed and the tables exactly (and
durably) the tables after the surviving records.
-/
import Pdb.Proofs.C12Gen
import Pdb.Proofs.C12Life

set_option linter.unusedSectionVars false
set_option linter.unusedSimpArgs false
set_option linter.unusedVariables false
namespace Pdb
namespace Dur
variable {V : Type}

/-! ### replay -/

theorem replay_chunk [DecidableEq V] : ∀ (n : Nat) (s : St V), s.wr = 0 → s.done + n ≤ s.synced →
    acceptsFrom s (replayEvents s.recs n (s.done + 1)) = true ∧
    (stateFrom s (replayEvents s.recs n (s.done + 1))).done = s.done + n ∧
    (stateFrom s (replayEvents s.recs n (s.done + 1))).wr = 0 ∧
    (stateFrom s (replayEvents s.recs n (s.done + 1))).recs = s.recs ∧
    (stateFrom s (replayEvents s.recs n (s.done + 1))).synced = s.synced ∧
    (stateFrom s (replayEvents s.recs n (s.done + 1))).logs = s.logs ∧
    (stateFrom s (replayEvents s.recs n (s.done + 1))).cur = s.cur ∧
    (stateFrom s (replayEvents s.recs n (s.done + 1))).cleaned = s.cleaned ∧
    (stateFrom s (replayEvents s.recs n (s.done + 1))).hz = s.hz := by
  intro n
  induction n with
  | zero =>
    intro s hw _
    exact ⟨rfl, rfl, hw, rfl, rfl, rfl, rfl, rfl, rfl⟩
  | succ n ih =>
    intro s hw hs
    obtain ⟨w1, w2, w3, w4, w5, w6, w7, w8, w9⟩ :=
      writes_chunk (recOf s.recs (s.done + 1)) (recOf s.recs (s.done + 1)) [] s (by simp)
        (by simp [hw]) rfl (by omega)
    -- the closing event
    have hchk : check (stateFrom s ((recOf s.recs (s.done + 1)).map (imgEv (s.done + 1))))
        (Ev.enactEnd (s.done + 1)) = none := by
      simp only [check, w2, w3, w4, w5, ne_eq, not_true_eq_false, if_false]
      have : ¬ s.synced < s.done + 1 := by omega
      simp [this]
    have hacc : acceptsFrom s (recEvents s.recs (s.done + 1)) = true := by
      unfold recEvents
      rw [acceptsFrom_append, w1]
      simp [acceptsFrom, hchk]
    -- the state after the record
    have hg : stateFrom s (recEvents s.recs (s.done + 1)) =
        { stateFrom s ((recOf s.recs (s.done + 1)).map (imgEv (s.done + 1))) with
          done := s.done + 1, wr := 0 } := by
      unfold recEvents
      rw [stateFrom_append]; rfl
    have hrest := ih (stateFrom s (recEvents s.recs (s.done + 1))) (by rw [hg])
      (by rw [hg]; show s.done + 1 + n ≤ (stateFrom s _).synced; rw [w5]; omega)
    have e1 : (stateFrom s (recEvents s.recs (s.done + 1))).recs = s.recs := by rw [hg]; exact w4
    have e2 : (stateFrom s (recEvents s.recs (s.done + 1))).done = s.done + 1 := by rw [hg]
    rw [e1, e2] at hrest
    obtain ⟨r1, r2, r3, r4, r5, r6, r7, r8, r9⟩ := hrest
    simp only [replayEvents]
    rw [acceptsFrom_append, stateFrom_append, hacc]
    refine ⟨by simpa using r1, by rw [r2]; omega, r3, r4, ?_, ?_, ?_, ?_, ?_⟩
    · rw [r5, hg]; exact w5
    · rw [r6, hg]; exact w6
    · rw [r7, hg]; exact w7
    · rw [r8, hg]; exact w8
    · rw [r9, hg]; exact w9

/-! ### reclaiming every log file -/

theorem logsDrop_length {logs : List (LogFile V)} (hn : (logs.map (fun lf => lf.file)).Nodup)
    {lf : LogFile V} (hlf : lf ∈ logs) : (logsDrop logs lf.file).length + 1 = logs.length := by
  induction logs with
  | nil => simp at hlf
  | cons x xs ih =>
    simp only [List.map_cons, List.nodup_cons, List.mem_map, not_exists, not_and] at hn
    unfold logsDrop at ih ⊢
    rcases List.mem_cons.mp hlf with e | e
    · subst e
      have hall : xs.filter (fun l => decide (l.file ≠ lf.file)) = xs := by
        rw [List.filter_eq_self]
        intro a ha
        have := hn.1 a ha
        simp only [decide_eq_true_eq]
        exact this
      rw [List.filter_cons]
      have hself : decide (lf.file ≠ lf.file) = false := by simp
      rw [hself]
      simp only [Bool.false_eq_true, if_false, List.length_cons]
      rw [hall]
    · have hne : x.file ≠ lf.file := fun e' => hn.1 lf e e'.symm
      rw [List.filter_cons]
      have hd : decide (x.file ≠ lf.file) = true := by simpa using hne
      rw [hd]
      simp only [if_true, List.length_cons]
      have := ih hn.2 e
      omega

theorem oldest_exists {t0 : Tbl Loc V} {g : St V} (h : Inv t0 g) (hne : g.logs ≠ []) :
    ∃ lf, oldestLog g = some lf := by
  obtain ⟨lf0, hlf0⟩ := List.exists_mem_of_ne_nil _ hne
  obtain ⟨f0, a1, a2, a3, a4, a5, a6, a7⟩ := h.log.block lf0 hlf0
  obtain ⟨lf, hlf, ws, hws⟩ := h.log.cover (g.cleaned + 1) (by omega) (by omega)
  obtain ⟨f1, b1, b2, b3, b4, b5, b6, b7⟩ := h.log.block lf hlf
  have hm := (b4.mem _ _).mp hws
  have hf : f1 = g.cleaned + 1 := by omega
  have hhead : lf.recs[0]? = some (g.cleaned + 1, recOf g.recs (g.cleaned + 1)) := by
    have := b4 0 b2
    rw [hf] at this
    simpa using this
  cases ho : oldestLog g with
  | some x => exact ⟨x, rfl⟩
  | none =>
    exfalso
    unfold oldestLog at ho
    rw [List.find?_eq_none] at ho
    have := ho lf hlf
    apply this
    simp only [decide_eq_true_eq]
    cases hr : lf.recs with
    | nil => rw [hr] at hhead; simp at hhead
    | cons y ys =>
      rw [hr] at hhead
      simp only [List.getElem?_cons_zero, Option.some.injEq] at hhead
      simp [hhead]

theorem truncAll_ok [DecidableEq V] {t0 : Tbl Loc V} : ∀ (n : Nat) (g : St V), Inv t0 g →
    g.dirty = [] → g.done = g.recs.length → g.logs.length ≤ n →
    acceptsFrom g (truncAll n g) = true ∧
    (stateFrom g (truncAll n g)).logs = [] ∧
    (stateFrom g (truncAll n g)).recs = g.recs ∧
    (stateFrom g (truncAll n g)).done = g.done ∧
    (stateFrom g (truncAll n g)).wr = g.wr ∧
    (stateFrom g (truncAll n g)).synced = g.synced ∧
    (stateFrom g (truncAll n g)).dirty = [] ∧
    (stateFrom g (truncAll n g)).hz = g.hz := by
  intro n
  induction n with
  | zero =>
    intro g _ hd _ hl
    have : g.logs = [] := List.eq_nil_of_length_eq_zero (by omega)
    exact ⟨rfl, this, rfl, rfl, rfl, rfl, hd, rfl⟩
  | succ n ih =>
    intro g hI hd hdone hl
    cases ho : oldestLog g with
    | none =>
      have hnil : g.logs = [] := by
        cases hh : g.logs with
        | nil => rfl
        | cons a as =>
          obtain ⟨lf, hlf⟩ := oldest_exists hI (by rw [hh]; simp)
          rw [ho] at hlf; cases hlf
      simp only [truncAll, ho]
      exact ⟨rfl, hnil, rfl, rfl, rfl, rfl, hd, rfl⟩
    | some lf =>
      have hlf : lf ∈ g.logs := List.mem_of_find?_eq_some ho
      have hhead := List.find?_some ho
      simp only [decide_eq_true_eq] at hhead
      obtain ⟨first, g1, g2, g3, g4, g5, g6, g7⟩ := hI.log.block lf hlf
      obtain ⟨y, ys, hy⟩ := List.exists_cons_of_length_pos g2
      have hy1 : y.1 = g.cleaned + 1 := by
        rw [hy] at hhead; simpa using hhead
      have hfe : first = g.cleaned + 1 := by
        have := g4 0 g2
        rw [hy] at this
        simp only [List.getElem?_cons_zero, Option.some.injEq] at this
        rw [this] at hy1
        simpa using hy1
      have hlen : lf.recs.length = ys.length + 1 := by rw [hy]; rfl
      have hfind : findLog g.logs lf.file = some lf := findLog_mem hI.log.nodup hlf
      have hchk : check g (Ev.logTruncate lf.file) = none := by
        simp only [check, checkDrop, hfind, hy, hd, hy1, ne_eq, not_true_eq_false, if_false,
          List.any_nil, Bool.false_eq_true, List.length_cons]
        have : ¬ g.done < g.cleaned + (ys.length + 1) := by omega
        simp [this]
      have hI' := hI.step _ hchk
      have hstep : step g (Ev.logTruncate lf.file) =
          { g with logs := logsDrop g.logs lf.file, cleaned := g.cleaned + lf.recs.length,
                   cur := if g.cur = some lf.file then none else g.cur } := by
        simp only [step, dropLog, hfind]
      have hl' : (step g (Ev.logTruncate lf.file)).logs.length ≤ n := by
        rw [hstep]
        have := logsDrop_length hI.log.nodup hlf
        show (logsDrop g.logs lf.file).length ≤ n
        omega
      obtain ⟨r1, r2, r3, r4, r5, r6, r7, r8⟩ := ih (step g (Ev.logTruncate lf.file)) hI'
        (by rw [hstep]; exact hd) (by rw [hstep]; exact hdone) hl'
      simp only [truncAll, ho, acceptsFrom, hchk, Option.isNone_none, Bool.true_and, stateFrom,
        List.foldl_cons]
      refine ⟨r1, r2, ?_, ?_, ?_, ?_, r7, ?_⟩
      · rw [show (List.foldl step (step g (Ev.logTruncate lf.file)) _).recs = _ from r3, hstep]
      · rw [show (List.foldl step (step g (Ev.logTruncate lf.file)) _).done = _ from r4, hstep]
      · rw [show (List.foldl step (step g (Ev.logTruncate lf.file)) _).wr = _ from r5, hstep]
      · rw [show (List.foldl step (step g (Ev.logTruncate lf.file)) _).synced = _ from r6, hstep]
      · rw [show (List.foldl step (step g (Ev.logTruncate lf.file)) _).hz = _ from r8, hstep]

/-! ### the whole recovery -/

/-- When nothing is left to replay, the tables are exactly the tables after the applied records. -/
theorem Inv.vol_exact {t0 : Tbl Loc V} {g : St V} (h : Inv t0 g) (hz : g.hz ≤ g.done)
    (hw : g.wr = 0) : g.vol = tablesAfter t0 g.recs g.done := by
  funext l
  have hnp : ¬ Pend g.recs g.done g.wr g.hz l := by
    rintro (⟨p1, _⟩ | ⟨r, r1, r2, _⟩) <;> omega
  rw [h.tbl.hvol l hnp, hw, ideal_zero]

theorem Inv.dur_clean {t0 : Tbl Loc V} {g : St V} (h : Inv t0 g) (hd : g.dirty = []) :
    g.dur = g.vol := by
  funext l
  apply h.tbl.hdur
  intro d hdm
  rw [hd] at hdm
  exact absurd hdm (by simp)

theorem recovery_ok [DecidableEq V] {t0 : Tbl Loc V} {s : St V} (h : Inv t0 s) (hwr : s.wr = 0)
    (hall : s.synced = s.recs.length) :
    acceptsFrom s (recoveryJournal s) = true ∧
    (stateFrom s (recoveryJournal s)).logs = [] ∧
    (stateFrom s (recoveryJournal s)).recs = s.recs ∧
    (stateFrom s (recoveryJournal s)).done = s.recs.length ∧
    (stateFrom s (recoveryJournal s)).synced = s.synced ∧
    (stateFrom s (recoveryJournal s)).vol = tablesAfter t0 s.recs s.recs.length ∧
    (stateFrom s (recoveryJournal s)).dur = tablesAfter t0 s.recs s.recs.length := by
  have hds := h.ctl.ds
  have hdb := le_busyOf s.done s.wr
  have hdone : s.done + (s.synced - s.done) ≤ s.synced := by omega
  obtain ⟨a1, a2, a3, a4, a5, a6, a7, a8, a9⟩ := replay_chunk (s.synced - s.done) s hwr hdone
  have a1' : acceptsFrom s (replayJournal s) = true := a1
  -- the state after the replay
  have hI1 : Inv t0 (stateFrom s (replayJournal s)) := Inv.stateFrom _ s h a1'
  have b2 : (stateFrom s (replayJournal s)).done = s.recs.length := by
    show (stateFrom s (replayEvents s.recs (s.synced - s.done) (s.done + 1))).done = _
    rw [a2]; omega
  -- the flush
  have hmm : flushJournal (stateFrom s (replayJournal s)) =
      ((stateFrom s (replayJournal s)).dirty.map (fun d => d.1)).map (Ev.tableSync : Nat → Ev V) := by
    unfold flushJournal; rw [List.map_map]; rfl
  obtain ⟨m1, m2, m3, m4, m5, m6, m7, m8, m9⟩ :=
    syncs_chunk ((stateFrom s (replayJournal s)).dirty.map (fun d => d.1)) (stateFrom s (replayJournal s))
  rw [dirty_all_synced] at m2
  rw [← hmm] at m1 m2 m3 m4 m5 m6 m7 m8 m9
  have hI2 : Inv t0 (stateFrom (stateFrom s (replayJournal s))
      (flushJournal (stateFrom s (replayJournal s)))) := Inv.stateFrom _ _ hI1 m1
  -- the reclaim
  have hlogs : (stateFrom (stateFrom s (replayJournal s))
      (flushJournal (stateFrom s (replayJournal s)))).logs.length ≤ s.logs.length := by
    rw [m3]
    show (stateFrom s (replayEvents s.recs (s.synced - s.done) (s.done + 1))).logs.length ≤ _
    rw [a6]; exact Nat.le_refl _
  obtain ⟨t1, t2, t3, t4, t5, t6, t7, t8⟩ := truncAll_ok s.logs.length _ hI2 m2
    (by rw [m8, m4, b2]
        show s.recs.length = (stateFrom s (replayEvents s.recs (s.synced - s.done) (s.done + 1))).recs.length
        rw [a4]) hlogs
  have hacc : acceptsFrom s (recoveryJournal s) = true := by
    unfold recoveryJournal
    rw [acceptsFrom_append, acceptsFrom_append, a1', m1, stateFrom_append, t1]
    rfl
  have hst : stateFrom s (recoveryJournal s) =
      stateFrom (stateFrom (stateFrom s (replayJournal s))
        (flushJournal (stateFrom s (replayJournal s))))
        (truncAll s.logs.length (stateFrom (stateFrom s (replayJournal s))
          (flushJournal (stateFrom s (replayJournal s))))) := by
    unfold recoveryJournal
    rw [stateFrom_append, stateFrom_append]
  have hIe : Inv t0 (stateFrom s (recoveryJournal s)) := Inv.stateFrom _ s h hacc
  have e_recs : (stateFrom s (recoveryJournal s)).recs = s.recs := by
    rw [hst, t3, m4]; exact a4
  have e_done : (stateFrom s (recoveryJournal s)).done = s.recs.length := by
    rw [hst, t4, m8]; exact b2
  have e_wr : (stateFrom s (recoveryJournal s)).wr = 0 := by
    rw [hst, t5, m9]; exact a3
  have e_synced : (stateFrom s (recoveryJournal s)).synced = s.synced := by
    rw [hst, t6, m6]; exact a5
  have e_dirty : (stateFrom s (recoveryJournal s)).dirty = [] := by
    rw [hst]; exact t7
  have e_vol : (stateFrom s (recoveryJournal s)).vol = tablesAfter t0 s.recs s.recs.length := by
    have hz : (stateFrom s (recoveryJournal s)).hz ≤ (stateFrom s (recoveryJournal s)).done := by
      have := hIe.ctl.hs
      rw [e_synced] at this
      rw [e_done]; omega
    rw [hIe.vol_exact hz e_wr, e_recs, e_done]
  refine ⟨hacc, by rw [hst]; exact t2, e_recs, e_done, e_synced, e_vol, ?_⟩
  rw [hIe.dur_clean e_dirty, e_vol]

/-! ### the recovery program neither appends nor syncs log records -/

/-- Events that leave the record list and the synced count alone. -/
def quiet : Ev V → Bool
  | .logAppend _ _ _ => false
  | .logSync _ => false
  | _ => true

theorem quiet_step (s : St V) (e : Ev V) (h : quiet e = true) :
    (step s e).recs = s.recs ∧ (step s e).synced = s.synced := by
  cases e with
  | logAppend r f ws => simp [quiet] at h
  | logSync f => simp [quiet] at h
  | logTruncate f | logDelete f | logReuse f =>
    all_goals
      obtain ⟨a, b⟩ := dropLog_fields s f
      exact ⟨b, a⟩
  | _ => exact ⟨rfl, rfl⟩

theorem quiet_stateFrom (j : Journal V) (s : St V) (h : j.all quiet = true) :
    (stateFrom s j).recs = s.recs ∧ (stateFrom s j).synced = s.synced := by
  induction j generalizing s with
  | nil => exact ⟨rfl, rfl⟩
  | cons e es ih =>
    simp only [List.all_cons, Bool.and_eq_true] at h
    obtain ⟨a, b⟩ := quiet_step s e h.1
    obtain ⟨c, d⟩ := ih (step s e) h.2
    exact ⟨by rw [show (stateFrom s (e :: es)) = stateFrom (step s e) es from rfl, c, a],
      by rw [show (stateFrom s (e :: es)) = stateFrom (step s e) es from rfl, d, b]⟩

theorem imgEv_quiet (r : Nat) (w : Loc × Cell V) : quiet (imgEv r w) = true := by
  unfold imgEv; split <;> rfl

theorem replayEvents_quiet (recs : List (Rec Loc V)) : ∀ n id,
    (replayEvents recs n id).all quiet = true := by
  intro n
  induction n with
  | zero => intro id; rfl
  | succ n ih =>
    intro id
    simp only [replayEvents, recEvents, List.all_append, List.all_map, Bool.and_eq_true]
    refine ⟨⟨?_, by simp [quiet]⟩, ih (id + 1)⟩
    rw [List.all_eq_true]
    intro x _
    exact imgEv_quiet id x

theorem truncAll_quiet : ∀ n (g : St V), (truncAll n g).all quiet = true := by
  intro n
  induction n with
  | zero => intro g; rfl
  | succ n ih =>
    intro g
    simp only [truncAll]
    split
    · simp only [List.all_cons, Bool.and_eq_true]
      exact ⟨rfl, ih _⟩
    · rfl

theorem recoveryJournal_quiet (s : St V) : (recoveryJournal s).all quiet = true := by
  unfold recoveryJournal replayJournal flushJournal
  simp only [List.all_append, Bool.and_eq_true]
  refine ⟨⟨replayEvents_quiet _ _ _, ?_⟩, truncAll_quiet _ _⟩
  rw [List.all_eq_true]
  intro x hx
  obtain ⟨d, _, rfl⟩ := List.mem_map.mp hx
  rfl

theorem all_of_prefix {α : Type} (p : α → Bool) (l pre : List α) (hp : pre <+: l)
    (h : l.all p = true) : pre.all p = true := by
  obtain ⟨t, rfl⟩ := hp
  simp only [List.all_append, Bool.and_eq_true] at h
  exact h.1

end Dur
end Pdb
