/-
C12: the ghost counter `synced` of the acceptor means what it should, positionally: record `id`
counts as synced iff the journal holds its append to some log file and, later, a sync of that
file.  Consequence: the positional reading of D1.
-/
import Pdb.Proofs.C12Same

set_option linter.unusedSectionVars false
set_option linter.unusedSimpArgs false
set_option linter.unusedVariables false
namespace Pdb
namespace Dur
variable {V : Type}

/-- Record `id` was appended to a log file which was synced afterwards. -/
def SyncedAt (j : Journal V) (id : Nat) : Prop :=
  ∃ (a k f : Nat) (ws : Rec Loc V),
    a < k ∧ j[a]? = some (Ev.logAppend id f ws) ∧ j[k]? = some (Ev.logSync f)

theorem getElem?_snoc {α : Type} (l : List α) (x : α) (i : Nat) :
    (l ++ [x])[i]? = if i < l.length then l[i]? else if i = l.length then some x else none := by
  by_cases h : i < l.length
  · simp [h, List.getElem?_append_left h]
  · simp only [h, if_false]
    rw [List.getElem?_append_right (by omega)]
    by_cases e : i = l.length
    · simp [e]
    · simp only [e, if_false]
      have : i - l.length ≠ 0 := by omega
      cases hh : i - l.length with
      | zero => omega
      | succ m => simp

theorem getElem?_snoc_left {α : Type} (l : List α) (x v : α) (a : Nat) (h : l[a]? = some v) :
    (l ++ [x])[a]? = some v := by
  have hal : a < l.length := by
    rcases List.getElem?_eq_some_iff.mp h with ⟨h', _⟩; exact h'
  rw [List.getElem?_append_left hal]; exact h

theorem checkDrop_facts {t0 : Tbl Loc V} {s : St V} (h : Inv t0 s) (f : Nat) (lf : LogFile V)
    (hc : checkDrop s f = none) (hfl : findLog s.logs f = some lf) :
    s.cleaned + lf.recs.length ≤ s.done ∧
    ∃ first, first = s.cleaned + 1 ∧ IsBlock s.recs lf.recs first := by
  unfold checkDrop at hc
  rw [hfl] at hc
  simp only at hc
  obtain ⟨hlf, hf⟩ := findLog_some hfl
  obtain ⟨first, g1, g2, g3, g4, g5, g6, g7⟩ := h.log.block lf hlf
  obtain ⟨x, xs, hx⟩ := List.exists_cons_of_length_pos g2
  have hlen : lf.recs.length = xs.length + 1 := by rw [hx]; rfl
  rw [hx] at hc
  simp only [List.length_cons] at hc
  by_cases c1 : x.1 ≠ s.cleaned + 1
  · simp [c1] at hc
  · simp only [c1, if_false] at hc
    by_cases c2 : s.done < s.cleaned + (xs.length + 1)
    · simp [c2] at hc
    · refine ⟨by omega, first, ?_, g4⟩
      have := g4 0 g2
      rw [hx] at this
      simp only [List.getElem?_cons_zero, Option.some.injEq] at this
      have e : x.1 = first := by rw [this]; simp
      omega

structure PosI (j : Journal V) (s : St V) : Prop where
  app : ∀ (id f : Nat) (ws : Rec Loc V) (a : Nat), j[a]? = some (Ev.logAppend id f ws) →
    1 ≤ id ∧ id ≤ s.recs.length ∧ (s.synced < id → s.cur = some f)
  all : ∀ id, 1 ≤ id → id ≤ s.recs.length →
    ∃ (a f : Nat) (ws : Rec Loc V), j[a]? = some (Ev.logAppend id f ws)
  syn : ∀ id, SyncedAt j id ↔ (1 ≤ id ∧ id ≤ s.synced)

theorem PosI.nil (t0 : Tbl Loc V) : PosI ([] : Journal V) (St.init t0) := by
  refine ⟨?_, ?_, ?_⟩
  · intro id f ws a h; simp at h
  · intro id h1 h2; simp [St.init] at h2; omega
  · intro id
    constructor
    · rintro ⟨a, k, f, ws, _, h, _⟩; simp at h
    · rintro ⟨h1, h2⟩; simp [St.init] at h2; omega

theorem SyncedAt.snoc (j : Journal V) (e : Ev V) (id : Nat) :
    SyncedAt (j ++ [e]) id ↔
      (SyncedAt j id ∨ ∃ (f : Nat) (ws : Rec Loc V) (a : Nat),
        e = Ev.logSync f ∧ j[a]? = some (Ev.logAppend id f ws)) := by
  constructor
  · rintro ⟨a, k, f, ws, hak, ha, hk⟩
    rw [getElem?_snoc] at ha hk
    by_cases hkl : k < j.length
    · have hal : a < j.length := by omega
      simp only [hkl, hal, if_true] at ha hk
      exact Or.inl ⟨a, k, f, ws, hak, ha, hk⟩
    · simp only [hkl, if_false] at hk
      by_cases hke : k = j.length
      · simp only [hke, if_true, Option.some.injEq] at hk
        have hal : a < j.length := by omega
        simp only [hal, if_true] at ha
        exact Or.inr ⟨f, ws, a, hk, ha⟩
      · simp [hke] at hk
  · rintro (⟨a, k, f, ws, hak, ha, hk⟩ | ⟨f, ws, a, he, ha⟩)
    · have hkl : k < j.length := by
        rcases List.getElem?_eq_some_iff.mp hk with ⟨h', _⟩; exact h'
      refine ⟨a, k, f, ws, hak, ?_, ?_⟩
      · exact getElem?_snoc_left _ _ _ _ ha
      · exact getElem?_snoc_left _ _ _ _ hk
    · have hal : a < j.length := by
        rcases List.getElem?_eq_some_iff.mp ha with ⟨h', _⟩; exact h'
      refine ⟨a, j.length, f, ws, hal, ?_, ?_⟩
      · exact getElem?_snoc_left _ _ _ _ ha
      · rw [getElem?_snoc]; simp [he]

/-- One accepted event preserves the positional reading of the counters. -/
theorem PosI.step [DecidableEq V] {t0 : Tbl Loc V} {j : Journal V} {s : St V} (hp : PosI j s)
    (h : Inv t0 s) (e : Ev V) (hc : check s e = none) : PosI (j ++ [e]) (step s e) := by
  have hsn := h.ctl.sn
  have hI' := h.step e hc
  -- events that change neither recs, cur nor synced, and are not appends / syncs
  have frame : ∀ (s' : St V), s'.recs = s.recs → s'.cur = s.cur → s'.synced = s.synced →
      (∀ r f ws, e ≠ Ev.logAppend r f ws) → (∀ f, e ≠ Ev.logSync f) → PosI (j ++ [e]) s' := by
    intro s' e1 e2 e3 na ns
    refine ⟨?_, ?_, ?_⟩
    · intro id f ws a ha
      rw [getElem?_snoc] at ha
      by_cases hal : a < j.length
      · simp only [hal, if_true] at ha
        rw [e1, e2, e3]; exact hp.app id f ws a ha
      · simp only [hal, if_false] at ha
        by_cases hae : a = j.length
        · simp only [hae, if_true, Option.some.injEq] at ha
          exact absurd ha (na id f ws)
        · simp [hae] at ha
    · intro id h1 h2
      rw [e1] at h2
      obtain ⟨a, f, ws, ha⟩ := hp.all id h1 h2
      have hal : a < j.length := by
        rcases List.getElem?_eq_some_iff.mp ha with ⟨h', _⟩; exact h'
      exact ⟨a, f, ws, getElem?_snoc_left _ _ _ _ ha⟩
    · intro id
      rw [SyncedAt.snoc, e3, ← hp.syn id]
      constructor
      · rintro (h' | ⟨f, ws, a, he, _⟩)
        · exact h'
        · exact absurd he (ns f)
      · intro h'; exact Or.inl h'
  cases e with
  | logAppend r f ws =>
    -- r = n + 1, and leaving the current file requires everything synced
    simp only [check] at hc
    have c1 : r = s.recs.length + 1 := by
      by_cases c : r ≠ s.recs.length + 1
      · simp [c] at hc
      · omega
    subst c1
    simp only [ne_eq, not_true_eq_false, if_false] at hc
    have hsw : s.cur ≠ some f → ¬ s.synced < s.recs.length := by
      intro hne hlt
      simp [hne, hlt] at hc
    refine ⟨?_, ?_, ?_⟩
    · intro id f' ws' a ha
      show 1 ≤ id ∧ id ≤ (s.recs ++ [ws]).length ∧ (s.synced < id → some f = some f')
      rw [getElem?_snoc] at ha
      simp only [List.length_append, List.length_cons, List.length_nil]
      by_cases hal : a < j.length
      · simp only [hal, if_true] at ha
        obtain ⟨p1, p2, p3⟩ := hp.app id f' ws' a ha
        refine ⟨p1, by omega, ?_⟩
        intro hlt
        have hcur := p3 hlt
        by_cases hff : f = f'
        · rw [hff]
        · exfalso
          have : s.cur ≠ some f := by rw [hcur]; intro x; exact hff (Option.some.inj x).symm
          have := hsw this
          omega
      · simp only [hal, if_false] at ha
        by_cases hae : a = j.length
        · simp only [hae, if_true, Option.some.injEq, Ev.logAppend.injEq] at ha
          obtain ⟨q1, q2, _⟩ := ha
          subst q1 q2
          exact ⟨by omega, by omega, fun _ => rfl⟩
        · simp [hae] at ha
    · intro id h1 h2
      have h2' : id ≤ s.recs.length + 1 := by
        have : id ≤ (s.recs ++ [ws]).length := h2
        simpa using this
      by_cases hle : id ≤ s.recs.length
      · obtain ⟨a, f', ws', ha⟩ := hp.all id h1 hle
        have hal : a < j.length := by
          rcases List.getElem?_eq_some_iff.mp ha with ⟨h', _⟩; exact h'
        exact ⟨a, f', ws', getElem?_snoc_left _ _ _ _ ha⟩
      · have : id = s.recs.length + 1 := by omega
        subst this
        exact ⟨j.length, f, ws, by rw [getElem?_snoc]; simp⟩
    · intro id
      show SyncedAt _ id ↔ (1 ≤ id ∧ id ≤ s.synced)
      rw [SyncedAt.snoc, ← hp.syn id]
      constructor
      · rintro (h' | ⟨f', ws', a, he, _⟩)
        · exact h'
        · cases he
      · intro h'; exact Or.inl h'
  | logSync f =>
    refine ⟨?_, ?_, ?_⟩
    · intro id f' ws' a ha
      show 1 ≤ id ∧ id ≤ s.recs.length ∧
        ((if s.cur = some f then s.recs.length else s.synced) < id → s.cur = some f')
      rw [getElem?_snoc] at ha
      by_cases hal : a < j.length
      · simp only [hal, if_true] at ha
        obtain ⟨p1, p2, p3⟩ := hp.app id f' ws' a ha
        refine ⟨p1, p2, ?_⟩
        intro hlt
        apply p3
        split at hlt <;> omega
      · simp only [hal, if_false] at ha
        by_cases hae : a = j.length
        · simp [hae] at ha
        · simp [hae] at ha
    · intro id h1 h2
      obtain ⟨a, f', ws', ha⟩ := hp.all id h1 h2
      have hal : a < j.length := by
        rcases List.getElem?_eq_some_iff.mp ha with ⟨h', _⟩; exact h'
      exact ⟨a, f', ws', getElem?_snoc_left _ _ _ _ ha⟩
    · intro id
      show SyncedAt _ id ↔ (1 ≤ id ∧ id ≤ (if s.cur = some f then s.recs.length else s.synced))
      rw [SyncedAt.snoc, hp.syn id]
      constructor
      · rintro (⟨q1, q2⟩ | ⟨f', ws', a, he, ha⟩)
        · refine ⟨q1, ?_⟩
          split <;> omega
        · cases he
          obtain ⟨p1, p2, p3⟩ := hp.app id f ws' a ha
          refine ⟨p1, ?_⟩
          by_cases hlt : s.synced < id
          · simp only [p3 hlt, if_true]; exact p2
          · split <;> omega
      · rintro ⟨q1, q2⟩
        by_cases hle : id ≤ s.synced
        · exact Or.inl ⟨q1, hle⟩
        · -- newly covered: it sits in the current file, which is the one being synced
          have hcur : s.cur = some f := by
            by_cases hc' : s.cur = some f
            · exact hc'
            · simp only [hc', if_false] at q2; omega
          simp only [hcur, if_true] at q2
          obtain ⟨a, f', ws', ha⟩ := hp.all id q1 q2
          obtain ⟨_, _, p3⟩ := hp.app id f' ws' a ha
          have := p3 (by omega)
          rw [hcur] at this
          have hff : f = f' := Option.some.inj this
          subst hff
          exact Or.inr ⟨f, ws', a, rfl, ha⟩
  | tableWrite r loc val =>
    exact frame _ rfl rfl rfl (by intro _ _ _ h; cases h) (by intro _ h; cases h)
  | enactEnd r =>
    exact frame _ rfl rfl rfl (by intro _ _ _ h; cases h) (by intro _ h; cases h)
  | tableSync t =>
    exact frame _ rfl rfl rfl (by intro _ _ _ h; cases h) (by intro _ h; cases h)
  | tableDelete r t val =>
    exact frame _ rfl rfl rfl (by intro _ _ _ h; cases h) (by intro _ h; cases h)
  | logTruncate f | logDelete f | logReuse f =>
    all_goals
      have hc' : checkDrop s f = none := hc
      show PosI _ (dropLog s f)
      unfold dropLog
      cases hfl : findLog s.logs f with
      | none =>
        exact frame _ rfl rfl rfl (by intro _ _ _ h; cases h) (by intro _ h; cases h)
      | some lf =>
        simp only
        obtain ⟨k1, first, k2, k3⟩ := checkDrop_facts h f lf hc' hfl
        obtain ⟨hlf, hf⟩ := findLog_some hfl
        refine ⟨?_, ?_, ?_⟩
        · intro id f' ws' a ha
          rw [getElem?_snoc] at ha
          by_cases hal : a < j.length
          · simp only [hal, if_true] at ha
            obtain ⟨p1, p2, p3⟩ := hp.app id f' ws' a ha
            refine ⟨p1, p2, ?_⟩
            intro hlt0
            have hlt : s.synced < id := hlt0
            have hcur := p3 hlt
            by_cases hcf : s.cur = some f
            · -- the current file is reclaimed: then everything is synced, contradiction
              exfalso
              obtain ⟨fb, g1, g2, g3, g4, g5, g6, g7⟩ := h.log.block lf hlf
              have := (g6 (by rw [hf]; exact hcf.symm)).1
              have hfb : fb = s.cleaned + 1 := by
                have a0 := g4 0 g2
                have b0 := k3 0 g2
                rw [a0] at b0
                simp only [Option.some.injEq, Prod.mk.injEq] at b0
                omega
              have hds := h.ctl.ds
              have hdb := le_busyOf s.done s.wr
              omega
            · simp only [hcf, if_false]; exact hcur
          · simp only [hal, if_false] at ha
            by_cases hae : a = j.length
            · simp [hae] at ha
            · simp [hae] at ha
        · intro id h1 h2
          obtain ⟨a, f', ws', ha⟩ := hp.all id h1 h2
          have hal : a < j.length := by
            rcases List.getElem?_eq_some_iff.mp ha with ⟨h', _⟩; exact h'
          exact ⟨a, f', ws', getElem?_snoc_left _ _ _ _ ha⟩
        · intro id
          rw [SyncedAt.snoc, ← hp.syn id]
          constructor
          · rintro (h' | ⟨f', ws', a, he, _⟩)
            · exact h'
            · cases he
          · intro h'; exact Or.inl h'

theorem PosI.journal [DecidableEq V] (t0 : Tbl Loc V) (j : Journal V)
    (ha : acceptsFrom (St.init t0) j = true) : PosI j (stateOf t0 j) := by
  induction j using list_snoc_induction with
  | nil => exact PosI.nil t0
  | snoc j e ih =>
    rw [acceptsFrom_append] at ha
    simp only [Bool.and_eq_true, acceptsFrom, Option.isNone_iff_eq_none] at ha
    have hI := Inv.stateFrom j _ (Inv.init t0) ha.1
    have := (ih ha.1).step hI e ha.2.1
    unfold stateOf at this ⊢
    rw [stateFrom_append]
    exact this

/-- An accepted journal is accepted up to any event, and that event passes the check. -/
theorem accepts_at [DecidableEq V] (j : Journal V) (h : accepts j = true) (i : Nat) (e : Ev V)
    (hi : j[i]? = some e) :
    accepts (j.take i) = true ∧ check (stateOf (fun _ => none) (j.take i)) e = none := by
  have hlt : i < j.length := by
    rcases List.getElem?_eq_some_iff.mp hi with ⟨h', _⟩; exact h'
  have hsplit : j = j.take i ++ e :: j.drop (i + 1) := by
    have : j.drop i = e :: j.drop (i + 1) := by
      rw [List.drop_eq_getElem_cons hlt]
      congr 1
      rcases List.getElem?_eq_some_iff.mp hi with ⟨_, h'⟩; exact h'
    rw [← this, List.take_append_drop]
  unfold accepts at h ⊢
  have h' : acceptsFrom (St.init fun _ => none) (j.take i ++ e :: j.drop (i + 1)) = true := by
    rw [← hsplit]; exact h
  clear h
  have h := h'
  rw [acceptsFrom_append] at h
  simp only [Bool.and_eq_true, acceptsFrom, Option.isNone_iff_eq_none] at h
  exact ⟨h.1, h.2.1⟩

end Dur
end Pdb
