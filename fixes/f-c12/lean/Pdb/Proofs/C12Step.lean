/-
C12: every event allowed by the discipline preserves the invariant (table part, control part).
-/
import Pdb.Proofs.C12

set_option linter.unusedSectionVars false
set_option linter.unusedSimpArgs false
set_option linter.unusedVariables false
namespace Pdb
namespace Dur
variable {V : Type}

/-! ### table part -/

theorem busyOf_succ (done wr : Nat) : busyOf done (wr + 1) = done + 1 := by
  simp [busyOf]

theorem busyOf_zero (done : Nat) : busyOf done 0 = done := by
  simp [busyOf]

theorem lastW_cons_ne {β : Type} (k' : Loc) (b : β) (ws : List (Loc × β)) (l : Loc) (h : l ≠ k') :
    lastW ((k', b) :: ws) l = lastW ws l := by
  simp only [lastW]
  have : ¬ k' = l := fun e => h e.symm
  simp [this]

theorem ideal_succ (t0 : Tbl Loc V) (recs : List (Rec Loc V)) (done wr : Nat) (loc : Loc)
    (val : Cell V) (hget : (recOf recs (done + 1))[wr]? = some (loc, val)) :
    ideal t0 recs done (wr + 1) = upd (ideal t0 recs done wr) loc val := by
  unfold ideal
  rw [List.take_add_one, hget, applyRec_append]
  rfl

theorem ideal_end (t0 : Tbl Loc V) (recs : List (Rec Loc V)) (done wr : Nat)
    (hwr : wr = (recOf recs (done + 1)).length) (hlt : done < recs.length) :
    ideal t0 recs (done + 1) 0 = ideal t0 recs done wr := by
  unfold ideal
  rw [hwr, List.take_length, tablesAfter_succ t0 recs done hlt]
  simp [applyRec]

theorem ideal_zero (t0 : Tbl Loc V) (recs : List (Rec Loc V)) (done : Nat) :
    ideal t0 recs done 0 = tablesAfter t0 recs done := by
  unfold ideal
  simp [applyRec]

/-- A store of the next after-image: nothing becomes pending. -/
theorem Pend.of_write {recs : List (Rec Loc V)} {done wr hz : Nat} {l loc : Loc} {val : Cell V}
    (hget : (recOf recs (done + 1))[wr]? = some (loc, val)) (hne : l ≠ loc)
    (h : Pend recs done wr hz l) : Pend recs done (wr + 1) hz l := by
  rcases h with ⟨h1, h2⟩ | h
  · left
    refine ⟨h1, ?_⟩
    have hlt : wr < (recOf recs (done + 1)).length := by
      rcases List.getElem?_eq_some_iff.mp hget with ⟨h', _⟩; exact h'
    have hd : (recOf recs (done + 1)).drop wr = (loc, val) :: (recOf recs (done + 1)).drop (wr + 1) := by
      rw [List.drop_eq_getElem_cons hlt]
      congr 1
      rcases List.getElem?_eq_some_iff.mp hget with ⟨_, h'⟩; exact h'
    rw [hd, lastW_cons_ne _ _ _ _ hne] at h2
    exact h2
  · right; exact h

theorem Pend.of_end {recs : List (Rec Loc V)} {done wr hz : Nat} {l : Loc}
    (hwr : wr = (recOf recs (done + 1)).length)
    (h : Pend recs done wr hz l) : Pend recs (done + 1) 0 hz l := by
  rcases h with ⟨_, h2⟩ | ⟨r, r1, r2, r3⟩
  · rw [hwr, List.drop_length] at h2
    exact absurd rfl h2
  · by_cases e : r = done + 1 + 1
    · left; subst e; exact ⟨r2, by simpa using r3⟩
    · right; exact ⟨r, by omega, r2, r3⟩

theorem TblI.tableSync {t0 vol dur : Tbl Loc V} {recs : List (Rec Loc V)} {done wr cleaned hz : Nat}
    {dirty : List (Nat × Nat)} (h : TblI t0 vol dur recs done wr cleaned dirty hz) (t : Nat) :
    TblI t0 vol (fun l => if l.file = t then vol l else dur l) recs done wr cleaned
      (dirty.filter (fun d => d.1 ≠ t)) hz := by
  refine ⟨h.hvol, ?_, ?_⟩
  · intro l hl
    by_cases e : l.file = t
    · simp [e]
    · simp only [e, if_false]
      apply h.hdur
      intro d hd hdf r h1 h2
      refine hl d (List.mem_filter.mpr ⟨hd, ?_⟩) hdf r h1 h2
      simp [hdf, e]
  · intro d hd
    exact h.hdirty d (List.mem_filter.mp hd).1

theorem TblI.tableWrite {t0 vol dur : Tbl Loc V} {recs : List (Rec Loc V)}
    {done wr cleaned synced hz : Nat} {dirty : List (Nat × Nat)}
    (h : TblI t0 vol dur recs done wr cleaned dirty hz) (hc : CtlI recs synced cleaned done wr hz)
    (loc : Loc) (val : Cell V) (hget : (recOf recs (done + 1))[wr]? = some (loc, val)) :
    TblI t0 (upd vol loc val) dur recs done (wr + 1) cleaned
      (if dirty.any (fun d => d.1 = loc.file) then dirty else dirty ++ [(loc.file, done + 1)]) hz := by
  have hmem : (loc, val) ∈ recOf recs (done + 1) := List.mem_of_getElem? hget
  have hbusy : busyOf done wr ≤ done + 1 := busyOf_le done wr
  refine ⟨?_, ?_, ?_⟩
  · intro l hl
    rw [ideal_succ t0 recs done wr loc val hget]
    by_cases e : l = loc
    · subst e; simp
    · rw [upd_other _ _ _ _ e, upd_other _ _ _ _ e]
      exact h.hvol l (fun hp => hl (hp.of_write hget e))
  · intro l hl
    rw [busyOf_succ] at hl
    by_cases e : l = loc
    · subst e
      exfalso
      have hex : ∃ d, d ∈ (if dirty.any (fun d => d.1 = l.file) then dirty
          else dirty ++ [(l.file, done + 1)]) ∧ d.1 = l.file ∧ d.2 ≤ done + 1 := by
        by_cases hany : dirty.any (fun d => d.1 = l.file) = true
        · rw [List.any_eq_true] at hany
          obtain ⟨d, hd, hdf⟩ := hany
          have hany' : dirty.any (fun d => d.1 = l.file) = true :=
            List.any_eq_true.mpr ⟨d, hd, hdf⟩
          refine ⟨d, ?_, by simpa using hdf, Nat.le_trans (h.hdirty d hd).2 hbusy⟩
          rw [if_pos hany']
          exact hd
        · refine ⟨(l.file, done + 1), ?_, rfl, Nat.le_refl _⟩
          rw [if_neg hany]
          simp
      obtain ⟨d, hd, hdf, hd2⟩ := hex
      exact lastW_mem _ _ _ hmem (hl d hd hdf (done + 1) hd2 (Nat.le_refl _))
    · rw [upd_other _ _ _ _ e]
      apply h.hdur
      intro d hd hdf r h1 h2
      refine hl d ?_ hdf r h1 (Nat.le_trans h2 hbusy)
      split
      · exact hd
      · exact List.mem_append_left _ hd
  · intro d hd
    rw [busyOf_succ]
    have hd' : d ∈ dirty ∨ d = (loc.file, done + 1) := by
      split at hd
      · exact Or.inl hd
      · rcases List.mem_append.mp hd with hd | hd
        · exact Or.inl hd
        · exact Or.inr (by simpa using hd)
    rcases hd' with hd' | hd'
    · exact ⟨(h.hdirty d hd').1, Nat.le_trans (h.hdirty d hd').2 hbusy⟩
    · subst hd'
      have := hc.cd
      exact ⟨by simp only; omega, Nat.le_refl _⟩

/-- The unlink of table file `t` on behalf of the record being applied: the store of the marker
    image followed by "everything of file t is durable". -/
theorem TblI.tableDelete {t0 vol dur : Tbl Loc V} {recs : List (Rec Loc V)}
    {done wr cleaned synced hz : Nat} {dirty : List (Nat × Nat)}
    (h : TblI t0 vol dur recs done wr cleaned dirty hz) (hc : CtlI recs synced cleaned done wr hz)
    (t : Nat) (val : Cell V) (hget : (recOf recs (done + 1))[wr]? = some (dropLoc t, val)) :
    TblI t0 (upd vol (dropLoc t) val)
      (fun l => if l.file = t then upd vol (dropLoc t) val l else dur l) recs done (wr + 1) cleaned
      (dirty.filter (fun d => d.1 ≠ t)) hz := by
  have h1 := (h.tableWrite hc (dropLoc t) val hget).tableSync t
  have hfil : (if dirty.any (fun d => d.1 = (dropLoc t).file) then dirty
      else dirty ++ [((dropLoc t).file, done + 1)]).filter (fun d => d.1 ≠ t) =
      dirty.filter (fun d => d.1 ≠ t) := by
    split
    · rfl
    · rw [List.filter_append]
      simp [dropLoc]
  rw [hfil] at h1
  refine ⟨h1.hvol, h1.hdur, ?_⟩
  intro d hd
  have hd' := List.mem_filter.mp hd
  have hbusy : busyOf done wr ≤ done + 1 := busyOf_le done wr
  rw [busyOf_succ]
  exact ⟨(h.hdirty d hd'.1).1, Nat.le_trans (h.hdirty d hd'.1).2 hbusy⟩

theorem TblI.enactEnd {t0 vol dur : Tbl Loc V} {recs : List (Rec Loc V)} {done wr cleaned hz : Nat}
    {dirty : List (Nat × Nat)} (h : TblI t0 vol dur recs done wr cleaned dirty hz)
    (hwr : wr = (recOf recs (done + 1)).length) (hlt : done < recs.length) :
    TblI t0 vol dur recs (done + 1) 0 cleaned dirty hz := by
  have hbusy : busyOf done wr ≤ done + 1 := busyOf_le done wr
  refine ⟨?_, ?_, ?_⟩
  · intro l hl
    rw [ideal_end t0 recs done wr hwr hlt]
    exact h.hvol l (fun hp => hl (hp.of_end hwr))
  · intro l hl
    rw [busyOf_zero] at hl
    apply h.hdur
    intro d hd hdf r h1 h2
    exact hl d hd hdf r h1 (Nat.le_trans h2 hbusy)
  · intro d hd
    rw [busyOf_zero]
    exact ⟨(h.hdirty d hd).1, Nat.le_trans (h.hdirty d hd).2 hbusy⟩

theorem CtlI.done_le {recs : List (Rec Loc V)} {synced cleaned done wr hz : Nat}
    (hc : CtlI recs synced cleaned done wr hz) : done ≤ recs.length :=
  Nat.le_trans (Nat.le_trans (le_busyOf done wr) hc.ds) hc.sn

theorem TblI.logAppend {t0 vol dur : Tbl Loc V} {recs : List (Rec Loc V)}
    {done wr cleaned synced hz : Nat} {dirty : List (Nat × Nat)}
    (h : TblI t0 vol dur recs done wr cleaned dirty hz) (hc : CtlI recs synced cleaned done wr hz)
    (ws : Rec Loc V) : TblI t0 vol dur (recs ++ [ws]) done wr cleaned dirty hz := by
  have hbn : busyOf done wr ≤ recs.length := Nat.le_trans hc.ds hc.sn
  have hhz : hz ≤ recs.length := Nat.le_trans hc.hs hc.sn
  refine ⟨?_, ?_, h.hdirty⟩
  · intro l hl
    have hid : ideal t0 (recs ++ [ws]) done wr = ideal t0 recs done wr := by
      unfold ideal
      rw [tablesAfter_append t0 recs ws done hc.done_le]
      by_cases hw : wr = 0
      · rw [hw]; simp
      · have : done + 1 ≤ recs.length := by
          have : busyOf done wr = done + 1 := by simp [busyOf, hw]
          omega
        rw [recOf_append_le recs ws (done + 1) this (by omega)]
    rw [hid]
    apply h.hvol l
    intro hp
    apply hl
    rcases hp with ⟨p1, p2⟩ | ⟨r, r1, r2, r3⟩
    · left
      refine ⟨p1, ?_⟩
      rw [recOf_append_le recs ws (done + 1) (by omega) (by omega)]
      exact p2
    · right
      refine ⟨r, r1, r2, ?_⟩
      rw [recOf_append_le recs ws r (by omega) (by omega)]
      exact r3
  · intro l hl
    apply h.hdur
    intro d hd hdf r h1 h2
    have := hl d hd hdf r h1 h2
    have hpos : 1 ≤ r := by have := (h.hdirty d hd).1; omega
    rwa [recOf_append_le recs ws r (by omega) hpos] at this

theorem TblI.clean {t0 vol dur : Tbl Loc V} {recs : List (Rec Loc V)} {done wr cleaned hz : Nat}
    {dirty : List (Nat × Nat)} (h : TblI t0 vol dur recs done wr cleaned dirty hz) (c' : Nat)
    (hd : ∀ d ∈ dirty, c' < d.2) : TblI t0 vol dur recs done wr c' dirty hz :=
  ⟨h.hvol, h.hdur, fun d hdm => ⟨hd d hdm, (h.hdirty d hdm).2⟩⟩

/-! ### control part -/

theorem CtlI.tableWrite {recs : List (Rec Loc V)} {synced cleaned done wr hz : Nat}
    (hc : CtlI recs synced cleaned done wr hz) (hs : done + 1 ≤ synced)
    (x : Loc × Cell V) (hget : (recOf recs (done + 1))[wr]? = some x) :
    CtlI recs synced cleaned done (wr + 1) hz := by
  refine ⟨hc.cd, by rw [busyOf_succ]; exact hs, hc.sn, ?_, hc.hs⟩
  rcases List.getElem?_eq_some_iff.mp hget with ⟨h', _⟩
  omega

theorem CtlI.enactEnd {recs : List (Rec Loc V)} {synced cleaned done wr hz : Nat}
    (hc : CtlI recs synced cleaned done wr hz) (hs : done + 1 ≤ synced) :
    CtlI recs synced cleaned (done + 1) 0 hz := by
  refine ⟨by have := hc.cd; omega, by rw [busyOf_zero]; exact hs, hc.sn, by simp, hc.hs⟩

theorem CtlI.logAppend {recs : List (Rec Loc V)} {synced cleaned done wr hz : Nat}
    (hc : CtlI recs synced cleaned done wr hz) (ws : Rec Loc V) :
    CtlI (recs ++ [ws]) synced cleaned done wr hz := by
  refine ⟨hc.cd, hc.ds, by have := hc.sn; simp; omega, ?_, hc.hs⟩
  by_cases hw : wr = 0
  · simp [hw]
  · have hb : busyOf done wr = done + 1 := by simp [busyOf, hw]
    have := hc.ds
    have := hc.sn
    rw [recOf_append_le recs ws (done + 1) (by omega) (by omega)]
    exact hc.wrl

theorem CtlI.logSync {recs : List (Rec Loc V)} {synced cleaned done wr hz : Nat}
    (hc : CtlI recs synced cleaned done wr hz) (p : Prop) [Decidable p] :
    CtlI recs (if p then recs.length else synced) cleaned done wr hz := by
  refine ⟨hc.cd, ?_, ?_, hc.wrl, ?_⟩
  rotate_left 2
  · split
    · exact Nat.le_trans hc.hs hc.sn
    · exact hc.hs
  · split
    · exact Nat.le_trans hc.ds hc.sn
    · exact hc.ds
  · split
    · exact Nat.le_refl _
    · exact hc.sn

theorem CtlI.clean {recs : List (Rec Loc V)} {synced cleaned done wr hz : Nat}
    (hc : CtlI recs synced cleaned done wr hz) (c' : Nat) (h : c' ≤ done) :
    CtlI recs synced c' done wr hz :=
  ⟨h, hc.ds, hc.sn, hc.wrl, hc.hs⟩

end Dur
end Pdb
