/-
C12: the abstract worker programs (journals generated from P1 histories, `Dur.genRun`) satisfy
the discipline, and their records are the P1 records, so that `tablesAfter` is P1's `spec`.
-/
import Pdb.Proofs.C12Same

set_option linter.unusedSectionVars false
set_option linter.unusedSimpArgs false
set_option linter.unusedVariables false
namespace Pdb
namespace Dur
variable {V : Type}

/-! ### chunks of events -/

/-- Enacting the next after-image of the record being applied (a store, or the unlink of a table
    file) is allowed once the record is synced; it only advances `wr` (and the tables). -/
theorem imgEv_ok [DecidableEq V] (s : St V) (x : Loc × Cell V)
    (hget : (recOf s.recs (s.done + 1))[s.wr]? = some (x.1, x.2)) (hs : s.done + 1 ≤ s.synced) :
    check s (imgEv (s.done + 1) x) = none ∧
    (step s (imgEv (s.done + 1) x)).wr = s.wr + 1 ∧
    (step s (imgEv (s.done + 1) x)).done = s.done ∧
    (step s (imgEv (s.done + 1) x)).recs = s.recs ∧
    (step s (imgEv (s.done + 1) x)).synced = s.synced ∧
    (step s (imgEv (s.done + 1) x)).logs = s.logs ∧
    (step s (imgEv (s.done + 1) x)).cur = s.cur ∧
    (step s (imgEv (s.done + 1) x)).cleaned = s.cleaned ∧
    (step s (imgEv (s.done + 1) x)).hz = s.hz := by
  have hns : ¬ s.synced < s.done + 1 := by omega
  unfold imgEv
  by_cases hd : x.1 = dropLoc x.1.file ∧ x.2.isSome = true
  · rw [if_pos hd]
    refine ⟨?_, rfl, rfl, rfl, rfl, rfl, rfl, rfl, rfl⟩
    have hget' : (recOf s.recs (s.done + 1))[s.wr]? = some (dropLoc x.1.file, x.2) := by
      rw [hget, ← hd.1]
    have hnn : ¬ x.2.isNone = true := by
      cases hx : x.2 with
      | none => rw [hx] at hd; simp at hd
      | some _ => simp
    simp [check, hget', hns, hnn]
  · rw [if_neg hd]
    refine ⟨?_, rfl, rfl, rfl, rfl, rfl, rfl, rfl, rfl⟩
    simp only [check, ne_eq, not_true_eq_false, if_false, hget, hns]

/-- The after-images of one record, from after-image `pre.length` on, are accepted one after the
    other. -/
theorem writes_chunk [DecidableEq V] (r : Rec Loc V) :
    ∀ (rest pre : Rec Loc V) (s : St V), r = pre ++ rest → s.wr = pre.length →
      recOf s.recs (s.done + 1) = r → s.done + 1 ≤ s.synced →
      acceptsFrom s (rest.map (imgEv (s.done + 1))) = true ∧
      (stateFrom s (rest.map (imgEv (s.done + 1)))).wr = r.length ∧
      (stateFrom s (rest.map (imgEv (s.done + 1)))).done = s.done ∧
      (stateFrom s (rest.map (imgEv (s.done + 1)))).recs = s.recs ∧
      (stateFrom s (rest.map (imgEv (s.done + 1)))).synced = s.synced ∧
      (stateFrom s (rest.map (imgEv (s.done + 1)))).logs = s.logs ∧
      (stateFrom s (rest.map (imgEv (s.done + 1)))).cur = s.cur ∧
      (stateFrom s (rest.map (imgEv (s.done + 1)))).cleaned = s.cleaned ∧
      (stateFrom s (rest.map (imgEv (s.done + 1)))).hz = s.hz := by
  intro rest
  induction rest with
  | nil =>
    intro pre s hr hw _ _
    simp only [List.map_nil, acceptsFrom, stateFrom, List.foldl_nil, true_and]
    rw [hw, hr]; simp
  | cons x rest ih =>
    intro pre s hr hw hrec hs
    have hget : (recOf s.recs (s.done + 1))[s.wr]? = some (x.1, x.2) := by
      rw [hrec, hr, hw]
      simp
    obtain ⟨hchk, e1, e2, e3, e4, e5, e6, e7, e8⟩ := imgEv_ok s x hget hs
    have := ih (pre ++ [x]) (step s (imgEv (s.done + 1) x))
      (by rw [hr]; simp) (by rw [e1, hw]; simp) (by rw [e2, e3]; exact hrec) (by rw [e2, e4]; exact hs)
    rw [e2, e3, e4, e5, e6, e7, e8] at this
    simp only [List.map_cons, acceptsFrom, hchk, Option.isNone_none, Bool.true_and, stateFrom,
      List.foldl_cons]
    exact this

theorem filter_filter_dirty (dirty : List (Nat × Nat)) (t : Nat) (ts : List Nat) :
    (dirty.filter (fun d => d.1 ≠ t)).filter (fun d => !ts.contains d.1) =
      dirty.filter (fun d => !(t :: ts).contains d.1) := by
  rw [List.filter_filter]
  congr 1
  funext d
  simp only [List.contains_cons, Bool.not_or, ne_eq, decide_not]
  by_cases e : d.1 = t
  · simp [e]
  · have : (d.1 == t) = false := by simpa using e
    simp [e, this, Bool.and_comm]

/-- msyncs are always allowed; afterwards the synced files are clean. -/
theorem syncs_chunk [DecidableEq V] : ∀ (ts : List Nat) (s : St V),
    acceptsFrom s (ts.map Ev.tableSync) = true ∧
    (stateFrom s (ts.map Ev.tableSync)).dirty = s.dirty.filter (fun d => !ts.contains d.1) ∧
    (stateFrom s (ts.map Ev.tableSync)).logs = s.logs ∧
    (stateFrom s (ts.map Ev.tableSync)).recs = s.recs ∧
    (stateFrom s (ts.map Ev.tableSync)).cur = s.cur ∧
    (stateFrom s (ts.map Ev.tableSync)).synced = s.synced ∧
    (stateFrom s (ts.map Ev.tableSync)).cleaned = s.cleaned ∧
    (stateFrom s (ts.map Ev.tableSync)).done = s.done ∧
    (stateFrom s (ts.map Ev.tableSync)).wr = s.wr := by
  intro ts
  induction ts with
  | nil =>
    intro s
    refine ⟨rfl, ?_, rfl, rfl, rfl, rfl, rfl, rfl, rfl⟩
    exact (List.filter_eq_self.mpr (by simp)).symm
  | cons t ts ih =>
    intro s
    obtain ⟨a, b, c⟩ := ih (step s (Ev.tableSync t))
    simp only [List.map_cons, acceptsFrom, check, Option.isNone_none, Bool.true_and, stateFrom,
      List.foldl_cons]
    refine ⟨a, ?_, c⟩
    have : (stateFrom (step s (Ev.tableSync t)) (ts.map Ev.tableSync)).dirty =
        (s.dirty.filter (fun d => d.1 ≠ t)).filter (fun d => !ts.contains d.1) := b
    rw [← filter_filter_dirty]
    exact this

theorem dirty_all_synced (dirty : List (Nat × Nat)) :
    dirty.filter (fun d => !(dirty.map (fun d => d.1)).contains d.1) = [] := by
  rw [List.filter_eq_nil_iff]
  intro d hd
  simp only [Bool.not_eq_true', Bool.not_eq_false]
  simp only [List.contains_eq_mem, List.mem_map, decide_eq_true_eq]
  exact ⟨d, hd, rfl⟩

/-! ### the generator invariant -/

structure GI (kind : Loc → Kind) (x : GenSt V) [DecidableEq V] : Prop where
  acc : acceptsFrom (St.init (fun _ => none)) x.j = true
  st : x.g = stateFrom (St.init (fun _ => none)) x.j
  pinv : Pdb.Inv kind x.p
  done : x.g.done = x.p.nEnacted
  wr : x.g.wr = 0
  synced : x.g.synced = x.p.nEnacted + x.p.flushed
  recs : x.g.recs.drop x.p.nEnacted = x.p.logged
  files : ∀ lf ∈ x.g.logs, lf.file ≤ x.g.recs.length
  curle : ∀ f, x.g.cur = some f → f ≤ x.g.recs.length
  curnone : x.g.cur = none → x.g.synced = x.g.recs.length
  specs : ∀ n, n ≤ x.g.recs.length →
    tablesAfter (fun _ => none) x.g.recs n = spec kind (x.p.hist.take n)

theorem GI.inv [DecidableEq V] {kind : Loc → Kind} {x : GenSt V} (h : GI kind x) :
    Inv (fun _ => none) x.g := by
  rw [h.st]; exact Inv.stateFrom x.j _ (Inv.init _) h.acc

theorem GI.len [DecidableEq V] {kind : Loc → Kind} {x : GenSt V} (h : GI kind x) :
    x.g.recs.length = x.p.nEnacted + x.p.logged.length := by
  have h1 := h.inv.ctl.done_le
  rw [h.done] at h1
  have := congrArg List.length h.recs
  rw [List.length_drop] at this
  omega

/-- Common part of every step: an accepted chunk extends the journal. -/
theorem GI.extend [DecidableEq V] {kind : Loc → Kind} {x : GenSt V} (h : GI kind x)
    (evs : Journal V) (ha : acceptsFrom x.g evs = true) :
    acceptsFrom (St.init (fun _ => none)) (x.j ++ evs) = true ∧
    stateFrom x.g evs = stateFrom (St.init (fun _ => none)) (x.j ++ evs) := by
  constructor
  · rw [acceptsFrom_append, h.acc, ← h.st, ha]; rfl
  · rw [stateFrom_append, ← h.st]

theorem GI.init [DecidableEq V] (kind : Loc → Kind) :
    GI kind ({ p := (Pdb.St.init : Pdb.St Loc V), g := St.init (fun _ => none), j := [] } : GenSt V) := by
  refine ⟨rfl, rfl, Pdb.Inv.init kind, rfl, rfl, rfl, rfl, ?_, ?_, ?_, ?_⟩
  · intro lf hlf; simp [St.init] at hlf
  · intro f hf; simp [St.init] at hf
  · intro _; rfl
  · intro n hn
    simp only [St.init, List.length_nil, Nat.le_zero_eq] at hn
    subst hn
    simp [tablesAfter, applyRecs, spec, applyOps, Pdb.St.init]

/-! ### one generator step per pipeline action -/

theorem drop_succ_of_cons {α : Type} (l : List α) (n : Nat) (r : α) (rs : List α)
    (h : l.drop n = r :: rs) : l.drop (n + 1) = rs ∧ l[n]? = some r := by
  have hlt : n < l.length := by
    have := congrArg List.length h
    rw [List.length_drop] at this
    simp at this; omega
  rw [List.drop_eq_getElem_cons hlt] at h
  simp only [List.cons.injEq] at h
  exact ⟨h.2, by rw [List.getElem?_eq_getElem hlt, h.1]⟩

theorem GI.process [DecidableEq V] {kind : Loc → Kind} {x : GenSt V} (h : GI kind x) :
    GI kind (genNext kind x .process) := by
  have hI := h.inv
  have hlen := h.len
  unfold genNext
  cases hq : x.p.queue with
  | nil =>
    have hp : Pdb.step kind x.p .process = x.p := by
      simp only [Pdb.step, Pdb.process, hq]
    simp only [genStep, hq, hp, List.append_nil, stateFrom, List.foldl_nil]
    exact h
  | cons c q =>
    have hp : Pdb.step kind x.p .process =
        { x.p with queue := q, logged := x.p.logged ++ [planRec kind (view x.p) c.ops],
                   overlay := c.ops.foldl (cleanOp c.id) x.p.overlay } := by
      simp only [Pdb.step, Pdb.process, hq]
    have hpinv : Pdb.Inv kind (Pdb.step kind x.p .process) := h.pinv.step _
    simp only [genStep, hq]
    -- the append is allowed
    have hsn := hI.ctl.sn
    have hchk : check x.g (Ev.logAppend (x.g.recs.length + 1) (appendFile x.g)
        (planRec kind (view x.p) c.ops)) = none := by
      simp only [check, ne_eq, not_true_eq_false, if_false]
      unfold appendFile
      by_cases hlt : x.g.synced < x.g.recs.length
      · simp only [hlt, if_true]
        cases hc : x.g.cur with
        | none => have := h.curnone hc; omega
        | some f => simp
      · simp only [hlt, if_false]
        by_cases hc : x.g.cur = some (x.g.recs.length + 1)
        · simp [hc]
        · simp only [hc, if_false]
          have : x.g.logs.any (fun lf => decide (lf.file = x.g.recs.length + 1)) = false := by
            rw [List.any_eq_false]
            intro lf hlf
            have := h.files lf hlf
            simp only [decide_eq_true_eq]; omega
          simp [this]
    have hacc : acceptsFrom x.g [Ev.logAppend (x.g.recs.length + 1) (appendFile x.g)
        (planRec kind (view x.p) c.ops)] = true := by
      simp [acceptsFrom, hchk]
    obtain ⟨e1, e2⟩ := h.extend _ hacc
    have hfle : appendFile x.g ≤ x.g.recs.length + 1 := by
      unfold appendFile
      split
      · cases hc : x.g.cur with
        | none => simp
        | some f => have := h.curle f hc; simp; omega
      · exact Nat.le_refl _
    -- the view is the state after all appended records
    have hview : view x.p = tablesAfter (fun _ => none) x.g.recs x.g.recs.length := by
      rw [h.pinv.view_eq, h.specs _ (Nat.le_refl _), hlen]
    have hhist := h.pinv.queue
    rw [hq] at hhist
    simp only [List.map_cons] at hhist
    have hdt := drop_cons_take x.p.hist _ _ _ hhist.symm
    rw [hp]
    refine ⟨e1, e2, by rw [← hp]; exact hpinv, h.done, h.wr, h.synced, ?_, ?_, ?_, ?_, ?_⟩
    · show (x.g.recs ++ [planRec kind (view x.p) c.ops]).drop x.p.nEnacted = _
      have : x.p.nEnacted ≤ x.g.recs.length := by omega
      rw [List.drop_append_of_le_length this, h.recs]
    · intro lf hlf
      show lf.file ≤ (x.g.recs ++ [planRec kind (view x.p) c.ops]).length
      simp only [List.length_append, List.length_cons, List.length_nil]
      have hlf' : lf ∈ logsAppend x.g.logs (appendFile x.g)
          (x.g.recs.length + 1, planRec kind (view x.p) c.ops) := hlf
      unfold logsAppend at hlf'
      split at hlf'
      · obtain ⟨lf0, h0, rfl⟩ := List.mem_map.mp hlf'
        have := h.files lf0 h0
        split <;> (try simp only) <;> omega
      · rcases List.mem_append.mp hlf' with h0 | h0
        · have := h.files lf h0; omega
        · simp only [List.mem_singleton] at h0
          rw [h0]; exact hfle
    · intro f hf
      show f ≤ (x.g.recs ++ [planRec kind (view x.p) c.ops]).length
      have : some (appendFile x.g) = some f := hf
      simp only [List.length_append, List.length_cons, List.length_nil]
      rw [← Option.some.inj this]; exact hfle
    · intro hc
      have : some (appendFile x.g) = none := hc
      exact absurd this (by simp)
    · intro n hn
      show tablesAfter (fun _ => none) (x.g.recs ++ [planRec kind (view x.p) c.ops]) n = _
      have hn' : n ≤ x.g.recs.length + 1 := by
        have : n ≤ (x.g.recs ++ [planRec kind (view x.p) c.ops]).length := hn
        simpa using this
      by_cases hle : n ≤ x.g.recs.length
      · rw [tablesAfter_append _ _ _ _ hle]
        exact h.specs n hle
      · have hn'' : n = x.g.recs.length + 1 := by omega
        subst hn''
        have hl : x.g.recs.length < (x.g.recs ++ [planRec kind (view x.p) c.ops]).length := by simp
        rw [tablesAfter_succ _ _ _ hl, recOf_append_new,
          tablesAfter_append _ _ _ _ (Nat.le_refl _), ← hview, planRec_apply, hlen, hdt.1,
          spec_snoc, h.pinv.view_eq]

theorem GI.flush [DecidableEq V] {kind : Loc → Kind} {x : GenSt V} (h : GI kind x) :
    GI kind (genNext kind x .flush) := by
  have hlen := h.len
  have hpinv : Pdb.Inv kind (Pdb.step kind x.p .flush) := h.pinv.step _
  unfold genNext
  have hp : Pdb.step kind x.p .flush = { x.p with flushed := x.p.logged.length } := rfl
  cases hc : x.g.cur with
  | none =>
    simp only [genStep, hc, List.append_nil, stateFrom, List.foldl_nil]
    have := h.curnone hc
    refine ⟨h.acc, h.st, hpinv, h.done, h.wr, ?_, h.recs, h.files, h.curle, h.curnone, h.specs⟩
    rw [hp]; simp only; omega
  | some f =>
    simp only [genStep, hc]
    have hacc : acceptsFrom x.g [Ev.logSync f] = true := by simp [acceptsFrom, check]
    obtain ⟨e1, e2⟩ := h.extend _ hacc
    refine ⟨e1, e2, hpinv, h.done, h.wr, ?_, h.recs, ?_, h.curle, ?_, h.specs⟩
    · show (if x.g.cur = some f then x.g.recs.length else x.g.synced) = _
      rw [hp]; simp only [hc, if_true]; omega
    · intro lf hlf
      have hlf' : lf ∈ logsSync x.g.logs f := hlf
      unfold logsSync at hlf'
      obtain ⟨lf0, h0, rfl⟩ := List.mem_map.mp hlf'
      have := h.files lf0 h0
      show _ ≤ x.g.recs.length
      split <;> (try simp only) <;> omega
    · intro hcn
      have : x.g.cur = none := hcn
      rw [hc] at this; exact absurd this (by simp)

theorem GI.enact [DecidableEq V] {kind : Loc → Kind} {x : GenSt V} (h : GI kind x) :
    GI kind (genNext kind x .enact) := by
  have hpinv : Pdb.Inv kind (Pdb.step kind x.p .enact) := h.pinv.step _
  unfold genNext
  cases hf : x.p.flushed with
  | zero =>
    have hp : Pdb.step kind x.p .enact = x.p := by simp only [Pdb.step, enactOne, hf]
    simp only [genStep, hf, hp, List.append_nil, stateFrom, List.foldl_nil]
    exact h
  | succ f =>
    cases hl : x.p.logged with
    | nil =>
      have hp : Pdb.step kind x.p .enact = x.p := by simp only [Pdb.step, enactOne, hf, hl]
      simp only [genStep, hf, hl, hp, List.append_nil, stateFrom, List.foldl_nil]
      exact h
    | cons r rs =>
      have hp : Pdb.step kind x.p .enact =
          { x.p with tables := applyRec x.p.tables r, logged := rs, flushed := f,
                     nEnacted := x.p.nEnacted + 1 } := by
        simp only [Pdb.step, enactOne, hf, hl]
      simp only [genStep, hf, hl]
      have hrecs := h.recs
      rw [hl] at hrecs
      obtain ⟨hd1, hd2⟩ := drop_succ_of_cons _ _ _ _ hrecs
      have hrec : recOf x.g.recs (x.g.done + 1) = r := by
        unfold recOf
        rw [h.done]
        simp [List.getD_eq_getElem?_getD, hd2]
      have hs : x.g.done + 1 ≤ x.g.synced := by rw [h.synced, h.done, hf]; omega
      obtain ⟨w1, w2, w3, w4, w5, w6, w7, w8, w9⟩ :=
        writes_chunk r r [] x.g (by simp) (by simp [h.wr]) hrec hs
      -- the closing event
      have hchk : check (stateFrom x.g (r.map (imgEv (x.g.done + 1))))
          (Ev.enactEnd (x.g.done + 1)) = none := by
        simp only [check, w2, w3, w4, w5, hrec, ne_eq, not_true_eq_false, if_false]
        have : ¬ x.g.synced < x.g.done + 1 := by omega
        simp [this]
      have hacc : acceptsFrom x.g (r.map (imgEv (x.g.done + 1)) ++
          [Ev.enactEnd (x.g.done + 1)]) = true := by
        rw [acceptsFrom_append, w1]
        simp [acceptsFrom, hchk]
      obtain ⟨e1, e2⟩ := h.extend _ hacc
      -- fields of the state after the chunk
      have hg : stateFrom x.g (r.map (imgEv (x.g.done + 1)) ++
          [Ev.enactEnd (x.g.done + 1)]) =
          { stateFrom x.g (r.map (imgEv (x.g.done + 1))) with
            done := x.g.done + 1, wr := 0 } := by
        rw [stateFrom_append]; rfl
      rw [hp, hg]
      refine ⟨by rw [← hg]; exact e1, by rw [← hg]; exact e2, by rw [← hp]; exact hpinv,
        ?_, rfl, ?_, ?_, ?_, ?_, ?_, ?_⟩
      · show x.g.done + 1 = x.p.nEnacted + 1
        rw [h.done]
      · show (stateFrom x.g _).synced = x.p.nEnacted + 1 + f
        rw [w5, h.synced, hf]; omega
      · show (stateFrom x.g _).recs.drop (x.p.nEnacted + 1) = rs
        rw [w4]; exact hd1
      · show ∀ lf ∈ (stateFrom x.g _).logs, lf.file ≤ (stateFrom x.g _).recs.length
        rw [w4, w6]; exact h.files
      · show ∀ f', (stateFrom x.g _).cur = some f' → f' ≤ (stateFrom x.g _).recs.length
        rw [w4, w7]; exact h.curle
      · show (stateFrom x.g _).cur = none → (stateFrom x.g _).synced = (stateFrom x.g _).recs.length
        rw [w4, w7, w5]; exact h.curnone
      · show ∀ n, n ≤ (stateFrom x.g _).recs.length →
          tablesAfter (fun _ => none) (stateFrom x.g _).recs n = spec kind (x.p.hist.take n)
        rw [w4]; exact h.specs

theorem GI.clean [DecidableEq V] {kind : Loc → Kind} {x : GenSt V} (h : GI kind x) :
    GI kind (genNext kind x .clean) := by
  have hI := h.inv
  unfold genNext
  have hp : Pdb.step kind x.p .clean = x.p := rfl
  have hmm : x.g.dirty.map (fun d => (Ev.tableSync d.1 : Ev V)) =
      (x.g.dirty.map (fun d => d.1)).map (Ev.tableSync : Nat → Ev V) := by
    rw [List.map_map]; rfl
  obtain ⟨m1, m2, m3, m4, m5, m6, m7, m8, m9⟩ := syncs_chunk (x.g.dirty.map (fun d => d.1)) x.g
  rw [dirty_all_synced] at m2
  rw [← hmm] at m1 m2 m3 m4 m5 m6 m7 m8 m9
  rw [hp]
  -- GI for the state after the msyncs only
  have hbase : ∀ (evs : Journal V), evs = x.g.dirty.map (fun d => Ev.tableSync d.1) →
      GI kind { p := x.p, g := stateFrom x.g evs, j := x.j ++ evs } := by
    intro evs he
    subst he
    obtain ⟨e1, e2⟩ := h.extend _ m1
    refine ⟨e1, e2, h.pinv, ?_, ?_, ?_, ?_, ?_, ?_, ?_, ?_⟩
    · show (stateFrom x.g _).done = _
      rw [m8]; exact h.done
    · show (stateFrom x.g _).wr = _
      rw [m9]; exact h.wr
    · show (stateFrom x.g _).synced = _
      rw [m6]; exact h.synced
    · show (stateFrom x.g _).recs.drop _ = _
      rw [m4]; exact h.recs
    · show ∀ lf ∈ (stateFrom x.g _).logs, lf.file ≤ (stateFrom x.g _).recs.length
      rw [m3, m4]; exact h.files
    · show ∀ f', (stateFrom x.g _).cur = some f' → f' ≤ (stateFrom x.g _).recs.length
      rw [m4, m5]; exact h.curle
    · show (stateFrom x.g _).cur = none → (stateFrom x.g _).synced = (stateFrom x.g _).recs.length
      rw [m4, m5, m6]; exact h.curnone
    · show ∀ n, n ≤ (stateFrom x.g _).recs.length →
        tablesAfter (fun _ => none) (stateFrom x.g _).recs n = spec kind (x.p.hist.take n)
      rw [m4]; exact h.specs
  simp only [genStep]
  cases ho : oldestLog x.g with
  | none =>
    simp only [List.append_nil]
    exact hbase _ rfl
  | some lf =>
    by_cases hel : x.g.cleaned + lf.recs.length ≤ x.g.done
    · simp only [hel, if_true]
      -- the oldest file, all its records applied
      have hlf : lf ∈ x.g.logs := List.mem_of_find?_eq_some ho
      have hhead := List.find?_some ho
      simp only [decide_eq_true_eq] at hhead
      obtain ⟨first, g1, g2, g3, g4, g5, g6, g7⟩ := hI.log.block lf hlf
      obtain ⟨y, ys, hy⟩ := List.exists_cons_of_length_pos g2
      have hy1 : y.1 = x.g.cleaned + 1 := by
        rw [hy] at hhead; simpa using hhead
      have hfe : first = x.g.cleaned + 1 := by
        have := g4 0 g2
        rw [hy] at this
        simp only [List.getElem?_cons_zero, Option.some.injEq] at this
        rw [this] at hy1
        simpa using hy1
      have hlen : lf.recs.length = ys.length + 1 := by rw [hy]; rfl
      have hfind : findLog (stateFrom x.g (x.g.dirty.map (fun d => Ev.tableSync d.1))).logs lf.file
          = some lf := by
        rw [m3]; exact findLog_mem hI.log.nodup hlf
      have hchk : check (stateFrom x.g (x.g.dirty.map (fun d => Ev.tableSync d.1)))
          (Ev.logTruncate lf.file) = none := by
        simp only [check, checkDrop, hfind, hy, m7, m8, m2, hy1, ne_eq, not_true_eq_false,
          if_false, List.any_nil, Bool.false_eq_true, List.length_cons]
        have : ¬ x.g.done < x.g.cleaned + (ys.length + 1) := by omega
        simp [this]
      have hacc : acceptsFrom x.g (x.g.dirty.map (fun d => Ev.tableSync d.1) ++
          [Ev.logTruncate lf.file]) = true := by
        rw [acceptsFrom_append, m1]
        simp [acceptsFrom, hchk]
      obtain ⟨e1, e2⟩ := h.extend _ hacc
      have hg : stateFrom x.g (x.g.dirty.map (fun d => Ev.tableSync d.1) ++
          [Ev.logTruncate lf.file]) =
          { stateFrom x.g (x.g.dirty.map (fun d => Ev.tableSync d.1)) with
            logs := logsDrop x.g.logs lf.file,
            cleaned := x.g.cleaned + lf.recs.length,
            cur := if x.g.cur = some lf.file then none else x.g.cur } := by
        rw [stateFrom_append]
        simp only [stateFrom, List.foldl_cons, List.foldl_nil, step, dropLog]
        have hfind' := hfind
        simp only [stateFrom] at hfind'
        rw [hfind']
        have a3 := m3; have a5 := m5; have a7 := m7
        simp only [stateFrom] at a3 a5 a7
        simp only [a3, a5, a7]
      rw [hg]
      refine ⟨by rw [← hg]; exact e1, by rw [← hg]; exact e2, h.pinv, ?_, ?_, ?_, ?_, ?_, ?_, ?_, ?_⟩
      · show (stateFrom x.g _).done = _
        rw [m8]; exact h.done
      · show (stateFrom x.g _).wr = _
        rw [m9]; exact h.wr
      · show (stateFrom x.g _).synced = _
        rw [m6]; exact h.synced
      · show (stateFrom x.g _).recs.drop _ = _
        rw [m4]; exact h.recs
      · show ∀ l ∈ logsDrop x.g.logs lf.file, l.file ≤ (stateFrom x.g _).recs.length
        rw [m4]
        intro l hl
        exact h.files l (List.mem_filter.mp hl).1
      · show ∀ f', (if x.g.cur = some lf.file then none else x.g.cur) = some f' →
          f' ≤ (stateFrom x.g _).recs.length
        rw [m4]
        intro f' hf'
        by_cases hc : x.g.cur = some lf.file
        · simp [hc] at hf'
        · simp only [hc, if_false] at hf'
          exact h.curle f' hf'
      · show (if x.g.cur = some lf.file then none else x.g.cur) = none →
          (stateFrom x.g _).synced = (stateFrom x.g _).recs.length
        rw [m4, m6]
        intro hc'
        by_cases hc : x.g.cur = some lf.file
        · -- the current file is reclaimed: all its records are applied, so everything is synced
          have := (g6 hc.symm).1
          have hds := hI.ctl.ds
          have hsn := hI.ctl.sn
          have hdb := le_busyOf x.g.done x.g.wr
          omega
        · simp only [hc, if_false] at hc'
          exact h.curnone hc'
      · show ∀ n, n ≤ (stateFrom x.g _).recs.length →
          tablesAfter (fun _ => none) (stateFrom x.g _).recs n = spec kind (x.p.hist.take n)
        rw [m4]; exact h.specs
    · simp only [hel, if_false, List.append_nil]
      exact hbase _ rfl

theorem GI.commit [DecidableEq V] {kind : Loc → Kind} {x : GenSt V} (h : GI kind x)
    (tx : List (Op Loc V)) : GI kind (genNext kind x (.commit tx)) := by
  have hpinv : Pdb.Inv kind (Pdb.step kind x.p (.commit tx)) := h.pinv.step _
  have hlenP := h.pinv.len
  have hlen := h.len
  unfold genNext
  simp only [genStep, List.append_nil, stateFrom, List.foldl_nil]
  have hfields : (Pdb.step kind x.p (.commit tx)).nEnacted = x.p.nEnacted ∧
      (Pdb.step kind x.p (.commit tx)).flushed = x.p.flushed ∧
      (Pdb.step kind x.p (.commit tx)).logged = x.p.logged ∧
      ((Pdb.step kind x.p (.commit tx)).hist = x.p.hist ∨
       (Pdb.step kind x.p (.commit tx)).hist = x.p.hist ++ [tx]) := by
    simp only [Pdb.step, Pdb.commit]
    by_cases hv : tx.all (opValid kind)
    · by_cases he : x.p.bgErr <;> simp [hv, he]
    · simp [hv]
  obtain ⟨f1, f2, f3, f4⟩ := hfields
  refine ⟨h.acc, h.st, hpinv, by rw [f1]; exact h.done, h.wr, by rw [f1, f2]; exact h.synced,
    by rw [f1, f3]; exact h.recs, h.files, h.curle, h.curnone, ?_⟩
  intro n hn
  have hn' : n ≤ x.g.recs.length := hn
  rw [h.specs n hn]
  rcases f4 with f4 | f4
  · rw [f4]
  · rw [f4, List.take_append_of_le_length (by omega)]

theorem GI.next [DecidableEq V] {kind : Loc → Kind} {x : GenSt V} (h : GI kind x)
    (a : Action Loc V) (ha : pipelineOnly [a] = true) : GI kind (genNext kind x a) := by
  cases a with
  | commit tx => exact h.commit tx
  | process => exact h.process
  | flush => exact h.flush
  | enact => exact h.enact
  | clean => exact h.clean
  | reindex =>
    have : genNext kind x .reindex = x := by
      unfold genNext
      simp [genStep, Pdb.step, stateFrom]
    rw [this]; exact h
  | reopen => simp [pipelineOnly] at ha
  | crash j n => simp [pipelineOnly] at ha

theorem pipelineOnly_cons (a : Action Loc V) (as : List (Action Loc V))
    (h : pipelineOnly (a :: as) = true) : pipelineOnly [a] = true ∧ pipelineOnly as = true := by
  cases a <;> simp_all [pipelineOnly]

theorem GI.fold [DecidableEq V] {kind : Loc → Kind} (as : List (Action Loc V)) (x : GenSt V)
    (h : GI kind x) (hp : pipelineOnly as = true) : GI kind (as.foldl (genNext kind) x) := by
  induction as generalizing x with
  | nil => exact h
  | cons a as ih =>
    obtain ⟨h1, h2⟩ := pipelineOnly_cons a as hp
    exact ih _ (h.next a h1) h2

theorem GI.run [DecidableEq V] (kind : Loc → Kind) (as : List (Action Loc V))
    (hp : pipelineOnly as = true) : GI kind (genRun kind as : GenSt V) :=
  GI.fold as _ (GI.init kind) hp

theorem genRun_p (kind : Loc → Kind) (as : List (Action Loc V)) :
    (genRun kind as : GenSt V).p = Pdb.run kind Pdb.St.init as := by
  unfold genRun Pdb.run
  have : ∀ (x : GenSt V), (as.foldl (genNext kind) x).p = as.foldl (Pdb.step kind) x.p := by
    induction as with
    | nil => intro x; rfl
    | cons a as ih => intro x; simp only [List.foldl_cons]; rw [ih]; rfl
  rw [this]

/-- Records are only ever appended: the records of a prefix of a journal are a prefix of the
    records of the journal. -/
theorem recs_grow (j : Journal V) (s : St V) : ∃ t, (stateFrom s j).recs = s.recs ++ t := by
  induction j generalizing s with
  | nil => exact ⟨[], by simp [stateFrom]⟩
  | cons e es ih =>
    obtain ⟨t, ht⟩ := ih (step s e)
    have : ∃ u, (step s e).recs = s.recs ++ u := by
      cases e with
      | logAppend r f ws => exact ⟨[ws], rfl⟩
      | logTruncate f => refine ⟨[], ?_⟩; simp only [step, dropLog]; split <;> simp
      | logDelete f => refine ⟨[], ?_⟩; simp only [step, dropLog]; split <;> simp
      | logReuse f => refine ⟨[], ?_⟩; simp only [step, dropLog]; split <;> simp
      | _ => exact ⟨[], by simp [step]⟩
    obtain ⟨u, hu⟩ := this
    refine ⟨u ++ t, ?_⟩
    simp only [stateFrom, List.foldl_cons] at ht ⊢
    rw [ht, hu, List.append_assoc]

theorem tablesAfter_prefix (t0 : Tbl Loc V) (a t : List (Rec Loc V)) (n : Nat) (h : n ≤ a.length) :
    tablesAfter t0 (a ++ t) n = tablesAfter t0 a n := by
  unfold tablesAfter
  rw [List.take_append_of_le_length h]

end Dur
end Pdb
