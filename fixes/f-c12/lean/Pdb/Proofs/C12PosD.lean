/-
C12: the positional reading of D2.  The ghost bookkeeping of the acceptor (`done`, `dirty`, the
content of `logs`) means what it should in terms of positions in the journal: a record counted as
applied has its E event, a table file with a store that no later M / X of that file follows is
in `dirty` (with a record id not above the storing record), a record appended to a log file
that was not reclaimed since sits in that file.
-/
import Pdb.Proofs.C12Pos

set_option linter.unusedSectionVars false
set_option linter.unusedSimpArgs false
set_option linter.unusedVariables false
namespace Pdb
namespace Dur
variable {V : Type}

/-- No msync / unlink of table file `t` after position `w`. -/
def NoSyncAfter (j : Journal V) (w t : Nat) : Prop :=
  ∀ m e, w < m → j[m]? = some e → e ≠ Ev.tableSync t ∧ ∀ r v, e ≠ Ev.tableDelete r t v

/-- Log file `f` is not truncated / unlinked / reused after position `a`. -/
def NoReclaimAfter (j : Journal V) (a f : Nat) : Prop :=
  ∀ k e, a < k → j[k]? = some e → e ≠ Ev.logTruncate f ∧ e ≠ Ev.logDelete f ∧ e ≠ Ev.logReuse f

theorem NoSyncAfter.of_snoc {j : Journal V} {e : Ev V} {w t : Nat} (h : NoSyncAfter (j ++ [e]) w t)
    (hw : w < j.length) :
    NoSyncAfter j w t ∧ e ≠ Ev.tableSync t ∧ ∀ r v, e ≠ Ev.tableDelete r t v := by
  constructor
  · intro m e' hm he'
    exact h m e' hm (getElem?_snoc_left _ _ _ _ he')
  · exact h j.length e hw (by rw [getElem?_snoc]; simp)

theorem NoReclaimAfter.of_snoc {j : Journal V} {e : Ev V} {a f : Nat}
    (h : NoReclaimAfter (j ++ [e]) a f) (ha : a < j.length) :
    NoReclaimAfter j a f ∧ e ≠ Ev.logTruncate f ∧ e ≠ Ev.logDelete f ∧ e ≠ Ev.logReuse f := by
  constructor
  · intro k e' hk he'
    exact h k e' hk (getElem?_snoc_left _ _ _ _ he')
  · exact h j.length e ha (by rw [getElem?_snoc]; simp)

structure PosD (j : Journal V) (s : St V) : Prop where
  enacted : ∀ id, 1 ≤ id → id ≤ s.done → ∃ e : Nat, j[e]? = some (Ev.enactEnd id)
  dirtyW : ∀ (w r : Nat) (loc : Loc) (val : Cell V), j[w]? = some (Ev.tableWrite r loc val) →
    NoSyncAfter j w loc.file → ∃ d ∈ s.dirty, d.1 = loc.file ∧ d.2 ≤ r
  inlog : ∀ (a id f : Nat) (ws : Rec Loc V), j[a]? = some (Ev.logAppend id f ws) →
    NoReclaimAfter j a f → ∃ lf ∈ s.logs, lf.file = f ∧ (id, ws) ∈ lf.recs

theorem PosD.nil (t0 : Tbl Loc V) : PosD ([] : Journal V) (St.init t0) := by
  refine ⟨?_, ?_, ?_⟩
  · intro id h1 h2; simp [St.init] at h2; omega
  · intro w r loc val h; simp at h
  · intro a id f ws h; simp at h

/-- position of an event of `j ++ [e]`: an old one, or the new one -/
theorem snoc_cases {j : Journal V} {e x : Ev V} {i : Nat} (h : (j ++ [e])[i]? = some x) :
    (i < j.length ∧ j[i]? = some x) ∨ (i = j.length ∧ x = e) := by
  rw [getElem?_snoc] at h
  by_cases hl : i < j.length
  · simp only [hl, if_true] at h; exact Or.inl ⟨hl, h⟩
  · simp only [hl, if_false] at h
    by_cases he : i = j.length
    · simp only [he, if_true, Option.some.injEq] at h; exact Or.inr ⟨he, h.symm⟩
    · simp [he] at h

theorem mem_logsAppend_of_mem {logs : List (LogFile V)} {lf : LogFile V} (hlf : lf ∈ logs)
    (f : Nat) (x : Nat × Rec Loc V) (id : Nat) (ws : Rec Loc V) (hm : (id, ws) ∈ lf.recs) :
    ∃ lf' ∈ logsAppend logs f x, lf'.file = lf.file ∧ (id, ws) ∈ lf'.recs := by
  unfold logsAppend
  split
  · refine ⟨_, List.mem_map.mpr ⟨lf, hlf, rfl⟩, ?_, ?_⟩
    · split <;> rfl
    · split
      · exact List.mem_append_left _ hm
      · exact hm
  · exact ⟨lf, List.mem_append_left _ hlf, rfl, hm⟩

theorem mem_logsAppend_new (logs : List (LogFile V)) (f : Nat) (x : Nat × Rec Loc V) :
    ∃ lf' ∈ logsAppend logs f x, lf'.file = f ∧ x ∈ lf'.recs := by
  unfold logsAppend
  by_cases hany : logs.any (fun lf => lf.file = f) = true
  · rw [if_pos hany]
    rw [List.any_eq_true] at hany
    obtain ⟨lf, hlf, hf⟩ := hany
    have hf' : lf.file = f := by simpa using hf
    refine ⟨_, List.mem_map.mpr ⟨lf, hlf, rfl⟩, ?_, ?_⟩
    · rw [if_pos hf']; exact hf'
    · rw [if_pos hf']; simp
  · rw [if_neg hany]
    exact ⟨_, List.mem_append_right _ (List.mem_singleton.mpr rfl), rfl, by simp⟩

theorem PosD.step [DecidableEq V] {t0 : Tbl Loc V} {j : Journal V} {s : St V} (hp : PosD j s)
    (h : Inv t0 s) (e : Ev V) (hc : check s e = none) : PosD (j ++ [e]) (step s e) := by
  -- old events keep their positions
  have keepE : ∀ id, (∃ k : Nat, j[k]? = some (Ev.enactEnd id)) →
      ∃ k : Nat, (j ++ [e])[k]? = some (Ev.enactEnd id) := by
    rintro id ⟨k, hk⟩; exact ⟨k, getElem?_snoc_left _ _ _ _ hk⟩
  refine ⟨?_, ?_, ?_⟩
  · -- enacted
    intro id h1 h2
    by_cases hold : id ≤ s.done
    · exact keepE id (hp.enacted id h1 hold)
    · -- `done` grew: the event is E of done+1
      cases e with
      | enactEnd r =>
        simp only [check] at hc
        have c1 : r = s.done + 1 := by
          by_cases c : r ≠ s.done + 1
          · simp [c] at hc
          · omega
        have h2' : id ≤ r := h2
        have : id = r := by omega
        subst this
        exact ⟨j.length, by rw [getElem?_snoc]; simp⟩
      | logTruncate f | logDelete f | logReuse f =>
        all_goals
          exfalso
          have : (dropLog s f).done = s.done := by unfold dropLog; split <;> rfl
          have h2' : id ≤ (dropLog s f).done := h2
          omega
      | logAppend r f ws => exact absurd h2 hold
      | logSync f => exact absurd h2 hold
      | tableWrite r loc val => exact absurd h2 hold
      | tableSync t => exact absurd h2 hold
      | tableDelete r t val => exact absurd h2 hold
  · -- dirtyW
    intro w r loc val hw hns
    rcases snoc_cases hw with ⟨hwl, hwo⟩ | ⟨hwl, hwe⟩
    · obtain ⟨hns', n1, n2⟩ := hns.of_snoc hwl
      obtain ⟨d, hd, d1, d2⟩ := hp.dirtyW w r loc val hwo hns'
      cases e with
      | tableWrite r' loc' val' =>
        refine ⟨d, ?_, d1, d2⟩
        show d ∈ (if s.dirty.any (fun d => d.1 = loc'.file) then s.dirty
          else s.dirty ++ [(loc'.file, r')])
        split
        · exact hd
        · exact List.mem_append_left _ hd
      | tableSync t =>
        refine ⟨d, List.mem_filter.mpr ⟨hd, ?_⟩, d1, d2⟩
        have : t ≠ loc.file := fun e' => n1 (by rw [e'])
        simp only [decide_eq_true_eq, ne_eq]
        rw [d1]; exact fun e' => this e'.symm
      | tableDelete r' t val' =>
        refine ⟨d, List.mem_filter.mpr ⟨hd, ?_⟩, d1, d2⟩
        have : t ≠ loc.file := fun e' => n2 r' val' (by rw [e'])
        simp only [decide_eq_true_eq, ne_eq]
        rw [d1]; exact fun e' => this e'.symm
      | logTruncate f | logDelete f | logReuse f =>
        all_goals
          refine ⟨d, ?_, d1, d2⟩
          show d ∈ (dropLog s f).dirty
          unfold dropLog; split <;> exact hd
      | logAppend r' f ws => exact ⟨d, hd, d1, d2⟩
      | logSync f => exact ⟨d, hd, d1, d2⟩
      | enactEnd r' => exact ⟨d, hd, d1, d2⟩
    · -- the store just made
      subst hwe
      simp only [check] at hc
      have c1 : r = s.done + 1 := by
        by_cases c : r ≠ s.done + 1
        · simp [c] at hc
        · omega
      show ∃ d ∈ (if s.dirty.any (fun d => d.1 = loc.file) then s.dirty
        else s.dirty ++ [(loc.file, r)]), d.1 = loc.file ∧ d.2 ≤ r
      by_cases hany : s.dirty.any (fun d => d.1 = loc.file) = true
      · rw [if_pos hany]
        rw [List.any_eq_true] at hany
        obtain ⟨d, hd, hdf⟩ := hany
        have := (h.tbl.hdirty d hd).2
        have hb := busyOf_le s.done s.wr
        exact ⟨d, hd, by simpa using hdf, by omega⟩
      · rw [if_neg hany]
        exact ⟨(loc.file, r), by simp, rfl, Nat.le_refl _⟩
  · -- inlog
    intro a id f ws ha hnr
    rcases snoc_cases ha with ⟨hal, hao⟩ | ⟨hal, hae⟩
    · obtain ⟨hnr', n1, n2, n3⟩ := hnr.of_snoc hal
      obtain ⟨lf, hlf, l1, l2⟩ := hp.inlog a id f ws hao hnr'
      -- reclaim of another file
      have drop : ∀ f', f' ≠ f → ∃ lf' ∈ (dropLog s f').logs, lf'.file = f ∧ (id, ws) ∈ lf'.recs := by
        intro f' hne
        unfold dropLog
        split
        · exact ⟨lf, hlf, l1, l2⟩
        · refine ⟨lf, List.mem_filter.mpr ⟨hlf, ?_⟩, l1, l2⟩
          simp only [decide_eq_true_eq, ne_eq]
          rw [l1]; exact fun e' => hne e'.symm
      cases e with
      | logAppend r' f' ws' =>
        obtain ⟨lf', m1, m2, m3⟩ := mem_logsAppend_of_mem hlf f' (r', ws') id ws l2
        exact ⟨lf', m1, by rw [m2, l1], m3⟩
      | logSync f' =>
        refine ⟨_, List.mem_map.mpr ⟨lf, hlf, rfl⟩, ?_, ?_⟩
        · split <;> exact l1
        · split <;> exact l2
      | logTruncate f' => exact drop f' (fun e' => n1 (by rw [e']))
      | logDelete f' => exact drop f' (fun e' => n2 (by rw [e']))
      | logReuse f' => exact drop f' (fun e' => n3 (by rw [e']))
      | tableWrite r' loc val => exact ⟨lf, hlf, l1, l2⟩
      | enactEnd r' => exact ⟨lf, hlf, l1, l2⟩
      | tableSync t => exact ⟨lf, hlf, l1, l2⟩
      | tableDelete r' t val => exact ⟨lf, hlf, l1, l2⟩
    · subst hae
      exact mem_logsAppend_new s.logs f (id, ws)

theorem PosD.journal [DecidableEq V] (t0 : Tbl Loc V) (j : Journal V)
    (ha : acceptsFrom (St.init t0) j = true) : PosD j (stateOf t0 j) := by
  induction j using list_snoc_induction with
  | nil => exact PosD.nil t0
  | snoc j e ih =>
    rw [acceptsFrom_append] at ha
    simp only [Bool.and_eq_true, acceptsFrom, Option.isNone_iff_eq_none] at ha
    have hI := Inv.stateFrom j _ (Inv.init t0) ha.1
    have := (ih ha.1).step hI e ha.2.1
    unfold stateOf at this ⊢
    rw [stateFrom_append]
    exact this

/-- What a passed `checkDrop` of a log file holding record `id` means positionally. -/
theorem PosD.at_reclaim [DecidableEq V] {t0 : Tbl Loc V} {j : Journal V} {s : St V} (hp : PosD j s)
    (h : Inv t0 s) (f : Nat) (hc : checkDrop s f = none) (a id : Nat) (ws : Rec Loc V)
    (ha : j[a]? = some (Ev.logAppend id f ws)) (hlive : NoReclaimAfter j a f) :
    (∃ e : Nat, j[e]? = some (Ev.enactEnd id)) ∧
    ∀ (w : Nat) (loc : Loc) (val : Cell V), j[w]? = some (Ev.tableWrite id loc val) →
      ∃ m, w < m ∧ (j[m]? = some (Ev.tableSync loc.file) ∨
        ∃ r v, j[m]? = some (Ev.tableDelete r loc.file v)) := by
  obtain ⟨lf, hlf, l1, l2⟩ := hp.inlog a id f ws ha hlive
  have hfl : findLog s.logs f = some lf := by
    rw [← l1]; exact findLog_mem h.log.nodup hlf
  obtain ⟨k1, first, k2, k3⟩ := checkDrop_facts h f lf hc hfl
  have hm := (k3.mem id ws).mp l2
  have hid : id ≤ s.cleaned + lf.recs.length := by omega
  refine ⟨hp.enacted id (by omega) (by omega), ?_⟩
  intro w loc val hw
  -- otherwise the file would still be dirty with a record of this log file
  apply Classical.byContradiction
  intro hno
  have hns : NoSyncAfter j w loc.file := by
    intro m e hm' he
    constructor
    · intro e'; exact hno ⟨m, hm', Or.inl (by rw [he, e'])⟩
    · intro r v e'; exact hno ⟨m, hm', Or.inr ⟨r, v, by rw [he, e']⟩⟩
  obtain ⟨d, hd, d1, d2⟩ := hp.dirtyW w id loc val hw hns
  -- the dirty test of checkDrop
  unfold checkDrop at hc
  rw [hfl] at hc
  simp only at hc
  obtain ⟨x, xs, hx⟩ := List.exists_cons_of_length_pos (by omega : 0 < lf.recs.length)
  have hlen : lf.recs.length = xs.length + 1 := by rw [hx]; rfl
  rw [hx] at hc
  simp only [List.length_cons] at hc
  by_cases c1 : x.1 ≠ s.cleaned + 1
  · simp [c1] at hc
  · simp only [c1, if_false] at hc
    by_cases c2 : s.done < s.cleaned + (xs.length + 1)
    · simp [c2] at hc
    · simp only [c2, if_false] at hc
      have : s.dirty.any (fun d => decide (d.2 ≤ s.cleaned + (xs.length + 1))) = true :=
        List.any_eq_true.mpr ⟨d, hd, by simp; omega⟩
      simp [this] at hc

end Dur
end Pdb
