/-
C12: the invariant of accepted journals (`Dur.Inv`) and its preservation by every allowed event.
-/
import Pdb.Model.Dur
import Pdb.Proofs.PipelineThm

set_option linter.unusedSectionVars false
set_option linter.unusedSimpArgs false
set_option linter.unusedVariables false
namespace Pdb
namespace Dur
variable {V : Type}

/-! ### after-images: location-wise facts (on top of `lastW`, `applyRec_eq` of P1) -/

theorem lastW_mem {β : Type} (ws : List (Loc × β)) (k : Loc) (b : β) (h : (k, b) ∈ ws) :
    lastW ws k ≠ none := by
  induction ws with
  | nil => simp at h
  | cons a ws ih =>
    obtain ⟨k', b'⟩ := a
    simp only [lastW]
    rcases List.mem_cons.mp h with h | h
    · cases h
      cases lastW ws k <;> simp
    · have := ih h
      cases hw : lastW ws k with
      | none => exact absurd hw this
      | some x => simp

theorem applyRec_append (t : Tbl Loc V) (a b : Rec Loc V) :
    applyRec t (a ++ b) = applyRec (applyRec t a) b := by
  simp [applyRec, List.foldl_append]

theorem applyRec_single (t : Tbl Loc V) (l : Loc) (v : Cell V) :
    applyRec t [(l, v)] = upd t l v := rfl

theorem applyRecs_cons (t : Tbl Loc V) (r : Rec Loc V) (rs : List (Rec Loc V)) :
    applyRecs t (r :: rs) = applyRecs (applyRec t r) rs := rfl

theorem applyRecs_append (t : Tbl Loc V) (a b : List (Rec Loc V)) :
    applyRecs t (a ++ b) = applyRecs (applyRecs t a) b := by
  simp [applyRecs, List.foldl_append]

/-- Replaying a list of records over two tables that agree at `l` -- or over any two tables when
    some record of the list rewrites `l` -- gives the same content at `l`. -/
theorem applyRecs_congr_loc (rs : List (Rec Loc V)) (t1 t2 : Tbl Loc V) (l : Loc)
    (h : (∀ ws ∈ rs, lastW ws l = none) → t1 l = t2 l) :
    applyRecs t1 rs l = applyRecs t2 rs l := by
  induction rs generalizing t1 t2 with
  | nil => exact h (by simp)
  | cons ws rs ih =>
    rw [applyRecs_cons, applyRecs_cons]
    apply ih
    intro hrs
    rw [applyRec_eq, applyRec_eq]
    cases hw : lastW ws l with
    | some x => rfl
    | none =>
      simp only [Option.getD_none]
      apply h
      intro ws' hws'
      rcases List.mem_cons.mp hws' with e | e
      · rw [e]; exact hw
      · exact hrs ws' e

theorem applyRecs_untouched (rs : List (Rec Loc V)) (t : Tbl Loc V) (l : Loc)
    (h : ∀ ws ∈ rs, lastW ws l = none) : applyRecs t rs l = t l := by
  induction rs generalizing t with
  | nil => rfl
  | cons ws rs ih =>
    rw [applyRecs_cons, ih _ (fun w hw => h w (List.mem_cons_of_mem _ hw)), applyRec_eq,
      h ws List.mem_cons_self]
    rfl

/-! ### records by id -/

theorem recOf_append_le (recs : List (Rec Loc V)) (ws : Rec Loc V) (id : Nat)
    (h : id ≤ recs.length) (h1 : 1 ≤ id) : recOf (recs ++ [ws]) id = recOf recs id := by
  unfold recOf
  simp only [List.getD_eq_getElem?_getD]
  rw [List.getElem?_append_left (by omega)]

theorem recOf_append_new (recs : List (Rec Loc V)) (ws : Rec Loc V) :
    recOf (recs ++ [ws]) (recs.length + 1) = ws := by
  unfold recOf
  simp [List.getD_eq_getElem?_getD]

theorem recOf_zero (recs : List (Rec Loc V)) (id : Nat) (h : recs.length < id) :
    recOf recs id = [] := by
  unfold recOf
  simp only [List.getD_eq_getElem?_getD]
  rw [List.getElem?_eq_none (by omega)]
  rfl

theorem tablesAfter_succ (t0 : Tbl Loc V) (recs : List (Rec Loc V)) (n : Nat)
    (h : n < recs.length) :
    tablesAfter t0 recs (n + 1) = applyRec (tablesAfter t0 recs n) (recOf recs (n + 1)) := by
  unfold tablesAfter recOf
  have : recs.take (n + 1) = recs.take n ++ [recs[n]] := (List.take_append_getElem h).symm
  rw [this, applyRecs_snoc]
  simp [List.getD_eq_getElem?_getD, h]

theorem tablesAfter_append (t0 : Tbl Loc V) (recs : List (Rec Loc V)) (ws : Rec Loc V) (n : Nat)
    (h : n ≤ recs.length) : tablesAfter t0 (recs ++ [ws]) n = tablesAfter t0 recs n := by
  unfold tablesAfter
  rw [List.take_append_of_le_length h]

/-- Tables after records 1..b, seen from the tables after records 1..a (a ≤ b): replay of the
    records in between. -/
theorem tablesAfter_split (t0 : Tbl Loc V) (recs : List (Rec Loc V)) (a b : Nat) (h : a ≤ b) :
    tablesAfter t0 recs b = applyRecs (tablesAfter t0 recs a) ((recs.take b).drop a) := by
  unfold tablesAfter
  rw [← applyRecs_append]
  congr 1
  have : recs.take a = (recs.take b).take a := by
    rw [List.take_take]; congr 1; omega
  rw [this, List.take_append_drop]

theorem mem_take_drop {α : Type} (l : List α) (a b : Nat) (x : α) (h : x ∈ (l.take b).drop a) :
    ∃ i, a ≤ i ∧ i < b ∧ l[i]? = some x := by
  rw [List.mem_iff_getElem?] at h
  obtain ⟨i, hi⟩ := h
  rw [List.getElem?_drop, List.getElem?_take] at hi
  by_cases hlt : a + i < b
  · simp only [hlt, if_true] at hi
    exact ⟨a + i, by omega, hlt, hi⟩
  · simp [hlt] at hi

/-- A record of the slice `(take b).drop a` is the record with some id in (a, b]. -/
theorem mem_slice_recOf (recs : List (Rec Loc V)) (a b : Nat) (ws : Rec Loc V)
    (h : ws ∈ (recs.take b).drop a) : ∃ id, a < id ∧ id ≤ b ∧ recOf recs id = ws := by
  obtain ⟨i, h1, h2, h3⟩ := mem_take_drop recs a b ws h
  refine ⟨i + 1, by omega, by omega, ?_⟩
  unfold recOf
  simp [List.getD_eq_getElem?_getD, h3]

/-! ### the invariant -/

/-- Highest record id that has had (or may have had) a table store. -/
def busyOf (done wr : Nat) : Nat := if wr = 0 then done else done + 1

theorem busyOf_le (done wr : Nat) : busyOf done wr ≤ done + 1 := by
  unfold busyOf; split <;> omega

theorem le_busyOf (done wr : Nat) : done ≤ busyOf done wr := by
  unfold busyOf; split <;> omega

structure CtlI (recs : List (Rec Loc V)) (synced cleaned done wr hz : Nat) : Prop where
  cd : cleaned ≤ done
  ds : busyOf done wr ≤ synced
  sn : synced ≤ recs.length
  wrl : wr ≤ (recOf recs (done + 1)).length
  hs : hz ≤ synced

/-- Location `l` is still to be rewritten by the replay that follows a power loss: by the rest of
    record done+1 or by a later record up to the horizon `hz`.  (Empty when `hz ≤ done`: always,
    in a first life time.) -/
def Pend (recs : List (Rec Loc V)) (done wr hz : Nat) (l : Loc) : Prop :=
  (done + 1 ≤ hz ∧ lastW ((recOf recs (done + 1)).drop wr) l ≠ none) ∨
  (∃ r, done + 1 < r ∧ r ≤ hz ∧ lastW (recOf recs r) l ≠ none)

/-- The tables as they should be: records 1..done, and the first `wr` after-images of the next. -/
def ideal (t0 : Tbl Loc V) (recs : List (Rec Loc V)) (done wr : Nat) : Tbl Loc V :=
  applyRec (tablesAfter t0 recs done) ((recOf recs (done + 1)).take wr)

structure TblI (t0 vol dur : Tbl Loc V) (recs : List (Rec Loc V)) (done wr cleaned : Nat)
    (dirty : List (Nat × Nat)) (hz : Nat) : Prop where
  hvol : ∀ l, ¬ Pend recs done wr hz l → vol l = ideal t0 recs done wr l
  hdur : ∀ l, (∀ d ∈ dirty, d.1 = l.file → ∀ r, d.2 ≤ r → r ≤ busyOf done wr →
      lastW (recOf recs r) l = none) → dur l = vol l
  hdirty : ∀ d ∈ dirty, cleaned < d.2 ∧ d.2 ≤ busyOf done wr

/-- The records of a log file are the consecutive ids first, first+1, ... with their contents. -/
def IsBlock (recs : List (Rec Loc V)) (l : List (Nat × Rec Loc V)) (first : Nat) : Prop :=
  ∀ i, i < l.length → l[i]? = some (first + i, recOf recs (first + i))

structure LogI (logs : List (LogFile V)) (recs : List (Rec Loc V)) (cleaned : Nat)
    (cur : Option Nat) (synced : Nat) : Prop where
  nodup : (logs.map (fun lf => lf.file)).Nodup
  block : ∀ lf ∈ logs, ∃ first, cleaned < first ∧ 0 < lf.recs.length ∧
      first + lf.recs.length ≤ recs.length + 1 ∧ IsBlock recs lf.recs first ∧
      lf.nsynced ≤ lf.recs.length ∧
      (some lf.file = cur → first + lf.recs.length = recs.length + 1 ∧
        synced + 1 ≤ first + lf.nsynced) ∧
      (some lf.file ≠ cur → lf.nsynced = lf.recs.length)
  cover : ∀ id, cleaned < id → id ≤ recs.length → ∃ lf ∈ logs, ∃ ws, (id, ws) ∈ lf.recs
  disj : ∀ lf1 ∈ logs, ∀ lf2 ∈ logs, ∀ id ws1 ws2, (id, ws1) ∈ lf1.recs → (id, ws2) ∈ lf2.recs →
      lf1 = lf2

structure Inv (t0 : Tbl Loc V) (s : St V) : Prop where
  ctl : CtlI s.recs s.synced s.cleaned s.done s.wr s.hz
  tbl : TblI t0 s.vol s.dur s.recs s.done s.wr s.cleaned s.dirty s.hz
  log : LogI s.logs s.recs s.cleaned s.cur s.synced

theorem Inv.init (t0 : Tbl Loc V) : Inv t0 (St.init t0) := by
  refine ⟨⟨?_, ?_, ?_, ?_, ?_⟩, ⟨?_, ?_, ?_⟩, ⟨?_, ?_, ?_, ?_⟩⟩
  · simp [St.init]
  · simp [St.init, busyOf]
  · simp [St.init]
  · simp [St.init]
  · simp [St.init]
  · intro l _
    simp [St.init, ideal, recOf, tablesAfter, applyRecs, applyRec]
  · intro l _; rfl
  · simp [St.init]
  · simp [St.init]
  · simp [St.init]
  · intro id h1 h2; simp [St.init] at h2; omega
  · simp [St.init]

theorem IsBlock.mem {recs : List (Rec Loc V)} {l : List (Nat × Rec Loc V)} {first : Nat}
    (h : IsBlock recs l first) (id : Nat) (ws : Rec Loc V) :
    (id, ws) ∈ l ↔ first ≤ id ∧ id < first + l.length ∧ ws = recOf recs id := by
  constructor
  · intro hm
    rw [List.mem_iff_getElem?] at hm
    obtain ⟨i, hi⟩ := hm
    have hlt : i < l.length := by
      rcases List.getElem?_eq_some_iff.mp hi with ⟨h', _⟩; exact h'
    have := h i hlt
    rw [hi] at this
    simp only [Option.some.injEq, Prod.mk.injEq] at this
    obtain ⟨e1, e2⟩ := this
    subst e1
    exact ⟨by omega, by omega, e2⟩
  · rintro ⟨h1, h2, h3⟩
    rw [List.mem_iff_getElem?]
    refine ⟨id - first, ?_⟩
    have e : first + (id - first) = id := by omega
    have := h (id - first) (by omega)
    rw [this, e, h3]

theorem eq_of_file_eq {logs : List (LogFile V)} (hn : (logs.map (fun lf => lf.file)).Nodup)
    {a b : LogFile V} (ha : a ∈ logs) (hb : b ∈ logs) (hf : a.file = b.file) : a = b := by
  induction logs with
  | nil => simp at ha
  | cons x xs ih =>
    simp only [List.map_cons, List.nodup_cons, List.mem_map, not_exists, not_and] at hn
    rcases List.mem_cons.mp ha with ha | ha <;> rcases List.mem_cons.mp hb with hb | hb
    · rw [ha, hb]
    · rw [ha] at hf; exact absurd hf.symm (hn.1 b hb)
    · rw [hb] at hf; exact absurd hf (hn.1 a ha)
    · exact ih hn.2 ha hb

theorem findLog_some {logs : List (LogFile V)} {f : Nat} {lf : LogFile V}
    (h : findLog logs f = some lf) : lf ∈ logs ∧ lf.file = f := by
  unfold findLog at h
  refine ⟨List.mem_of_find?_eq_some h, ?_⟩
  have := List.find?_some h
  simpa using this

theorem findLog_none {logs : List (LogFile V)} {f : Nat}
    (h : findLog logs f = none) : ∀ lf ∈ logs, lf.file ≠ f := by
  unfold findLog at h
  rw [List.find?_eq_none] at h
  intro lf hlf
  simpa using h lf hlf

theorem findLog_mem {logs : List (LogFile V)} (hn : (logs.map (fun lf => lf.file)).Nodup)
    {lf : LogFile V} (hlf : lf ∈ logs) : findLog logs lf.file = some lf := by
  cases hf : findLog logs lf.file with
  | none => exact absurd rfl (findLog_none hf lf hlf)
  | some lf' =>
    obtain ⟨h1, h2⟩ := findLog_some hf
    rw [eq_of_file_eq hn h1 hlf h2]

end Dur
end Pdb
