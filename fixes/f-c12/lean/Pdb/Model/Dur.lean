/-
C12: durability model `Dur` -- power loss cannot tear state.

Rust anchors: Log::{end_record, flush_one, clean_logs, kill_logs, drop_log} (src/log.rs),
DbInner::{enact_logs, clean_logs, clean_all_logs, kill_logs}, Db::open_inner (src/db.rs),
TableFile::{write_at, grow, flush} (src/file.rs), IndexTable::{enact_plan, flush},
RefCountTable::{enact_plan, flush}, ValueTable::{enact_plan, flush}, Column::flush.

ASSUMPTION A-os (file-system semantics; trusted, not proved):
  * a table / index / ref-count file is memory mapped; a store changes the VOLATILE content of
    one location; every location belongs to exactly one page (4 KiB) of its file;
  * a page reaches the disk whole or not at all; after a power loss every page written since
    the file's last `msync` holds, independently of all other pages, either its newest
    volatile content or the content it had at that last sync (`Choice.pick`, any subset);
  * `msync` of a file (`tableSync`) makes everything written to it before the call durable;
  * bytes appended to a log file become durable at the next `fdatasync` of that file
    (`logSync`); after a power loss a log file holds all its synced bytes plus an arbitrary
    prefix of the bytes appended since.  A record cut by that prefix is rejected whole by
    recovery (CRC / length validation: property C13), so at this layer a log file keeps all
    synced records plus an arbitrary number of the following complete records
    (`Choice.extra`);
  * truncate / unlink / create (and `set_len` growth with zero bytes) take effect durably at
    once; directory entries and file lengths are never lost (the code never fsyncs a
    directory; this is the part of A-os that makes the result "partial by nature").

A journal is the list of durability-relevant events of one process life time, in the order
they were issued; the crash instant is a cut: every PREFIX of a journal is a journal.
Records are lists of absolute after-images (P1, `Pdb.Rec`), keyed by physical locations.

A table-ish file is UNLINKED (`tableDelete`: the old index / ref-count table dropped at the end of a
growth, `IndexTable::drop_file` called from `HashColumn::drop_index` when the `DropTable` action
of a record is enacted) on behalf of a record, like a store: the record carries an after-image
for the EXISTENCE MARKER of the file (`dropLoc f`, a reserved location of the file; `some _` =
the file is gone), the unlink stores that image and is durable at once for the whole file
(A-os: directory operations are never lost).  `visible` is the reading of a table through the
markers (every location of a dropped file is absent).  A drop that reaches the disk while the
record that orders it is lost leaves the marker set in tables that no record prefix produces:
the theorem excludes it (`C12_D1_delete_needed`).

The acceptor `accepts` is the executable discipline `D`:
  D1  a table write on behalf of record r, the unlink of a table file on behalf of r (and the
      completion of r) happens only after a `logSync` of the log file holding r issued after r
      was appended;
  D2  a log file is truncated / unlinked / reused only if every record in it was applied
      whole and every table file written on behalf of a record in it was `tableSync`ed (or
      unlinked) after that record's last write;
  D3  structure: record ids are 1, 2, 3, ... in append order; appends move to another log
      file only when every appended record is synced and that file holds no live record;
      records are applied in id order, one after-image after the other, whole; log files
      are reclaimed oldest first.

  (The file-switch and oldest-first clauses of D3 are not decoration: `Db::open` replays the
  consecutive run of records starting at the smallest id it finds, so a gap in the surviving
  ids silently drops newer synced records; see `C12_D3_needed` in Props/C12.lean.)

Recovery (`recover`) models the replay of `Db::open`: `Log::open` orders the log files by their
first record id, `enact_logs(validation_mode)` applies records while the ids are consecutive.
`recover` is the RESULT of an undisturbed recovery; the recovery as a sequence of events of the
next life time (stores and unlinks of the replay, flush, reclaim of all logs: `recoveryJournal`),
checked by the same acceptor from the state the power loss left (`crashSt`), is further down.
No generated constant is used: the page size only matters to the harness (4096) and the model
is parametric in which locations share a page.

Driver command `c12` (stateless, see `driverLine`):
    c12 check <event> <event> ...
  events:  A:<rec>:<logfile>           record appended to log file        (Log::end_record)
           S:<logfile>                 fdatasync / fsync of a log file    (Log::flush_one)
           W:<rec>:<tablefile>:<page>  mmap store on behalf of record     (enact_plan / write_at)
           E:<rec>                     record completely applied          (Log::end_read)
           M:<tablefile>               msync of a table-ish file          (Column::flush)
           X:<rec>:<tablefile>         unlink of a table-ish file on behalf of record (HashColumn::drop_index /
                                       drop_ref_count called by enact_plan of the DropTable action)
           T:<logfile>                 ftruncate to 0                     (Log::clean_logs)
           U:<logfile>                 unlink                             (Log::drop_log)
           R:<logfile>                 overwrite from the start without truncation (never
                                       done by the code; accepted syntax for completeness)
           K:<logfile>:<n>             power loss: n records of the log file survive (default: the synced ones)
           Z                           power loss + start of the next life time: the state becomes
                                       `crashSt` of the current state under the choice given by the K
                                       tokens since the previous Z; the events that follow are those of
                                       `Db::open` (replay: W/X/E of the surviving records, M, T) and of
                                       the new handle
  all fields decimal.  The after-images of record r are the W / X events of r of its first complete
  application (the events of r that precede the first E:r, inside the life time of that E:r), in order.
  output:  ok | violates:D1@<i> | violates:D2@<i> | violates:D3@<i>   (i = 0-based index of
  the first offending token) | bad-crash@<i> (a K token contradicts A-os: fewer records than
  were synced, or more than were appended) | bad-op
-/
import Pdb.Model.Pipeline

namespace Pdb
namespace Dur

/-- A physical location: table-ish file, page inside the file, offset inside the page. -/
structure Loc where
  file : Nat
  page : Nat
  off : Nat
deriving DecidableEq, Repr

/-- Existence marker of table-ish file `f`: a reserved location of the file (no store of the
    code goes there: the harness maps stores to offset 0 of their page).  `some _` = unlinked. -/
def dropLoc (f : Nat) : Loc := { file := f, page := 0, off := 1 }

inductive Ev (V : Type) where
  | logAppend (rec : Nat) (file : Nat) (ws : Rec Loc V)
  | logSync (file : Nat)
  | tableWrite (rec : Nat) (loc : Loc) (val : Cell V)
  | enactEnd (rec : Nat)
  | tableSync (tfile : Nat)
  | tableDelete (rec : Nat) (tfile : Nat) (val : Cell V)
  | logTruncate (file : Nat)
  | logDelete (file : Nat)
  | logReuse (file : Nat)
deriving DecidableEq

abbrev Journal (V : Type) := List (Ev V)

/-- One log file: the records it holds (id, after-images) in append order and how many of
    them (a prefix) are covered by the last `fdatasync`. -/
structure LogFile (V : Type) where
  file : Nat
  recs : List (Nat × Rec Loc V)
  nsynced : Nat

variable {V : Type}

def logsAppend (logs : List (LogFile V)) (f : Nat) (x : Nat × Rec Loc V) : List (LogFile V) :=
  if logs.any (fun lf => lf.file = f) then
    logs.map (fun lf => if lf.file = f then { lf with recs := lf.recs ++ [x] } else lf)
  else logs ++ [{ file := f, recs := [x], nsynced := 0 }]

def logsSync (logs : List (LogFile V)) (f : Nat) : List (LogFile V) :=
  logs.map (fun lf => if lf.file = f then { lf with nsynced := lf.recs.length } else lf)

def logsDrop (logs : List (LogFile V)) (f : Nat) : List (LogFile V) :=
  logs.filter (fun lf => lf.file ≠ f)

/-- File-system state (A-os) plus the ghost bookkeeping the discipline is checked against. -/
structure St (V : Type) where
  -- file system (A-os)
  vol : Tbl Loc V                 -- volatile content of all table-ish files
  dur : Tbl Loc V                 -- content as of each file's last msync
  logs : List (LogFile V)         -- log files holding records
  -- ghost
  recs : List (Rec Loc V)         -- after-images of records 1..n, n = recs.length
  cur : Option Nat                -- log file holding record n (the one being appended to)
  synced : Nat                    -- records 1..synced are covered by an fdatasync
  cleaned : Nat                   -- records 1..cleaned were reclaimed from the logs
  done : Nat                      -- records 1..done are applied whole
  wr : Nat                        -- after-images of record done+1 already stored
  dirty : List (Nat × Nat)        -- (table file, first record stored into it since its last msync)
  hz : Nat                        -- replay horizon: records done+1..hz survived a power loss and are
                                  -- being re-applied; until then the tables may hold torn pages of
                                  -- the previous life time at the locations those records rewrite

def St.init (t0 : Tbl Loc V) : St V :=
  { vol := t0, dur := t0, logs := [], recs := [], cur := none, synced := 0, cleaned := 0,
    done := 0, wr := 0, dirty := [], hz := 0 }

/-- After-images of record `id` (1-based). -/
def recOf (recs : List (Rec Loc V)) (id : Nat) : Rec Loc V := recs.getD (id - 1) []

def findLog (logs : List (LogFile V)) (f : Nat) : Option (LogFile V) :=
  logs.find? (fun lf => lf.file = f)

/-- Reclaiming log file `f` (truncate, unlink and reuse are alike: the old content is gone). -/
def dropLog (s : St V) (f : Nat) : St V :=
  match findLog s.logs f with
  | none => s
  | some lf =>
    { s with logs := logsDrop s.logs f,
             cleaned := s.cleaned + lf.recs.length,
             cur := if s.cur = some f then none else s.cur }

/-- The effect of one event (A-os for the file system part). -/
def step (s : St V) : Ev V → St V
  | .logAppend r f ws =>
    { s with recs := s.recs ++ [ws], cur := some f, logs := logsAppend s.logs f (r, ws) }
  | .logSync f =>
    { s with logs := logsSync s.logs f,
             synced := if s.cur = some f then s.recs.length else s.synced }
  | .tableWrite r loc val =>
    { s with vol := upd s.vol loc val, wr := s.wr + 1,
             dirty := if s.dirty.any (fun d => d.1 = loc.file) then s.dirty
                      else s.dirty ++ [(loc.file, r)] }
  | .enactEnd r => { s with done := r, wr := 0 }
  | .tableSync t =>
    { s with dur := fun l => if l.file = t then s.vol l else s.dur l,
             dirty := s.dirty.filter (fun d => d.1 ≠ t) }
  | .tableDelete _ t val =>
    -- unlink of a table-ish file (an old index dropped at the end of a growth): the existence
    -- marker takes the record's after-image, durable at once with the whole file (A-os): its
    -- other locations exist no more, volatile and durable view agree on them for ever
    { s with vol := upd s.vol (dropLoc t) val,
             dur := fun l => if l.file = t then upd s.vol (dropLoc t) val l else s.dur l,
             wr := s.wr + 1,
             dirty := s.dirty.filter (fun d => d.1 ≠ t) }
  | .logTruncate f => dropLog s f
  | .logDelete f => dropLog s f
  | .logReuse f => dropLog s f

inductive Viol where
  | D1 | D2 | D3
deriving DecidableEq, Repr

def checkDrop (s : St V) (f : Nat) : Option Viol :=
  match findLog s.logs f with
  | none => none
  | some lf =>
    match lf.recs with
    | [] => none
    | x :: _ =>
      if x.1 ≠ s.cleaned + 1 then some .D3                       -- oldest first
      else if s.done < s.cleaned + lf.recs.length then some .D2   -- a record in it not applied whole
      else if s.dirty.any (fun d => d.2 ≤ s.cleaned + lf.recs.length) then some .D2
      else none

/-- The discipline, event by event: `none` = allowed in state `s`. -/
def check [DecidableEq V] (s : St V) : Ev V → Option Viol
  | .logAppend r f _ =>
    if r ≠ s.recs.length + 1 then some .D3
    else if s.cur = some f then none
    else if s.synced < s.recs.length then some .D3               -- leaving an unsynced log file
    else if s.logs.any (fun lf => lf.file = f) then some .D3     -- that file still holds records
    else none
  | .logSync _ => none
  | .tableWrite r loc val =>
    if r ≠ s.done + 1 then some .D3
    else if s.synced < r then some .D1
    else if (recOf s.recs r)[s.wr]? ≠ some (loc, val) then some .D3
    else none
  | .enactEnd r =>
    if r ≠ s.done + 1 then some .D3
    else if s.synced < r then some .D1
    else if s.wr ≠ (recOf s.recs r).length then some .D3
    else none
  | .tableSync _ => none
  | .tableDelete r t val =>
    -- D1 for the unlink: it is the next after-image of the record being applied, whose log is synced
    if r ≠ s.done + 1 then some .D3
    else if s.synced < r then some .D1
    else if (recOf s.recs r)[s.wr]? ≠ some (dropLoc t, val) then some .D3
    else if val.isNone then some .D3
    else none
  | .logTruncate f => checkDrop s f
  | .logDelete f => checkDrop s f
  | .logReuse f => checkDrop s f

def stateFrom (s : St V) (j : Journal V) : St V := j.foldl step s

def acceptsFrom [DecidableEq V] (s : St V) : Journal V → Bool
  | [] => true
  | e :: es => (check s e).isNone && acceptsFrom (step s e) es

/-- First violation: (which clause, 0-based event index). -/
def firstViolFrom [DecidableEq V] (s : St V) (i : Nat) : Journal V → Option (Viol × Nat)
  | [] => none
  | e :: es =>
    match check s e with
    | some v => some (v, i)
    | none => firstViolFrom (step s e) (i + 1) es

/-- The state of the machine after journal `j`, starting from table content `t0`, all durable. -/
def stateOf (t0 : Tbl Loc V) (j : Journal V) : St V := stateFrom (St.init t0) j

/-- The discipline `D`, executable. -/
def accepts [DecidableEq V] (j : Journal V) : Bool := acceptsFrom (St.init (fun _ => none)) j

/-- Number of records covered by a log sync at the end of `j`. -/
def syncedRecords (j : Journal V) : Nat := (stateOf (fun _ => none) j).synced

/-- Number of records appended in `j`. -/
def appendedRecords (j : Journal V) : Nat := (stateOf (fun _ => none) j).recs.length

/-! ### power-loss images and recovery -/

/-- What the power loss lets through: per (table file, page) whether the volatile version
    reached the disk, per log file how many complete records beyond the synced ones. -/
structure Choice where
  pick : Nat → Nat → Bool
  extra : Nat → Nat

def imgTables (s : St V) (c : Choice) : Tbl Loc V :=
  fun l => if c.pick l.file l.page then s.vol l else s.dur l

def imgLog (c : Choice) (lf : LogFile V) : List (Nat × Rec Loc V) :=
  lf.recs.take (lf.nsynced + c.extra lf.file)

/-- All records found in the log files of the image (file order, not id order). -/
def survivors (s : St V) (c : Choice) : List (Nat × Rec Loc V) :=
  s.logs.flatMap (imgLog c)

def minId (sv : List (Nat × Rec Loc V)) : Option Nat :=
  match sv with
  | [] => none
  | x :: xs => some (xs.foldl (fun m y => min m y.1) x.1)

def maxId (sv : List (Nat × Rec Loc V)) : Nat := sv.foldl (fun m y => max m y.1) 0

def findRec (sv : List (Nat × Rec Loc V)) (id : Nat) : Option (Rec Loc V) :=
  (sv.find? (fun x => x.1 = id)).map (fun x => x.2)

/-- `Db::open` replay: starting at record `id`, apply consecutive records while the next id
    is present (a gap in the id sequence ends the replay: `enact_logs(validation_mode)`). -/
def replayFrom (sv : List (Nat × Rec Loc V)) : Nat → Nat → Tbl Loc V → Tbl Loc V
  | 0, _, t => t
  | fuel + 1, id, t =>
    match findRec sv id with
    | none => t
    | some ws => replayFrom sv fuel (id + 1) (applyRec t ws)

/-- Recovery: replay from the smallest record id found in the logs (`Log::open` sorts the
    log files by their first record id; `last_enacted` starts just below it). -/
def recover (t : Tbl Loc V) (sv : List (Nat × Rec Loc V)) : Tbl Loc V :=
  match minId sv with
  | none => t
  | some lo => replayFrom sv (maxId sv + 1 - lo) lo t

/-- Tables after recovery from the power-loss image of state `s` under choice `c`. -/
def recoverImage (s : St V) (c : Choice) : Tbl Loc V :=
  recover (imgTables s c) (survivors s c)

/-- Tables after records 1..n, from initial content `t0`. -/
def tablesAfter (t0 : Tbl Loc V) (recs : List (Rec Loc V)) (n : Nat) : Tbl Loc V :=
  applyRecs t0 (recs.take n)

/-- Table file `f` is unlinked in `t` (its existence marker is set). -/
def gone (t : Tbl Loc V) (f : Nat) : Bool := (t (dropLoc f)).isSome

/-- The tables as the code can read them: every location of an unlinked file is absent. -/
def visible (t : Tbl Loc V) : Tbl Loc V := fun l => if gone t l.file then none else t l

/-! ### the next life time

A power loss in state `s` under choice `c` leaves the image on disk; `Db::open` then works on
`crashSt s c`: tables = the image (all of it durable), log files = the surviving records (all of
them durable; `Log::open` removes the files that hold no record), records beyond the surviving
ones are gone for good (their ids are taken again by the records of the new life time:
`Log::end_read` advances `next_record_id` past the last replayed record), nothing is known to be
applied beyond the reclaimed records: replay (`replay_all_logs`) starts at the oldest surviving
record, `hz` = the newest surviving one. -/

/-- Number of records that survive the power loss (ids 1..keepOf; those up to `cleaned` only in
    the tables). -/
def keepOf (s : St V) (c : Choice) : Nat := max s.cleaned (maxId (survivors s c))

/-- A log file after the power loss: its surviving records, all of them durable. -/
def imgFile (c : Choice) (lf : LogFile V) : LogFile V :=
  { file := lf.file, recs := imgLog c lf, nsynced := (imgLog c lf).length }

def crashLogs (s : St V) (c : Choice) : List (LogFile V) :=
  (s.logs.map (imgFile c)).filter (fun lf => !lf.recs.isEmpty)

def crashSt (s : St V) (c : Choice) : St V :=
  { vol := imgTables s c, dur := imgTables s c, logs := crashLogs s c,
    recs := s.recs.take (keepOf s c), cur := none, synced := keepOf s c, cleaned := s.cleaned,
    done := s.cleaned, wr := 0, dirty := [], hz := keepOf s c }

/-- Life times: each one is a journal (the events of `Db::open` first) ended by a power loss. -/
def livesFrom (s : St V) : List (Journal V × Choice) → St V
  | [] => s
  | (j, c) :: ls => livesFrom (crashSt (stateFrom s j) c) ls

def livesAccepted [DecidableEq V] (s : St V) : List (Journal V × Choice) → Bool
  | [] => true
  | (j, c) :: ls => acceptsFrom s j && livesAccepted (crashSt (stateFrom s j) c) ls

/-! ### abstract worker programs (generator of journals from P1 histories)

P1 actions are interpreted on the P1 state (`Pdb.St` with keys = locations) and emit events:
  process = logAppend (`Log::end_record`), into the file being appended to or a fresh one;
  flush   = logSync of that file (`Log::flush_one`: `sync_data` precedes the push to the read
            queue -- order obligation `flushOne_sync_before_push` of Pdb/Gen/Order.lean);
  enact   = the after-images of the oldest flushed record, then enactEnd (`enact_logs`);
  clean   = tableSync of every dirty table file, then logTruncate of the oldest log file if
            all its records are applied (`DbInner::clean_logs`: column flush precedes
            `log.clean_logs` -- order obligation `cleanLogs_flush_before_clean`);
  commit / reindex emit nothing.  Stage order is P1's: a record is enacted only when
  `flushed > 0`, a file is cleaned only when all its records are enacted.

Index growth at this layer: records are lists of after-images keyed by PHYSICAL locations, and
where a record comes from (commit queue or `process_reindex`) makes no difference to the
discipline.  A reindex record is a record whose after-images write entries of one table file into
another (`moveTx`), the `DropTable` action is an after-image for the existence marker of the old
file (`dropTx`); enacting such an after-image is the unlink (`imgEv`: `tableDelete` instead of
`tableWrite`).  They enter the programs as P1 transactions over physical locations
(`commit (moveTx ..)`, `commit (dropTx ..)`): P1's action `reindex` itself stays a no-op. -/

/-- The event that enacts one after-image: a store, or the unlink when the image sets the
    existence marker of a table file. -/
def imgEv (r : Nat) (w : Loc × Cell V) : Ev V :=
  if w.1 = dropLoc w.1.file ∧ w.2.isSome = true then .tableDelete r w.1.file w.2
  else .tableWrite r w.1 w.2

/-- Events of applying record `r` whole (`enact_logs` for one record). -/
def recEvents (recs : List (Rec Loc V)) (r : Nat) : Journal V :=
  (recOf recs r).map (imgEv r) ++ [.enactEnd r]

/-- A reindex batch: every listed entry of table file `src` goes to the same place of `dst`. -/
def moveTx (src dst : Nat) (es : List (Nat × Nat × V)) : List (Op Loc V) :=
  es.flatMap (fun e => [Op.set { file := dst, page := e.1, off := e.2.1 } e.2.2,
                        Op.deref { file := src, page := e.1, off := e.2.1 }])

/-- The `DropTable` action for table file `t` (`tomb`: any value; the marker becomes `some`). -/
def dropTx (t : Nat) (tomb : V) : List (Op Loc V) := [Op.set (dropLoc t) tomb]

def appendFile (g : St V) : Nat :=
  if g.synced < g.recs.length then g.cur.getD 0 else g.recs.length + 1

def oldestLog (g : St V) : Option (LogFile V) :=
  g.logs.find? (fun lf => (lf.recs.head?.map (fun x => x.1)) = some (g.cleaned + 1))

def genStep (kind : Loc → Kind) (p : Pdb.St Loc V) (g : St V) : Action Loc V → Journal V
  | .process =>
    match p.queue with
    | [] => []
    | c :: _ => [.logAppend (g.recs.length + 1) (appendFile g) (planRec kind (view p) c.ops)]
  | .flush =>
    match g.cur with
    | some f => [.logSync f]
    | none => []
  | .enact =>
    match p.flushed, p.logged with
    | _ + 1, r :: _ => r.map (imgEv (g.done + 1)) ++ [.enactEnd (g.done + 1)]
    | _, _ => []
  | .clean =>
    g.dirty.map (fun d => Ev.tableSync d.1) ++
      (match oldestLog g with
       | some lf => if g.cleaned + lf.recs.length ≤ g.done then [.logTruncate lf.file] else []
       | none => [])
  | _ => []

/-- Pipeline actions of a running handle (no crash, no reopen). -/
def pipelineOnly : List (Action Loc V) → Bool
  | [] => true
  | .crash _ _ :: _ => false
  | .reopen :: _ => false
  | _ :: as => pipelineOnly as

structure GenSt (V : Type) where
  p : Pdb.St Loc V
  g : St V
  j : Journal V

def genNext (kind : Loc → Kind) (x : GenSt V) (a : Action Loc V) : GenSt V :=
  { p := Pdb.step kind x.p a,
    g := stateFrom x.g (genStep kind x.p x.g a),
    j := x.j ++ genStep kind x.p x.g a }

def genRun (kind : Loc → Kind) (as : List (Action Loc V)) : GenSt V :=
  as.foldl (genNext kind)
    { p := (Pdb.St.init : Pdb.St Loc V), g := St.init (fun _ => none), j := [] }

/-- The journal of a P1 history. -/
def journalOf (kind : Loc → Kind) (as : List (Action Loc V)) : Journal V :=
  (genRun kind as).j

/-! ### the recovery program (`Db::open` on a power-loss image)

`replay_all_logs` applies the surviving records in id order (`enact_logs(validation_mode)`), then
`clean_all_logs` flushes every column and reclaims every log file, oldest first. -/

def replayEvents (recs : List (Rec Loc V)) : Nat → Nat → Journal V
  | 0, _ => []
  | n + 1, id => recEvents recs id ++ replayEvents recs n (id + 1)

def truncAll : Nat → St V → Journal V
  | 0, _ => []
  | n + 1, g =>
    match oldestLog g with
    | some lf => .logTruncate lf.file :: truncAll n (step g (.logTruncate lf.file))
    | none => []

def replayJournal (s : St V) : Journal V := replayEvents s.recs (s.synced - s.done) (s.done + 1)

def flushJournal (g : St V) : Journal V := g.dirty.map (fun d => Ev.tableSync d.1)

def recoveryJournal (s : St V) : Journal V :=
  replayJournal s ++ flushJournal (stateFrom s (replayJournal s)) ++
    truncAll s.logs.length
      (stateFrom (stateFrom s (replayJournal s)) (flushJournal (stateFrom s (replayJournal s))))

/-! ### driver -/

inductive Tok where
  | A (r f : Nat) | S (f : Nat) | W (r t p : Nat) | E (r : Nat) | M (t : Nat) | X (r t : Nat)
  | T (f : Nat) | U (f : Nat) | R (f : Nat) | K (f n : Nat) | Z

def parseTok (w : String) : Option Tok :=
  match w.splitOn ":" with
  | ["A", r, f] => do some (.A (← r.toNat?) (← f.toNat?))
  | ["S", f] => do some (.S (← f.toNat?))
  | ["W", r, t, p] => do some (.W (← r.toNat?) (← t.toNat?) (← p.toNat?))
  | ["E", r] => do some (.E (← r.toNat?))
  | ["M", t] => do some (.M (← t.toNat?))
  | ["X", r, t] => do some (.X (← r.toNat?) (← t.toNat?))
  | ["T", f] => do some (.T (← f.toNat?))
  | ["U", f] => do some (.U (← f.toNat?))
  | ["R", f] => do some (.R (← f.toNat?))
  | ["K", f, n] => do some (.K (← f.toNat?) (← n.toNat?))
  | ["Z"] => some .Z
  | _ => none

/-- The after-image a W / X token of record `r` stands for. -/
def tokImg (r : Nat) : Tok → Option (Loc × Cell Nat)
  | .W r' t p => if r' = r then some ({ file := t, page := p, off := 0 }, some (r, 1)) else none
  | .X r' t => if r' = r then some (dropLoc t, some (r, 1)) else none
  | _ => none

def tokIsE (r : Nat) : Tok → Bool
  | .E r' => r' = r
  | _ => false

def tokIsZ : Tok → Bool
  | .Z => true
  | _ => false

/-- Split the token list into life times (at the Z tokens). -/
def splitLives (toks : List Tok) : List (List Tok) :=
  let r := toks.foldl (fun (acc : List (List Tok) × List Tok) t =>
    if tokIsZ t then (acc.2.reverse :: acc.1, []) else (acc.1, t :: acc.2)) ([], [])
  (r.2.reverse :: r.1).reverse

/-- After-images of record `r`: the W / X tokens of its first complete application. -/
def imagesOf (lives : List (List Tok)) (r : Nat) : Rec Loc Nat :=
  match lives.find? (fun seg => seg.any (tokIsE r)) with
  | some seg => (seg.takeWhile (fun t => !tokIsE r t)).filterMap (tokImg r)
  | none =>
    match lives.reverse.find? (fun seg => seg.any (fun t => (tokImg r t).isSome)) with
    | some seg => seg.filterMap (tokImg r)
    | none => []

def tokEv (lives : List (List Tok)) : Tok → Ev Nat
  | .A r f => .logAppend r f (imagesOf lives r)
  | .S f => .logSync f
  | .W r t p => .tableWrite r { file := t, page := p, off := 0 } (some (r, 1))
  | .E r => .enactEnd r
  | .M t => .tableSync t
  | .X r t => .tableDelete r t (some (r, 1))
  | .T f => .logTruncate f
  | .U f => .logDelete f
  | .R f => .logReuse f
  | .K _ _ => .logSync 0   -- not an event (handled by `runToks`)
  | .Z => .logSync 0       -- not an event (handled by `runToks`)

def showViol : Viol → String
  | .D1 => "D1" | .D2 => "D2" | .D3 => "D3"

/-- A K token is admissible (A-os) iff the file keeps at least its synced and at most all its
    records. -/
def kOk (s : St Nat) (k : Nat × Nat) : Bool :=
  match findLog s.logs k.1 with
  | some lf => decide (lf.nsynced ≤ k.2) && decide (k.2 ≤ lf.recs.length)
  | none => k.2 == 0

def choiceOf (s : St Nat) (ks : List (Nat × Nat)) : Choice :=
  { pick := fun _ _ => false,
    extra := fun f =>
      match ks.find? (fun k => k.1 == f), findLog s.logs f with
      | some k, some lf => k.2 - lf.nsynced
      | _, _ => 0 }

/-- Run the acceptor over the tokens (life times separated by Z). -/
def runToks (lives : List (List Tok)) : St Nat → List (Nat × Nat) → Nat → List Tok → String
  | _, _, _, [] => "ok"
  | s, ks, i, .K f n :: ts => runToks lives s (ks ++ [(f, n)]) (i + 1) ts
  | s, ks, i, .Z :: ts =>
    if ks.all (kOk s) then runToks lives (crashSt s (choiceOf s ks)) [] (i + 1) ts
    else s!"bad-crash@{i}"
  | s, ks, i, t :: ts =>
    match check s (tokEv lives t) with
    | some v => s!"violates:{showViol v}@{i}"
    | none => runToks lives (step s (tokEv lives t)) ks (i + 1) ts

def driverLine (args : List String) : String :=
  match args with
  | "check" :: ws =>
    match ws.mapM parseTok with
    | none => "bad-op"
    | some toks => runToks (splitLives toks) (St.init (fun _ => none)) [] 0 toks
  | _ => "bad-op"

end Dur
end Pdb
