/-
C12  Power loss cannot tear state: log synced before apply, data before log reuse.

Model: Pdb/Model/Dur.lean (file-system assumption A-os stated there; journals, the executable
discipline `accepts` = D1 ∧ D2 ∧ D3, power-loss images `Choice`, recovery `recoverImage`).
Records are P1 records (lists of absolute after-images, `Pdb.Rec`, `applyRec`), keyed by
physical locations; `tablesAfter t0 recs n` is the table content after records 1..n.

Revision (audit follow-up f-c12):
  * the unlink of a table file is an event ON BEHALF OF A RECORD (`tableDelete rec tfile val`:
    the store of the record's after-image for the existence marker `dropLoc tfile`, durable at
    once for the whole file), checked like a store (D1: the record is the one being applied and
    its log is synced); `C12_D1_delete_needed`, `C12_D1_delete_positional`;
  * life times: `crashSt` is the state `Db::open` finds after a power loss, `recoveryJournal` the
    events of `Db::open`; `C12_lifetimes`, `C12_synced_never_lost`, `C12_recovery_satisfies_D`,
    `C12_recovery_idempotent`;
  * `C12_D2_positional`;
  * the worker programs enact marker after-images by `tableDelete` (`imgEv`), reindex / DropTable
    records are `moveTx` / `dropTx` (see Model/Dur.lean): `C12_programs_satisfy_D` and
    `C12_pipeline_power_loss` now cover index growth (`C12_programs_unlink_after_sync`,
    `C12_pipeline_nested_power_loss`); `C12_drop_makes_invisible`, `C12_move_preserves_lookup`.
-/
import Pdb.Proofs.C12Gen
import Pdb.Proofs.C12Pos
import Pdb.Proofs.C12PosD
import Pdb.Proofs.C12Reopen

namespace Pdb
open Dur
variable {V : Type}

/-- For every journal satisfying the discipline, every instant of it (= every prefix), every
    subset of unsynced pages of every table-ish file and every surviving length of the unsynced
    log tails: recovery yields exactly the tables after records 1..n for some n between the number
    of records whose log was synced at the crash and the number of records appended. `t0` is the
    (durable) table content at the start of the journal. -/
theorem C12_discipline_suffices [DecidableEq V] (t0 : Tbl Loc V) (j : Journal V)
    (hD : accepts j = true) (pre : Journal V) (hp : pre <+: j) (c : Choice) :
    ∃ n, syncedRecords pre ≤ n ∧ n ≤ appendedRecords pre ∧
      recoverImage (stateOf t0 pre) c = tablesAfter t0 (stateOf t0 pre).recs n := by
  have hI := Inv.stateOf t0 pre (accepts_prefix j pre hp hD)
  obtain ⟨n, h1, h2, h3⟩ := recover_of_inv hI c
  exact ⟨n, by rw [← syncedRecords_eq t0]; exact h1, by rw [← appendedRecords_eq t0]; exact h2, h3⟩

/-- Torn pages are harmless: the recovered tables do not depend on WHICH unsynced pages reached
    the disk (any subset, chosen page by page), only on how much of the log tail survived. -/
theorem C12_torn_page_harmless [DecidableEq V] (t0 : Tbl Loc V) (j : Journal V)
    (hD : accepts j = true) (pre : Journal V) (hp : pre <+: j) (c : Choice)
    (pick' : Nat → Nat → Bool) :
    recoverImage (stateOf t0 pre) { c with pick := pick' } = recoverImage (stateOf t0 pre) c := by
  have hI := Inv.stateOf t0 pre (accepts_prefix j pre hp hD)
  obtain ⟨keep, k1, k2, k3, k4⟩ := survivors_spec hI c
  have k4' : ∀ id ws, (id, ws) ∈ survivors (stateOf t0 pre) { c with pick := pick' } ↔
      ((stateOf t0 pre).cleaned < id ∧ id ≤ keep ∧ ws = recOf (stateOf t0 pre).recs id) := k4
  unfold recoverImage
  rw [recover_spec _ _ _ keep k3 k2 k4, recover_spec _ _ _ keep k3 k2 k4',
    image_core hI c keep k1 k2, image_core hI _ keep k1 k2]

/-- The lower bound of `C12_discipline_suffices` means what it says: in a journal satisfying the
    discipline the records counted by `syncedRecords` are exactly those whose append to a log
    file is followed, later in the journal, by a sync of that file. -/
theorem C12_synced_means_synced [DecidableEq V] (j : Journal V) (hD : accepts j = true) (id : Nat) :
    SyncedAt j id ↔ (1 ≤ id ∧ id ≤ syncedRecords j) :=
  (PosI.journal (fun _ => none) j hD).syn id

/-- Positional reading of D1: in a journal satisfying the discipline every table write on behalf
    of record r is preceded by a sync of the log file holding r, issued after r was appended. -/
theorem C12_D1_positional [DecidableEq V] (j : Journal V) (hD : accepts j = true) (i r : Nat)
    (loc : Loc) (val : Cell V) (hi : j[i]? = some (Ev.tableWrite r loc val)) :
    SyncedAt (j.take i) r := by
  obtain ⟨h1, h2⟩ := accepts_at j hD i _ hi
  rw [C12_synced_means_synced _ h1]
  simp only [check] at h2
  by_cases c1 : r ≠ (stateOf (fun _ => none) (j.take i)).done + 1
  · simp [c1] at h2
  · simp only [c1, if_false] at h2
    by_cases c2 : (stateOf (fun _ => none) (j.take i)).synced < r
    · simp [c2] at h2
    · unfold syncedRecords
      omega

/-- Positional reading of D1 for the unlink of a table file: it is preceded by a sync of the log
    file holding the record on whose behalf the file is dropped, issued after that record was
    appended. -/
theorem C12_D1_delete_positional [DecidableEq V] (j : Journal V) (hD : accepts j = true) (i r t : Nat)
    (val : Cell V) (hi : j[i]? = some (Ev.tableDelete r t val)) :
    SyncedAt (j.take i) r := by
  obtain ⟨h1, h2⟩ := accepts_at j hD i _ hi
  rw [C12_synced_means_synced _ h1]
  simp only [check] at h2
  by_cases c1 : r ≠ (stateOf (fun _ => none) (j.take i)).done + 1
  · simp [c1] at h2
  · simp only [c1, if_false] at h2
    by_cases c2 : (stateOf (fun _ => none) (j.take i)).synced < r
    · simp [c2] at h2
    · unfold syncedRecords
      omega

/-- Positional reading of D2: in a journal satisfying the discipline, when a log file is
    truncated / unlinked / reused (position i), every record appended to it since its previous
    reclaim has its completion E before i, and every store made on behalf of such a record is
    followed, before i, by an msync (or the unlink) of the table file it went to. -/
theorem C12_D2_positional [DecidableEq V] (j : Journal V) (hD : accepts j = true) (i f : Nat)
    (hi : j[i]? = some (Ev.logTruncate f) ∨ j[i]? = some (Ev.logDelete f) ∨
      j[i]? = some (Ev.logReuse f))
    (a id : Nat) (ws : Rec Loc V) (ha : j[a]? = some (Ev.logAppend id f ws)) (hai : a < i)
    (hlive : ∀ k e, a < k → k < i → j[k]? = some e →
      e ≠ Ev.logTruncate f ∧ e ≠ Ev.logDelete f ∧ e ≠ Ev.logReuse f) :
    (∃ e : Nat, e < i ∧ j[e]? = some (Ev.enactEnd id)) ∧
    ∀ (w : Nat) (loc : Loc) (val : Cell V), w < i → j[w]? = some (Ev.tableWrite id loc val) →
      ∃ m, w < m ∧ m < i ∧ (j[m]? = some (Ev.tableSync loc.file) ∨
        ∃ r v, j[m]? = some (Ev.tableDelete r loc.file v)) := by
  -- the state in which the reclaim is checked
  have hchk : accepts (j.take i) = true ∧
      checkDrop (stateOf (fun _ => none) (j.take i)) f = none := by
    rcases hi with hi | hi | hi
    · exact accepts_at j hD i _ hi
    · exact accepts_at j hD i _ hi
    · exact accepts_at j hD i _ hi
  obtain ⟨hacc, hcd⟩ := hchk
  have hpos := PosD.journal (fun _ => none) (j.take i) hacc
  have hI := Inv.stateOf (fun _ => none) (j.take i) hacc
  have tk : ∀ k, k < i → (j.take i)[k]? = j[k]? := by
    intro k hk; rw [List.getElem?_take]; simp [hk]
  have lt_of : ∀ k (x : Ev V), (j.take i)[k]? = some x → k < i := by
    intro k x hx
    rcases List.getElem?_eq_some_iff.mp hx with ⟨h', _⟩
    rw [List.length_take] at h'; omega
  have hlive' : NoReclaimAfter (j.take i) a f := by
    intro k e hk he
    have hki := lt_of k e he
    rw [tk k hki] at he
    exact hlive k e hk hki he
  obtain ⟨⟨e, he⟩, hw⟩ := hpos.at_reclaim hI f hcd a id ws (by rw [tk a hai]; exact ha) hlive'
  refine ⟨⟨e, lt_of e _ he, by rw [← tk e (lt_of e _ he)]; exact he⟩, ?_⟩
  intro w loc val hwi hwj
  obtain ⟨m, hm, hor⟩ := hw w loc val (by rw [tk w hwi]; exact hwj)
  rcases hor with hor | ⟨r, v, hor⟩
  · have := lt_of m _ hor
    exact ⟨m, hm, this, Or.inl (by rw [← tk m this]; exact hor)⟩
  · have := lt_of m _ hor
    exact ⟨m, hm, this, Or.inr ⟨r, v, by rw [← tk m this]; exact hor⟩⟩

/-! ### life times -/

/-- The discipline suffices over any number of life times.  `ls`: the completed life times, each a
    journal (beginning with the events of `Db::open` on what the previous power loss left) and the
    choice of the power loss that ended it; `j`: the journal of the current life time.  All of them
    satisfy the discipline, each checked from the state the previous power loss left (`crashSt`:
    tables = the image, logs = the surviving records).  Then at every instant of the current life
    time and for every power loss, recovery yields exactly the tables after records 1..n of the
    surviving history, n between the number of records known durable and the number appended.
    A power loss during or after the recovery of an earlier one is the case `ls ≠ []`. -/
theorem C12_lifetimes [DecidableEq V] (t0 : Tbl Loc V) (ls : List (Journal V × Choice))
    (hL : livesAccepted (Dur.St.init t0) ls = true) (j : Journal V)
    (hD : acceptsFrom (livesFrom (Dur.St.init t0) ls) j = true) (pre : Journal V) (hp : pre <+: j)
    (c : Choice) :
    ∃ n, (stateFrom (livesFrom (Dur.St.init t0) ls) pre).synced ≤ n ∧
      n ≤ (stateFrom (livesFrom (Dur.St.init t0) ls) pre).recs.length ∧
      recoverImage (stateFrom (livesFrom (Dur.St.init t0) ls) pre) c =
        tablesAfter t0 (stateFrom (livesFrom (Dur.St.init t0) ls) pre).recs n := by
  have hI0 := Dur.Inv.lives ls _ (Dur.Inv.init t0) hL
  obtain ⟨t, rfl⟩ := hp
  rw [acceptsFrom_append] at hD
  simp only [Bool.and_eq_true] at hD
  exact recover_of_inv (Dur.Inv.stateFrom pre _ hI0 hD.1) c

/-- Nothing that was ever synced is lost or changed later, over any number of life times: if at
    some instant (`ls1`, then `pre` of the next life time `j1`) `k` records were covered by log
    syncs, then at every later instant (the rest of that life time, its power loss `c1`, the life
    times `ls2`, a prefix `pre2` of the current one) at least `k` records count as durable and
    records 1..k are the same records.  With `C12_lifetimes`: they are in every recovered state. -/
theorem C12_synced_never_lost [DecidableEq V] (t0 : Tbl Loc V) (ls1 ls2 : List (Journal V × Choice))
    (j1 pre : Journal V) (c1 : Choice) (hp : pre <+: j1)
    (hL : livesAccepted (Dur.St.init t0) (ls1 ++ (j1, c1) :: ls2) = true) (j2 pre2 : Journal V)
    (hp2 : pre2 <+: j2)
    (hD : acceptsFrom (livesFrom (Dur.St.init t0) (ls1 ++ (j1, c1) :: ls2)) j2 = true) :
    (stateFrom (livesFrom (Dur.St.init t0) ls1) pre).synced ≤
      (stateFrom (livesFrom (Dur.St.init t0) (ls1 ++ (j1, c1) :: ls2)) pre2).synced ∧
    (stateFrom (livesFrom (Dur.St.init t0) (ls1 ++ (j1, c1) :: ls2)) pre2).recs.take
        (stateFrom (livesFrom (Dur.St.init t0) ls1) pre).synced =
      (stateFrom (livesFrom (Dur.St.init t0) ls1) pre).recs.take
        (stateFrom (livesFrom (Dur.St.init t0) ls1) pre).synced := by
  rw [livesAccepted_append] at hL
  simp only [livesAccepted, Bool.and_eq_true] at hL
  obtain ⟨hL1, hj1, hL2⟩ := hL
  have hI1 := Dur.Inv.lives ls1 _ (Dur.Inv.init t0) hL1
  obtain ⟨t, rfl⟩ := hp
  rw [acceptsFrom_append] at hj1
  simp only [Bool.and_eq_true] at hj1
  have hIp := Dur.Inv.stateFrom pre _ hI1 hj1.1
  -- from the instant to the end of its life time, the power loss, the later life times, pre2
  have k1 : Keeps (stateFrom (livesFrom (Dur.St.init t0) ls1) pre)
      (stateFrom (livesFrom (Dur.St.init t0) ls1) (pre ++ t)) := by
    rw [stateFrom_append]; exact Keeps.journal t _ hIp hj1.2
  have hIe : Dur.Inv t0 (stateFrom (livesFrom (Dur.St.init t0) ls1) (pre ++ t)) := by
    rw [stateFrom_append]; exact Dur.Inv.stateFrom t _ hIp hj1.2
  have k2 := Keeps.crash hIe c1
  have k3 := Keeps.lives ls2 _ (hIe.crashSt c1) hL2
  have hIl := Dur.Inv.lives ls2 _ (hIe.crashSt c1) hL2
  rw [livesFrom_append] at hD ⊢
  simp only [livesFrom] at hD ⊢
  obtain ⟨t2, rfl⟩ := hp2
  rw [acceptsFrom_append] at hD
  simp only [Bool.and_eq_true] at hD
  have k4 := Keeps.journal pre2 _ hIl hD.1
  exact ((k1.trans k2).trans k3).trans k4

/-- The recovery program (`Db::open` on a power-loss image: replay of the surviving records in id
    order -- stores, unlinks, completions --, msync of the table files written, truncation of
    every log file oldest first) satisfies the discipline from the state ANY power loss leaves at
    ANY instant of ANY accepted history of life times, and ends with every log reclaimed, all
    surviving records applied, and the tables exactly -- and durably -- the tables after them. -/
theorem C12_recovery_satisfies_D [DecidableEq V] (t0 : Tbl Loc V) (ls : List (Journal V × Choice))
    (hL : livesAccepted (Dur.St.init t0) ls = true) (j : Journal V)
    (hD : acceptsFrom (livesFrom (Dur.St.init t0) ls) j = true) (c : Choice) :
    acceptsFrom (crashSt (stateFrom (livesFrom (Dur.St.init t0) ls) j) c)
      (recoveryJournal (crashSt (stateFrom (livesFrom (Dur.St.init t0) ls) j) c)) = true ∧
    (stateFrom (crashSt (stateFrom (livesFrom (Dur.St.init t0) ls) j) c)
      (recoveryJournal (crashSt (stateFrom (livesFrom (Dur.St.init t0) ls) j) c))).logs = [] ∧
    (stateFrom (crashSt (stateFrom (livesFrom (Dur.St.init t0) ls) j) c)
      (recoveryJournal (crashSt (stateFrom (livesFrom (Dur.St.init t0) ls) j) c))).vol =
        recoverImage (stateFrom (livesFrom (Dur.St.init t0) ls) j) c ∧
    (stateFrom (crashSt (stateFrom (livesFrom (Dur.St.init t0) ls) j) c)
      (recoveryJournal (crashSt (stateFrom (livesFrom (Dur.St.init t0) ls) j) c))).dur =
        recoverImage (stateFrom (livesFrom (Dur.St.init t0) ls) j) c := by
  have hI := Dur.Inv.stateFrom j _ (Dur.Inv.lives ls _ (Dur.Inv.init t0) hL) hD
  have hk := keepOf_spec hI c
  have hIc := hI.crashSt c
  have hlen : (crashSt (stateFrom (livesFrom (Dur.St.init t0) ls) j) c).recs.length =
      keepOf (stateFrom (livesFrom (Dur.St.init t0) ls) j) c := by
    show (List.take _ _).length = _
    rw [List.length_take]; omega
  obtain ⟨r1, r2, r3, r4, r5, r6, r7⟩ := recovery_ok hIc rfl (by rw [hlen]; rfl)
  have himg : recoverImage (stateFrom (livesFrom (Dur.St.init t0) ls) j) c =
      tablesAfter t0 (crashSt (stateFrom (livesFrom (Dur.St.init t0) ls) j) c).recs
        (crashSt (stateFrom (livesFrom (Dur.St.init t0) ls) j) c).recs.length := by
    rw [recoverImage_keepOf hI c, hlen]
    show _ = tablesAfter t0 (List.take _ _) _
    rw [tablesAfter_take _ _ _ _ (Nat.le_refl _)]
  exact ⟨r1, r2, by rw [r6, himg], by rw [r7, himg]⟩

/-- A power loss DURING the recovery changes nothing: recovery of an image taken at any instant of
    the recovery program (any prefix, any choice of torn pages) yields exactly what the
    interrupted recovery was going to yield. -/
theorem C12_recovery_idempotent [DecidableEq V] (t0 : Tbl Loc V) (ls : List (Journal V × Choice))
    (hL : livesAccepted (Dur.St.init t0) ls = true) (j : Journal V)
    (hD : acceptsFrom (livesFrom (Dur.St.init t0) ls) j = true) (c : Choice) (pre : Journal V)
    (hp : pre <+: recoveryJournal (crashSt (stateFrom (livesFrom (Dur.St.init t0) ls) j) c))
    (c2 : Choice) :
    recoverImage (stateFrom (crashSt (stateFrom (livesFrom (Dur.St.init t0) ls) j) c) pre) c2 =
      recoverImage (stateFrom (livesFrom (Dur.St.init t0) ls) j) c := by
  have hI := Dur.Inv.stateFrom j _ (Dur.Inv.lives ls _ (Dur.Inv.init t0) hL) hD
  have hk := keepOf_spec hI c
  have hIc := hI.crashSt c
  obtain ⟨hacc, _⟩ := C12_recovery_satisfies_D t0 ls hL j hD c
  have hq := all_of_prefix quiet _ pre hp (recoveryJournal_quiet _)
  obtain ⟨q1, q2⟩ := quiet_stateFrom pre (crashSt (stateFrom (livesFrom (Dur.St.init t0) ls) j) c) hq
  obtain ⟨t, ht⟩ := hp
  have hacc' : acceptsFrom (crashSt (stateFrom (livesFrom (Dur.St.init t0) ls) j) c) pre = true := by
    rw [← ht, acceptsFrom_append] at hacc
    simp only [Bool.and_eq_true] at hacc
    exact hacc.1
  obtain ⟨n, n1, n2, n3⟩ := recover_of_inv (Dur.Inv.stateFrom pre _ hIc hacc') c2
  rw [q1] at n2 n3
  rw [q2] at n1
  have hlen : (crashSt (stateFrom (livesFrom (Dur.St.init t0) ls) j) c).recs.length =
      keepOf (stateFrom (livesFrom (Dur.St.init t0) ls) j) c := by
    show (List.take _ _).length = _
    rw [List.length_take]; omega
  have hn : n = keepOf (stateFrom (livesFrom (Dur.St.init t0) ls) j) c := by
    have : (crashSt (stateFrom (livesFrom (Dur.St.init t0) ls) j) c).synced =
        keepOf (stateFrom (livesFrom (Dur.St.init t0) ls) j) c := rfl
    omega
  rw [n3, hn, recoverImage_keepOf hI c]
  show tablesAfter t0 (List.take _ _) _ = _
  rw [tablesAfter_take _ _ _ _ (Nat.le_refl _)]

/-- The abstract worker programs satisfy the discipline: every journal generated from a P1
    history (process = logAppend, flush = logSync, enact = the record's stores then enactEnd,
    clean = tableSync of every dirty table file then logTruncate of the oldest log file whose
    records are all applied; any interleaving of commit / process / flush / enact / clean /
    reindex, P1's stage order: enact needs `flushed > 0`) is accepted.
    The two ORDER facts this generator assumes about the code are exactly the obligations that
    Pdb/Gen/Order.lean + Pdb/Proofs/Order.lean (tools/skeleton.py) discharge on the extracted call
    skeletons: "sync_data precedes the push to the read queue in Log::flush_one" (so a record is
    readable by the enactor only after `logSync`: here `flush` emits the sync and only then does
    P1's `flushed` let `enact` run) and "column flush precedes log.clean_logs in
    DbInner::clean_logs / clean_all_logs" (here `clean` emits every `tableSync` before the
    `logTruncate`); together with `Log::clean_logs` draining `cleanup_queue` from the front
    (oldest first). -/
theorem C12_programs_satisfy_D [DecidableEq V] (kind : Loc → Kind) (as : List (Action Loc V))
    (hp : pipelineOnly as = true) : accepts (journalOf kind as) = true :=
  (GI.run kind as hp).acc

/-- End to end for the worker programs: at every instant of every pipeline history (every prefix of
    its journal), after any power loss, recovery yields P1's specification of a prefix of the
    committed transactions that contains every transaction whose log record was synced. -/
theorem C12_pipeline_power_loss [DecidableEq V] (kind : Loc → Kind) (as : List (Action Loc V))
    (hp : pipelineOnly as = true) (pre : Journal V) (hpre : pre <+: journalOf kind as)
    (c : Choice) :
    ∃ n, syncedRecords pre ≤ n ∧ n ≤ appendedRecords pre ∧
      n ≤ (Pdb.run kind Pdb.St.init as).hist.length ∧
      recoverImage (stateOf (fun _ => none) pre) c =
        spec kind ((Pdb.run kind (Pdb.St.init : Pdb.St Loc V) as).hist.take n) := by
  have hG := GI.run kind as hp
  obtain ⟨n, h1, h2, h3⟩ :=
    C12_discipline_suffices (fun _ => none) (journalOf kind as) hG.acc pre hpre c
  obtain ⟨rest, hrest⟩ := hpre
  obtain ⟨t, ht⟩ := recs_grow rest (stateOf (fun _ => none) pre)
  have hfin : (genRun kind as : GenSt V).g.recs = (stateOf (fun _ => none) pre).recs ++ t := by
    rw [hG.st, ← ht]
    show (stateFrom _ (journalOf kind as)).recs = _
    rw [← hrest, stateFrom_append]; rfl
  have h2' : n ≤ (stateOf (fun _ => none) pre).recs.length := h2
  have hlenP := hG.pinv.len
  have hlen := hG.len
  refine ⟨n, h1, h2, ?_, ?_⟩
  · rw [← genRun_p]
    have : n ≤ (genRun kind as : GenSt V).g.recs.length := by rw [hfin]; simp; omega
    omega
  · rw [h3, ← tablesAfter_prefix _ _ t n h2', ← hfin, hG.specs n (by rw [hfin]; simp; omega),
      genRun_p]

/-- The worker programs unlink a table file only on behalf of a record whose log file was synced
    after the record was appended (the premature drop of `C12_D1_delete_needed` is not something
    they do). -/
theorem C12_programs_unlink_after_sync [DecidableEq V] (kind : Loc → Kind) (as : List (Action Loc V))
    (hp : pipelineOnly as = true) (i r t : Nat) (val : Cell V)
    (hi : (journalOf kind as)[i]? = some (Ev.tableDelete r t val)) :
    SyncedAt ((journalOf kind as).take i) r :=
  C12_D1_delete_positional _ (C12_programs_satisfy_D kind as hp) i r t val hi

/-- End to end over two life times of the worker programs: a power loss at any instant of a
    pipeline history, then a second power loss at any instant of the recovery (`Db::open`: replay,
    flush, reclaim) that follows: both recoveries yield P1's specification of the SAME prefix of
    the committed transactions, which contains every transaction whose log record was synced. -/
theorem C12_pipeline_nested_power_loss [DecidableEq V] (kind : Loc → Kind) (as : List (Action Loc V))
    (hp : pipelineOnly as = true) (pre : Journal V) (hpre : pre <+: journalOf kind as)
    (c : Choice) (pre2 : Journal V)
    (hpre2 : pre2 <+: recoveryJournal (crashSt (stateOf (fun _ => none) pre) c)) (c2 : Choice) :
    ∃ n, syncedRecords pre ≤ n ∧ n ≤ appendedRecords pre ∧
      n ≤ (Pdb.run kind Pdb.St.init as).hist.length ∧
      recoverImage (stateOf (fun _ => none) pre) c =
        spec kind ((Pdb.run kind (Pdb.St.init : Pdb.St Loc V) as).hist.take n) ∧
      recoverImage (stateFrom (crashSt (stateOf (fun _ => none) pre) c) pre2) c2 =
        spec kind ((Pdb.run kind (Pdb.St.init : Pdb.St Loc V) as).hist.take n) := by
  obtain ⟨n, h1, h2, h3, h4⟩ := C12_pipeline_power_loss kind as hp pre hpre c
  refine ⟨n, h1, h2, h3, h4, ?_⟩
  have hacc : acceptsFrom (Dur.St.init (fun _ => none)) pre = true :=
    accepts_prefix _ pre hpre (C12_programs_satisfy_D kind as hp)
  have := C12_recovery_idempotent (fun _ => none) [] rfl pre hacc c pre2 hpre2 c2
  rw [← h4]
  exact this

/-! ### each half of the discipline is needed (concrete negation witnesses) -/

/-- Executable test "the recovered tables are the tables after some allowed n", on a finite list
    of locations. -/
def allowedPrefixOn (locs : List Loc) (t0 : Tbl Loc Nat) (s : Dur.St Nat) (c : Choice) : Bool :=
  (List.range (s.recs.length + 1)).any (fun n =>
    decide (s.synced ≤ n) && locs.all (fun l => recoverImage s c l == tablesAfter t0 s.recs n l))

theorem allowedPrefixOn_of_exists (locs : List Loc) (t0 : Tbl Loc Nat) (s : Dur.St Nat) (c : Choice)
    (h : ∃ n, s.synced ≤ n ∧ n ≤ s.recs.length ∧ recoverImage s c = tablesAfter t0 s.recs n) :
    allowedPrefixOn locs t0 s c = true := by
  obtain ⟨n, h1, h2, h3⟩ := h
  unfold allowedPrefixOn
  rw [List.any_eq_true]
  refine ⟨n, by simp; omega, ?_⟩
  simp only [h1, decide_true, Bool.true_and, List.all_eq_true, h3]
  intro l _
  simp

private def l1 : Loc := { file := 0, page := 0, off := 8 }
private def l2 : Loc := { file := 0, page := 1, off := 16 }
private def ws12 : Rec Loc Nat := [(l1, some (11, 1)), (l2, some (22, 1))]
private def none0 : Tbl Loc Nat := fun _ => none
/-- page 0 of table file 0 reached the disk, page 1 did not; no unsynced log bytes survived -/
private def torn : Choice := { pick := fun _ p => p == 0, extra := fun _ => 0 }

/-- D1 violated: record 1 is stored into the table before its log file is synced. -/
private def jNoD1 : Journal Nat :=
  [.logAppend 1 0 ws12, .tableWrite 1 l1 (some (11, 1)), .tableWrite 1 l2 (some (22, 1)),
   .logSync 0, .enactEnd 1]

/-- D2 violated: the log file is truncated before the table file is synced. -/
private def jNoD2 : Journal Nat :=
  [.logAppend 1 0 ws12, .logSync 0, .tableWrite 1 l1 (some (11, 1)),
   .tableWrite 1 l2 (some (22, 1)), .enactEnd 1, .logTruncate 0, .tableSync 0]

/-- D3 violated: a newer log file is reclaimed before an older one. -/
private def jNoD3 : Journal Nat :=
  [.logAppend 1 0 [(l1, some (11, 1))], .logSync 0, .logAppend 2 1 [(l1, some (22, 1))], .logSync 1,
   .tableWrite 1 l1 (some (11, 1)), .enactEnd 1, .tableWrite 2 l1 (some (22, 1)), .enactEnd 2,
   .tableSync 0, .logTruncate 1, .logTruncate 0]

/-- Without D1 (table write before log sync) a power loss tears the state: after the two stores
    of `jNoD1` (3 events) the image with page 0 written and page 1 not recovers to tables that are
    neither the state before nor the state after record 1. -/
theorem C12_D1_needed :
    firstViolFrom (Dur.St.init none0) 0 jNoD1 = some (.D1, 1) ∧
    ¬ ∃ n, (stateOf none0 (jNoD1.take 3)).synced ≤ n ∧ n ≤ (stateOf none0 (jNoD1.take 3)).recs.length ∧
      recoverImage (stateOf none0 (jNoD1.take 3)) torn =
        tablesAfter none0 (stateOf none0 (jNoD1.take 3)).recs n := by
  refine ⟨by decide, fun h => ?_⟩
  have := allowedPrefixOn_of_exists [l1, l2] none0 _ torn h
  revert this
  decide

/-- Without D2 (truncate before table sync): after the truncation of `jNoD2` (6 events) the same
    torn image has lost record 1's log and holds half of its stores. -/
theorem C12_D2_needed :
    firstViolFrom (Dur.St.init none0) 0 jNoD2 = some (.D2, 5) ∧
    ¬ ∃ n, (stateOf none0 (jNoD2.take 6)).synced ≤ n ∧ n ≤ (stateOf none0 (jNoD2.take 6)).recs.length ∧
      recoverImage (stateOf none0 (jNoD2.take 6)) torn =
        tablesAfter none0 (stateOf none0 (jNoD2.take 6)).recs n := by
  refine ⟨by decide, fun h => ?_⟩
  have := allowedPrefixOn_of_exists [l1, l2] none0 _ torn h
  revert this
  decide

/-- Without the oldest-first clause of D3: after `jNoD3` reclaimed log file 1 (10 events) the
    logs hold record 1 only; replay puts its older value over the durable newer one, and the
    result is not a state containing both synced records. -/
theorem C12_D3_needed :
    firstViolFrom (Dur.St.init none0) 0 jNoD3 = some (.D3, 9) ∧
    ¬ ∃ n, (stateOf none0 (jNoD3.take 10)).synced ≤ n ∧ n ≤ (stateOf none0 (jNoD3.take 10)).recs.length ∧
      recoverImage (stateOf none0 (jNoD3.take 10)) torn =
        tablesAfter none0 (stateOf none0 (jNoD3.take 10)).recs n := by
  refine ⟨by decide, fun h => ?_⟩
  have := allowedPrefixOn_of_exists [l1, l2] none0 _ torn h
  revert this
  decide

/-! ### the unlink clause of D1 is needed -/

/-- The discipline with the unlink clause blinded (the acceptor before this revision: the drop of a
    table file was allowed at ANY position of the journal). -/
def checkBlind [DecidableEq V] (s : Dur.St V) : Ev V → Option Viol
  | .tableDelete _ _ _ => none
  | .logAppend r f ws => check s (.logAppend r f ws)
  | .logSync f => check s (.logSync f)
  | .tableWrite r l v => check s (.tableWrite r l v)
  | .enactEnd r => check s (.enactEnd r)
  | .tableSync t => check s (.tableSync t)
  | .logTruncate f => check s (.logTruncate f)
  | .logDelete f => check s (.logDelete f)
  | .logReuse f => check s (.logReuse f)

def acceptsBlindFrom [DecidableEq V] (s : Dur.St V) : Journal V → Bool
  | [] => true
  | e :: es => (checkBlind s e).isNone && acceptsBlindFrom (Dur.step s e) es

/-- the entry of one key in the old index file (0) and in the new one (1) -/
private def a0 : Loc := { file := 0, page := 1, off := 8 }
private def a1 : Loc := { file := 1, page := 1, off := 8 }
private def recA : Rec Loc Nat := [(a0, some (11, 1))]
/-- reindex record: DropTable of file 0, the entry goes to file 1 -/
private def recB : Rec Loc Nat := [(dropLoc 0, some (0, 1)), (a1, some (11, 1))]

/-- Record 2 (the reindex record) is enacted -- its first action: the unlink of the old index --
    BEFORE its log file is synced; everything else is in order. -/
private def jNoX : Journal Nat :=
  [.logAppend 1 0 recA, .logSync 0, .tableWrite 1 a0 (some (11, 1)), .enactEnd 1, .tableSync 0,
   .logTruncate 0, .logAppend 2 1 recB, .tableDelete 2 0 (some (0, 1)), .logSync 1,
   .tableWrite 2 a1 (some (11, 1)), .enactEnd 2, .tableSync 1, .logTruncate 1]

/-- Without the unlink clause of D1: `jNoX` passes the blinded discipline from the first to the last
    event, the discipline rejects it at the unlink (event 7, D1).  A power loss right after the
    unlink (8 events; the unsynced log of record 2 is lost, the unlink is not) recovers to tables
    that are neither the tables after record 1 (the old index is gone) nor after record 2 (the new
    index has no entry): the key is readable in neither index (`visible`), although both record
    prefixes hold it. -/
theorem C12_D1_delete_needed :
    acceptsBlindFrom (Dur.St.init none0) jNoX = true ∧
    firstViolFrom (Dur.St.init none0) 0 jNoX = some (.D1, 7) ∧
    (¬ ∃ n, (stateOf none0 (jNoX.take 8)).synced ≤ n ∧ n ≤ (stateOf none0 (jNoX.take 8)).recs.length ∧
      recoverImage (stateOf none0 (jNoX.take 8)) torn =
        tablesAfter none0 (stateOf none0 (jNoX.take 8)).recs n) ∧
    visible (recoverImage (stateOf none0 (jNoX.take 8)) torn) a0 = none ∧
    visible (recoverImage (stateOf none0 (jNoX.take 8)) torn) a1 = none ∧
    visible (tablesAfter none0 (stateOf none0 (jNoX.take 8)).recs 1) a0 = some (11, 1) ∧
    visible (tablesAfter none0 (stateOf none0 (jNoX.take 8)).recs 2) a1 = some (11, 1) := by
  refine ⟨by decide, by decide, fun h => ?_, by decide, by decide, by decide, by decide⟩
  have := allowedPrefixOn_of_exists [a0, a1, dropLoc 0] none0 _ torn h
  revert this
  decide

/-- The same history with the sync in front of the unlink satisfies the discipline. -/
private def jWithX : Journal Nat :=
  [.logAppend 1 0 recA, .logSync 0, .tableWrite 1 a0 (some (11, 1)), .enactEnd 1, .tableSync 0,
   .logTruncate 0, .logAppend 2 1 recB, .logSync 1, .tableDelete 2 0 (some (0, 1)),
   .tableWrite 2 a1 (some (11, 1)), .enactEnd 2, .tableSync 1, .logTruncate 1]

/-! ### what the existence markers mean -/

/-- After the DropTable transaction every location of the dropped file is absent. -/
theorem C12_drop_makes_invisible (kind : Loc → Kind) (T : Tbl Loc V) (t : Nat) (tomb : V) (l : Loc)
    (hl : l.file = t) : visible (applyOps kind T (dropTx t tomb)) l = none := by
  have hg : gone (applyOps kind T (dropTx t tomb)) t = true := by
    unfold gone dropTx applyOps applyOp
    simp only [List.foldl_cons, List.foldl_nil, Op.key, upd_same]
    cases kind (dropLoc t) <;> cases T (dropLoc t) <;> simp [applyCell]
  unfold visible
  rw [hl, hg]
  rfl

/-- Lookup of the entry at (page, offset) during a growth: the new index file first, then the
    old one (`HashColumn::get`: current table, then the tables queued for reindex). -/
def lookup2 (T : Tbl Loc V) (dst src p o : Nat) : Cell V :=
  (visible T { file := dst, page := p, off := o }).or (visible T { file := src, page := p, off := o })

/-- A reindex record is a logical no-op: moving one entry (plain column, present in the old file,
    absent in the new one, neither file dropped) changes no lookup.  (A batch `moveTx src dst es`
    is the sequence of its single moves: `applyOps` over the concatenation.) -/
theorem C12_move_preserves_lookup (kind : Loc → Kind) (T : Tbl Loc V) (src dst p o : Nat) (v : V)
    (hk1 : kind { file := dst, page := p, off := o } = .plain)
    (hk2 : kind { file := src, page := p, off := o } = .plain)
    (hne : src ≠ dst) (hm : ¬ (p = 0 ∧ o = 1))
    (hgs : gone T src = false) (hgd : gone T dst = false)
    (hd : T { file := dst, page := p, off := o } = none)
    (hs : T { file := src, page := p, off := o } = some (v, 1))
    (p' o' : Nat) :
    lookup2 (applyOps kind T (moveTx src dst [(p, o, v)])) dst src p' o' = lookup2 T dst src p' o' := by
  have hT : applyOps kind T (moveTx src dst [(p, o, v)]) =
      upd (upd T { file := dst, page := p, off := o } (some (v, 1)))
        { file := src, page := p, off := o } none := by
    simp only [moveTx, List.flatMap_cons, List.flatMap_nil, List.append_nil, applyOps,
      List.foldl_cons, List.foldl_nil, applyOp, Op.key, hk1, hk2, applyCell]
  have hsd : ({ file := src, page := p, off := o } : Loc) ≠ { file := dst, page := p, off := o } := by
    intro e; exact hne (by injection e)
  -- the existence markers are untouched
  have hg : ∀ f, gone (applyOps kind T (moveTx src dst [(p, o, v)])) f = gone T f := by
    intro f
    unfold gone
    rw [hT]
    have n1 : dropLoc f ≠ { file := src, page := p, off := o } := by
      intro e; unfold dropLoc at e; injection e with _ e2 e3; exact hm ⟨e2.symm, e3.symm⟩
    have n2 : dropLoc f ≠ { file := dst, page := p, off := o } := by
      intro e; unfold dropLoc at e; injection e with _ e2 e3; exact hm ⟨e2.symm, e3.symm⟩
    rw [upd_other _ _ _ _ n1, upd_other _ _ _ _ n2]
  unfold lookup2 visible
  simp only [hg, hgs, hgd, Bool.false_eq_true, if_false]
  rw [hT]
  by_cases e : p' = p ∧ o' = o
  · obtain ⟨rfl, rfl⟩ := e
    rw [upd_other _ _ _ _ hsd.symm, upd_same, upd_same, hd, hs]
    rfl
  · have n1 : ({ file := dst, page := p', off := o' } : Loc) ≠ { file := src, page := p, off := o } := by
      intro h; exact hne (by injection h with h1; exact h1.symm)
    have n2 : ({ file := dst, page := p', off := o' } : Loc) ≠ { file := dst, page := p, off := o } := by
      intro h; injection h with _ h2 h3; exact e ⟨h2, h3⟩
    have n3 : ({ file := src, page := p', off := o' } : Loc) ≠ { file := src, page := p, off := o } := by
      intro h; injection h with _ h2 h3; exact e ⟨h2, h3⟩
    have n4 : ({ file := src, page := p', off := o' } : Loc) ≠ { file := dst, page := p, off := o } := by
      intro h; exact hne (by injection h)
    rw [upd_other _ _ _ _ n1, upd_other _ _ _ _ n2, upd_other _ _ _ _ n3, upd_other _ _ _ _ n4]

/-! ### non-vacuity: a journal with two log files, a torn crash instant and a reuse -/
section Example
private def jOk : Journal Nat :=
  [.logAppend 1 0 ws12, .logSync 0, .logAppend 2 1 [(l1, some (33, 1))],
   .tableWrite 1 l1 (some (11, 1)), .tableWrite 1 l2 (some (22, 1)), .enactEnd 1,
   .tableSync 0, .logTruncate 0, .logSync 1, .tableWrite 2 l1 (some (33, 1)), .enactEnd 2,
   .logAppend 3 0 [(l2, none)]]

example : accepts jOk = true := by decide
example : SyncedAt jOk 1 := ⟨0, 1, 0, ws12, by decide, rfl, rfl⟩
-- crash after the first store of record 1 (4 events), page 0 on disk, unsynced record 2 lost:
-- replay of record 1 repairs the half-written state
example : syncedRecords (jOk.take 4) = 1 ∧ appendedRecords (jOk.take 4) = 2 ∧
    recoverImage (stateOf none0 (jOk.take 4)) torn l1 = some (11, 1) ∧
    recoverImage (stateOf none0 (jOk.take 4)) torn l2 = some (22, 1) := by decide
-- crash at the end: record 3 (unsynced, in the reused log file 0) may or may not survive
example : recoverImage (stateOf none0 jOk) torn l2 = some (22, 1) ∧
    recoverImage (stateOf none0 jOk) { torn with extra := fun _ => 1 } l2 = none := by decide

-- the generator on a P1 history with two commits: 2 appends, 2 syncs, 3 stores, 2 completions,
-- 2 msyncs, 2 truncates (A:1:1 S:1 A:2:2 W W E:1 S:2 M:0 T:1 W E:2 M:0 T:2)
private def kd : Loc → Kind := fun _ => .plain
private def acts : List (Action Loc Nat) :=
  [.commit [.set l1 10, .set l2 20], .process, .flush, .commit [.deref l2], .process, .enact,
   .flush, .clean, .enact, .clean]
example : pipelineOnly acts = true ∧ (journalOf kd acts).length = 13 ∧
    accepts (journalOf kd acts) = true ∧ appendedRecords (journalOf kd acts) = 2 := by decide

-- the unlink on behalf of a synced record is accepted; D1 (unlink) and D2 read positionally
example : accepts jWithX = true := by decide
example : SyncedAt (jWithX.take 8) 2 :=
  C12_D1_delete_positional jWithX (by decide) 8 2 0 (some (0, 1)) (by decide)
example : (∃ e : Nat, e < 7 ∧ jOk[e]? = some (Ev.enactEnd 1)) ∧
    ∀ (w : Nat) (loc : Loc) (val : Cell Nat), w < 7 → jOk[w]? = some (Ev.tableWrite 1 loc val) →
      ∃ m, w < m ∧ m < 7 ∧ (jOk[m]? = some (Ev.tableSync loc.file) ∨
        ∃ r v, jOk[m]? = some (Ev.tableDelete r loc.file v)) :=
  C12_D2_positional jOk (by decide) 7 0 (Or.inl (by decide)) 0 1 ws12 (by decide) (by decide)
    (by
      intro k e h1 h2 hk
      have : k = 1 ∨ k = 2 ∨ k = 3 ∨ k = 4 ∨ k = 5 ∨ k = 6 := by omega
      rcases this with rfl | rfl | rfl | rfl | rfl | rfl <;>
        (simp [jOk] at hk; subst hk; simp))

-- life times: power loss after the first store of record 1 (4 events of jOk, page 0 on disk, the
-- unsynced record 2 lost); the second life time is the recovery program (replay of record 1:
-- 2 stores + E, msync, truncate), then a new record 2; a second power loss in the MIDDLE of the
-- recovery (after the first replayed store) and one at the end of the second life time
private def crash1 : Dur.St Nat := crashSt (stateOf none0 (jOk.take 4)) torn
private def life2 : Journal Nat :=
  recoveryJournal crash1 ++ [.logAppend 2 1 [(l1, some (44, 1))], .logSync 1]
example : recoveryJournal crash1 =
    [.tableWrite 1 l1 (some (11, 1)), .tableWrite 1 l2 (some (22, 1)), .enactEnd 1, .tableSync 0,
     .logTruncate 0] := by decide
example : livesAccepted (Dur.St.init none0) [(jOk.take 4, torn)] = true ∧
    acceptsFrom (livesFrom (Dur.St.init none0) [(jOk.take 4, torn)]) life2 = true := by decide
example : keepOf (stateOf none0 (jOk.take 4)) torn = 1 ∧ crash1.recs.length = 1 ∧
    crash1.logs.length = 1 ∧ crash1.vol l1 = some (11, 1) ∧ crash1.vol l2 = none := by decide
-- nested power loss during the recovery: same result as the interrupted recovery
example : recoverImage (stateFrom crash1 (life2.take 1)) torn l2 = some (22, 1) ∧
    recoverImage (stateOf none0 (jOk.take 4)) torn l2 = some (22, 1) := by decide
-- three life times
example : livesAccepted (Dur.St.init none0) [(jOk.take 4, torn), (life2.take 1, torn)] = true ∧
    livesAccepted (Dur.St.init none0) [(jOk.take 4, torn), (life2, torn)] = true ∧
    (livesFrom (Dur.St.init none0) [(jOk.take 4, torn), (life2, torn)]).synced = 2 := by decide

-- index growth in the worker programs: one entry (page 1, offset 8) in index file 0; the reindex
-- record moves it to file 1, the DropTable record unlinks file 0 (X event, after the sync of its
-- log); at EVERY instant of the journal and for both extreme power losses the key is readable
-- (in the new index, else in the old one) once its log was synced
private def actsG : List (Action Loc Nat) :=
  [.commit [.set a0 10], .process, .flush, .enact, .clean,
   .commit (moveTx 0 1 [(1, 8, 10)]), .commit (dropTx 0 99), .process, .process, .flush, .enact,
   .enact, .clean]
private def allKept : Choice := { pick := fun _ _ => true, extra := fun _ => 5 }
example : pipelineOnly actsG = true ∧ accepts (journalOf kd actsG) = true ∧
    (journalOf kd actsG).length = 16 ∧
    (journalOf kd actsG)[12]? = some (Ev.tableDelete 3 0 (some (99, 1))) := by decide
example : (List.range 17).all (fun k =>
    decide (syncedRecords ((journalOf kd actsG).take k) = 0) ||
    [torn, allKept].all (fun c =>
      ((visible (recoverImage (stateOf none0 ((journalOf kd actsG).take k)) c) a1).or
        (visible (recoverImage (stateOf none0 ((journalOf kd actsG).take k)) c) a0))
        == some (10, 1))) = true := by decide

-- two life times of the worker programs: power loss after the store into the new index, before the
-- unlink of the old one (12 events), second power loss after two events of the recovery
example := C12_pipeline_nested_power_loss kd actsG (by decide) ((journalOf kd actsG).take 12)
  (List.take_prefix _ _) torn
  ((recoveryJournal (crashSt (stateOf (fun _ => none) ((journalOf kd actsG).take 12)) torn)).take 2)
  (List.take_prefix _ _) allKept
example : (recoveryJournal (crashSt (stateOf none0 ((journalOf kd actsG).take 12)) torn)).length = 7 ∧
    (recoveryJournal (crashSt (stateOf none0 ((journalOf kd actsG).take 12)) torn))[3]? =
      some (Ev.tableDelete 3 0 (some (99, 1))) := by decide

-- the hypotheses of the move lemma hold for the entry of `actsG`
example := C12_move_preserves_lookup kd (upd none0 a0 (some (10, 1))) 0 1 1 8 10 rfl rfl
  (by decide) (by decide) (by decide) (by decide) (by decide) (by decide) 1 8
example : lookup2 (applyOps kd (upd none0 a0 (some (10, 1))) (moveTx 0 1 [(1, 8, 10)])) 1 0 1 8 =
    some (10, 1) := by decide
end Example

end Pdb

#print axioms Pdb.C12_discipline_suffices
#print axioms Pdb.C12_torn_page_harmless
#print axioms Pdb.C12_synced_means_synced
#print axioms Pdb.C12_D1_positional
#print axioms Pdb.C12_programs_satisfy_D
#print axioms Pdb.C12_pipeline_power_loss
#print axioms Pdb.C12_D1_delete_positional
#print axioms Pdb.C12_D2_positional
#print axioms Pdb.C12_lifetimes
#print axioms Pdb.C12_synced_never_lost
#print axioms Pdb.C12_recovery_satisfies_D
#print axioms Pdb.C12_recovery_idempotent
#print axioms Pdb.C12_programs_unlink_after_sync
#print axioms Pdb.C12_pipeline_nested_power_loss
#print axioms Pdb.C12_D1_delete_needed
#print axioms Pdb.C12_drop_makes_invisible
#print axioms Pdb.C12_move_preserves_lookup
#print axioms Pdb.C12_D1_needed
#print axioms Pdb.C12_D2_needed
#print axioms Pdb.C12_D3_needed
