//! libc symbol interposition inside the harness binary (no change to /repo): the executable
//! defines `fdatasync`, `fsync`, `msync`, `ftruncate`, `ftruncate64`, `unlink`, `unlinkat`,
//! `mmap`, `mmap64`, `munmap`; the dynamic linker resolves every call of these symbols made by
//! code linked into the binary (std, memmap2, parity-db) to the definitions below, which record
//! an event and forward to the real function found with `dlsym(RTLD_NEXT, ..)`.
//!
//! Recording is off until `enable(true)`. File descriptors are resolved to paths through
//! `/proc/self/fd/<fd>` at call time, mapped address ranges through a registry of the `mmap`
//! calls seen while tracking was on. All buffers are plain `Mutex<Vec<..>>`; the hooks never
//! call an interposed function themselves.
//!
//! Extension for c16t (errno injection in worker threads; OFF by default, the journal above and
//! the behaviour of the calls are unchanged while it is off): a second, extended journal
//! (`XEvent`: syscall class, file class, thread id, result) that is recorded only after
//! `xenable(Some(dir))`, additional interposed calls (`write`, `pwrite(64)`, `read`,
//! `pread(64)`, `open(64)`, `openat(64)`, `lseek(64)`), and a global injection plan (`arm`):
//! after the N-th matching call (by syscall class and file class of a file below `dir`) on a
//! thread that is not registered as exempt, this and every later matching call fails with the
//! planned errno (optionally after a delay) WITHOUT reaching the kernel.
#![allow(clippy::missing_safety_doc)]
use libc::{c_char, c_int, c_void, off_t, size_t};
use std::sync::atomic::{AtomicBool, AtomicU64, AtomicUsize, Ordering};
use std::sync::Mutex;

#[derive(Clone, Debug, PartialEq, Eq)]
pub enum Call {
	Fdatasync,
	Fsync,
	/// msync of a mapped range: file offset, length
	Msync { off: u64, len: u64 },
	/// ftruncate: new length
	Truncate { len: u64 },
	Unlink,
	/// mmap of a file: file offset, length
	Mmap { off: u64, len: u64 },
}

#[derive(Clone, Debug)]
pub struct Event {
	pub seq: u64,
	pub call: Call,
	/// absolute path of the file ("?" when it cannot be resolved)
	pub path: String,
	pub ret: i64,
}

impl Event {
	pub fn file_name(&self) -> &str {
		self.path.rsplit('/').next().unwrap_or("")
	}
}

static ENABLED: AtomicBool = AtomicBool::new(false);
static SEQ: AtomicU64 = AtomicU64::new(0);
static JOURNAL: Mutex<Vec<Event>> = Mutex::new(Vec::new());
/// (base address, length, path, file offset)
static MAPS: Mutex<Vec<(usize, usize, String, u64)>> = Mutex::new(Vec::new());

/// Switch recording (and tracking of new mappings) on or off.
pub fn enable(on: bool) {
	ENABLED.store(on, Ordering::SeqCst);
}

pub fn enabled() -> bool {
	ENABLED.load(Ordering::SeqCst)
}

/// Take all events recorded so far.
pub fn drain() -> Vec<Event> {
	let mut j = JOURNAL.lock().unwrap_or_else(|e| e.into_inner());
	std::mem::take(&mut *j)
}

/// Forget everything (events and the mapping registry).
pub fn reset() {
	drain();
	MAPS.lock().unwrap_or_else(|e| e.into_inner()).clear();
}

/// Number of live tracked mappings (diagnostics).
pub fn live_maps() -> usize {
	MAPS.lock().unwrap_or_else(|e| e.into_inner()).len()
}

fn record(call: Call, path: String, ret: i64) {
	let seq = SEQ.fetch_add(1, Ordering::SeqCst);
	let ev = Event { seq, call, path, ret };
	let watched = OBSERVING.load(Ordering::SeqCst);
	{
		let mut j = JOURNAL.lock().unwrap_or_else(|e| e.into_inner());
		j.push(ev.clone());
	}
	if watched {
		observe(&ev);
	}
}

// -----------------------------------------------------------------------------------
// Observer (added for c12; inert unless `set_observer(Some(..))` was called): a callback
// run on the calling thread right AFTER every journalled call returned, with recording
// switched off while it runs (it may read and create files itself). c12 uses it to diff
// the mapped files at the moment of every sync / truncate / unlink, which gives the order
// of stores relative to those calls, and to assemble power-loss images in the middle of
// `Db::open`.
// -----------------------------------------------------------------------------------

pub type Observer = Box<dyn FnMut(&Event) + Send>;
static OBSERVER: Mutex<Option<Observer>> = Mutex::new(None);
static OBSERVING: AtomicBool = AtomicBool::new(false);

/// Install (or remove) the observer.
pub fn set_observer(o: Option<Observer>) {
	let on = o.is_some();
	*OBSERVER.lock().unwrap_or_else(|e| e.into_inner()) = o;
	OBSERVING.store(on, Ordering::SeqCst);
}

fn observe(ev: &Event) {
	// take the callback out of the slot: a call made by the callback itself finds none
	let taken = OBSERVER.lock().unwrap_or_else(|e| e.into_inner()).take();
	if let Some(mut f) = taken {
		let was = ENABLED.swap(false, Ordering::SeqCst);
		f(ev);
		ENABLED.store(was, Ordering::SeqCst);
		let mut slot = OBSERVER.lock().unwrap_or_else(|e| e.into_inner());
		if slot.is_none() && OBSERVING.load(Ordering::SeqCst) {
			*slot = Some(f);
		}
	}
}

fn fd_path(fd: c_int) -> String {
	let link = format!("/proc/self/fd/{}\0", fd);
	let mut buf = [0u8; 1024];
	let n = unsafe { libc::readlink(link.as_ptr() as *const c_char, buf.as_mut_ptr() as *mut c_char, buf.len()) };
	if n <= 0 {
		return "?".into()
	}
	let mut s = String::from_utf8_lossy(&buf[..n as usize]).to_string();
	if let Some(p) = s.strip_suffix(" (deleted)") {
		s = p.to_string();
	}
	s
}

unsafe fn real(name: &'static [u8], slot: &AtomicUsize) -> usize {
	let mut p = slot.load(Ordering::Relaxed);
	if p == 0 {
		p = libc::dlsym(libc::RTLD_NEXT, name.as_ptr() as *const c_char) as usize;
		slot.store(p, Ordering::Relaxed);
	}
	p
}

macro_rules! real_fn {
	($name:literal, $ty:ty) => {{
		static SLOT: AtomicUsize = AtomicUsize::new(0);
		let p = real(concat!($name, "\0").as_bytes(), &SLOT);
		if p == 0 {
			// cannot happen on glibc; fail loudly rather than jump to 0
			libc::abort();
		}
		std::mem::transmute::<usize, $ty>(p)
	}};
}

#[no_mangle]
pub unsafe extern "C" fn fdatasync(fd: c_int) -> c_int {
	let f = real_fn!("fdatasync", unsafe extern "C" fn(c_int) -> c_int);
	let x = xpath_fd(fd);
	if let Some(p) = &x {
		if let Some(e) = inject(S_FDATASYNC, p) {
			return fail_int(S_FDATASYNC, p, 0, e)
		}
	}
	let r = f(fd);
	if enabled() {
		record(Call::Fdatasync, fd_path(fd), r as i64);
	}
	if let Some(p) = x {
		xrecord(S_FDATASYNC, p, 0, r as i64, false, vec![]);
	}
	r
}

#[no_mangle]
pub unsafe extern "C" fn fsync(fd: c_int) -> c_int {
	let f = real_fn!("fsync", unsafe extern "C" fn(c_int) -> c_int);
	let x = xpath_fd(fd);
	if let Some(p) = &x {
		if let Some(e) = inject(S_FSYNC, p) {
			return fail_int(S_FSYNC, p, 0, e)
		}
	}
	let r = f(fd);
	if enabled() {
		record(Call::Fsync, fd_path(fd), r as i64);
	}
	if let Some(p) = x {
		xrecord(S_FSYNC, p, 0, r as i64, false, vec![]);
	}
	r
}

#[no_mangle]
pub unsafe extern "C" fn ftruncate(fd: c_int, len: off_t) -> c_int {
	let f = real_fn!("ftruncate", unsafe extern "C" fn(c_int, off_t) -> c_int);
	let x = xpath_fd(fd);
	if let Some(p) = &x {
		if let Some(e) = inject(S_TRUNC, p) {
			return fail_int(S_TRUNC, p, len as u64, e)
		}
	}
	let r = f(fd, len);
	if enabled() {
		record(Call::Truncate { len: len as u64 }, fd_path(fd), r as i64);
	}
	if let Some(p) = x {
		xrecord(S_TRUNC, p, len as u64, r as i64, false, vec![]);
	}
	r
}

#[no_mangle]
pub unsafe extern "C" fn ftruncate64(fd: c_int, len: libc::off64_t) -> c_int {
	let f = real_fn!("ftruncate64", unsafe extern "C" fn(c_int, libc::off64_t) -> c_int);
	let x = xpath_fd(fd);
	if let Some(p) = &x {
		if let Some(e) = inject(S_TRUNC, p) {
			return fail_int(S_TRUNC, p, len as u64, e)
		}
	}
	let r = f(fd, len);
	if enabled() {
		record(Call::Truncate { len: len as u64 }, fd_path(fd), r as i64);
	}
	if let Some(p) = x {
		xrecord(S_TRUNC, p, len as u64, r as i64, false, vec![]);
	}
	r
}

unsafe fn cstr(p: *const c_char) -> String {
	if p.is_null() {
		return "?".into()
	}
	std::ffi::CStr::from_ptr(p).to_string_lossy().to_string()
}

#[no_mangle]
pub unsafe extern "C" fn unlink(path: *const c_char) -> c_int {
	let f = real_fn!("unlink", unsafe extern "C" fn(*const c_char) -> c_int);
	let name = if enabled() { Some(cstr(path)) } else { None };
	let x = xpath_str(|| cstr(path));
	if let Some(p) = &x {
		if let Some(e) = inject(S_UNLINK, p) {
			return fail_int(S_UNLINK, p, 0, e)
		}
	}
	let r = f(path);
	if let Some(n) = name {
		record(Call::Unlink, n, r as i64);
	}
	if let Some(p) = x {
		xrecord(S_UNLINK, p, 0, r as i64, false, vec![]);
	}
	r
}

#[no_mangle]
pub unsafe extern "C" fn unlinkat(dirfd: c_int, path: *const c_char, flags: c_int) -> c_int {
	let f = real_fn!("unlinkat", unsafe extern "C" fn(c_int, *const c_char, c_int) -> c_int);
	let name = if enabled() && flags & libc::AT_REMOVEDIR == 0 {
		let p = cstr(path);
		Some(if p.starts_with('/') || dirfd == libc::AT_FDCWD { p } else { format!("{}/{}", fd_path(dirfd), p) })
	} else {
		None
	};
	let x = if flags & libc::AT_REMOVEDIR == 0 {
		xpath_str(|| {
			let p = cstr(path);
			if p.starts_with('/') || dirfd == libc::AT_FDCWD {
				p
			} else {
				format!("{}/{}", fd_path(dirfd), p)
			}
		})
	} else {
		None
	};
	if let Some(p) = &x {
		if let Some(e) = inject(S_UNLINK, p) {
			return fail_int(S_UNLINK, p, 0, e)
		}
	}
	let r = f(dirfd, path, flags);
	if let Some(n) = name {
		record(Call::Unlink, n, r as i64);
	}
	if let Some(p) = x {
		xrecord(S_UNLINK, p, 0, r as i64, false, vec![]);
	}
	r
}

unsafe fn note_mmap(ret: *mut c_void, len: size_t, flags: c_int, fd: c_int, off: u64) {
	if !enabled() || fd < 0 || ret == libc::MAP_FAILED || flags & libc::MAP_ANONYMOUS != 0 {
		return
	}
	let path = fd_path(fd);
	MAPS.lock().unwrap_or_else(|e| e.into_inner()).push((ret as usize, len, path.clone(), off));
	record(Call::Mmap { off, len: len as u64 }, path, 0);
}

#[no_mangle]
pub unsafe extern "C" fn mmap(addr: *mut c_void, len: size_t, prot: c_int, flags: c_int, fd: c_int, off: off_t) -> *mut c_void {
	let f = real_fn!("mmap", unsafe extern "C" fn(*mut c_void, size_t, c_int, c_int, c_int, off_t) -> *mut c_void);
	let x = if fd >= 0 && flags & libc::MAP_ANONYMOUS == 0 { xpath_fd(fd) } else { None };
	if let Some(p) = &x {
		if let Some(e) = inject(S_MMAP, p) {
			fail_int(S_MMAP, p, len as u64, e);
			return libc::MAP_FAILED
		}
	}
	let r = f(addr, len, prot, flags, fd, off);
	note_mmap(r, len, flags, fd, off as u64);
	if let Some(p) = x {
		xrecord(S_MMAP, p, len as u64, if r == libc::MAP_FAILED { -1 } else { 0 }, false, vec![]);
	}
	r
}

#[no_mangle]
pub unsafe extern "C" fn mmap64(addr: *mut c_void, len: size_t, prot: c_int, flags: c_int, fd: c_int, off: libc::off64_t) -> *mut c_void {
	let f = real_fn!("mmap64", unsafe extern "C" fn(*mut c_void, size_t, c_int, c_int, c_int, libc::off64_t) -> *mut c_void);
	let x = if fd >= 0 && flags & libc::MAP_ANONYMOUS == 0 { xpath_fd(fd) } else { None };
	if let Some(p) = &x {
		if let Some(e) = inject(S_MMAP, p) {
			fail_int(S_MMAP, p, len as u64, e);
			return libc::MAP_FAILED
		}
	}
	let r = f(addr, len, prot, flags, fd, off);
	note_mmap(r, len, flags, fd, off as u64);
	if let Some(p) = x {
		xrecord(S_MMAP, p, len as u64, if r == libc::MAP_FAILED { -1 } else { 0 }, false, vec![]);
	}
	r
}

#[no_mangle]
pub unsafe extern "C" fn munmap(addr: *mut c_void, len: size_t) -> c_int {
	let f = real_fn!("munmap", unsafe extern "C" fn(*mut c_void, size_t) -> c_int);
	let r = f(addr, len);
	if enabled() {
		let mut m = MAPS.lock().unwrap_or_else(|e| e.into_inner());
		let a = addr as usize;
		m.retain(|(base, l, _, _)| !(a <= *base && *base + *l <= a + len));
	}
	r
}

#[no_mangle]
pub unsafe extern "C" fn msync(addr: *mut c_void, len: size_t, flags: c_int) -> c_int {
	let f = real_fn!("msync", unsafe extern "C" fn(*mut c_void, size_t, c_int) -> c_int);
	let x = if xon() {
		let a = addr as usize;
		let m = MAPS.lock().unwrap_or_else(|e| e.into_inner());
		let p = m.iter().rev().find(|(base, l, _, _)| *base <= a && a < *base + *l).map(|(_, _, p, _)| p.clone());
		drop(m);
		p.filter(|p| under_dir(p))
	} else {
		None
	};
	if let Some(p) = &x {
		if let Some(e) = inject(S_MSYNC, p) {
			return fail_int(S_MSYNC, p, len as u64, e)
		}
	}
	let r = f(addr, len, flags);
	if enabled() {
		let a = addr as usize;
		let hit = {
			let m = MAPS.lock().unwrap_or_else(|e| e.into_inner());
			m.iter().rev().find(|(base, l, _, _)| *base <= a && a < *base + *l).map(|(base, _, p, off)| (p.clone(), off + (a - *base) as u64))
		};
		let (path, off) = hit.unwrap_or_else(|| ("?".into(), 0));
		record(Call::Msync { off, len: len as u64 }, path, r as i64);
	}
	if let Some(p) = x {
		xrecord(S_MSYNC, p, len as u64, r as i64, false, vec![]);
	}
	r
}

// ===================================================================================
// Extended journal and errno injection (used by c16t only; everything below is inert
// until `xenable(Some(dir))` / `arm(..)` are called).
// ===================================================================================

pub const S_WRITE: u32 = 1 << 0;
pub const S_READ: u32 = 1 << 1;
pub const S_CREATE: u32 = 1 << 2;
pub const S_TRUNC: u32 = 1 << 3;
pub const S_FDATASYNC: u32 = 1 << 4;
pub const S_FSYNC: u32 = 1 << 5;
pub const S_UNLINK: u32 = 1 << 6;
pub const S_MMAP: u32 = 1 << 7;
pub const S_SEEK: u32 = 1 << 8;
pub const S_MSYNC: u32 = 1 << 9;
/// open without O_CREAT (journalled, matched only when explicitly planned)
pub const S_OPEN: u32 = 1 << 10;
pub const S_ALL: u32 = (1 << 11) - 1;

pub const F_LOG: u32 = 1 << 0;
pub const F_INDEX: u32 = 1 << 1;
pub const F_TABLE: u32 = 1 << 2;
pub const F_REFCOUNT: u32 = 1 << 3;
pub const F_META: u32 = 1 << 4;
pub const F_OTHER: u32 = 1 << 5;
pub const F_ALL: u32 = (1 << 6) - 1;

pub fn sys_name(s: u32) -> &'static str {
	match s {
		S_WRITE => "write",
		S_READ => "read",
		S_CREATE => "create",
		S_TRUNC => "ftruncate",
		S_FDATASYNC => "fdatasync",
		S_FSYNC => "fsync",
		S_UNLINK => "unlink",
		S_MMAP => "mmap",
		S_SEEK => "lseek",
		S_MSYNC => "msync",
		S_OPEN => "open",
		_ => "?",
	}
}

pub fn fc_name(f: u32) -> &'static str {
	match f {
		F_LOG => "log",
		F_INDEX => "index",
		F_TABLE => "table",
		F_REFCOUNT => "refcount",
		F_META => "metadata",
		_ => "other",
	}
}

/// File class from the file name: log*, index_*, table_*, refcount_*, metadata.
pub fn file_class(name: &str) -> u32 {
	if name.starts_with("log") && name[3..].bytes().all(|b| b.is_ascii_digit()) && name.len() > 3 {
		F_LOG
	} else if name.starts_with("index_") {
		F_INDEX
	} else if name.starts_with("table_") {
		F_TABLE
	} else if name.starts_with("refcount_") {
		F_REFCOUNT
	} else if name.starts_with("metadata") {
		F_META
	} else {
		F_OTHER
	}
}

#[derive(Clone, Debug)]
pub struct XEvent {
	pub seq: u64,
	/// microseconds since `xenable`
	pub us: u64,
	pub tid: i32,
	pub sys: u32,
	pub fc: u32,
	/// file name (last path component)
	pub name: String,
	/// length / count / offset argument of the call
	pub arg: u64,
	pub ret: i64,
	/// errno planted (injected failures only)
	pub errno: i32,
	pub injected: bool,
	/// for writes to log files: the 16 bytes following each occurrence of the needle
	pub hits: Vec<[u8; 16]>,
}

static XON: AtomicBool = AtomicBool::new(false);
static XSEQ: AtomicU64 = AtomicU64::new(0);
static XJOURNAL: Mutex<Vec<XEvent>> = Mutex::new(Vec::new());
static XDIR: Mutex<String> = Mutex::new(String::new());
static XNEEDLE: Mutex<Vec<u8>> = Mutex::new(Vec::new());
static XT0: Mutex<Option<std::time::Instant>> = Mutex::new(None);

static PLAN_ON: AtomicBool = AtomicBool::new(false);
static PLAN_SYS: std::sync::atomic::AtomicU32 = std::sync::atomic::AtomicU32::new(0);
static PLAN_FC: std::sync::atomic::AtomicU32 = std::sync::atomic::AtomicU32::new(0);
static PLAN_SKIP: std::sync::atomic::AtomicI64 = std::sync::atomic::AtomicI64::new(0);
static PLAN_ERRNO: std::sync::atomic::AtomicI32 = std::sync::atomic::AtomicI32::new(0);
static PLAN_ALL_THREADS: AtomicBool = AtomicBool::new(false);
static PLAN_DELAY_US: AtomicU64 = AtomicU64::new(0);
static LAT_SYS: std::sync::atomic::AtomicU32 = std::sync::atomic::AtomicU32::new(0);
static LAT_FC: std::sync::atomic::AtomicU32 = std::sync::atomic::AtomicU32::new(0);
static LAT_US: AtomicU64 = AtomicU64::new(0);
static PLAN_MATCHED: AtomicU64 = AtomicU64::new(0);
static PLAN_FAILED: AtomicU64 = AtomicU64::new(0);
/// microseconds (since `xenable`) of the first injected failure + 1; 0 = none yet
static FIRST_FAIL_US: AtomicU64 = AtomicU64::new(0);
const NO_TID: i32 = 0;
#[allow(clippy::declare_interior_mutable_const)]
const EXEMPT_INIT: std::sync::atomic::AtomicI32 = std::sync::atomic::AtomicI32::new(NO_TID);
static EXEMPT: [std::sync::atomic::AtomicI32; 32] = [EXEMPT_INIT; 32];

#[inline]
fn xon() -> bool {
	XON.load(Ordering::Relaxed)
}

pub fn gettid() -> i32 {
	unsafe { libc::syscall(libc::SYS_gettid) as i32 }
}

/// Switch the extended journal on for files below `dir` (absolute path), or off (`None`).
pub fn xenable(dir: Option<&str>) {
	match dir {
		Some(d) => {
			let mut s = d.trim_end_matches('/').to_string();
			s.push('/');
			*XDIR.lock().unwrap_or_else(|e| e.into_inner()) = s;
			*XT0.lock().unwrap_or_else(|e| e.into_inner()) = Some(std::time::Instant::now());
			XON.store(true, Ordering::SeqCst);
		},
		None => {
			XON.store(false, Ordering::SeqCst);
			disarm();
			set_latency(0, 0, 0);
		},
	}
}

/// Writes to log files are searched for this byte string; the 16 bytes after each occurrence
/// are attached to the event.
pub fn set_needle(n: &[u8]) {
	*XNEEDLE.lock().unwrap_or_else(|e| e.into_inner()) = n.to_vec();
}

/// The first injected failure recorded so far (the journal is left as it is).
pub fn xfirst_injected() -> Option<XEvent> {
	XJOURNAL.lock().unwrap_or_else(|e| e.into_inner()).iter().find(|e| e.injected).cloned()
}

pub fn xdrain() -> Vec<XEvent> {
	std::mem::take(&mut *XJOURNAL.lock().unwrap_or_else(|e| e.into_inner()))
}

fn now_us() -> u64 {
	XT0.lock().unwrap_or_else(|e| e.into_inner()).map(|t| t.elapsed().as_micros() as u64).unwrap_or(0)
}

/// Calls of the current thread never fail by injection (unless the plan says all threads).
pub fn exempt_current_thread() {
	let tid = gettid();
	for s in EXEMPT.iter() {
		if s.compare_exchange(NO_TID, tid, Ordering::SeqCst, Ordering::SeqCst).is_ok() {
			return
		}
	}
}

fn is_exempt(tid: i32) -> bool {
	EXEMPT.iter().any(|s| s.load(Ordering::Relaxed) == tid)
}

/// Arm the plan: the first `skip` matching calls pass, every later one fails with `errno`
/// after `delay_us` microseconds (a failing device is slow).
pub fn arm(sys_mask: u32, fc_mask: u32, skip: u64, errno: i32, all_threads: bool, delay_us: u64) {
	PLAN_DELAY_US.store(delay_us, Ordering::SeqCst);
	PLAN_SYS.store(sys_mask, Ordering::SeqCst);
	PLAN_FC.store(fc_mask, Ordering::SeqCst);
	PLAN_SKIP.store(skip as i64, Ordering::SeqCst);
	PLAN_ERRNO.store(errno, Ordering::SeqCst);
	PLAN_ALL_THREADS.store(all_threads, Ordering::SeqCst);
	PLAN_MATCHED.store(0, Ordering::SeqCst);
	PLAN_FAILED.store(0, Ordering::SeqCst);
	PLAN_ON.store(true, Ordering::SeqCst);
}

pub fn disarm() {
	PLAN_ON.store(false, Ordering::SeqCst);
}

/// Slow device: every matching call of a non-exempt thread takes `us` microseconds longer
/// (tmpfs answers an fdatasync in microseconds, a disk in milliseconds).  `us = 0` switches it off.
pub fn set_latency(sys_mask: u32, fc_mask: u32, us: u64) {
	LAT_SYS.store(sys_mask, Ordering::SeqCst);
	LAT_FC.store(fc_mask, Ordering::SeqCst);
	LAT_US.store(us, Ordering::SeqCst);
}

fn sleep_us(d: u64) {
	let ts = libc::timespec { tv_sec: (d / 1_000_000) as libc::time_t, tv_nsec: ((d % 1_000_000) * 1000) as libc::c_long };
	unsafe {
		libc::nanosleep(&ts, std::ptr::null_mut());
	}
}

pub fn armed() -> bool {
	PLAN_ON.load(Ordering::SeqCst)
}

/// (matching calls seen since `arm`, calls failed by injection, microseconds of the first failure)
pub fn plan_stats() -> (u64, u64, Option<u64>) {
	let f = FIRST_FAIL_US.load(Ordering::SeqCst);
	(PLAN_MATCHED.load(Ordering::SeqCst), PLAN_FAILED.load(Ordering::SeqCst), if f == 0 { None } else { Some(f - 1) })
}

pub fn xreset() {
	xdrain();
	FIRST_FAIL_US.store(0, Ordering::SeqCst);
	for s in EXEMPT.iter() {
		s.store(NO_TID, Ordering::SeqCst);
	}
}

fn under_dir(path: &str) -> bool {
	let d = XDIR.lock().unwrap_or_else(|e| e.into_inner());
	!d.is_empty() && path.starts_with(d.as_str())
}

/// Path of `fd` if the extended journal is on and the file lies below the watched directory.
fn xpath_fd(fd: c_int) -> Option<String> {
	if !xon() || fd <= 2 {
		return None
	}
	let p = fd_path(fd);
	if under_dir(&p) {
		Some(p)
	} else {
		None
	}
}

fn xpath_str(f: impl FnOnce() -> String) -> Option<String> {
	if !xon() {
		return None
	}
	let p = f();
	if under_dir(&p) {
		Some(p)
	} else {
		None
	}
}

fn name_of(path: &str) -> &str {
	path.rsplit('/').next().unwrap_or("")
}

/// Decide whether this call fails; `Some(errno)` if so.
fn inject(sys: u32, path: &str) -> Option<i32> {
	let lat = LAT_US.load(Ordering::Relaxed);
	if lat > 0 &&
		LAT_SYS.load(Ordering::Relaxed) & sys != 0 &&
		LAT_FC.load(Ordering::Relaxed) & file_class(name_of(path)) != 0 &&
		!is_exempt(gettid())
	{
		sleep_us(lat);
	}
	if !PLAN_ON.load(Ordering::Relaxed) {
		return None
	}
	if PLAN_SYS.load(Ordering::Relaxed) & sys == 0 {
		return None
	}
	if PLAN_FC.load(Ordering::Relaxed) & file_class(name_of(path)) == 0 {
		return None
	}
	if !PLAN_ALL_THREADS.load(Ordering::Relaxed) && is_exempt(gettid()) {
		return None
	}
	PLAN_MATCHED.fetch_add(1, Ordering::SeqCst);
	if PLAN_SKIP.fetch_sub(1, Ordering::SeqCst) > 0 {
		return None
	}
	PLAN_FAILED.fetch_add(1, Ordering::SeqCst);
	let d = PLAN_DELAY_US.load(Ordering::Relaxed);
	if d > 0 {
		sleep_us(d);
	}
	Some(PLAN_ERRNO.load(Ordering::Relaxed))
}

fn xrecord(sys: u32, path: String, arg: u64, ret: i64, injected: bool, hits: Vec<[u8; 16]>) {
	let us = now_us();
	let errno = if injected { PLAN_ERRNO.load(Ordering::Relaxed) } else { 0 };
	if injected {
		let _ = FIRST_FAIL_US.compare_exchange(0, us + 1, Ordering::SeqCst, Ordering::SeqCst);
	}
	let name = name_of(&path).to_string();
	let fc = file_class(&name);
	let tid = gettid();
	let mut j = XJOURNAL.lock().unwrap_or_else(|e| e.into_inner());
	let seq = XSEQ.fetch_add(1, Ordering::SeqCst);
	j.push(XEvent { seq, us, tid, sys, fc, name, arg, ret, errno, injected, hits });
}

unsafe fn fail_int(sys: u32, path: &str, arg: u64, errno: i32) -> c_int {
	xrecord(sys, path.to_string(), arg, -1, true, vec![]);
	*libc::__errno_location() = errno;
	-1
}

fn scan_needle(buf: &[u8]) -> Vec<[u8; 16]> {
	let n = XNEEDLE.lock().unwrap_or_else(|e| e.into_inner());
	let mut out = vec![];
	if n.is_empty() || buf.len() < n.len() + 16 {
		return out
	}
	let first = n[0];
	let mut i = 0;
	let last = buf.len() - n.len() - 16;
	while i <= last {
		if buf[i] == first && &buf[i..i + n.len()] == n.as_slice() {
			let mut h = [0u8; 16];
			h.copy_from_slice(&buf[i + n.len()..i + n.len() + 16]);
			out.push(h);
			i += n.len() + 16;
		} else {
			i += 1;
		}
	}
	out
}

#[no_mangle]
pub unsafe extern "C" fn write(fd: c_int, buf: *const c_void, count: size_t) -> libc::ssize_t {
	let f = real_fn!("write", unsafe extern "C" fn(c_int, *const c_void, size_t) -> libc::ssize_t);
	let x = xpath_fd(fd);
	if let Some(p) = &x {
		if let Some(e) = inject(S_WRITE, p) {
			return fail_int(S_WRITE, p, count as u64, e) as libc::ssize_t
		}
	}
	let r = f(fd, buf, count);
	if let Some(p) = x {
		let hits = if r > 0 && file_class(name_of(&p)) == F_LOG && !buf.is_null() {
			scan_needle(std::slice::from_raw_parts(buf as *const u8, r as usize))
		} else {
			vec![]
		};
		xrecord(S_WRITE, p, count as u64, r as i64, false, hits);
	}
	r
}

macro_rules! pwrite_like {
	($name:ident, $lit:literal, $off:ty) => {
		#[no_mangle]
		pub unsafe extern "C" fn $name(fd: c_int, buf: *const c_void, count: size_t, off: $off) -> libc::ssize_t {
			let f = real_fn!($lit, unsafe extern "C" fn(c_int, *const c_void, size_t, $off) -> libc::ssize_t);
			let x = xpath_fd(fd);
			if let Some(p) = &x {
				if let Some(e) = inject(S_WRITE, p) {
					return fail_int(S_WRITE, p, count as u64, e) as libc::ssize_t
				}
			}
			let r = f(fd, buf, count, off);
			if let Some(p) = x {
				xrecord(S_WRITE, p, count as u64, r as i64, false, vec![]);
			}
			r
		}
	};
}
pwrite_like!(pwrite, "pwrite", off_t);
pwrite_like!(pwrite64, "pwrite64", libc::off64_t);

#[no_mangle]
pub unsafe extern "C" fn read(fd: c_int, buf: *mut c_void, count: size_t) -> libc::ssize_t {
	let f = real_fn!("read", unsafe extern "C" fn(c_int, *mut c_void, size_t) -> libc::ssize_t);
	let x = xpath_fd(fd);
	if let Some(p) = &x {
		if let Some(e) = inject(S_READ, p) {
			return fail_int(S_READ, p, count as u64, e) as libc::ssize_t
		}
	}
	let r = f(fd, buf, count);
	if let Some(p) = x {
		xrecord(S_READ, p, count as u64, r as i64, false, vec![]);
	}
	r
}

macro_rules! pread_like {
	($name:ident, $lit:literal, $off:ty) => {
		#[no_mangle]
		pub unsafe extern "C" fn $name(fd: c_int, buf: *mut c_void, count: size_t, off: $off) -> libc::ssize_t {
			let f = real_fn!($lit, unsafe extern "C" fn(c_int, *mut c_void, size_t, $off) -> libc::ssize_t);
			let x = xpath_fd(fd);
			if let Some(p) = &x {
				if let Some(e) = inject(S_READ, p) {
					return fail_int(S_READ, p, count as u64, e) as libc::ssize_t
				}
			}
			let r = f(fd, buf, count, off);
			if let Some(p) = x {
				xrecord(S_READ, p, count as u64, r as i64, false, vec![]);
			}
			r
		}
	};
}
pread_like!(pread, "pread", off_t);
pread_like!(pread64, "pread64", libc::off64_t);

macro_rules! lseek_like {
	($name:ident, $lit:literal, $off:ty) => {
		#[no_mangle]
		pub unsafe extern "C" fn $name(fd: c_int, off: $off, whence: c_int) -> $off {
			let f = real_fn!($lit, unsafe extern "C" fn(c_int, $off, c_int) -> $off);
			let x = xpath_fd(fd);
			if let Some(p) = &x {
				if let Some(e) = inject(S_SEEK, p) {
					return fail_int(S_SEEK, p, off as u64, e) as $off
				}
			}
			let r = f(fd, off, whence);
			if let Some(p) = x {
				xrecord(S_SEEK, p, off as u64, r as i64, false, vec![]);
			}
			r
		}
	};
}
lseek_like!(lseek, "lseek", off_t);
lseek_like!(lseek64, "lseek64", libc::off64_t);

// `open` is variadic in C; on x86_64 and aarch64 a third integer argument is passed the same
// way whether or not the callee is declared variadic, and reading it when the caller passed
// none is harmless (it is only forwarded).
macro_rules! open_like {
	($name:ident, $lit:literal) => {
		#[no_mangle]
		pub unsafe extern "C" fn $name(path: *const c_char, flags: c_int, mode: libc::mode_t) -> c_int {
			let f = real_fn!($lit, unsafe extern "C" fn(*const c_char, c_int, libc::mode_t) -> c_int);
			let sys = if flags & libc::O_CREAT != 0 { S_CREATE } else { S_OPEN };
			let x = xpath_str(|| cstr(path));
			if let Some(p) = &x {
				if let Some(e) = inject(sys, p) {
					return fail_int(sys, p, flags as u64, e)
				}
			}
			let r = f(path, flags, mode);
			if let Some(p) = x {
				xrecord(sys, p, flags as u64, r as i64, false, vec![]);
			}
			r
		}
	};
}
open_like!(open, "open");
open_like!(open64, "open64");

macro_rules! openat_like {
	($name:ident, $lit:literal) => {
		#[no_mangle]
		pub unsafe extern "C" fn $name(dirfd: c_int, path: *const c_char, flags: c_int, mode: libc::mode_t) -> c_int {
			let f = real_fn!($lit, unsafe extern "C" fn(c_int, *const c_char, c_int, libc::mode_t) -> c_int);
			let sys = if flags & libc::O_CREAT != 0 { S_CREATE } else { S_OPEN };
			let x = xpath_str(|| {
				let p = cstr(path);
				if p.starts_with('/') || dirfd == libc::AT_FDCWD {
					p
				} else {
					format!("{}/{}", fd_path(dirfd), p)
				}
			});
			if let Some(p) = &x {
				if let Some(e) = inject(sys, p) {
					return fail_int(sys, p, flags as u64, e)
				}
			}
			let r = f(dirfd, path, flags, mode);
			if let Some(p) = x {
				xrecord(sys, p, flags as u64, r as i64, false, vec![]);
			}
			r
		}
	};
}
openat_like!(openat, "openat");
openat_like!(openat64, "openat64");
