//! C12 "power loss cannot tear state": (a) real durability journals checked by the Lean acceptor
//! (`c12 check <journal>`) and by an independent positional checker, (b) search with actual
//! power-loss images (page-wise mix of the durable and the volatile version of every table /
//! index / ref-count file, synced log bytes + a prefix of the rest) reopened with the real code
//! and compared with a plain-map oracle, (c) the recovery `Db::open` of such an image journalled
//! as a SECOND life time (acceptor started from the surviving logs: tokens `K:<log>:<n>` + `Z`),
//! with a nested power loss in the middle of / after that recovery.
//!
//! Where the journal comes from (no hook in /repo):
//!   * `fdatasync` / `fsync` / `msync` / `ftruncate` / `unlink` / `mmap`: interposed libc symbols
//!     (`interpose.rs`), in issue order;
//!   * table / index / ref-count stores go through the mapping and cannot be interposed: the
//!     harness drives the stepping API single-threaded and diffs every `table_*`, `index_*`,
//!     `refcount_*` file page by page (4 KiB) across each call AND (calls that store: enact, open)
//!     at every interposed sync / truncate / unlink inside the call (observer of `interpose.rs`),
//!     so the order of stores relative to those calls is observed, not assumed; the pages changed
//!     by one `enact_logs` call are attributed to every record of the log file enacted by that
//!     call (relative to an unlink inside the call: records before the one holding the DropTable
//!     action get the pages changed before it, records after it the pages changed after it);
//!   * log appends: one `process_commits` call with a queued commit = one record; `flush_to_file`
//!     flushes its `BufWriter` per record, so the log file that grew is the record's file and the
//!     growth is its byte range (used to tell which records survive a cut of the log tail, and to
//!     read the DropTable / DropRefCountTable actions, which sit right in front of the END marker);
//!   * the unlink of a table file (event X) belongs to the record whose log bytes end with the
//!     DropTable action of that file; if no record of the call shows it: to the last record of the
//!     call (counter `x.attributed_to_last_record`).
//!
//! Exemptions (legitimate writes outside the record protocol), encoded HERE, not in D:
//!   * `index_*` pages 0..3 (META area = 16 KiB: header + column statistics, `write_stats`;
//!     `IndexTable::flush` skips it): never W events, either version in the images;
//!   * file creation, `set_len` preallocation / growth (zero bytes; A-os: durable at once): no
//!     event, the durable version of a new file / new tail is zeros;
//!   * the header entry of a fresh btree column written by `init_with_entry` during `Db::open`:
//!     not a W event (no record); measured: the same open msyncs the file (`clean_all_logs` in
//!     `open_inner`), so it is durable before the first commit.
//! Anything else that changes a table-ish page outside an `enact_logs` call / the replay of
//! `Db::open` is reported as an oracle failure.
//!
//! Replay (second life time): a record that was applied completely before repeats the W / X
//! tokens of its first application (re-storing identical bytes shows no page difference; pages
//! that do change must be among them: checked); a record never applied before gets the observed
//! page differences. A DropTable replayed when the file is already gone is a virtual X.
//!
//! Multitree variant (`run_tree_case`, one case in six): column 0 is a ref-counted multitree
//! column (InsertTree with shared nodes / DereferenceTree), column 1 a plain one; the ref-count
//! table `refcount_*` is a table-ish file like the others; oracle = every tree readable completely
//! (by content) or absent, as in ONE prefix of the committed transactions.
//!
//! Command `c12x` (exploratory, not in the default check): index growth, see `run_reindex_case`.
use crate::c10::{Forest, GNode, GRef};
use crate::interpose::{self, Call};
use crate::p1::{self, Cfg, ColCfg, Kind, Op, Oracle, Tx};
use crate::util::*;
use parity_db::{ColumnOptions, CompressionType, Db, NewNode, NodeRef, Operation, Options};
use std::collections::{BTreeMap, BTreeSet, VecDeque};
use std::os::unix::io::AsRawFd;
use std::path::{Path, PathBuf};
use std::sync::{Arc, Mutex};

const PAGE: u64 = 4096;
const INDEX_META_PAGES: u64 = 4; // META_SIZE = 16 KiB

/// Sparse file content: length + non-zero pages.
#[derive(Clone, Default, PartialEq, Eq)]
struct FileImg {
	len: u64,
	pages: BTreeMap<u64, Vec<u8>>,
}

fn read_img(path: &Path) -> Option<FileImg> {
	let f = std::fs::File::open(path).ok()?;
	let len = f.metadata().ok()?.len();
	let fd = f.as_raw_fd();
	let mut img = FileImg { len, pages: BTreeMap::new() };
	let mut off: i64 = 0;
	let mut buf = vec![0u8; 1 << 20];
	while (off as u64) < len {
		let d = unsafe { libc::lseek(fd, off, libc::SEEK_DATA) };
		if d < 0 {
			break // ENXIO: no more data
		}
		let h = unsafe { libc::lseek(fd, d, libc::SEEK_HOLE) };
		let end = if h < 0 { len as i64 } else { h };
		let mut p = d - (d % PAGE as i64);
		while p < end {
			let want = std::cmp::min(buf.len() as i64, end - p) as usize;
			let n = unsafe { libc::pread(fd, buf.as_mut_ptr() as *mut libc::c_void, want, p) };
			if n <= 0 {
				break
			}
			let n = n as usize;
			let mut i = 0;
			while i < n {
				let e = std::cmp::min(i + PAGE as usize, n);
				if buf[i..e].iter().any(|b| *b != 0) {
					let mut pg = buf[i..e].to_vec();
					pg.resize(PAGE as usize, 0);
					img.pages.insert((p as u64 + i as u64) / PAGE, pg);
				}
				i = e;
			}
			p += n as i64;
		}
		off = end;
	}
	Some(img)
}

fn write_img(path: &Path, img: &FileImg) {
	use std::io::{Seek, SeekFrom, Write};
	let mut f = std::fs::File::create(path).unwrap();
	f.set_len(img.len).unwrap();
	for (p, data) in &img.pages {
		let off = p * PAGE;
		if off >= img.len {
			continue
		}
		let n = std::cmp::min(PAGE, img.len - off) as usize;
		f.seek(SeekFrom::Start(off)).unwrap();
		f.write_all(&data[..n]).unwrap();
	}
}

fn is_tableish(name: &str) -> bool {
	name.starts_with("table_") || name.starts_with("index_") || name.starts_with("refcount_")
}

fn log_no(name: &str) -> Option<u32> {
	name.strip_prefix("log").and_then(|s| s.parse().ok())
}

fn differing_pages(a: &FileImg, b: &FileImg) -> Vec<u64> {
	let mut out = BTreeSet::new();
	for (p, d) in &a.pages {
		if b.pages.get(p) != Some(d) {
			out.insert(*p);
		}
	}
	for p in b.pages.keys() {
		if !a.pages.contains_key(p) {
			out.insert(*p);
		}
	}
	out.into_iter().collect()
}

/// Journal tokens (compact syntax of the Lean driver command `c12 check`).
#[derive(Clone, Debug, PartialEq, Eq)]
enum Tok {
	A(u64, Option<u32>),
	S(u32),
	W(u64, u32, u64),
	E(u64),
	M(u32),
	/// unlink of a table-ish file (old index / ref-count table dropped at the end of a growth) on
	/// behalf of a record (the one holding the DropTable action)
	X(u64, u32),
	T(u32),
	U(u32),
	/// power loss: this many records of the log file survive
	K(u32, u64),
	/// power loss + start of the next life time
	Z,
}

impl Tok {
	fn text(&self) -> String {
		match self {
			Tok::A(r, f) => format!("A:{}:{}", r, f.map(|x| x as i64).unwrap_or(-1)),
			Tok::S(f) => format!("S:{}", f),
			Tok::W(r, t, p) => format!("W:{}:{}:{}", r, t, p),
			Tok::E(r) => format!("E:{}", r),
			Tok::M(t) => format!("M:{}", t),
			Tok::X(r, t) => format!("X:{}:{}", r, t),
			Tok::T(f) => format!("T:{}", f),
			Tok::U(f) => format!("U:{}", f),
			Tok::K(f, n) => format!("K:{}:{}", f, n),
			Tok::Z => "Z".into(),
		}
	}
}

/// Rule of the journal format (not of the acceptor): the after-images of record r are its W / X
/// tokens of its first complete application = those that precede the first E:r, inside the life
/// time (segment between Z tokens) that holds that E:r.
fn first_applications(j: &[Tok]) -> BTreeMap<u64, Vec<Tok>> {
	let mut out: BTreeMap<u64, Vec<Tok>> = BTreeMap::new();
	let mut cur: BTreeMap<u64, Vec<Tok>> = BTreeMap::new();
	for t in j {
		match t {
			Tok::Z => cur.clear(),
			Tok::W(r, _, _) | Tok::X(r, _) => cur.entry(*r).or_default().push(t.clone()),
			Tok::E(r) => {
				if !out.contains_key(r) {
					out.insert(*r, cur.remove(r).unwrap_or_default());
				}
			},
			_ => {},
		}
	}
	out
}

/// Independent statement of the discipline, positional, plain Rust (NOT derived from the Lean
/// acceptor). Returns (canonical verdict `D<k>@<index of the first offending token>`, explanation).
///  D1 every W / X / E of r is preceded by an S of r's log file issued after A of r (or r survived a
///     power loss: what is in a log file after a crash is durable);
///  D2 every T/U of a log file is preceded, in the same life time, for every record it holds, by
///     the record's E and, for every table file written for that record, by an M (or the unlink X)
///     of that table file issued after the record's last W;
///  D3 (as far as journals can show it) record ids are 1, 2, .. in append order (after a power
///     loss: continuing after the newest surviving record); an A moves to another log file only
///     after an S of the previous record's file issued after that record's A, and only into a
///     file holding no live record; records are applied in id order, each one whole, a replayed
///     record repeats the stores of its first application; log files are reclaimed oldest first.
fn positional_check(j: &[Tok]) -> Option<(String, String)> {
	let first_app = first_applications(j);
	let mut file_of: BTreeMap<u64, u32> = BTreeMap::new();
	let mut append_pos: BTreeMap<u64, usize> = BTreeMap::new();
	let mut in_file: BTreeMap<u32, Vec<u64>> = BTreeMap::new();
	let mut last: Option<u64> = None;
	let mut nrecs: u64 = 0; // records of the surviving history
	let mut cleaned: u64 = 0; // newest reclaimed record
	let mut done: u64 = 0; // newest record applied whole (in this life time; after a power loss: reclaimed)
	let mut life_start = 0usize;
	let mut durable: BTreeSet<u64> = BTreeSet::new(); // records that survived a power loss
	let mut progress: BTreeMap<u64, usize> = BTreeMap::new();
	let mut ks: BTreeMap<u32, u64> = BTreeMap::new();
	for (i, t) in j.iter().enumerate() {
		match t {
			Tok::A(r, f) => {
				let f = match f {
					Some(f) => *f,
					None => return Some((format!("D3@{}", i), format!("record {} never reached a log file", r))),
				};
				if *r != nrecs + 1 {
					return Some((format!("D3@{}", i), format!("record id {} after {} records", r, nrecs)))
				}
				let same = last.map_or(false, |p| file_of[&p] == f);
				if !same {
					if let Some(p) = last {
						let pf = file_of[&p];
						if !j[append_pos[&p]..i].iter().any(|x| *x == Tok::S(pf)) {
							return Some((format!("D3@{}", i), format!("record {} goes to log{} while log{} (record {}) is not synced", r, f, pf, p)))
						}
					}
					if in_file.get(&f).map_or(false, |v| !v.is_empty()) {
						return Some((format!("D3@{}", i), format!("record {} appended to log{} which still holds live records", r, f)))
					}
				}
				last = Some(*r);
				nrecs = *r;
				file_of.insert(*r, f);
				append_pos.insert(*r, i);
				in_file.entry(f).or_default().push(*r);
			},
			Tok::W(r, _, _) | Tok::X(r, _) | Tok::E(r) => {
				if *r != done + 1 {
					return Some((format!("D3@{}", i), format!("record {} touched while record {} is the next one to apply", r, done + 1)))
				}
				if !durable.contains(r) {
					let (f, a) = match (file_of.get(r), append_pos.get(r)) {
						(Some(f), Some(a)) => (*f, *a),
						_ => return Some((format!("D1@{}", i), format!("record {} applied but never appended", r))),
					};
					if !j[a..i].iter().any(|x| *x == Tok::S(f)) {
						return Some((format!("D1@{}", i), format!("table write / unlink / completion of record {} before log{} was synced", r, f)))
					}
				}
				let l = first_app.get(r);
				let k = progress.entry(*r).or_insert(0);
				if let Tok::E(_) = t {
					if l.map_or(false, |l| l.len() != *k) {
						return Some((format!("D3@{}", i), format!("record {} completed after {} of its {} stores", r, k, l.unwrap().len())))
					}
					done = *r;
				} else {
					if l.map_or(false, |l| l.get(*k) != Some(t)) {
						return Some((format!("D3@{}", i), format!("record {}: store {} differs from its first application", r, k)))
					}
					*k += 1;
				}
			},
			Tok::T(f) | Tok::U(f) => {
				let mine = in_file.get(f).cloned().unwrap_or_default();
				if let Some(first) = mine.first() {
					if in_file.iter().any(|(g, v)| g != f && v.first().map_or(false, |x| x < first)) {
						return Some((format!("D3@{}", i), format!("log{} reclaimed while an older log file still holds records", f)))
					}
				}
				in_file.remove(f);
				for r in &mine {
					if !j[life_start..i].iter().any(|x| *x == Tok::E(*r)) {
						return Some((format!("D2@{}", i), format!("log{} reclaimed before record {} was applied", f, r)))
					}
				}
				for r in &mine {
					let mut last_w: BTreeMap<u32, usize> = BTreeMap::new();
					for (k, x) in j[..i].iter().enumerate().skip(life_start) {
						if let Tok::W(r2, tf, _) = x {
							if r2 == r {
								last_w.insert(*tf, k);
							}
						}
					}
					for (tf, k) in last_w {
						// (a file unlinked since needs no sync: its pages are gone, durably, with it)
						if !j[k..i].iter().any(|x| *x == Tok::M(tf) || matches!(x, Tok::X(_, g) if *g == tf)) {
							return Some((format!("D2@{}", i), format!("log{} reclaimed before table file {} (record {}) was synced", f, tf, r)))
						}
					}
				}
				if let Some(l) = mine.last() {
					cleaned = std::cmp::max(cleaned, *l);
				}
				if last.map_or(false, |p| file_of[&p] == *f) {
					last = None;
				}
			},
			Tok::K(f, n) => {
				ks.insert(*f, *n);
			},
			Tok::Z => {
				// power loss: a log file keeps what was synced, or what the K token says
				let mut keep = cleaned;
				let durable_before = std::mem::take(&mut durable);
				let files: Vec<u32> = in_file.keys().cloned().collect();
				for f in files {
					let v = in_file.get_mut(&f).unwrap();
					let synced = v.iter().filter(|r| durable_before.contains(*r) || j[append_pos[*r]..i].iter().any(|x| *x == Tok::S(f))).count() as u64;
					let n = *ks.get(&f).unwrap_or(&synced);
					v.truncate(n as usize);
					for r in v.iter() {
						durable.insert(*r);
						keep = std::cmp::max(keep, *r);
					}
					if v.is_empty() {
						in_file.remove(&f);
					}
				}
				ks.clear();
				nrecs = keep;
				done = cleaned;
				last = None;
				life_start = i + 1;
				progress.clear();
			},
			_ => {},
		}
	}
	None
}

fn journal_line(j: &[Tok]) -> String {
	let mut line = String::from("c12 check");
	for x in j {
		line.push(' ');
		line.push_str(&x.text());
	}
	line
}

/// Mutants of a real journal (one sync call removed / displaced, an unlink made premature): the
/// acceptor must reject them exactly where the positional checker does. Returns (mutant, what).
fn mutants(j: &[Tok], rng: &mut Rng) -> Vec<(Vec<Tok>, &'static str)> {
	let mut out = vec![];
	// (m1) remove the last msync of a table file before a log truncation
	let ts: Vec<usize> = j.iter().enumerate().filter(|(_, x)| matches!(x, Tok::T(_))).map(|(i, _)| i).collect();
	if !ts.is_empty() {
		let ti = ts[rng.below(ts.len() as u64) as usize];
		let ms: Vec<usize> = (0..ti).rev().take_while(|k| !matches!(j[*k], Tok::W(..) | Tok::E(_) | Tok::X(..) | Tok::Z)).filter(|k| matches!(j[*k], Tok::M(_))).collect();
		if !ms.is_empty() {
			let k = ms[rng.below(ms.len() as u64) as usize];
			let mut m = j.to_vec();
			m.remove(k);
			out.push((m, "msync"));
		}
	}
	// (m2) remove the fdatasync of a flush
	let ss: Vec<usize> = j
		.iter()
		.enumerate()
		.filter(|(i, x)| match x {
			Tok::S(f) => *i > 0 && j[..*i].iter().rev().take_while(|y| !matches!(y, Tok::S(_) | Tok::T(_) | Tok::Z)).any(|y| matches!(y, Tok::A(_, Some(g)) if g == f)),
			_ => false,
		})
		.map(|(i, _)| i)
		.collect();
	if !ss.is_empty() {
		let k = ss[rng.below(ss.len() as u64) as usize];
		let mut m = j.to_vec();
		m.remove(k);
		out.push((m, "fdatasync"));
	}
	// (m3) truncate before the msyncs of the same clean call
	if !ts.is_empty() {
		let ti = ts[rng.below(ts.len() as u64) as usize];
		let mut k = ti;
		while k > 0 && matches!(j[k - 1], Tok::M(_) | Tok::T(_) | Tok::S(_)) {
			k -= 1;
		}
		if k < ti && j[k..ti].iter().any(|x| matches!(x, Tok::M(_))) {
			let mut m = j.to_vec();
			let x = m.remove(ti);
			m.insert(k, x);
			out.push((m, "reorder"));
		}
	}
	// (m4) premature drop: the unlink of a table file moved in front of the sync of the log file that
	// holds the record ordering it
	let xs: Vec<usize> = j.iter().enumerate().filter(|(_, x)| matches!(x, Tok::X(..))).map(|(i, _)| i).collect();
	if !xs.is_empty() {
		let xi = xs[rng.below(xs.len() as u64) as usize];
		if let Tok::X(r, _) = j[xi] {
			let a = j[..xi].iter().rposition(|x| matches!(x, Tok::A(r2, _) if *r2 == r));
			if let Some(a) = a {
				if let Tok::A(_, Some(f)) = j[a] {
					if let Some(sp) = j[a..xi].iter().position(|x| *x == Tok::S(f)) {
						let mut m = j.to_vec();
						let x = m.remove(xi);
						m.insert(a + sp, x);
						out.push((m, "unlink_before_sync"));
					}
				}
			}
		}
	}
	out
}

struct Tracker {
	dir: PathBuf,
	cur: BTreeMap<String, FileImg>,
	dur: BTreeMap<String, FileImg>,
	ids: BTreeMap<String, u32>,
	/// open descriptors of the table-ish files (with their inode numbers): a scan costs a few
	/// system calls per file
	fds: BTreeMap<String, (u64, std::fs::File)>,
}

#[derive(Default)]
struct Delta {
	created: Vec<String>,
	removed: Vec<String>,
	grown: Vec<String>,
	/// (file, page) pairs whose content changed, META pages of index files excluded
	pages: Vec<(String, u64)>,
	meta_pages: u64,
}

impl Delta {
	fn is_empty(&self) -> bool {
		self.created.is_empty() && self.removed.is_empty() && self.grown.is_empty() && self.pages.is_empty() && self.meta_pages == 0
	}
}

/// Bring `img` up to date with the file behind `f`; returns the pages whose content changed.
fn refresh_img(f: &std::fs::File, img: &mut FileImg) -> Vec<u64> {
	let len = f.metadata().map(|m| m.len()).unwrap_or(0);
	let fd = f.as_raw_fd();
	img.len = len;
	let mut changed = vec![];
	let mut seen: BTreeSet<u64> = BTreeSet::new();
	let mut off: i64 = 0;
	let mut buf = vec![0u8; 1 << 18];
	while (off as u64) < len {
		let d = unsafe { libc::lseek(fd, off, libc::SEEK_DATA) };
		if d < 0 {
			break // ENXIO: no more data
		}
		let h = unsafe { libc::lseek(fd, d, libc::SEEK_HOLE) };
		let end = if h < 0 { len as i64 } else { h };
		let mut p = d - (d % PAGE as i64);
		while p < end {
			let want = std::cmp::min(buf.len() as i64, end - p) as usize;
			let n = unsafe { libc::pread(fd, buf.as_mut_ptr() as *mut libc::c_void, want, p) };
			if n <= 0 {
				break
			}
			let n = n as usize;
			let mut i = 0;
			while i < n {
				let e = std::cmp::min(i + PAGE as usize, n);
				let pg = (p as u64 + i as u64) / PAGE;
				if buf[i..e].iter().any(|b| *b != 0) {
					seen.insert(pg);
					let same = img.pages.get(&pg).map_or(false, |old| old[..e - i] == buf[i..e] && old[e - i..].iter().all(|b| *b == 0));
					if !same {
						let mut v = buf[i..e].to_vec();
						v.resize(PAGE as usize, 0);
						img.pages.insert(pg, v);
						changed.push(pg);
					}
				}
				i = e;
			}
			p += n as i64;
		}
		off = end;
	}
	let gone: Vec<u64> = img.pages.keys().filter(|p| !seen.contains(*p)).cloned().collect();
	for p in gone {
		img.pages.remove(&p);
		changed.push(p);
	}
	changed.sort();
	changed
}

impl Tracker {
	fn new(dir: &Path) -> Tracker {
		Tracker { dir: dir.into(), cur: Default::default(), dur: Default::default(), ids: Default::default(), fds: Default::default() }
	}
	fn id(&mut self, name: &str) -> u32 {
		let n = self.ids.len() as u32;
		*self.ids.entry(name.to_string()).or_insert(n)
	}
	fn name_of(&self, id: u32) -> Option<String> {
		self.ids.iter().find(|(_, i)| **i == id).map(|(n, _)| n.clone())
	}
	/// Take the directory as it is for both the volatile and the durable content (a power-loss
	/// image before `Db::open`: whatever is on disk after a crash is durable).
	fn adopt(&mut self) {
		let _ = self.scan();
		self.dur = self.cur.clone();
	}
	/// Re-read every table-ish file, report what changed since the last scan.
	fn scan(&mut self) -> Delta {
		use std::os::unix::fs::DirEntryExt;
		let mut d = Delta::default();
		let mut seen = BTreeSet::new();
		for e in std::fs::read_dir(&self.dir).unwrap() {
			let e = e.unwrap();
			let name = e.file_name().to_string_lossy().to_string();
			if !is_tableish(&name) {
				continue
			}
			let ino = e.ino();
			if self.fds.get(&name).map_or(true, |(i, _)| *i != ino) {
				match std::fs::File::open(e.path()) {
					Ok(f) => {
						if self.fds.insert(name.clone(), (ino, f)).is_some() {
							// another file under the same name: start over
							self.cur.remove(&name);
							self.dur.remove(&name);
						}
					},
					Err(_) => continue,
				}
			}
			seen.insert(name.clone());
			self.id(&name);
			let f = &self.fds[&name].1;
			match self.cur.get_mut(&name) {
				None => {
					let mut img = FileImg::default();
					let pages = refresh_img(f, &mut img);
					d.created.push(name.clone());
					// A-os: creation and set_len are durable at once, content zero
					self.dur.insert(name.clone(), FileImg { len: img.len, pages: BTreeMap::new() });
					for p in pages {
						if name.starts_with("index_") && p < INDEX_META_PAGES {
							d.meta_pages += 1;
						} else {
							d.pages.push((name.clone(), p));
						}
					}
					self.cur.insert(name, img);
				},
				Some(img) => {
					let old_len = img.len;
					let pages = refresh_img(f, img);
					if img.len != old_len {
						d.grown.push(name.clone());
						if let Some(du) = self.dur.get_mut(&name) {
							du.len = img.len;
						}
					}
					for p in pages {
						if name.starts_with("index_") && p < INDEX_META_PAGES {
							d.meta_pages += 1;
						} else {
							d.pages.push((name.clone(), p));
						}
					}
				},
			}
		}
		let gone: Vec<String> = self.cur.keys().filter(|k| !seen.contains(*k)).cloned().collect();
		for g in gone {
			self.cur.remove(&g);
			self.dur.remove(&g);
			self.fds.remove(&g);
			d.removed.push(g);
		}
		d
	}
	/// msync of `name` covering everything but (for index files) the META area.
	fn synced(&mut self, name: &str) {
		if let Some(c) = self.cur.get(name) {
			let mut n = c.clone();
			if name.starts_with("index_") {
				let old = self.dur.get(name).cloned().unwrap_or_default();
				for p in 0..INDEX_META_PAGES {
					n.pages.remove(&p);
					if let Some(x) = old.pages.get(&p) {
						n.pages.insert(p, x.clone());
					}
				}
			}
			self.dur.insert(name.to_string(), n);
		}
	}
}

/// Build one power-loss image of directory `dir` into `img`.
/// mode 0: nothing unsynced survives, 1: everything survives, 2: page-wise / prefix by `rng`.
/// Returns (pages taken from the volatile version, pages taken from the durable version, log
/// files cut, kept length per log file).
fn build_image(dir: &Path, tr: &Tracker, log_synced_len: Option<&BTreeMap<String, u64>>, img: &Path, rng: &mut Rng, mode: u64) -> (u64, u64, u64, BTreeMap<String, u64>) {
	let _ = std::fs::remove_dir_all(img);
	std::fs::create_dir_all(img).unwrap();
	let mut mixed_vol = 0;
	let mut mixed_dur = 0;
	let mut cut = 0;
	let mut kept = BTreeMap::new();
	// directory order is not stable: fix the order in which the random choices are made
	let mut names: Vec<(String, PathBuf)> = std::fs::read_dir(dir).unwrap().map(|e| e.unwrap()).map(|e| (e.file_name().to_string_lossy().to_string(), e.path())).collect();
	names.sort();
	for (name, path) in names {
		if name == "lock" {
			continue
		}
		if is_tableish(&name) {
			let vol = match read_img(&path) {
				Some(v) => v,
				None => continue,
			};
			let mut out = FileImg { len: vol.len, pages: BTreeMap::new() };
			let dur = tr.dur.get(&name).cloned().unwrap_or(FileImg { len: vol.len, pages: BTreeMap::new() });
			let diff: BTreeSet<u64> = differing_pages(&dur, &vol).into_iter().collect();
			let all: BTreeSet<u64> = vol.pages.keys().chain(dur.pages.keys()).cloned().collect();
			for p in all {
				let take_vol = if diff.contains(&p) {
					let v = match mode {
						0 => false,
						1 => true,
						_ => rng.chance(1, 2),
					};
					if v {
						mixed_vol += 1;
					} else {
						mixed_dur += 1;
					}
					v
				} else {
					true
				};
				let src = if take_vol { &vol } else { &dur };
				if let Some(d) = src.pages.get(&p) {
					out.pages.insert(p, d.clone());
				}
			}
			write_img(&img.join(&name), &out);
		} else if log_no(&name).is_some() {
			let data = std::fs::read(&path).unwrap();
			let synced = match log_synced_len {
				Some(m) => std::cmp::min(*m.get(&name).unwrap_or(&0), data.len() as u64),
				None => data.len() as u64,
			};
			let keep = match mode {
				0 => synced,
				1 => data.len() as u64,
				_ => rng.range(synced, data.len() as u64),
			};
			if (keep as usize) < data.len() {
				cut += 1;
			}
			kept.insert(name.clone(), keep);
			std::fs::write(img.join(&name), &data[..keep as usize]).unwrap();
		} else {
			std::fs::copy(&path, img.join(&name)).unwrap();
		}
	}
	(mixed_vol, mixed_dur, cut, kept)
}

enum Item {
	Delta(Delta),
	Sys(interpose::Event),
}

/// Request for a power-loss image in the middle of a call (taken by the observer right after the
/// `at`-th interposed sync / truncate / unlink of the call returned).
struct Nested {
	at: usize,
	img: PathBuf,
	seed: u64,
	mode: u64,
	done: bool,
	mixed: (u64, u64),
}

/// What the interposition observer works on (shared with the `Life` that owns the database).
struct Obs {
	dirs: String,
	tr: Tracker,
	items: Vec<Item>,
	scan_on_events: bool,
	/// synced length per log file; `None`: everything in the log files is durable (recovery of an image)
	log_synced_len: Option<BTreeMap<String, u64>>,
	files_at_call_start: BTreeSet<String>,
	events_seen: usize,
	nested: Option<Nested>,
}

impl Obs {
	fn on_event(&mut self, e: &interpose::Event) {
		if !e.path.starts_with(&self.dirs) {
			return
		}
		let name = e.file_name().to_string();
		let log = log_no(&name).is_some();
		let table = is_tableish(&name);
		let ordering = match e.call {
			Call::Mmap { .. } => false,
			Call::Truncate { .. } => log,
			_ => log || table,
		};
		if ordering && self.scan_on_events {
			let d = self.tr.scan();
			if !d.is_empty() {
				self.items.push(Item::Delta(d));
			}
		}
		if log {
			if let Some(m) = self.log_synced_len.as_mut() {
				match &e.call {
					Call::Fdatasync | Call::Fsync => {
						let len = std::fs::metadata(&e.path).map(|m| m.len()).unwrap_or(0);
						m.insert(name.clone(), len);
					},
					Call::Truncate { len: 0 } => {
						m.insert(name.clone(), 0);
					},
					Call::Unlink => {
						m.remove(&name);
					},
					_ => {},
				}
			}
		} else if table {
			match &e.call {
				Call::Msync { off, len } => {
					let flen = std::fs::metadata(&e.path).map(|m| m.len()).unwrap_or(0);
					let must_from = if name.starts_with("index_") { INDEX_META_PAGES * PAGE } else { 0 };
					if *off <= must_from && off + len >= flen {
						self.tr.synced(&name);
					}
				},
				Call::Fsync | Call::Fdatasync => self.tr.synced(&name),
				_ => {},
			}
		}
		self.items.push(Item::Sys(e.clone()));
		if ordering {
			self.events_seen += 1;
			let dir = PathBuf::from(&self.dirs);
			if let Some(n) = self.nested.as_mut() {
				if !n.done && self.events_seen == n.at {
					let mut rng = Rng::new(n.seed);
					let (v, d, _, _) = build_image(&dir, &self.tr, self.log_synced_len.as_ref(), &n.img, &mut rng, n.mode);
					n.mixed = (v, d);
					n.done = true;
				}
			}
		}
	}
}

fn install_observer(obs: &Arc<Mutex<Obs>>) {
	let o = obs.clone();
	interpose::set_observer(Some(Box::new(move |e: &interpose::Event| {
		if let Ok(mut g) = o.lock() {
			g.on_event(e);
		}
	})));
}

fn gen_key(uniform: bool, col: u8, id: u64) -> Vec<u8> {
	let mut r = Rng::new(id.wrapping_mul(0x9E37_79B9).wrapping_add(col as u64 * 7919 + 13));
	let len = if uniform { *r.pick(&[32u64, 32, 33, 40]) } else { *r.pick(&[1u64, 3, 8, 31, 32, 33, 64, 251]) } as usize;
	let mut k = Vec::with_capacity(len + 8);
	while k.len() < len {
		k.extend_from_slice(&r.next().to_le_bytes());
	}
	k.truncate(len);
	let tag = [(id & 0xff) as u8, col];
	for (i, b) in tag.iter().enumerate() {
		if i < k.len() {
			let pos = k.len() - 1 - i;
			k[pos] = *b;
		}
	}
	k
}

fn gen_value_token(rng: &mut Rng, key_id: u64, fixed_by_key: bool) -> String {
	if fixed_by_key {
		let mut r = Rng::new(key_id ^ 0x5eed);
		let len = *r.pick(&[0u64, 1, 30, 33, 100, 500, 4000, 5000, 9000, 33000]);
		return format!("v{}_{}", len, 1000 + key_id)
	}
	let len = match rng.below(10) {
		0 => 0,
		1 => rng.range(1, 8),
		2 => rng.range(20, 40),
		3 => rng.range(40, 200),
		4 => rng.range(200, 1000),
		5 => rng.range(1000, 5000),
		6 => rng.range(4000, 4200),
		7 => rng.range(8000, 9000),
		8 => rng.range(32000, 34000),
		_ => rng.range(1, 64),
	};
	format!("v{}_{}", len, rng.below(1 << 30))
}

fn gen_cfg(rng: &mut Rng) -> Cfg {
	let ncols = rng.range(1, 3) as usize;
	let mut cols = vec![];
	for _ in 0..ncols {
		let kind = *rng.pick(&[Kind::Plain, Kind::Plain, Kind::Preimage, Kind::Rc]);
		let btree = rng.chance(1, 4);
		let uniform = !btree && rng.chance(1, 3);
		let compression = *rng.pick(&[CompressionType::NoCompression, CompressionType::NoCompression, CompressionType::Lz4]);
		cols.push(ColCfg { kind, uniform, btree, compression });
	}
	let mut salt = [0u8; 32];
	for i in 0..4 {
		salt[i * 8..i * 8 + 8].copy_from_slice(&rng.next().to_le_bytes());
	}
	Cfg { cols, salt, threshold: None, sync: true }
}

/// The real database plus the stage mirror needed to build the journal.
struct Life {
	cfg: Cfg,
	/// column 0 is a ref-counted multitree column (overrides `cfg.cols[0]`)
	tree: bool,
	dir: PathBuf,
	db: Option<Db>,
	obs: Arc<Mutex<Obs>>,
	j: Vec<Tok>,
	next_rec: u64,
	queued: usize,
	pending: Vec<(u64, usize)>,     // records appended, log file not known: (rec, index in j)
	unflushed: Vec<u64>,            // records appended since the last flush
	flushed_files: VecDeque<Vec<u64>>, // per flushed, not yet enacted log file: its records
	dirty_files: usize,             // enacted, not yet cleaned log files
	n_synced: usize,                // records whose log file was synced
	n_processed: usize,             // records appended
	tx_upto: Vec<usize>,            // [r] = number of transaction records among records 1..=r (reindex records are not)
	ambiguous: u64,
	/// record -> (log file, first byte, end) of its bytes
	rec_span: BTreeMap<u64, (u32, u64, u64)>,
	/// record -> table files named by the DropTable / DropRefCountTable actions at its end
	rec_drops: BTreeMap<u64, Vec<String>>,
	/// record -> W / X tokens of its first complete application
	applied: BTreeMap<u64, Vec<Tok>>,
	/// log file -> records it holds (append order)
	in_file: BTreeMap<u32, Vec<u64>>,
}

fn options_of(cfg: &Cfg, tree: bool, path: &Path) -> Options {
	let mut o = cfg.options(path);
	if tree {
		o.columns[0] = ColumnOptions {
			preimage: true,
			uniform: false,
			ref_counted: true,
			compression: CompressionType::NoCompression,
			btree_index: false,
			multitree: true,
			append_only: false,
			allow_direct_node_access: true,
		};
	}
	o
}

/// DropTable / DropRefCountTable actions are written right in front of the END marker of a
/// record (`LogChange::flush_to_file`): ... [05 id16]* [07 id16]* 04 crc32. Names of the table
/// files they mean (a value whose tail happens to look like one gives a spurious name: the result
/// is only used to pick the record an observed unlink belongs to).
fn drops_at_record_end(path: &Path, end: u64) -> Vec<String> {
	use std::io::{Read, Seek, SeekFrom};
	let mut out = vec![];
	let from = end.saturating_sub(64);
	let mut buf = vec![0u8; (end - from) as usize];
	let ok = std::fs::File::open(path).and_then(|mut f| f.seek(SeekFrom::Start(from)).and_then(|_| f.read_exact(&mut buf))).is_ok();
	if !ok || buf.len() < 5 || buf[buf.len() - 5] != 4 {
		return out
	}
	let mut pos = buf.len() - 5;
	while pos >= 3 {
		let kind = buf[pos - 3];
		let id = u16::from_le_bytes([buf[pos - 2], buf[pos - 1]]);
		let name = match kind {
			5 => format!("index_{:02}_{}", id >> 8, id & 0xff),
			7 => format!("refcount_{:02}_{}", id >> 8, id & 0xff),
			_ => break,
		};
		out.push(name);
		pos -= 3;
	}
	out
}

/// One piece of what a call did, in the order it was observed.
enum Piece {
	Pages(Vec<(u32, u64)>),
	Unlink(u32, String),
	Ev(Tok),
}

impl Life {
	fn db(&self) -> &Db {
		self.db.as_ref().unwrap()
	}

	fn options(&self, path: &Path) -> Options {
		options_of(&self.cfg, self.tree, path)
	}

	fn log_sizes(&self) -> BTreeMap<u32, u64> {
		let mut m = BTreeMap::new();
		if let Ok(rd) = std::fs::read_dir(&self.dir) {
			for e in rd.flatten() {
				if let Some(n) = log_no(&e.file_name().to_string_lossy()) {
					m.insert(n, e.metadata().map(|m| m.len()).unwrap_or(0));
				}
			}
		}
		m
	}

	/// Before a call into the database: what the observer should do during it.
	fn arm(&mut self, scan: bool) {
		let mut o = self.obs.lock().unwrap();
		o.scan_on_events = scan;
		o.items.clear();
		o.events_seen = 0;
		o.files_at_call_start = o.tr.cur.keys().cloned().collect();
	}

	/// Interposed events + page diffs of one call, in observed order; appends the journal tokens.
	/// `recs`: records applied by the call (page changes are attributed to them).
	fn after_call(&mut self, what: &str, recs: &[u64], t: &mut Trace, ctr: &mut Counters) {
		let (items, existed) = {
			let mut o = self.obs.lock().unwrap();
			let d = o.tr.scan();
			if !d.is_empty() {
				o.items.push(Item::Delta(d));
			}
			(std::mem::take(&mut o.items), std::mem::take(&mut o.files_at_call_start))
		};
		interpose::drain();
		let toks = self.tokens_of_call(what, recs, items, &existed, t, ctr);
		for s in &toks {
			ctr.inc(&format!("ev.{}", &s.text()[..1]));
			if let Tok::T(n) | Tok::U(n) = s {
				self.in_file.remove(n);
			}
		}
		self.j.extend(toks);
	}

	/// Turn the observed pieces of one call into journal tokens (see the module comment).
	fn tokens_of_call(&mut self, what: &str, recs: &[u64], items: Vec<Item>, existed: &BTreeSet<String>, t: &mut Trace, ctr: &mut Counters) -> Vec<Tok> {
		let mut seq: Vec<Piece> = vec![];
		for it in items {
			match it {
				Item::Delta(delta) => {
					for c in &delta.created {
						ctr.inc("exempt.file_created");
						let id = self.obs.lock().unwrap().tr.ids[c];
						t.comment(&format!("{}: created {} (id {})", what, c, id));
					}
					ctr.add("exempt.file_grown", delta.grown.len() as u64);
					ctr.add("exempt.index_meta_pages", delta.meta_pages);
					for r in &delta.removed {
						t.comment(&format!("{}: removed {}", what, r));
						ctr.inc("tablefile.removed");
					}
					if !delta.pages.is_empty() {
						let mut o = self.obs.lock().unwrap();
						seq.push(Piece::Pages(delta.pages.iter().map(|(n, p)| (o.tr.id(n), *p)).collect()));
					}
				},
				Item::Sys(e) => {
					let name = e.file_name().to_string();
					ctr.inc(&format!("sys.{}.{}", what, match &e.call {
						Call::Fdatasync => "fdatasync",
						Call::Fsync => "fsync",
						Call::Msync { .. } => "msync",
						Call::Truncate { .. } => "ftruncate",
						Call::Unlink => "unlink",
						Call::Mmap { .. } => "mmap",
					}));
					if let Some(n) = log_no(&name) {
						match &e.call {
							Call::Fdatasync | Call::Fsync => {
								// (fallback) the log file of records whose file could not be told at append time
								if what == "flush" && e.call == Call::Fdatasync {
									for (r, idx) in self.pending.drain(..) {
										self.j[idx] = Tok::A(r, Some(n));
										self.in_file.entry(n).or_default().push(r);
									}
								}
								seq.push(Piece::Ev(Tok::S(n)));
							},
							Call::Truncate { len } => {
								if *len == 0 {
									seq.push(Piece::Ev(Tok::T(n)));
								} else {
									t.comment(&format!("log{} truncated to non-zero length {}", n, len));
									ctr.inc("unexpected.log_truncate_nonzero");
								}
							},
							Call::Unlink => seq.push(Piece::Ev(Tok::U(n))),
							_ => {},
						}
					} else if is_tableish(&name) {
						match &e.call {
							Call::Msync { off, len } => {
								// (the file may have grown since: judge by the mapping that was synced)
								let flen = std::fs::metadata(&e.path).map(|m| m.len()).unwrap_or(0);
								let must_from = if name.starts_with("index_") { INDEX_META_PAGES * PAGE } else { 0 };
								if *off <= must_from && off + len >= flen {
									let id = self.obs.lock().unwrap().tr.id(&name);
									seq.push(Piece::Ev(Tok::M(id)));
								} else {
									ctr.inc("unexpected.partial_msync");
									t.comment(&format!("partial msync of {}: off={} len={} file={}", name, off, len, flen));
								}
							},
							Call::Fsync | Call::Fdatasync => {
								let id = self.obs.lock().unwrap().tr.id(&name);
								seq.push(Piece::Ev(Tok::M(id)));
							},
							Call::Truncate { .. } => ctr.inc("exempt.set_len_tablefile"),
							Call::Unlink => {
								ctr.inc("tablefile.unlink");
								let id = self.obs.lock().unwrap().tr.ids.get(&name).cloned();
								if let Some(id) = id {
									seq.push(Piece::Unlink(id, name.clone()));
								}
							},
							Call::Mmap { .. } => {},
						}
					}
				},
			}
		}
		// enact: an msync inside the call (old mapping flushed when a file is grown) is hoisted in
		// front of the stores of the call (conservative for D2: it then covers none of them)
		let mut out: Vec<Tok> = vec![];
		let hoist = what == "enact";
		if hoist {
			let mut rest = vec![];
			let mut any_sync = false;
			for p in seq {
				match p {
					Piece::Ev(Tok::M(x)) => {
						any_sync = true;
						out.push(Tok::M(x))
					},
					Piece::Ev(Tok::S(x)) => {
						any_sync = true;
						out.push(Tok::S(x))
					},
					other => rest.push(other),
				}
			}
			seq = rest;
			if any_sync && seq.iter().any(|p| matches!(p, Piece::Pages(_))) {
				self.ambiguous += 1;
				ctr.inc("enact.calls_with_hoisted_sync_and_stores");
			}
		}
		// `Log::open` removes the log files that hold no record before anything is replayed
		if what == "open" {
			let lead = seq.iter().position(|p| !matches!(p, Piece::Ev(Tok::U(_)))).unwrap_or(seq.len());
			for p in seq.drain(..lead) {
				if let Piece::Ev(x) = p {
					out.push(x);
				}
			}
		}
		// the part of the call that applies records: up to the first sync / truncate event
		let b = seq.iter().position(|p| matches!(p, Piece::Ev(_))).unwrap_or(seq.len());
		let post: Vec<Piece> = seq.split_off(b);
		let pre = seq;
		let mut chunks: Vec<Vec<(u32, u64)>> = vec![vec![]];
		let mut unlinks: Vec<(u32, String, bool)> = vec![]; // (id, name, consumed by a replayed record)
		for p in pre {
			match p {
				Piece::Pages(ps) => chunks.last_mut().unwrap().extend(ps),
				Piece::Unlink(id, name) => {
					unlinks.push((id, name, false));
					chunks.push(vec![]);
				},
				Piece::Ev(_) => unreachable!(),
			}
		}
		let npages: usize = chunks.iter().map(|c| c.len()).sum();
		if recs.is_empty() {
			if npages > 0 {
				if what == "open" {
					// init_with_entry of a fresh btree column: outside the record protocol, redone by
					// every open that finds the header missing
					ctr.add("exempt.open_init_pages", npages as u64);
				} else {
					ctr.inc("unexpected.table_write_outside_enact");
					let some: Vec<(u32, u64)> = chunks.iter().flatten().take(4).cloned().collect();
					t.oracle_fail("C12", &format!("{}: {} table page(s) changed outside enact_logs: {:?}", what, npages, some));
				}
			}
			for (id, name, _) in &unlinks {
				ctr.inc("unexpected.unlink_outside_enact");
				t.oracle_fail("C12", &format!("{}: table file {} (id {}) unlinked outside enact_logs / replay", what, name, id));
				// shown to the acceptors as an unlink on behalf of the newest record (which is not being applied)
				if self.next_rec > 1 {
					out.push(Tok::X(self.next_rec - 1, *id));
				}
			}
		} else {
			if npages > 0 {
				ctr.add(&format!("pages.written_per_{}_call", what), npages as u64);
			}
			let fresh: Vec<u64> = recs.iter().filter(|r| !self.applied.contains_key(r)).cloned().collect();
			// which record of the call each unlink belongs to (index into `recs`): a replayed record
			// whose first application made it, else the record whose log bytes end with the
			// DropTable action of that file, else the last record of the call
			let mut holder: Vec<usize> = vec![];
			let mut how: Vec<u8> = vec![]; // 0 = replayed record, 1 = log content, 2 = last record
			{
				let mut claimed: BTreeSet<(usize, u32)> = BTreeSet::new();
				for (uid, name, _) in &unlinks {
					let by_replay = recs.iter().enumerate().position(|(ri, r)| {
						!claimed.contains(&(ri, *uid)) && self.applied.get(r).map_or(false, |l| l.iter().any(|x| matches!(x, Tok::X(_, f) if f == uid)))
					});
					if let Some(ri) = by_replay {
						claimed.insert((ri, *uid));
						holder.push(ri);
						how.push(0);
					} else if let Some(ri) = recs.iter().position(|r| !self.applied.contains_key(r) && self.rec_drops.get(r).map_or(false, |d| d.contains(name))) {
						holder.push(ri);
						how.push(1);
					} else {
						holder.push(recs.len() - 1);
						how.push(2);
					}
				}
			}
			let known_pages: BTreeSet<(u32, u64)> = recs.iter().filter_map(|r| self.applied.get(r)).flatten().filter_map(|x| if let Tok::W(_, f, p) = x { Some((*f, *p)) } else { None }).collect();
			if fresh.is_empty() {
				let strange: Vec<(u32, u64)> = chunks.iter().flatten().filter(|x| !known_pages.contains(x)).cloned().collect();
				if !strange.is_empty() {
					ctr.inc("unexpected.replay_wrote_unknown_page");
					t.oracle_fail("C12", &format!("{}: replay of records {:?} changed page(s) none of them wrote before: {:?}", what, recs, &strange[..std::cmp::min(4, strange.len())]));
				}
			}
			for (ri, r) in recs.iter().enumerate() {
				if let Some(list) = self.applied.get(r).cloned() {
					ctr.inc("replay.record_applied_before");
					for x in list {
						if let Tok::X(_, fid) = x {
							let name = self.obs.lock().unwrap().tr.name_of(fid).unwrap_or_default();
							if let Some(k) = (0..unlinks.len()).find(|k| unlinks[*k].0 == fid && !unlinks[*k].2 && how[*k] == 0 && holder[*k] == ri) {
								unlinks[k].2 = true;
								ctr.inc("replay.unlink_repeated");
								out.push(x);
							} else if !existed.contains(&name) {
								ctr.inc("replay.unlink_virtual");
								out.push(x);
							} else {
								ctr.inc("unexpected.replay_kept_dropped_file");
								t.oracle_fail("C12", &format!("{}: replay of record {} did not unlink {} although the file exists", what, r, name));
							}
						} else {
							out.push(x);
						}
					}
					out.push(Tok::E(*r));
					continue
				}
				ctr.inc(&format!("{}.record_first_application", what));
				let mut mine: Vec<Tok> = vec![];
				for k in 0..chunks.len() {
					// chunk k lies between unlink k-1 and unlink k
					let after_ok = (0..k).all(|m| holder[m] <= ri);
					let before_ok = (k..unlinks.len()).all(|m| holder[m] >= ri);
					if after_ok && before_ok {
						for (f, p) in &chunks[k] {
							mine.push(Tok::W(*r, *f, *p));
						}
					}
					if k < unlinks.len() && how[k] != 0 && holder[k] == ri {
						ctr.inc(if how[k] == 1 { "x.attributed_by_log_content" } else { "x.attributed_to_last_record" });
						mine.push(Tok::X(*r, unlinks[k].0));
					}
				}
				// a DropTable replayed for the first time when the file is gone already
				if what == "open" {
					if let Some(ds) = self.rec_drops.get(r) {
						for name in ds {
							let fid = self.obs.lock().unwrap().tr.ids.get(name).cloned();
							if let Some(fid) = fid {
								let has = mine.iter().any(|x| *x == Tok::X(*r, fid));
								if !has && !existed.contains(name) && !unlinks.iter().any(|u| u.0 == fid) {
									ctr.inc("replay.unlink_virtual_first_application");
									mine.push(Tok::X(*r, fid));
								}
							}
						}
					}
				}
				out.extend(mine.iter().cloned());
				out.push(Tok::E(*r));
				self.applied.insert(*r, mine);
			}
		}
		// sync / truncate events after the stores, in observed order; a store after them is reported
		let mut late = 0usize;
		for p in post {
			match p {
				Piece::Ev(x) => out.push(x),
				Piece::Pages(ps) => {
					late += ps.len();
					if let Some(r) = recs.last() {
						for (f, p) in ps {
							out.push(Tok::W(*r, f, p));
						}
					}
				},
				Piece::Unlink(id, name) => {
					ctr.inc("unexpected.unlink_after_sync");
					t.oracle_fail("C12", &format!("{}: table file {} unlinked after a sync / truncate of the same call", what, name));
					if let Some(r) = recs.last() {
						out.push(Tok::X(*r, id));
					}
				},
			}
		}
		if late > 0 {
			ctr.inc("unexpected.store_after_sync_in_call");
			t.oracle_fail("C12", &format!("{}: {} table page(s) changed after a sync / truncate event of the same call", what, late));
		}
		out
	}

	fn open(cfg: Cfg, tree: bool, dir: PathBuf, stats: bool, t: &mut Trace, ctr: &mut Counters) -> Life {
		let mut o = options_of(&cfg, tree, &dir);
		o.stats = stats;
		interpose::reset();
		let obs = Arc::new(Mutex::new(Obs {
			dirs: format!("{}/", dir.to_string_lossy()),
			tr: Tracker::new(&dir),
			items: vec![],
			scan_on_events: true,
			log_synced_len: Some(Default::default()),
			files_at_call_start: Default::default(),
			events_seen: 0,
			nested: None,
		}));
		install_observer(&obs);
		interpose::enable(true);
		let db = Db::open_or_create(&o).expect("create");
		let mut l = Life {
			cfg,
			tree,
			dir: dir.clone(),
			db: Some(db),
			obs,
			j: vec![],
			next_rec: 1,
			queued: 0,
			pending: vec![],
			unflushed: vec![],
			flushed_files: Default::default(),
			dirty_files: 0,
			n_synced: 0,
			n_processed: 0,
			tx_upto: vec![0],
			ambiguous: 0,
			rec_span: Default::default(),
			rec_drops: Default::default(),
			applied: Default::default(),
			in_file: Default::default(),
		};
		l.after_call("open", &[], t, ctr);
		l
	}

	fn commit_raw(&mut self, tx: Vec<(u8, Operation<Vec<u8>, Vec<u8>>)>, t: &mut Trace, ctr: &mut Counters) -> bool {
		self.arm(false);
		let r = self.db().commit_changes(tx);
		if r.is_ok() {
			self.queued += 1;
		}
		self.after_call("commit", &[], t, ctr);
		r.is_ok()
	}

	fn commit(&mut self, tx: &Tx, vals: &mut Values, t: &mut Trace, ctr: &mut Counters) -> bool {
		self.commit_raw(p1::to_db_tx(tx, vals), t, ctr)
	}

	/// A record was appended by the call that just returned: which log file grew tells its file and
	/// its bytes.
	fn note_append(&mut self, before: &BTreeMap<u32, u64>, is_tx: bool, ctr: &mut Counters) {
		let after = self.log_sizes();
		let grown: Vec<(u32, u64, u64)> = after.iter().filter_map(|(n, l)| {
			let b = before.get(n).cloned().unwrap_or(0);
			if *l > b { Some((*n, b, *l)) } else { None }
		}).collect();
		let r = self.next_rec;
		self.next_rec += 1;
		if grown.len() == 1 {
			let (n, b, e) = grown[0];
			self.j.push(Tok::A(r, Some(n)));
			self.rec_span.insert(r, (n, b, e));
			self.in_file.entry(n).or_default().push(r);
			let drops = drops_at_record_end(&self.dir.join(format!("log{}", n)), e);
			if !drops.is_empty() {
				ctr.inc("records.with_drop_action_at_end");
				self.rec_drops.insert(r, drops);
			}
		} else {
			ctr.inc("unexpected.append_file_unknown");
			self.pending.push((r, self.j.len()));
			self.j.push(Tok::A(r, None));
		}
		ctr.inc("ev.A");
		self.unflushed.push(r);
		self.n_processed += 1;
		let n = *self.tx_upto.last().unwrap();
		self.tx_upto.push(if is_tx { n + 1 } else { n });
	}

	fn process(&mut self, t: &mut Trace, ctr: &mut Counters) {
		let before = self.log_sizes();
		self.arm(false);
		self.db().process_commits().expect("process");
		if self.queued > 0 {
			self.queued -= 1;
			self.note_append(&before, true, ctr);
		}
		self.after_call("process", &[], t, ctr);
	}

	fn flush(&mut self, t: &mut Trace, ctr: &mut Counters) {
		self.arm(false);
		self.db().flush_logs().expect("flush");
		let expect_sync = !self.unflushed.is_empty();
		let before = self.j.len();
		self.after_call("flush", &[], t, ctr);
		let got_sync = self.j[before..].iter().any(|x| matches!(x, Tok::S(_)));
		if expect_sync != got_sync {
			ctr.inc("unexpected.flush_sync_mismatch");
			t.oracle_fail("C12", &format!("flush_logs: {} unflushed record(s) but fdatasync seen = {}", self.unflushed.len(), got_sync));
		}
		if expect_sync {
			let recs = std::mem::take(&mut self.unflushed);
			self.n_synced += recs.len();
			self.flushed_files.push_back(recs);
		}
	}

	/// One `enact_logs` call = one flushed log file.
	fn enact(&mut self, t: &mut Trace, ctr: &mut Counters) {
		if self.dirty_files >= 3 {
			self.clean(t, ctr);
		}
		self.arm(true);
		self.db().enact_logs().expect("enact");
		let recs = self.flushed_files.pop_front().unwrap_or_default();
		if !recs.is_empty() {
			self.dirty_files += 1;
			ctr.add("records.per_enact_call", recs.len() as u64);
			ctr.inc("enact.calls_with_records");
		}
		self.after_call("enact", &recs, t, ctr);
	}

	fn clean(&mut self, t: &mut Trace, ctr: &mut Counters) {
		self.arm(false);
		self.db().clean_logs().expect("clean");
		self.dirty_files = 0;
		self.after_call("clean", &[], t, ctr);
	}

	/// `process_reindex` appends one record (a batch of moved index entries and / or the drop of the
	/// old table) when a growth is in progress and its triggering record is enacted.
	fn reindex(&mut self, t: &mut Trace, ctr: &mut Counters) {
		let before = self.log_sizes();
		self.arm(false);
		self.db().process_reindex().expect("reindex");
		if self.log_sizes().values().sum::<u64>() > before.values().sum::<u64>() {
			self.note_append(&before, false, ctr);
			ctr.inc("reindex.records");
		}
		self.after_call("reindex", &[], t, ctr);
	}

	/// Drain through the stepping API (so that the drop itself stores nothing), then drop.
	fn close(&mut self, t: &mut Trace, ctr: &mut Counters) {
		while self.queued > 0 {
			self.process(t, ctr);
		}
		self.flush(t, ctr);
		while !self.flushed_files.is_empty() {
			self.enact(t, ctr);
		}
		self.clean(t, ctr);
		self.arm(true);
		self.db = None;
		self.after_call("drop", &[], t, ctr);
		interpose::enable(false);
		interpose::set_observer(None);
	}

	/// Shutdown with a stored background error (what a failed worker leaves behind): `kill_logs`
	/// takes its error branch, which reclaims the enacted log files without enacting anything more.
	/// The journal of the drop must still respect D2.
	fn close_with_error(&mut self, t: &mut Trace, ctr: &mut Counters) {
		self.arm(true);
		self.db().verif_store_err(Err(parity_db::Error::Io(std::io::Error::new(std::io::ErrorKind::Other, "injected by the c12 harness"))));
		self.db = None;
		self.after_call("errdrop", &[], t, ctr);
		// (fallback) records whose log file was never learned: a suffix nothing refers to
		let mut idx: Vec<usize> = self.pending.drain(..).map(|(_, i)| i).collect();
		idx.sort();
		for i in idx.into_iter().rev() {
			if matches!(self.j[i], Tok::A(_, None)) {
				self.j.remove(i);
			}
		}
		interpose::enable(false);
		interpose::set_observer(None);
	}

	/// Build one power-loss image of the current instant into `img`; returns the page statistics
	/// and the kept length of every log file.
	fn power_loss_image(&mut self, img: &Path, rng: &mut Rng, mode: u64, ctr: &mut Counters) -> (u64, u64, BTreeMap<String, u64>) {
		let was = interpose::enabled();
		interpose::enable(false);
		let o = self.obs.lock().unwrap();
		let (v, d, cut, kept) = build_image(&self.dir, &o.tr, o.log_synced_len.as_ref(), img, rng, mode);
		drop(o);
		ctr.add("image.log_tail_cut", cut);
		interpose::enable(was);
		(v, d, kept)
	}
}

/// What a recovered database is compared with: the states after every prefix of the committed
/// transactions (plain maps for key-value columns, renderings by content of every tree for the
/// multitree column).
struct Judge<'a> {
	keys: &'a [Vec<Vec<u8>>],
	prefix_states: &'a [Oracle],
	tree_keys: &'a [Vec<u8>],
	tree_states: &'a [Vec<String>],
	vals: &'a Values,
}

struct Snapshot {
	kv: Vec<Vec<Option<Vec<u8>>>>,
	trees: Vec<String>,
}

type NodeVal = (Vec<u8>, Vec<u64>);

fn render_real_node(db: &Db, addr: u64, vals: &Values, out: &mut String, budget: &mut usize) -> Result<(), String> {
	if *budget == 0 {
		out.push('!');
		return Ok(())
	}
	*budget -= 1;
	let n: Option<NodeVal> = db.get_node(0, addr).map_err(|e| format!("get_node({}): {:?}", addr, e))?;
	match n {
		None => out.push('?'),
		Some((d, cs)) => {
			out.push('(');
			out.push_str(&vals.render(&d));
			for c in cs {
				out.push(' ');
				render_real_node(db, c, vals, out, budget)?;
			}
			out.push(')');
		},
	}
	Ok(())
}

/// Canonical rendering of a stored tree by logical content (same format as `Forest::render`).
fn render_real(db: &Db, key: &[u8], vals: &Values) -> Result<String, String> {
	let r: Option<NodeVal> = db.get_root(0, key).map_err(|e| format!("get_root: {:?}", e))?;
	match r {
		None => Ok("none".into()),
		Some((d, cs)) => {
			let mut s = String::from("some (");
			s.push_str(&vals.render(&d));
			let mut budget = 20_000;
			for c in cs {
				s.push(' ');
				render_real_node(db, c, vals, &mut s, &mut budget)?;
			}
			s.push(')');
			Ok(s)
		},
	}
}

fn read_snapshot(db: &Db, j: &Judge) -> Result<Snapshot, String> {
	let mut kv = vec![];
	for (c, ks) in j.keys.iter().enumerate() {
		let mut v = vec![];
		for k in ks {
			match std::panic::catch_unwind(std::panic::AssertUnwindSafe(|| db.get(c as u8, k))) {
				Ok(Ok(x)) => v.push(x),
				Ok(Err(e)) => return Err(format!("get error {:?}", e)),
				Err(_) => return Err("get panicked".into()),
			}
		}
		kv.push(v);
	}
	let mut trees = vec![];
	for k in j.tree_keys {
		match std::panic::catch_unwind(std::panic::AssertUnwindSafe(|| render_real(db, k, j.vals))) {
			Ok(Ok(s)) => trees.push(s),
			Ok(Err(e)) => return Err(format!("tree {} not readable: {}", hex(k), e)),
			Err(_) => return Err("tree read panicked".into()),
		}
	}
	Ok(Snapshot { kv, trees })
}

/// Newest prefix (<= hi) of the committed transactions whose state is what was read.
fn find_prefix(j: &Judge, s: &Snapshot, hi: usize) -> Option<usize> {
	for m in (0..=hi).rev() {
		let o = &j.prefix_states[m];
		let kv_ok = j.keys.iter().enumerate().all(|(c, ks)| ks.iter().enumerate().all(|(i, k)| s.kv[c][i] == o.cols[c].get(k).map(|x| x.0.clone())));
		if !kv_ok {
			continue
		}
		if j.tree_keys.is_empty() || s.trees == j.tree_states[m] {
			return Some(m)
		}
	}
	None
}

/// Judge an opened (recovered) database. Returns the prefix found, if any and allowed.
fn judge_db(db: &Db, j: &Judge, lo: usize, hi: usize, ctx: &str, what: &str, t: &mut Trace, ctr: &mut Counters, prop: &str) -> (bool, Option<usize>) {
	match read_snapshot(db, j) {
		Err(e) => {
			t.oracle_fail(prop, &format!("{}: read failed after recovery ({}) {}", what, e, ctx));
			(false, None)
		},
		Ok(s) => match find_prefix(j, &s, hi) {
			None => {
				let trees = if j.tree_keys.is_empty() { String::new() } else { format!(" trees read: {:?}", s.trees.iter().map(|x| x.chars().take(60).collect::<String>()).collect::<Vec<_>>()) };
				t.oracle_fail(prop, &format!("{}: recovered content is not a prefix (<= {}) of the committed transactions; {}{}", what, hi, ctx, trees));
				(false, None)
			},
			Some(m) if m < lo => {
				t.oracle_fail(prop, &format!("{}: recovered prefix {} lost transactions whose log was synced; {}", what, m, ctx));
				(false, Some(m))
			},
			Some(m) => {
				ctr.inc(if m == hi { "image.recovered_all_appended" } else if m == lo { "image.recovered_exactly_synced" } else { "image.recovered_between" });
				(true, Some(m))
			},
		},
	}
}

fn bounds(life: &Life, j: &Judge) -> (usize, usize) {
	let lo = life.tx_upto[life.n_synced];
	let hi = std::cmp::min(life.tx_upto[life.n_processed], j.prefix_states.len() - 1);
	(lo, hi)
}

/// Plain reopen of an image (interposition off) and comparison with the prefix oracle.
#[allow(clippy::too_many_arguments)]
fn check_image(life: &mut Life, img: &Path, j: &Judge, lo: usize, hi: usize, seed: u64, mode: u64, what: &str, t: &mut Trace, ctr: &mut Counters, prop: &str) -> (bool, Option<usize>) {
	let was = interpose::enabled();
	interpose::enable(false);
	let opts = life.options(img);
	let r = std::panic::catch_unwind(std::panic::AssertUnwindSafe(|| Db::open(&opts)));
	let ctx = format!("seed={} mode={} synced={} appended={}", seed, mode, lo, hi);
	let res = match r {
		Ok(Ok(db)) => {
			let x = judge_db(&db, j, lo, hi, &ctx, what, t, ctr, prop);
			// F7 guard not needed: recovery cleans all logs
			drop(db);
			x
		},
		Ok(Err(e)) => {
			t.oracle_fail(prop, &format!("{}: recovery open failed: {:?}; {}", what, e, ctx));
			(false, None)
		},
		Err(_) => {
			t.oracle_fail(prop, &format!("{}: recovery open panicked; {}", what, ctx));
			(false, None)
		},
	};
	let _ = std::fs::remove_dir_all(img);
	interpose::enable(was);
	res
}

/// Second life time: `Db::open` of a power-loss image with interposition ON. Its journal (replay
/// of the surviving records, flush of every table, reclaim of every log) is checked by the acceptor
/// started from the surviving logs (`<journal of the first life time so far> K.. Z <open>`), a
/// nested power-loss image is taken at a random sync / truncate / unlink inside the open (or right
/// after it), reopened, and must recover to the same prefix as the interrupted recovery.
#[allow(clippy::too_many_arguments)]
fn recovery_life(life: &mut Life, img: &Path, kept: &BTreeMap<String, u64>, j: &Judge, seed: u64, mode: u64, rng: &mut Rng, t: &mut Trace, ctr: &mut Counters, prop: &str) -> bool {
	let (lo, hi) = bounds(life, j);
	let known = !life.j.iter().any(|x| matches!(x, Tok::A(_, None))) && life.in_file.values().flatten().all(|r| life.rec_span.contains_key(r));
	if !known {
		ctr.inc("recovery.not_journalled_log_file_unknown");
		return check_image(life, img, j, lo, hi, seed, mode, "power-loss image", t, ctr, prop).0
	}
	// (1) the records that survive in the image, per log file
	let mut ks: Vec<Tok> = vec![];
	let mut surviving: Vec<u64> = vec![];
	for (f, recs) in &life.in_file {
		let keep_len = kept.get(&format!("log{}", f)).cloned().unwrap_or(0);
		let n = recs.iter().take_while(|r| life.rec_span[*r].2 <= keep_len).count();
		ks.push(Tok::K(*f, n as u64));
		surviving.extend(recs[..n].iter().cloned());
	}
	surviving.sort();
	let mut chain: Vec<u64> = vec![];
	for r in surviving {
		if chain.last().map_or(true, |l| l + 1 == r) {
			chain.push(r);
		} else {
			ctr.inc("recovery.gap_in_surviving_records");
			break
		}
	}
	ctr.inc(&format!("recovery.replayed_records.{}", match chain.len() { 0 => "0", 1 => "1", 2..=3 => "2-3", _ => "4+" }));
	// (2) open with the observer on the image
	let was = interpose::enabled();
	interpose::enable(false);
	let nested_img = img.with_extension("nested");
	let nested_mode = match rng.below(4) { 0 => 0, 1 => 1, _ => 2 };
	let obs2 = {
		let mut tr = Tracker::new(img);
		tr.ids = life.obs.lock().unwrap().tr.ids.clone();
		tr.adopt();
		let existing = tr.cur.keys().cloned().collect();
		Arc::new(Mutex::new(Obs {
			dirs: format!("{}/", img.to_string_lossy()),
			tr,
			items: vec![],
			scan_on_events: true,
			log_synced_len: None,
			files_at_call_start: existing,
			events_seen: 0,
			nested: Some(Nested { at: rng.range(1, 14) as usize, img: nested_img.clone(), seed: rng.next(), mode: nested_mode, done: false, mixed: (0, 0) }),
		}))
	};
	install_observer(&obs2);
	interpose::enable(true);
	let opts = life.options(img);
	let r = std::panic::catch_unwind(std::panic::AssertUnwindSafe(|| Db::open(&opts)));
	interpose::enable(false);
	interpose::set_observer(None);
	interpose::drain();
	let ctx = format!("seed={} mode={} synced={} appended={}", seed, mode, lo, hi);
	let mut ok = true;
	match r {
		Ok(Ok(db)) => {
			// (3) the journal of the second life time
			let (items, existed) = {
				let mut o = obs2.lock().unwrap();
				let d = o.tr.scan();
				if !d.is_empty() {
					o.items.push(Item::Delta(d));
				}
				(std::mem::take(&mut o.items), std::mem::take(&mut o.files_at_call_start))
			};
			let saved_applied = life.applied.clone();
			let saved_obs = std::mem::replace(&mut life.obs, obs2.clone());
			let toks2 = life.tokens_of_call("open", &chain, items, &existed, t, ctr);
			life.obs = saved_obs;
			life.applied = saved_applied;
			if let Some(last) = chain.last() {
				let real = db.verif_last_enacted();
				if real != *last {
					t.oracle_fail(prop, &format!("recovery: replay ended at record {} but records up to {} survive in the image; {}", real, last, ctx));
					ok = false;
				}
			}
			let mut line: Vec<Tok> = life.j.clone();
			line.extend(ks);
			line.push(Tok::Z);
			for x in &toks2 {
				ctr.inc(&format!("recovery.ev.{}", &x.text()[..1]));
			}
			line.extend(toks2);
			match positional_check(&line) {
				Some((v, why)) => {
					t.oracle_fail(prop, &format!("journal of the recovery violates the sync discipline: {} {}; {}", v, why, ctx));
					t.op(&journal_line(&line), &format!("violates:{}", v));
					ok = false;
				},
				None => t.op(&journal_line(&line), "ok"),
			}
			ctr.inc("recovery.journalled");
			// one mutant of the two-life-time journal (preferably one that touches the second life time)
			let z = line.iter().position(|x| *x == Tok::Z).unwrap_or(0);
			let mut ms = mutants(&line, rng);
			ms.sort_by_key(|(m, _)| m.len() >= z && m[..z] == line[..z]);
			ms.reverse();
			for (m, what) in ms.into_iter().take(1) {
				match positional_check(&m) {
					Some((v, _)) => {
						t.op(&journal_line(&m), &format!("violates:{}", v));
						ctr.inc(&format!("mutant2.{}.rejected.{}", what, &v[..2]));
					},
					None => {
						t.op(&journal_line(&m), "ok");
						ctr.inc(&format!("mutant2.{}.still_ok", what));
					},
				}
			}
			// (4) what the recovery produced
			let (ok1, m1) = judge_db(&db, j, lo, hi, &ctx, "power-loss image (journalled recovery)", t, ctr, prop);
			ok &= ok1;
			// (5) the nested power loss: during the open if the observer got there, else right after it
			let (during, mixed) = {
				let o = obs2.lock().unwrap();
				let n = o.nested.as_ref().unwrap();
				(n.done, n.mixed)
			};
			if !during {
				let o = obs2.lock().unwrap();
				let mut r2 = Rng::new(o.nested.as_ref().unwrap().seed);
				build_image(img, &o.tr, None, &nested_img, &mut r2, nested_mode);
				ctr.inc("nested.image_after_recovery");
			} else {
				ctr.inc("nested.image_during_recovery");
				if mixed.0 + mixed.1 > 0 {
					ctr.inc("nested.image_with_unsynced_pages");
				}
				if mixed.0 > 0 && mixed.1 > 0 {
					ctr.inc("nested.image_really_mixed");
				}
			}
			interpose::enable(true);
			drop(db);
			interpose::enable(false);
			interpose::drain();
			let (ok2, m2) = check_image(life, &nested_img, j, lo, hi, seed, nested_mode, "nested power-loss image", t, ctr, prop);
			ok &= ok2;
			if let (Some(a), Some(b)) = (m1, m2) {
				if a != b {
					t.oracle_fail(prop, &format!("nested power loss: the interrupted recovery yields prefix {}, recovery of the image taken {} it yields prefix {}; {}", a, if during { "during" } else { "after" }, b, ctx));
					ok = false;
				} else {
					ctr.inc("nested.same_prefix_as_first_recovery");
				}
			}
		},
		Ok(Err(e)) => {
			t.oracle_fail(prop, &format!("power-loss image: recovery open failed: {:?}; {}", e, ctx));
			ok = false;
		},
		Err(_) => {
			t.oracle_fail(prop, &format!("power-loss image: recovery open panicked; {}", ctx));
			ok = false;
		},
	}
	let _ = std::fs::remove_dir_all(img);
	let _ = std::fs::remove_dir_all(&nested_img);
	install_observer(&life.obs);
	interpose::enable(was);
	ok
}

/// One image of the current instant: plain reopen, or (one in three) the journalled recovery with
/// a nested power loss.
#[allow(clippy::too_many_arguments)]
fn image_and_check(life: &mut Life, img: &Path, j: &Judge, seed: u64, rng: &mut Rng, mode: u64, journalled: bool, t: &mut Trace, ctr: &mut Counters, prop: &str) -> bool {
	let (v, d, kept) = life.power_loss_image(img, rng, mode, ctr);
	ctr.inc("image.built");
	ctr.inc(&format!("image.mode{}", mode));
	ctr.add("image.pages_taken_volatile", v);
	ctr.add("image.pages_taken_durable", d);
	if v > 0 && d > 0 {
		ctr.inc("image.really_mixed");
	}
	if v + d > 0 {
		ctr.inc("image.with_unsynced_pages");
	}
	ctr.inc(&format!("image.stage.queued{}_unflushed{}_flushedfiles{}_dirty{}", (life.queued > 0) as u8, (!life.unflushed.is_empty()) as u8, std::cmp::min(life.flushed_files.len(), 2), std::cmp::min(life.dirty_files, 2)));
	if journalled {
		recovery_life(life, img, &kept, j, seed, mode, rng, t, ctr, prop)
	} else {
		let (lo, hi) = bounds(life, j);
		check_image(life, img, j, lo, hi, seed, mode, "power-loss image", t, ctr, prop).0
	}
}

/// The journal of the (first) life time: positional checker, acceptor, mutants.
fn finish_journal(life: &Life, rng: &mut Rng, t: &mut Trace, ctr: &mut Counters, prop: &str) -> (bool, bool) {
	let mut ok = true;
	let j = life.j.clone();
	if let Some((v, why)) = positional_check(&j) {
		t.oracle_fail(prop, &format!("real journal violates the sync discipline: {} {}", v, why));
		ok = false;
	}
	let line = journal_line(&j);
	let mut names: Vec<(u32, String)> = life.obs.lock().unwrap().tr.ids.iter().map(|(n, i)| (*i, n.clone())).collect();
	names.sort();
	t.comment(&format!("table files: {}", names.iter().map(|(i, n)| format!("{}={}", i, n)).collect::<Vec<_>>().join(" ")));
	t.op(&line, "ok");
	// mutants: a removed / displaced sync, a premature unlink must be rejected, at the same event by
	// both checkers
	for (m, what) in mutants(&j, rng) {
		match positional_check(&m) {
			Some((v, _)) => {
				t.op(&journal_line(&m), &format!("violates:{}", v));
				ctr.inc(&format!("mutant.{}.rejected.{}", what, &v[..2]));
			},
			None => {
				// removing a redundant sync (the file was synced again before it mattered)
				t.op(&journal_line(&m), "ok");
				ctr.inc(&format!("mutant.{}.still_ok", what));
			},
		}
	}
	ctr.add("journal.events", j.len() as u64);
	ctr.inc(&format!("journal.len.{}", match j.len() {
		0..=9 => "0-9",
		10..=49 => "10-49",
		50..=199 => "50-199",
		200..=999 => "200-999",
		_ => "1000+",
	}));
	if j.iter().any(|x| matches!(x, Tok::X(..))) {
		ctr.inc("journal.with_unlink");
	}
	let nontrivial = j.iter().any(|x| matches!(x, Tok::T(_))) && j.iter().any(|x| matches!(x, Tok::W(..)));
	(ok, nontrivial)
}

fn run_case(seed: u64, thorough: bool, root: &Path, t: &mut Trace, ctr: &mut Counters, prop: &str) -> bool {
	let mut rng = Rng::new(seed);
	let cfg = gen_cfg(&mut rng);
	let stats = rng.chance(1, 2);
	// growth mode (one case in four): column 0 is a uniform plain hash column with zero salt whose
	// keys all fall into ONE index chunk, filled in order, so that an index growth (new index file,
	// old table queued for reindex) happens at an arbitrary position of the step interleaving
	let growth = rng.chance(1, 4);
	let cfg = if growth {
		let mut cols = vec![ColCfg { kind: Kind::Plain, uniform: true, btree: false, compression: CompressionType::NoCompression }];
		if rng.chance(1, 3) {
			// (zero salt + uniform is the crate's test-only identity hash, defined for 32-byte keys only)
			let mut c = cfg.cols[0].clone();
			c.uniform = false;
			cols.push(c);
		}
		Cfg { cols, salt: [0u8; 32], threshold: None, sync: true }
	} else {
		cfg
	};
	let mut vals = Values::default();
	t.begin_case(&format!("seed={} cfg={} stats={} growth={}", seed, cfg.describe(), stats, growth));
	let dir = fresh_dir(root, &format!("c12-{}", seed));
	let img = root.join(format!("c12-{}-img", seed));
	let mut life = Life::open(cfg.clone(), false, dir.clone(), stats, t, ctr);
	let mut oracle = Oracle::new(cfg.cols.len());
	let mut prefix_states = vec![oracle.clone()];
	let nkeys = rng.range(3, 12);
	let mut keys: Vec<Vec<Vec<u8>>> =
		cfg.cols.iter().enumerate().map(|(c, cc)| (0..nkeys).map(|i| gen_key(cc.uniform, c as u8, i)).collect()).collect();
	let mut next_fill = 0usize;
	if growth {
		let chunk = [(rng.next() & 0xff) as u8, (rng.next() & 0xff) as u8];
		let n = rng.range(66, 96);
		keys[0] = (0..n)
			.map(|i| {
				let mut k = vec![0u8; 32];
				k[0] = chunk[0];
				k[1] = chunk[1];
				k[2] = (i + 1) as u8;
				let mut r = Rng::new(seed ^ (i * 7919 + 5));
				for b in k[3..].iter_mut() {
					*b = (r.next() & 0xff) as u8;
				}
				k[31] = i as u8;
				k
			})
			.collect();
		ctr.inc("cases.growth_mode");
	}
	let nact = if growth { rng.range(45, if thorough { 130 } else { 90 }) } else { rng.range(10, if thorough { 90 } else { 55 }) } as usize;
	let max_images = if thorough { 24 } else { 12 };
	let mut images = 0;
	let mut ok = true;
	for _ in 0..nact {
		let a = rng.below(100);
		let mut want_image = false;
		if a < 32 {
			let nops = rng.range(1, 5);
			let mut tx: Tx = vec![];
			if growth && next_fill < keys[0].len() && rng.chance(3, 4) {
				// fill the chunk in order
				let n = std::cmp::min(rng.range(5, 16) as usize, keys[0].len() - next_fill);
				for i in 0..n {
					let kid = (next_fill + i) as u64;
					tx.push((0u8, Op::Set(keys[0][kid as usize].clone(), vals.canon(format!("v{}_{}", 20 + (kid % 7), 7000 + kid)))));
				}
				next_fill += n;
			}
			for _ in 0..(if tx.is_empty() { nops } else { 0 }) {
				let c = rng.below(cfg.cols.len() as u64) as u8;
				let kid = rng.below(keys[c as usize].len() as u64);
				let k = keys[c as usize][kid as usize].clone();
				let kind = cfg.cols[c as usize].kind;
				let r = rng.below(100);
				let op = if r < 60 {
					Op::Set(k, vals.canon(gen_value_token(&mut rng, kid + 100 * c as u64, kind != Kind::Plain)))
				} else if r < 88 || kind != Kind::Rc {
					Op::Del(k)
				} else {
					Op::Ref(k)
				};
				tx.push((c, op));
			}
			if life.commit(&tx, &mut vals, t, ctr) {
				oracle.apply(&cfg, &tx, &mut vals);
				prefix_states.push(oracle.clone());
				ctr.inc("op.commit");
			} else {
				t.oracle_fail(prop, "valid commit rejected");
				ok = false;
			}
		} else if a < 50 {
			life.process(t, ctr);
			ctr.inc("op.process");
		} else if a < 62 {
			life.flush(t, ctr);
			ctr.inc("op.flush");
		} else if a < 76 {
			life.enact(t, ctr);
			ctr.inc("op.enact");
		} else if a < 82 {
			life.clean(t, ctr);
			ctr.inc("op.clean");
		} else if a < 84 || (growth && a < 87) {
			life.reindex(t, ctr);
			ctr.inc("op.reindex");
		} else {
			want_image = true;
		}
		// power-loss images: at random instants and (more often) right after an enact call, when
		// pages written since the last msync exist
		let after_enact = a >= 62 && a < 76;
		if (want_image || (after_enact && rng.chance(2, 3))) && images < max_images {
			let reps = if after_enact { 2 } else { 1 };
			for _ in 0..reps {
				images += 1;
				let mode = match rng.below(6) {
					0 => 0,
					1 => 1,
					_ => 2,
				};
				let journalled = rng.chance(1, 4);
				let judge = Judge { keys: &keys, prefix_states: &prefix_states, tree_keys: &[], tree_states: &[], vals: &vals };
				ok &= image_and_check(&mut life, &img, &judge, seed, &mut rng, mode, journalled, t, ctr, prop);
			}
		}
	}
	if growth {
		ctr.inc(if life.obs.lock().unwrap().tr.ids.keys().any(|n| n == "index_00_17") { "cases.growth_happened" } else { "cases.growth_not_reached" });
	}
	if rng.chance(1, 6) {
		ctr.inc("cases.error_shutdown");
		ctr.inc(&format!("errdrop.dirty_files{}_flushedfiles{}", std::cmp::min(life.dirty_files, 3), std::cmp::min(life.flushed_files.len(), 2)));
		life.close_with_error(t, ctr);
		for mode in [0u64, 2] {
			ctr.inc("image.after_error_shutdown");
			let judge = Judge { keys: &keys, prefix_states: &prefix_states, tree_keys: &[], tree_states: &[], vals: &vals };
			ok &= image_and_check(&mut life, &img, &judge, seed, &mut rng, mode, mode == 2, t, ctr, prop);
		}
		interpose::set_observer(None);
		interpose::enable(false);
	} else {
		life.close(t, ctr);
	}
	// (a) the journal of this life time
	let (jok, nontrivial) = finish_journal(&life, &mut rng, t, ctr, prop);
	ok &= jok;
	ctr.add("images.per_history_total", images as u64);
	if nontrivial {
		ctr.inc("cases.nontrivial");
	}
	ctr.inc("cases");
	let _ = std::fs::remove_dir_all(&dir);
	t.end_case(nontrivial);
	ok
}

// ------------------------------------------------------------------------------------------
// Multitree variant

fn tree_data(rng: &mut Rng, vals: &mut Values) -> String {
	let len = match rng.below(12) {
		0 => 0,
		1..=5 => rng.range(1, 24),
		6..=8 => rng.range(24, 200),
		9 => rng.range(200, 3000),
		10 => rng.range(4000, 4200),
		_ => rng.range(3000, 9000),
	};
	vals.canon(format!("v{}_{}", len, rng.below(1 << 30)))
}

fn gen_tree(rng: &mut Rng, vals: &mut Values, live: &[usize], depth_left: usize, budget: &mut i32, shared: &mut usize) -> GNode {
	let data = tree_data(rng, vals);
	let mut children = vec![];
	let fan = if depth_left == 0 || *budget <= 0 { 0 } else { rng.below(4) as usize };
	for _ in 0..fan {
		if !live.is_empty() && rng.chance(3, 10) {
			*shared += 1;
			*budget -= 1;
			children.push(GRef::Existing(*rng.pick(live)));
		} else {
			*budget -= 1;
			children.push(GRef::New(gen_tree(rng, vals, live, depth_left - 1, budget, shared)));
		}
	}
	GNode { data, children }
}

fn to_real_tree(g: &GNode, forest: &Forest, vals: &mut Values) -> NewNode {
	NewNode {
		data: vals.bytes(&g.data),
		children: g
			.children
			.iter()
			.map(|c| match c {
				GRef::New(n) => NodeRef::New(to_real_tree(n, forest, vals)),
				GRef::Existing(id) => NodeRef::Existing(forest.nodes[id].addr.expect("address of live node known")),
			})
			.collect(),
	}
}

/// After an accepted insertion: walk the generated tree and the stored one in parallel and learn
/// the addresses of the new nodes (needed to share them later).
fn learn(db: &Db, g: &GNode, got: &NodeVal, ids: &[usize], forest: &mut Forest) -> Result<(), String> {
	if got.1.len() != g.children.len() {
		return Err(format!("child count differs: supplied {} stored {}", g.children.len(), got.1.len()))
	}
	for (i, c) in g.children.iter().enumerate() {
		let addr = got.1[i];
		match c {
			GRef::Existing(id) =>
				if forest.nodes[id].addr != Some(addr) {
					return Err(format!("existing child {} stored as address {} but {:?} was supplied", i, addr, forest.nodes[id].addr))
				},
			GRef::New(n) => {
				let id = ids[i];
				forest.nodes.get_mut(&id).unwrap().addr = Some(addr);
				let sub: NodeVal = db.get_node(0, addr).map_err(|e| format!("get_node: {:?}", e))?.ok_or_else(|| format!("new node at {} not readable", addr))?;
				let sub_ids = forest.nodes[&id].children.clone();
				learn(db, n, &sub, &sub_ids, forest)?;
			},
		}
	}
	Ok(())
}

/// Multitree column (ref-counted) + a plain column, same step interleaving, images and journal as
/// `run_case`; the oracle is the forest of c10 (trees by content).
fn run_tree_case(seed: u64, thorough: bool, root: &Path, t: &mut Trace, ctr: &mut Counters, prop: &str) -> bool {
	let mut rng = Rng::new(seed ^ 0x7ee5);
	let mut salt = [0u8; 32];
	for i in 0..4 {
		salt[i * 8..i * 8 + 8].copy_from_slice(&rng.next().to_le_bytes());
	}
	let cfg = Cfg {
		cols: vec![
			ColCfg { kind: Kind::Rc, uniform: false, btree: false, compression: CompressionType::NoCompression },
			ColCfg { kind: Kind::Plain, uniform: false, btree: false, compression: CompressionType::NoCompression },
		],
		salt,
		threshold: None,
		sync: true,
	};
	let mut vals = Values::default();
	t.begin_case(&format!("seed={} cfg=multitree-rc,plain", seed));
	ctr.inc("cases.tree_mode");
	let dir = fresh_dir(root, &format!("c12-{}", seed));
	let img = root.join(format!("c12-{}-img", seed));
	let mut life = Life::open(cfg.clone(), true, dir.clone(), false, t, ctr);
	let mut oracle = Oracle::new(2);
	let mut forest = Forest::default();
	let mut prefix_states = vec![oracle.clone()];
	let ntree = rng.range(3, 7);
	let tree_keys: Vec<Vec<u8>> = (0..ntree)
		.map(|i| {
			let len = *rng.pick(&[4u64, 8, 32, 32, 33]) as usize;
			let mut k = vec![];
			while k.len() < len {
				k.extend_from_slice(&rng.next().to_le_bytes());
			}
			k.truncate(len);
			k[0] = i as u8;
			k
		})
		.collect();
	let render_all = |f: &Forest| -> Vec<String> { tree_keys.iter().map(|k| f.render(k)).collect() };
	let mut tree_states: Vec<Vec<String>> = vec![render_all(&forest)];
	let kv_keys: Vec<Vec<u8>> = (0..rng.range(2, 6)).map(|i| gen_key(false, 1, i)).collect();
	let keys: Vec<Vec<Vec<u8>>> = vec![vec![], kv_keys.clone()];
	let nact = rng.range(14, if thorough { 90 } else { 55 }) as usize;
	let max_images = if thorough { 24 } else { 12 };
	let mut images = 0;
	let mut ok = true;
	for _ in 0..nact {
		let a = rng.below(100);
		let mut want_image = false;
		if a < 34 {
			// one transaction: a tree operation, sometimes together with a key-value operation
			let free: Vec<&Vec<u8>> = tree_keys.iter().filter(|k| !forest.roots.contains_key(*k)).collect();
			let live_roots: Vec<Vec<u8>> = forest.roots.keys().cloned().collect();
			let insert = !free.is_empty() && (live_roots.is_empty() || rng.chance(3, 5));
			let mut real: Vec<(u8, Operation<Vec<u8>, Vec<u8>>)> = vec![];
			let mut kvtx: Tx = vec![];
			let mut pending_insert: Option<(Vec<u8>, GNode)> = None;
			let mut pending_deref: Option<Vec<u8>> = None;
			if insert {
				let key = (*rng.pick(&free)).clone();
				let mut live: Vec<usize> = forest.nodes.iter().filter(|(_, n)| n.addr.is_some()).map(|(id, _)| *id).collect();
				live.sort();
				let mut budget = 10;
				let mut shared = 0;
				let depth = rng.range(0, 3) as usize;
				let g = gen_tree(&mut rng, &mut vals, &live, depth, &mut budget, &mut shared);
				if shared > 0 {
					ctr.inc("tree.insert_with_shared_nodes");
				}
				real.push((0u8, Operation::InsertTree(key.clone(), to_real_tree(&g, &forest, &mut vals))));
				pending_insert = Some((key, g));
			} else if !live_roots.is_empty() {
				let key = rng.pick(&live_roots).clone();
				real.push((0u8, Operation::DereferenceTree(key.clone())));
				pending_deref = Some(key);
			}
			if rng.chance(1, 3) || real.is_empty() {
				let kid = rng.below(kv_keys.len() as u64);
				let k = kv_keys[kid as usize].clone();
				let op = if rng.chance(2, 3) { Op::Set(k, vals.canon(gen_value_token(&mut rng, kid, false))) } else { Op::Del(k) };
				kvtx.push((1u8, op));
				real.extend(p1::to_db_tx(&kvtx, &mut vals));
			}
			if life.commit_raw(real, t, ctr) {
				ctr.inc("op.commit");
				oracle.apply(&cfg, &kvtx, &mut vals);
				if let Some((key, g)) = pending_insert {
					forest.insert(&key, &g, true);
					ctr.inc("op.insert_tree");
					let ids = forest.roots[&key].children.clone();
					let got: Result<(), String> = match life.db().get_root(0, &key) {
						Ok(Some(rootval)) => learn(life.db(), &g, &rootval, &ids, &mut forest),
						Ok(None) => Err("root not readable after accepted InsertTree".into()),
						Err(e) => Err(format!("get_root: {:?}", e)),
					};
					if let Err(e) = got {
						t.oracle_fail(prop, &format!("read back after InsertTree {}: {}", hex(&key), e));
						ok = false;
						break
					}
				}
				if let Some(key) = pending_deref {
					let before = forest.nodes.len();
					forest.deref(&key);
					ctr.inc("op.deref_tree");
					if forest.nodes.len() < before {
						ctr.add("tree.nodes_freed", (before - forest.nodes.len()) as u64);
					}
					if !forest.nodes.is_empty() && forest.nodes.len() < before {
						ctr.inc("tree.deref_with_survivors");
					}
				}
				prefix_states.push(oracle.clone());
				tree_states.push(render_all(&forest));
			} else {
				t.oracle_fail(prop, "valid commit rejected");
				ok = false;
			}
		} else if a < 52 {
			life.process(t, ctr);
			ctr.inc("op.process");
		} else if a < 64 {
			life.flush(t, ctr);
			ctr.inc("op.flush");
		} else if a < 78 {
			life.enact(t, ctr);
			ctr.inc("op.enact");
		} else if a < 84 {
			life.clean(t, ctr);
			ctr.inc("op.clean");
		} else {
			want_image = true;
		}
		let after_enact = a >= 64 && a < 78;
		if (want_image || (after_enact && rng.chance(2, 3))) && images < max_images {
			let reps = if after_enact { 2 } else { 1 };
			for _ in 0..reps {
				images += 1;
				let mode = match rng.below(6) {
					0 => 0,
					1 => 1,
					_ => 2,
				};
				let journalled = rng.chance(1, 4);
				ctr.inc("image.tree_mode");
				let judge = Judge { keys: &keys, prefix_states: &prefix_states, tree_keys: &tree_keys, tree_states: &tree_states, vals: &vals };
				ok &= image_and_check(&mut life, &img, &judge, seed, &mut rng, mode, journalled, t, ctr, prop);
			}
		}
	}
	life.close(t, ctr);
	{
		let o = life.obs.lock().unwrap();
		if o.tr.ids.keys().any(|n| n.starts_with("refcount_")) {
			ctr.inc("tree.cases_with_refcount_file");
		}
		let rcid: Vec<u32> = o.tr.ids.iter().filter(|(n, _)| n.starts_with("refcount_")).map(|(_, i)| *i).collect();
		if life.j.iter().any(|x| matches!(x, Tok::W(_, f, _) if rcid.contains(f))) {
			ctr.inc("tree.cases_with_refcount_writes");
		}
	}
	let (jok, nontrivial) = finish_journal(&life, &mut rng, t, ctr, prop);
	ok &= jok;
	ctr.add("images.per_history_total", images as u64);
	if nontrivial {
		ctr.inc("cases.nontrivial");
	}
	ctr.inc("cases");
	let _ = std::fs::remove_dir_all(&dir);
	t.end_case(nontrivial);
	ok
}

/// Exploratory scenario (command `c12x`, not part of the default check): index growth. 64 keys
/// fill one index chunk of a uniform column (zero salt: the key bytes are the hash), the 65th
/// starts a reindex (new `index_00_17`, old `index_00_16` queued); then a key still indexed by the
/// OLD table is removed, the record is enacted and the logs are cleaned. `Column::flush` syncs the
/// current index only, so the journal shows whether the old table's page was synced before the log
/// holding the removal was truncated; images with that page reverted are reopened and compared.
fn run_reindex_case(seed: u64, root: &Path, t: &mut Trace, ctr: &mut Counters, prop: &str) -> bool {
	let mut rng = Rng::new(seed);
	let cfg = Cfg {
		cols: vec![ColCfg { kind: Kind::Plain, uniform: true, btree: false, compression: CompressionType::NoCompression }],
		salt: [0u8; 32],
		threshold: None,
		sync: true,
	};
	let mut vals = Values::default();
	t.begin_case(&format!("seed={} reindex cfg={}", seed, cfg.describe()));
	let dir = fresh_dir(root, &format!("c12x-{}", seed));
	let img = root.join(format!("c12x-{}-img", seed));
	let mut life = Life::open(cfg.clone(), false, dir.clone(), false, t, ctr);
	let mut oracle = Oracle::new(1);
	let mut prefix_states = vec![oracle.clone()];
	let chunk = [(rng.next() & 0xff) as u8, (rng.next() & 0xff) as u8];
	let nkeys = 66u64;
	let keys: Vec<Vec<u8>> = (0..nkeys)
		.map(|i| {
			let mut k = vec![0u8; 32];
			k[0] = chunk[0];
			k[1] = chunk[1];
			k[2] = (i + 1) as u8; // distinct partial keys inside the chunk
			let mut r = Rng::new(seed ^ (i * 7919 + 5));
			for b in k[3..].iter_mut() {
				*b = (r.next() & 0xff) as u8;
			}
			k[31] = i as u8;
			k
		})
		.collect();
	let keyset = vec![keys.clone()];
	let mut ok = true;
	let drain = |life: &mut Life, t: &mut Trace, ctr: &mut Counters, clean: bool| {
		while life.queued > 0 {
			life.process(t, ctr);
		}
		life.flush(t, ctr);
		while !life.flushed_files.is_empty() {
			life.enact(t, ctr);
		}
		if clean {
			life.clean(t, ctr);
		}
	};
	let commit = |life: &mut Life, tx: Tx, oracle: &mut Oracle, ps: &mut Vec<Oracle>, vals: &mut Values, t: &mut Trace, ctr: &mut Counters| {
		if life.commit(&tx, vals, t, ctr) {
			oracle.apply(&cfg, &tx, vals);
			ps.push(oracle.clone());
		}
	};
	// phase 1: fill the chunk
	for c in 0..8 {
		let tx: Tx = (0..8).map(|i| (0u8, Op::Set(keys[c * 8 + i].clone(), vals.canon(format!("v{}_{}", 20 + i, 7000 + c * 8 + i))))).collect();
		commit(&mut life, tx, &mut oracle, &mut prefix_states, &mut vals, t, ctr);
	}
	drain(&mut life, t, ctr, true);
	// phase 2: one more key in the same chunk -> reindex starts
	commit(&mut life, vec![(0u8, Op::Set(keys[64].clone(), vals.canon("v24_7064".to_string())))], &mut oracle, &mut prefix_states, &mut vals, t, ctr);
	drain(&mut life, t, ctr, true);
	let grown = life.obs.lock().unwrap().tr.ids.keys().any(|n| n == "index_00_17");
	ctr.inc(if grown { "reindex.started" } else { "reindex.not_started" });
	// phase 3: remove / replace keys still indexed by the old table
	let victim = rng.below(64) as usize;
	commit(&mut life, vec![(0u8, Op::Del(keys[victim].clone()))], &mut oracle, &mut prefix_states, &mut vals, t, ctr);
	drain(&mut life, t, ctr, false);
	let before_clean = life.j.len();
	life.clean(t, ctr);
	let old_id = life.obs.lock().unwrap().tr.ids.get("index_00_16").cloned();
	let synced_old = old_id.map_or(false, |id| life.j[before_clean..].iter().any(|x| *x == Tok::M(id)));
	let wrote_old = old_id.map_or(false, |id| life.j.iter().any(|x| matches!(x, Tok::W(_, f, _) if *f == id) ) );
	t.comment(&format!("old index id={:?} written={} synced_in_clean={}", old_id, wrote_old, synced_old));
	ctr.inc(if synced_old { "reindex.old_index_synced_before_truncate" } else { "reindex.old_index_NOT_synced_before_truncate" });
	// images: nothing unsynced survives (the old index page reverts), and page-wise mixes
	for (n, mode) in [0u64, 2, 2, 1].into_iter().enumerate() {
		let judge = Judge { keys: &keyset, prefix_states: &prefix_states, tree_keys: &[], tree_states: &[], vals: &vals };
		ok &= image_and_check(&mut life, &img, &judge, seed, &mut rng, mode, n % 2 == 1, t, ctr, prop);
	}
	// a recovered handle keeps working: reindex to completion, reuse the freed slot, check again
	{
		let _ = life.power_loss_image(&img, &mut rng, 0, ctr);
		let was = interpose::enabled();
		interpose::enable(false);
		let opts = life.cfg.options(&img);
		match std::panic::catch_unwind(std::panic::AssertUnwindSafe(|| Db::open(&opts))) {
			Ok(Ok(db)) => {
				let mut o2 = oracle.clone();
				let step = |db: &Db| {
					for _ in 0..4 {
						let _ = db.process_commits();
					}
					let _ = db.flush_logs();
					for _ in 0..3 {
						let _ = db.enact_logs();
						let _ = db.clean_logs();
					}
				};
				for _ in 0..40 {
					let _ = db.process_reindex();
					step(&db);
				}
				// new key of the same size takes the freed value slot
				let tx: Tx = vec![(0u8, Op::Set(keys[65].clone(), vals.canon("v20_7065".to_string())))];
				if db.commit_changes(p1::to_db_tx(&tx, &mut vals)).is_ok() {
					o2.apply(&cfg, &tx, &mut vals);
				}
				step(&db);
				for k in &keys {
					let got = db.get(0, k).ok().flatten();
					let exp = o2.cols[0].get(k).map(|x| x.0.clone());
					if got != exp {
						t.oracle_fail(prop, &format!("reindex scenario: after recovery + completed reindex, key {} reads {:?}, expected {:?}", hex(k), got.map(|v| vals.render(&v)), exp.map(|v| vals.render(&v))));
						ok = false;
					}
				}
				ctr.inc("reindex.continued_after_recovery");
				drop(db);
			},
			_ => {
				t.oracle_fail(prop, "reindex scenario: recovery open failed");
				ok = false;
			},
		}
		let _ = std::fs::remove_dir_all(&img);
		interpose::enable(was);
	}
	life.close(t, ctr);
	let j = life.j.clone();
	let verdict = positional_check(&j);
	let mut names: Vec<(u32, String)> = life.obs.lock().unwrap().tr.ids.iter().map(|(n, i)| (*i, n.clone())).collect();
	names.sort();
	t.comment(&format!("table files: {}", names.iter().map(|(i, n)| format!("{}={}", i, n)).collect::<Vec<_>>().join(" ")));
	match &verdict {
		Some((v, why)) => {
			t.op(&journal_line(&j), &format!("violates:{}", v));
			t.known(prop, "F13", &format!("journal of an index growth violates the discipline: {} {}", v, why));
			ctr.inc("reindex.journal_violates");
		},
		None => {
			t.op(&journal_line(&j), "ok");
			ctr.inc("reindex.journal_ok");
		},
	}
	ctr.inc("cases");
	let _ = std::fs::remove_dir_all(&dir);
	t.end_case(true);
	ok
}

pub fn run_reindex(seeds: &[u64], _thorough: bool, root: &Path, t: &mut Trace, ctr: &mut Counters, prop: &str) -> u64 {
	let mut fails = 0;
	for s in seeds {
		match std::panic::catch_unwind(std::panic::AssertUnwindSafe(|| run_reindex_case(*s, root, t, ctr, prop))) {
			Ok(true) => {},
			Ok(false) => fails += 1,
			Err(_) => {
				interpose::enable(false);
				interpose::set_observer(None);
				fails += 1;
				t.oracle_fail(prop, &format!("harness panicked in reindex case seed={}", s));
				t.end_case(false);
			},
		}
	}
	fails
}

pub fn run(seeds: &[u64], thorough: bool, root: &Path, t: &mut Trace, ctr: &mut Counters, prop: &str) -> u64 {
	let mut fails = 0;
	for s in seeds {
		let r = std::panic::catch_unwind(std::panic::AssertUnwindSafe(|| {
			if *s % 6 == 5 {
				run_tree_case(*s, thorough, root, t, ctr, prop)
			} else {
				run_case(*s, thorough, root, t, ctr, prop)
			}
		}));
		match r {
			Ok(true) => {},
			Ok(false) => {
				fails += 1;
				t.comment(&format!("FAILED-CASE seed={}", s));
			},
			Err(_) => {
				interpose::enable(false);
				interpose::set_observer(None);
				fails += 1;
				t.oracle_fail(prop, &format!("harness panicked in case seed={}", s));
				t.end_case(false);
			},
		}
	}
	fails
}
