/-
C09 without A-tail: the reindex-progress invariant without a key universe (`Prog`: every entry
of the queue front in a chunk already planned has a copy in a newer table), so that an enacted
`DropTable` loses no entry.
-/
import Pdb.Proofs.C09NoStaleRead

namespace Pdb.Index
open Pdb.Gen Pdb.IndexPage

/-- the reindex-progress invariant for the entries whose address is not `a` -/
structure ProgX (a : Option Nat) (s : Col) : Prop where
  prog : ∀ t0 rest, s.older = t0 :: rest → ∀ kp x, kp < 2 ^ 64 → t0.Has kp x → a ≠ some x →
    t0.chunk kp < s.progress → Newer s kp x
  prog0 : s.older = [] → s.progress = 0

abbrev Prog (s : Col) : Prop := ProgX none s

theorem Prog.weaken {s : Col} (h : Prog s) (a : Option Nat) : ProgX a s :=
  ⟨fun t0 rest ho kp x hkp hh _ hc => h.prog t0 rest ho kp x hkp hh (by simp) hc, h.prog0⟩

theorem ProgX.ext {a : Option Nat} {s s' : Col} (h : ProgX a s) (hE : Ext s s') : ProgX a s' := by
  obtain ⟨p, ho, _⟩ := hE.tables
  refine ⟨fun t0 rest ho' kp x hkp hh hax hc => ?_, fun h0 => ?_⟩
  · rw [hE.progress] at hc
    cases hso : s.older with
    | nil => rw [h.prog0 hso] at hc; omega
    | cons u us =>
      have : t0 = u := by
        rw [ho, hso] at ho'
        simp only [List.cons_append] at ho'
        injection ho' with e _
        exact e.symm
      subst this
      exact hE.newer (by rw [hso]; simp) kp x (h.prog t0 us hso kp x hkp hh hax hc)
  · rw [hE.progress]
    apply h.prog0
    rw [ho] at h0
    exact (List.append_eq_nil_iff.1 h0).1

/-- same tables up to the value part -/
theorem ProgX.congr {a : Option Nat} {s s' : Col} (h : ProgX a s) (hc : s'.current = s.current)
    (ho : s'.older = s.older) (hp : s'.progress = s.progress) : ProgX a s' := by
  refine ⟨fun t0 rest ho' kp x hkp hh hax hch => ?_, fun h0 => ?_⟩
  · rw [ho] at ho'
    rw [hp] at hch
    obtain ⟨t, ht, hht⟩ := h.prog t0 rest ho' kp x hkp hh hax hch
    exact ⟨t, by rw [hc, ho]; exact ht, hht⟩
  · rw [hp]; exact h.prog0 (by rw [← ho]; exact h0)

/-- the current table keeps its entries of other addresses, the queue is untouched -/
theorem ProgX.cur {a : Nat} {s s' : Col} (h : ProgX (some a) s) (ho : s'.older = s.older)
    (hp : s'.progress = s.progress)
    (hk : ∀ kp x, s.current.Has kp x → x ≠ a → s'.current.Has kp x) : ProgX (some a) s' := by
  refine ⟨fun t0 rest ho' kp x hkp hh hax hch => ?_, fun h0 => ?_⟩
  · rw [ho] at ho'
    rw [hp] at hch
    obtain ⟨t, ht, hht⟩ := h.prog t0 rest ho' kp x hkp hh hax hch
    rcases List.mem_cons.1 ht with e | e
    · refine ⟨s'.current, by simp, hk kp x (e ▸ hht) (fun e2 => hax (by rw [e2]))⟩
    · exact ⟨t, by rw [ho]; exact List.mem_cons_of_mem _ e, hht⟩
  · rw [hp]; exact h.prog0 (by rw [← ho]; exact h0)

/-! ## pointwise related queues -/

theorem tail_corr {R : Table → Table → Prop} (l l' : List Table)
    (h : ∀ (n : Nat) (t : Table), l[n]? = some t → ∃ t', l'[n]? = some t' ∧ R t t') :
    ∀ t ∈ l.tail, ∃ t' ∈ l'.tail, R t t' := by
  intro t ht
  obtain ⟨n, hn, hget⟩ := List.mem_iff_getElem.1 ht
  have h1 : l[n + 1]? = some t := by
    rw [← List.getElem?_tail, List.getElem?_eq_getElem hn, hget]
  obtain ⟨t', ht', hr⟩ := h (n + 1) t h1
  refine ⟨t', ?_, hr⟩
  apply List.mem_of_getElem? (i := n)
  rw [List.getElem?_tail]; exact ht'

theorem head_corr {R : Table → Table → Prop} (l l' : List Table)
    (h : ∀ (n : Nat) (t : Table), l[n]? = some t → ∃ t', l'[n]? = some t' ∧ R t t')
    (hlen : l'.length = l.length) (t0' : Table) (rest' : List Table) (e : l' = t0' :: rest') :
    ∃ t0 rest, l = t0 :: rest ∧ R t0 t0' := by
  cases l with
  | nil => rw [e] at hlen; simp at hlen
  | cons t0 rest =>
    obtain ⟨t', ht', hr⟩ := h 0 t0 (by simp)
    rw [e] at ht'
    simp only [List.getElem?_cons_zero, Option.some.injEq] at ht'
    subst ht'
    exact ⟨t0, rest, rfl, hr⟩

/-- The queue `l'` is, position by position, the queue `l` without some entries of address `a`
(`Sub a`); the current table likewise.  Then the progress invariant survives for the entries of
other addresses, and for all entries when the new front holds no entry of address `a`. -/
theorem ProgX.sub {a : Nat} {s s' : Col} (h : ProgX (some a) s)
    (hcur : Sub a s.current s'.current) (hp : s'.progress = s.progress)
    (hq : ∀ (n : Nat) (t : Table), s.older[n]? = some t → ∃ t', s'.older[n]? = some t' ∧ Sub a t t')
    (hlen : s'.older.length = s.older.length)
    (hnoa : ∀ t0' rest', s'.older = t0' :: rest' → ∀ kp, kp < 2 ^ 64 → ¬ t0'.Has kp a) : Prog s' := by
  refine ⟨fun t0' rest' ho' kp x hkp hh _ hch => ?_, fun h0 => ?_⟩
  · obtain ⟨t0, rest, ho, hs0⟩ := head_corr (R := Sub a) s.older s'.older hq hlen t0' rest' ho'
    have hxa : x ≠ a := fun e => hnoa t0' rest' ho' kp hkp (e ▸ hh)
    rw [hp] at hch
    have hch' : t0.chunk kp < s.progress := by
      have : t0'.chunk kp = t0.chunk kp := by simp [Table.chunk, hs0.bits]
      rw [← this]; exact hch
    obtain ⟨t, ht, hht⟩ := h.prog t0 rest ho kp x hkp (hs0.sub kp x hh)
      (fun e => hxa (by injection e with e; exact e.symm)) hch'
    rcases List.mem_cons.1 ht with e | e
    · exact ⟨s'.current, by simp, hcur.keep kp x (e ▸ hht) hxa⟩
    · obtain ⟨t', ht', hs⟩ := tail_corr (R := Sub a) s.older s'.older hq t e
      exact ⟨t', List.mem_cons_of_mem _ ht', hs.keep kp x hht hxa⟩
  · rw [hp]
    apply h.prog0
    cases hso : s.older with
    | nil => rfl
    | cons u us => rw [hso, h0] at hlen; simp at hlen

/-! ## the steps -/

theorem noa_of_dead {s : Col} (hN : NoStale s) (a : Nat) (hd : s.tailAt a = none) :
    ∀ t ∈ s.tables, ∀ kp, kp < 2 ^ 64 → ¬ t.Has kp a := by
  intro t ht kp hkp hh
  obtain ⟨tl, htl, _⟩ := hN.live t ht kp a hkp hh
  rw [hd] at htl; cases htl

/-- the queue after `remove_from_queued_indexes`, position by position -/
theorem purgeOlder_older_get {s : Col} (hpu : s.cfg.purge = true)
    (hwf : ∀ t ∈ s.older, TableWF t) (kp a : Nat) (n : Nat) (t : Table) (h : s.older[n]? = some t) :
    ∃ t', (purgeOlder s kp a).older[n]? = some t' ∧ Sub a t t' := by
  rw [purgeOlder_on s kp a hpu]
  refine ⟨purgeTable s.cfg.exact kp a SCAN_FUEL t 0, ?_,
    purgeTable_sub _ kp a t (hwf t (List.mem_of_getElem? h)) _ _⟩
  simp only [List.getElem?_map, h, Option.map_some]

theorem writeNew_prog {s s' : Col} (hS : Shape s) (hP : Prog s) (k : Key) (tier ext : Nat) (v : Val)
    (h : writeNew s k tier ext v = .ok s') (hB : Bounded s') : Prog s' := by
  unfold writeNew at h
  simp only at h
  have e2 : ((s.alloc tier).2.setVal (Address.new (s.alloc tier).1 tier) (some ⟨k.tail, v⟩)
        ((s.alloc tier).2.nLive + 1)).resize tier (s.alloc tier).1 ext =
      s.withVals (s.values.set DEPTH (Address.new (s.alloc tier).1 tier) (some ⟨k.tail, v⟩))
        ((s.alloc tier).2.resize tier (s.alloc tier).1 ext).tiers (s.nLive + 1) := by
    rw [Col.alloc_snd s tier]; rfl
  rw [e2, insertLoop_withVals] at h
  obtain ⟨si, hi, hs'⟩ := Res.map_ok h
  subst hs'
  obtain ⟨hE, _, _⟩ := insertLoop_ok _ _ _ s si hS hi hB.bits
  exact (ProgX.ext hP hE).congr rfl rfl rfl

theorem write_remove_prog {s s' : Col} (hS : Shape s) (hP : Prog s) (hpu : s.cfg.purge = true)
    (hex : s.cfg.exact = true) (k : Key) (j i a : Nat) (tj : Table) (hF : Found s k j i a tj)
    (hN' : NoStale s') (h : writeExisting s k none j i a = .ok s') : Prog s' := by
  rw [writeExisting_none] at h
  obtain ⟨s0, h0, hs'⟩ := Res.map_ok h
  subst hs'
  have htabs : (freed s a (s.nLive - 1)).tables = s.tables := rfl
  have htj : (freed s a (s.nLive - 1)).tableAt j = tj := by
    simp only [Col.tableAt, htabs, List.getD_eq_getElem?_getD, hF.tab, Option.getD_some]
  unfold writeExisting0 at h0
  simp only at h0
  change (match ((freed s a (s.nLive - 1)).tableAt j).remove k.pre i with
    | some t => Res.ok ((freed s a (s.nLive - 1)).setTableAt j t)
    | none => Res.ok (freed s a (s.nLive - 1))) = Res.ok s0 at h0
  rw [htj] at h0
  have hmi : BaseMatch tj.bits k.pre (tj.page (tj.chunk k.pre)) i := hF.exact (Or.inl hex)
  have hrem : ∃ t, tj.remove k.pre i = some t := by
    unfold Table.remove
    have : entryAt (tj.page (tj.chunk k.pre)) i ≠ 0 ∧
        Entry.partial_key (entryAt (tj.page (tj.chunk k.pre)) i) tj.bits = Entry.extract_key k.pre tj.bits :=
      ⟨hmi.2, hmi.1⟩
    rw [if_pos this]
    exact ⟨_, rfl⟩
  obtain ⟨t, hr⟩ := hrem
  rw [hr] at h0
  simp only at h0
  injection h0 with h0
  subst h0
  have hsub : Sub a tj t := Sub.remove hF.wf k.pre i hr hF.addr
  have hwfo : ∀ u ∈ s.older, TableWF u := fun u hu => hS.wf u (by simp [Col.tables]; exact Or.inr hu)
  have hwfc : TableWF s.current := hS.wf _ (by simp [Col.tables])
  have hcfg : ((freed s a (s.nLive - 1)).setTableAt j t).cfg = s.cfg := by cases j <;> rfl
  have hdead : (purgeOlder ((freed s a (s.nLive - 1)).setTableAt j t) k.pre a).tailAt a = none := by
    rw [purgeOlder_tailAt]
    have : ((freed s a (s.nLive - 1)).setTableAt j t).tailAt a = (freed s a (s.nLive - 1)).tailAt a := by
      cases j <;> rfl
    rw [this, freed_tailAt]; simp
  have hnoa := noa_of_dead hN' a hdead
  refine (hP.weaken (some a)).sub (s' := purgeOlder ((freed s a (s.nLive - 1)).setTableAt j t) k.pre a)
    ?_ ?_ ?_ ?_ (fun t0' rest' ho' kp hkp => hnoa t0' (by simp [Col.tables, ho']) kp hkp)
  · rw [purgeOlder_current]
    cases j with
    | zero =>
      have hcur : tj = s.current := by
        have := hF.tab
        simp only [Col.tables, List.getElem?_cons_zero, Option.some.injEq] at this
        exact this.symm
      rw [← hcur]; exact hsub
    | succ j' => exact Sub.refl a _ hwfc
  · rw [purgeOlder_progress]; cases j <;> rfl
  · intro n u hu
    cases j with
    | zero =>
      exact purgeOlder_older_get (s := (freed s a (s.nLive - 1)).setTableAt 0 t)
        (by rw [hcfg]; exact hpu) hwfo k.pre a n u hu
    | succ j' =>
      have hold : s.older[j']? = some tj := by
        have h1 := hF.tab
        simp only [Col.tables, List.getElem?_cons_succ] at h1
        exact h1
      have hwf1 : ∀ w ∈ ((freed s a (s.nLive - 1)).setTableAt (j' + 1) t).older, TableWF w := by
        intro w hw
        rcases List.mem_or_eq_of_mem_set hw with e | e
        · exact hwfo w e
        · rw [e]; exact hsub.wf
      by_cases hjn : j' = n
      · subst hjn
        rw [hold] at hu
        injection hu with hu
        subst hu
        have hlt : j' < s.older.length := by
          rcases Nat.lt_or_ge j' s.older.length with h | h
          · exact h
          · rw [List.getElem?_eq_none h] at hold; cases hold
        obtain ⟨t', ht', hs'⟩ := purgeOlder_older_get (s := (freed s a (s.nLive - 1)).setTableAt (j' + 1) t)
          (by rw [hcfg]; exact hpu) hwf1 k.pre a j' t
          (by show (s.older.set j' t)[j']? = some t; rw [List.getElem?_set_self hlt])
        exact ⟨t', ht', hsub.trans hs'⟩
      · exact purgeOlder_older_get (s := (freed s a (s.nLive - 1)).setTableAt (j' + 1) t)
          (by rw [hcfg]; exact hpu) hwf1 k.pre a n u
          (by show (s.older.set j' t)[n]? = some u; rw [List.getElem?_set_ne hjn]; exact hu)
  · rw [purgeOlder_older_length]
    cases j with
    | zero => rfl
    | succ j' => show (s.older.set j' t).length = s.older.length; simp

theorem write_move_prog {s s' : Col} (hS : Shape s) (hSl : SlotInv s) (hN : NoStale s) (hP : Prog s)
    (hex : s.cfg.exact = true) (hgrow : s.cfg.growOnMove = true) (hpu : s.cfg.purge = true)
    (k : Key) (hk : KeyWF k) (j i a : Nat) (tj : Table) (hF : Found s k j i a tj)
    (hs : searchAll s k = some (j, i, a)) (tier' ext : Nat) (v : Val) (htier' : tier' < 256)
    (hne : Address.size_tier a ≠ tier') (hN' : NoStale s')
    (h : writeExisting s k (some (tier', ext, v)) j i a = .ok s') (hB : Bounded s') : Prog s' := by
  rw [writeExisting_move _ _ _ _ _ _ _ _ hne] at h
  obtain ⟨s0, h0, hs'⟩ := Res.map_ok h
  subst hs'
  have hB0 : Bounded s0 := hB.of_purgeOlder
  have hmv : moveValue s k a tier' ext v =
      (Address.new ((freed s a s.nLive).alloc tier').1 tier',
       (freed s a s.nLive).withVals
         ((freed s a s.nLive).values.set DEPTH (Address.new ((freed s a s.nLive).alloc tier').1 tier')
           (some ⟨k.tail, v⟩))
         (((freed s a s.nLive).alloc tier').2.resize tier' ((freed s a s.nLive).alloc tier').1 ext).tiers
         (freed s a s.nLive).nLive) := by
    unfold moveValue
    simp only
    have : (s.release (Address.size_tier a) (Address.offset a)).setVal a none s.nLive =
        freed s a s.nLive := rfl
    rw [this, Col.alloc_snd (freed s a s.nLive) tier']
    rfl
  unfold writeExisting0 at h0
  simp only [hne, if_false, hgrow, if_true] at h0
  rw [hmv] at h0
  simp only at h0
  have hSlD : SlotInv (freed s a s.nLive) :=
    hSl.free_val a k.tail hF.live (freed_tier s a _) (freed_tailAt s a _)
  have hSD : Shape (freed s a s.nLive) := ⟨hS.wf, hS.order⟩
  have hPD : ProgX (some a) (freed s a s.nLive) := (hP.weaken (some a)).congr rfl rfl rfl
  have htabD : (freed s a s.nLive).tables = s.tables := rfl
  have hcurD : (freed s a s.nLive).current = s.current := rfl
  have hcfgD : (freed s a s.nLive).cfg = s.cfg := rfl
  have htlD : ∀ x, (freed s a s.nLive).tailAt x = if x = a then none else s.tailAt x :=
    freed_tailAt s a s.nLive
  generalize freed s a s.nLive = sD at h0 hSlD hSD hPD htabD hcurD hcfgD htlD
  have htiers : s0.tiers = ((sD.alloc tier').2.resize tier' (sD.alloc tier').1 ext).tiers :=
    insertCont_tiers (s := (sD.withVals (sD.values.set DEPTH (Address.new (sD.alloc tier').1 tier') (some ⟨k.tail, v⟩)) ((sD.alloc tier').2.resize tier' (sD.alloc tier').1 ext).tiers sD.nLive)) _ _ _ _ _ h0
  have hbnd2 : (((sD.alloc tier').2.resize tier' (sD.alloc tier').1 ext).tier tier').filled ≤ 2 ^ 56 := by
    have h1 := hB0.filled tier' htier'
    simp only [Col.tier] at h1 ⊢
    rw [htiers] at h1
    exact h1
  have hbnd : ((sD.alloc tier').2.tier tier').filled ≤ 2 ^ 56 :=
    Nat.le_trans (alloc_filled_le_resize sD tier' _ ext) hbnd2
  have hfreshD := hSlD.alloc_fresh tier' htier' hbnd
  have haa : a ≠ Address.new (sD.alloc tier').1 tier' := by
    intro e
    apply hne
    rw [e]
    exact address_tier_new _ _ hfreshD.2.2 htier'
  have hdead' : s.tailAt (Address.new (sD.alloc tier').1 tier') = none := by
    have := hfreshD.1
    rw [htlD, if_neg (fun e => haa e.symm)] at this
    exact this
  have hnoHas : ∀ t ∈ s.tables, ∀ kp', kp' < 2 ^ 64 → ¬ t.Has kp' (Address.new (sD.alloc tier').1 tier') := by
    intro t ht kp' hkp' hh
    obtain ⟨tl, htl, _⟩ := hN.live t ht kp' _ hkp' hh
    rw [hdead'] at htl; cases htl
  have hcurmem : s.current ∈ s.tables := by simp [Col.tables]
  obtain ⟨sI, hs0, hSI, hcfgI, _, _, _, _, _, _, hstep⟩ := move_index_ns hSD
    (by rw [htabD]; exact hN.uniq) k.pre a _ hk.pre_lt haa (if j = 0 then some i else none)
    (by rw [hcurD]; exact hnoHas _ hcurmem _ hk.pre_lt)
    (fun i' hi' => by
      by_cases hj : j = 0
      · simp only [hj, if_true] at hi'
        injection hi' with hi'
        rw [← hi']; exact hF.pos
      · simp [hj] at hi')
    (fun i' hi' => by
      by_cases hj : j = 0
      · simp only [hj, if_true] at hi'
        injection hi' with hi'
        have hcur : tj = s.current := by
          have := hF.tab
          rw [hj] at this
          simp only [Col.tables, List.getElem?_cons_zero, Option.some.injEq] at this
          exact this.symm
        rw [hcurD, ← hcur, ← hi']; exact hF.addr
      · simp [hj] at hi')
    (fun x hx hsx hm had => by
      rw [hcurD] at hm had
      by_cases hj : j = 0
      · have hcur : tj = s.current := by
          have := hF.tab
          rw [hj] at this
          simp only [Col.tables, List.getElem?_cons_zero, Option.some.injEq] at this
          exact this.symm
        simp only [hj, if_true] at hsx
        rw [← hcur] at hm had
        exact hF.other hex (hN.uniq tj hF.mem) x hx (fun e => hsx (by rw [e])) hm had
      · obtain ⟨j', hj'⟩ : ∃ j', j = j' + 1 := ⟨j - 1, by omega⟩
        subst hj'
        exact searchAll_succ_current hS k j' i a hs hF.live ⟨x, hx, hm, had⟩)
    _ _ _ _ h0 hB0.bits
  subst hs0
  have hPI : ProgX (some a) sI := by
    rcases hstep with hE | ⟨ho, hp, hkeep⟩
    · exact hPD.ext hE
    · exact hPD.cur ho hp hkeep
  generalize Address.new (sD.alloc tier').1 tier' = an at *
  have hP0 : ProgX (some a) (sI.withVals (sD.values.set DEPTH an (some ⟨k.tail, v⟩))
      ((sD.alloc tier').2.resize tier' (sD.alloc tier').1 ext).tiers sD.nLive) := hPI.congr rfl rfl rfl
  have hcfg0 : (sI.withVals (sD.values.set DEPTH an (some ⟨k.tail, v⟩))
      ((sD.alloc tier').2.resize tier' (sD.alloc tier').1 ext).tiers sD.nLive).cfg = s.cfg := by
    have : (sI.withVals (sD.values.set DEPTH an (some ⟨k.tail, v⟩))
      ((sD.alloc tier').2.resize tier' (sD.alloc tier').1 ext).tiers sD.nLive).cfg = sI.cfg := rfl
    rw [this, hcfgI, hcfgD]
  have hdeadF : (purgeOlder (sI.withVals (sD.values.set DEPTH an (some ⟨k.tail, v⟩))
      ((sD.alloc tier').2.resize tier' (sD.alloc tier').1 ext).tiers sD.nLive) k.pre a).tailAt a = none := by
    rw [purgeOlder_tailAt, tailAt_vals_some sD sI, if_neg haa, htlD]; simp
  have hnoa := noa_of_dead hN' a hdeadF
  have hwfI : ∀ u ∈ sI.older, TableWF u := fun u hu => hSI.wf u (by simp [Col.tables]; exact Or.inr hu)
  refine hP0.sub (s' := purgeOlder (sI.withVals (sD.values.set DEPTH an (some ⟨k.tail, v⟩))
      ((sD.alloc tier').2.resize tier' (sD.alloc tier').1 ext).tiers sD.nLive) k.pre a)
    ?_ (purgeOlder_progress _ _ _) ?_ (purgeOlder_older_length _ _ _)
    (fun t0' rest' ho' kp hkp => hnoa t0' (by simp [Col.tables, ho']) kp hkp)
  · rw [purgeOlder_current]
    exact Sub.refl a _ (hSI.wf _ (List.mem_cons_self : sI.current ∈ sI.current :: sI.older))
  · intro n u hu
    exact purgeOlder_older_get (s := sI.withVals (sD.values.set DEPTH an (some ⟨k.tail, v⟩))
      ((sD.alloc tier').2.resize tier' (sD.alloc tier').1 ext).tiers sD.nLive)
      (by show sI.cfg.purge = true; rw [hcfgI, hcfgD]; exact hpu) hwfI k.pre a n u hu

/-! ## reindex, drop, reopen, re-launched growth -/

theorem enactDrop_prog {s : Col} (hP : Prog s) : Prog (enactDrop s) := by
  unfold enactDrop
  by_cases hd : dropPending s = true
  · simp only [hd, if_true]
    exact ⟨fun _ _ _ _ _ _ _ _ hc => by simp at hc, fun _ => rfl⟩
  · simp only [hd]
    exact hP

/-- An enacted `DropTable` loses no entry: the queue front has been copied completely. -/
theorem enactDrop_abs {s : Col} {m : Key → Option Val} (hS : Shape s) (hA : AbsN s m) (hP : Prog s) :
    AbsN (enactDrop s) m := by
  unfold enactDrop
  by_cases hd : dropPending s = true
  · simp only [hd, if_true]
    obtain ⟨t0, rest, hol, hp⟩ := (dropPending_iff s).1 hd
    refine hA.frame (fun _ => rfl) (fun kp x hkp => ⟨?_, ?_⟩)
    · rintro ⟨t, ht, hh⟩
      refine ⟨t, ?_, hh⟩
      simp only [Col.tables] at ht ⊢
      rcases List.mem_cons.1 ht with e | e
      · rw [e]; simp
      · exact List.mem_cons_of_mem _ (List.mem_of_mem_tail e)
    · rintro ⟨t, ht, hh⟩
      simp only [Col.tables, hol] at ht
      rcases List.mem_cons.1 ht with e | e
      · exact ⟨t, by rw [e]; simp [Col.tables], hh⟩
      · rcases List.mem_cons.1 e with e1 | e1
        · subst e1
          have hwf := hS.wf t (by simp [Col.tables, hol])
          have hlt : t.chunk kp < s.progress := by
            rw [hp]
            rcases chunk_index_lt t.bits kp (by have := hwf.lo; omega) (by have := hwf.hi; omega) hkp with h1 | h1
            · exact h1
            · have := hwf.hi; omega
          obtain ⟨t', ht', hh'⟩ := hP.prog t rest hol kp x hkp hh (by simp) hlt
          exact ⟨t', ht', hh'⟩
        · exact ⟨t, by simp [Col.tables, hol]; exact Or.inr e1, hh⟩
  · simp only [hd]
    exact hA

theorem reopen_prog {s : Col} (hS : Shape s) : Prog (reopen s) := by
  rcases reopen_cases_shape hS with ⟨_, e⟩ | ⟨init, last, _, e⟩ <;> rw [e] <;>
    exact ⟨fun _ _ _ _ _ _ _ _ hc => by simp at hc, fun _ => rfl⟩

theorem triggerReindex_prog {s : Col} (hP : Prog s) : Prog (triggerReindex s) :=
  ProgX.ext hP (Ext.trigger s)

/-- A reindex batch: the new progress covers the chunks just planned. -/
theorem reindexBatch_prog {s s' : Col} (hS : Shape s) (hSl : SlotInv s) (hN : NoStale s) (hP : Prog s)
    (hex : s.cfg.exact = true) (h : reindexBatch s = .ok s') (hB : Bounded s') : Prog s' := by
  unfold reindexBatch at h
  cases hol : s.older with
  | nil =>
    rw [hol] at h
    simp only at h
    injection h with h; subst h
    exact hP
  | cons t0 rest =>
    rw [hol] at h
    simp only at h
    by_cases hp : s.progress = total_chunks t0.bits
    · simp only [hp, if_true] at h
      injection h with h; subst h
      exact hP
    · simp only [hp, if_false] at h
      generalize hplan : collectPlan t0 (total_chunks t0.bits - s.progress) s.progress [] 0 = r at h
      rw [← hol] at h
      have hspec := collectPlan_spec t0 (total_chunks t0.bits - s.progress) s.progress [] 0
      rw [hplan] at hspec
      obtain ⟨hle, _, hmem⟩ := hspec
      have hSp : Shape ({ s with progress := r.2 } : Col) := ⟨hS.wf, hS.order⟩
      have hne : ({ s with progress := r.2 } : Col).older ≠ [] := by
        show s.older ≠ []
        rw [hol]; simp
      have hx : ExactCur ({ s with progress := r.2 } : Col) := Or.inl hex
      obtain ⟨hE, hS', hNw⟩ := applyPlan_ok r.1.reverse _ s' hSp hx hne h hB.bits
      obtain ⟨pushed, hol', _⟩ := hE.tables
      have hol'' : s'.older = t0 :: (rest ++ pushed) := by
        rw [hol']; show s.older ++ pushed = _; rw [hol]; rfl
      have hwf0 : TableWF t0 := hS.wf t0 (by simp [Col.tables, hol])
      refine ⟨fun t0' rest' hol3 kp x hkp hh _ hch => ?_, fun h0 => ?_⟩
      · rw [hol''] at hol3
        injection hol3 with e1 e2
        subst e1
        have hprog' : s'.progress = r.2 := hE.progress
        rw [hprog'] at hch
        by_cases hold : t0.chunk kp < s.progress
        · obtain ⟨t, ht, hht⟩ := hP.prog t0 rest hol kp x hkp hh (by simp) hold
          apply hE.newer hne
          exact ⟨t, ht, hht⟩
        · obtain ⟨i, hi, hm, haddr⟩ := hh
          have hlen := (hwf0.pages (t0.chunk kp)).1
          have hin := collectChunk_mem t0.bits (t0.chunk kp) (t0.page (t0.chunk kp)) i
            (by omega) hm.2
          rw [haddr] at hin
          have hplanmem := hmem (t0.chunk kp) (by omega) hch _ hin
          have ha0 : x ≠ 0 := by
            obtain ⟨tl, htl, _⟩ := hN.live t0 (by simp [Col.tables, hol]) kp x hkp ⟨i, hi, hm, haddr⟩
            exact (hSl.decode x tl htl).2.2.2.2
          obtain ⟨t, ht, hht⟩ := hNw _ x (List.mem_reverse.2 hplanmem) ha0
          have htb : t0.bits ≤ t.bits ∧ t.bits ≤ 49 := by
            have hwft : TableWF t := by
              apply hS'.wf t
              simp only [Col.tables]
              rcases List.mem_cons.1 ht with h1 | h1
              · rw [h1]; simp
              · exact List.mem_cons_of_mem _ (List.mem_of_mem_tail h1)
            refine ⟨?_, hwft.hi⟩
            have hord := hS'.order
            rw [hol''] at hord
            simp only [List.cons_append, List.map_cons] at hord
            have hall := (List.pairwise_cons.1 hord).1
            have : t.bits ∈ List.map (fun x => x.bits) (rest ++ pushed ++ [s'.current]) := by
              apply List.mem_map.2
              refine ⟨t, ?_, rfl⟩
              rcases List.mem_cons.1 ht with h1 | h1
              · rw [h1]; simp
              · rw [hol''] at h1
                simp only [List.tail_cons] at h1
                exact List.mem_append_left _ h1
            exact Nat.le_of_lt (hall _ this)
          have hrs := recover_spec t0.bits kp ((t0.page (t0.chunk kp)).getD i 0) hwf0.lo
            hwf0.hi hkp hm.1 t.bits htb.1 htb.2
          exact ⟨t, ht, Table.has_congr t _ kp x hrs.1 hrs.2 hht⟩
      · rw [hol''] at h0
        exact absurd h0 (by simp)

/-! ## `write`, histories -/

theorem write_prog {s s' : Col} (hS : Shape s) (hSl : SlotInv s) (hN : NoStale s) (hP : Prog s)
    (hex : s.cfg.exact = true) (hgrow : s.cfg.growOnMove = true) (hpu : s.cfg.purge = true)
    (k : Key) (hk : KeyWF k) (op : Option (Nat × Nat × Val))
    (hop : ∀ t e v, op = some (t, e, v) → t < 256)
    (h : write s k op = .ok s') (hB : Bounded s') : Prog s' := by
  have hN' := (write_ns hS hSl hN hex hgrow hpu k hk op hop h hB).2.2
  unfold write at h
  cases hs : searchAll s k with
  | none =>
    rw [hs] at h
    simp only at h
    cases op with
    | none =>
      simp only at h
      injection h with h
      subst h
      exact hP
    | some tv =>
      obtain ⟨tier, ext, v⟩ := tv
      simp only at h
      exact writeNew_prog hS hP k tier ext v h hB
  | some r =>
    obtain ⟨j, i, a⟩ := r
    rw [hs] at h
    simp only at h
    obtain ⟨tj, hF⟩ := found_of_search_shape hS k j i a hs
    cases op with
    | none => exact write_remove_prog hS hP hpu hex k j i a tj hF hN' h
    | some tv =>
      obtain ⟨tier', ext, v⟩ := tv
      by_cases hti : Address.size_tier a = tier'
      · rw [writeExisting_inplace _ _ _ _ _ _ _ _ hti] at h
        have : writeExisting0 s k (some (tier', ext, v)) j i a =
            .ok ((s.setVal a (some ⟨k.tail, v⟩) s.nLive).resize (Address.size_tier a)
              (Address.offset a) ext) := by
          unfold writeExisting0
          simp only [hti, if_true]
        rw [this] at h
        injection h with h
        subst h
        exact ProgX.congr hP rfl rfl rfl
      · exact write_move_prog hS hSl hN hP hex hgrow hpu k hk j i a tj hF hs tier' ext v
          (hop tier' ext v rfl) hti hN' h hB

/-- everything the A-tail-free read theorem is built around -/
structure GoodR (s : Col) (m : Key → Option Val) : Prop where
  good : GoodN s
  abs : AbsN s m
  prog : Prog s

theorem stepA_full {s s' : Col} {m : Key → Option Val} (hR : GoodR s m) (hc : FixedCfg s)
    (a : Action) (ha : ActWF a) (h : stepA s a = .ok s') (hB : Bounded s') :
    GoodR s' (specStep m a) := by
  have hG' := stepA_ns hR.good hc a ha h hB
  obtain ⟨⟨hS, hSl, hN⟩, hA, hP⟩ := hR
  obtain ⟨hex, hgrow, hpu⟩ := hc
  refine ⟨hG', ?_, ?_⟩
  · by_cases hen : a = .enact
    · subst hen
      simp only [stepA] at h
      injection h with h; subst h
      exact enactDrop_abs hS hA hP
    · exact stepA_abs ⟨hS, hSl, hN⟩ ⟨hex, hgrow, hpu⟩ hA a ha hen h hB
  · cases a with
    | set k tier ext v =>
      exact write_prog hS hSl hN hP hex hgrow hpu k ha.1 (some (tier, ext, v))
        (fun t e' v' e => by injection e with e; injection e with e1 _; rw [← e1]; exact ha.2) h hB
    | del k => exact write_prog hS hSl hN hP hex hgrow hpu k ha none (fun t e' v' e => by cases e) h hB
    | reindex => exact reindexBatch_prog hS hSl hN hP hex h hB
    | enact =>
      simp only [stepA] at h
      injection h with h; subst h
      exact enactDrop_prog hP
    | reopen =>
      simp only [stepA] at h
      injection h with h; subst h
      exact reopen_prog hS
    | relaunch =>
      simp only [stepA] at h
      injection h with h; subst h
      exact triggerReindex_prog hP

theorem runA_full : ∀ (acts : List Action) (s s' : Col) (m : Key → Option Val), GoodR s m →
    FixedCfg s → (∀ a ∈ acts, ActWF a) → AllBounded s acts → runA s acts = .ok s' →
    GoodR s' (spec m acts) := by
  intro acts
  induction acts with
  | nil =>
    intro s s' m hR _ _ _ h
    simp only [runA] at h
    injection h with h; subst h
    exact hR
  | cons a as ih =>
    intro s s' m hR hc hact hb h
    simp only [runA] at h
    obtain ⟨s1, h1, h2⟩ := Res.bind_ok h
    obtain ⟨hB1, hb1⟩ := hb s1 h1
    exact ih s1 s' _ (stepA_full hR hc a (hact a (by simp)) h1 hB1) (hc.step a h1)
      (fun a' ha' => hact a' (List.mem_cons_of_mem _ ha')) hb1 h2

theorem init_goodR (cfg : Cfg) (b : Nat) (h1 : 16 ≤ b) (h2 : b ≤ 49) :
    GoodR (Col.init cfg b) (fun _ => none) :=
  ⟨init_goodN cfg b h1 h2, AbsN.init cfg b,
    ⟨fun _ _ ho => by simp [Col.init] at ho, fun _ => rfl⟩⟩

end Pdb.Index
