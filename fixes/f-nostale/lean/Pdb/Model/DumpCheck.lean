/-
T2 (DESIGN section 4): the invariants the theorems are about, evaluated on DUMPS of the real
implementation state.

The Rust harness (harness/src/c09.rs `structure`, c04.rs) takes a read-only dump of a drained
handle through the hooks (`Db::verif_dump`, `Db::verif_table_state`, `Db::verif_table_entry`,
`verif::btree_dump`), renders it in the text format below and sends it as an op line `t2 ...`
to the compiled driver.  The driver rebuilds MODEL states from the dump

    tableOf : TableDump  -> Pdb.ValueTable.VT      (raw slot bytes, `filled`, `last_removed`)
    colOf   : ColumnDump -> Pdb.Index.Col          (index tables, address -> (tail, value), tiers
                                                    with the continuation slots of the chains)
    treeOf  : TreeDump   -> Pdb.C04.Tree           (nested nodes from the address-keyed node list)

and evaluates on them the Lean definitions used by the theorems: `Pdb.ValueTable.SlotInv`
(C06/C14, through its own `Decidable` instance, with the witnesses `freeOf d`, `chainsOf d`),
the conjuncts of `Pdb.Index.IdxInv` / `Pdb.Index.SlotInv` / `NoLeak` (C09/C14; soundness in
Pdb/Proofs/DumpCheck*.lean, statements in Pdb/Props/C14Dump.lean) and `Pdb.C04.treeInvB` (C04).
Classification of a slot (tombstone / multi-part head / continuation / last part, position of
the key tail) is done HERE from the raw bytes with the predicates of the value-table model
(`isTombstone`, `isMultiHead`, `nextPart`, `linkOf`, generated constants), not by the harness.

TEXT FORMAT (tokens separated by single spaces; integers decimal; bytes lowercase hex, "-" = empty)

  <table>  :=  <tier> <entry_size> <multipart 0/1> <ref_counted 0/1> <filled> <last_removed>
               <hdr> <slot_1> ... <slot_{filled-1}>
      <hdr>    = the first 16 bytes of the table file (slot 0: last_removed u64 LE, filled u64 LE)
      <slot_i> = the first min(40, entry_size) bytes of slot i as stored in the file
      (`filled`, `last_removed` are the in-memory values of the open handle)

  t2 slots <table>
      -> ok | bad:<reason>      reasons: slot-count, header, free-list, count, range, nodup,
                                         chain, dead-part
  t2 index <progress> { T <index_bits> { <chunk>:<slot>:<entry> }* }+ { V <table> }* [ K { <hexkey64> }* ]
      index tables in search order (current first, then the reindex queue oldest first), every
      non-empty entry; every value table with `filled > 1`; optionally (K) the live keys the
      harness oracle expects (32-byte hashed keys)
      -> ok | bad:<reason>      reasons: no-index, index-bits, entry:<t>, order, progress,
                                         table:<tier>:<slots reason>, tiers, head, tails,
                                         unreachable:<tier>:<offset>, prefix, reindex-progress,
                                         keys, abs-slots
      Keys of the live values are RECOVERED: prefix bits 63..14 from an index entry pointing to
      the head slot (`recover_index_key`, generated), bits 15..0 and the tail from the 26 key bytes
      stored with the value; the entry must be valid for the composed key (`hasB` = `Table.Has`).
      A stale entry (left by a removed key, slot reused since) passes that test as well - the dump
      alone cannot tell it from a valid entry - so with `K` only recovered keys that the oracle
      expects are accepted (17 of 334 real dumps of a quick run contain such a slot).
  t2 nostale <same payload as `t2 index`>
      the invariant `Pdb.Index.NoStale` (Pdb/Proofs/C09NoStale.lean; soundness `T2_checkNoStale_sound`
      in Pdb/Props/C14Dump.lean) of the fixed write path (fix-c09-stale-index-entries) on `colOf d`:
      for EVERY dumped entry (chunk c, slot i, entry e) of EVERY index table n (0 = current table,
      then the queued ones; whole tables, also the chunks below the reindex progress), with
      a = `Entry.address e bits` and v = `recover_index_key bits c e >>> 14` (key bits 63..14):
      -> ok | bad:<reason>      reasons: no-index, index-bits, entry:<t> (as for `t2 index`),
                                         stale:<n>:<c>:<i>  a is not the head slot of a live value, or
                                                            bits 15..14 of the recovered prefix are not
                                                            the top two bits of the stored key tail,
                                                            i.e. the key recovered from (page, partial key,
                                                            stored tail) does not hash to this entry
                                         owner:<n>:<c>:<i>  another entry (of any table) with address a
                                                            carries other index-visible key bits
                                         dup:<n>:<c>:<i>    another entry of table n has address a
  t2 tree <root> <depth> { N <address> <nsep> { <keyhex> <value_address> }*nsep { <child_address> }* }*
      the btree nodes in any order (root included), children without the trailing empty slots
      -> ok | bad:<reason>      reasons: no-root, dup-node, missing-node, unreachable-node (some node is
                                         not reached exactly once), tree-inv
  anything malformed -> bad-op

This file imports only `Pdb.Gen.*`, `Pdb.Model.*` and core.
-/
import Pdb.Gen.Prim
import Pdb.Gen.Consts
import Pdb.Gen.Bits
import Pdb.Model.ValueTable
import Pdb.Model.Index
import Pdb.Model.BTree

namespace Pdb.DumpCheck
open Pdb.Gen

abbrev Bytes := Pdb.ValueTable.Bytes

/-! ## Value tables -/

structure TableDump where
  tier : Nat
  entrySize : Nat
  multipart : Bool
  refCounted : Bool
  filled : Nat
  lastRemoved : Nat
  /-- `slots[i]` = leading bytes of slot `i`; `slots[0]` is the 16-byte file header -/
  slots : Array Bytes

/-- The value-table model state a dump stands for. -/
def tableOf (d : TableDump) : ValueTable.VT :=
  { entrySize := d.entrySize, multipart := d.multipart, refCounted := d.refCounted,
    slots := fun i => (d.slots[i]?).getD [], filled := d.filled, lastRemoved := d.lastRemoved }

/-- witness `F`: the free list as linked from `last_removed` (`[]` if the walk fails) -/
def freeOf (d : TableDump) : List Nat :=
  (ValueTable.freeListOf (tableOf d) d.filled d.lastRemoved).getD []

/-- a slot that starts a live value: not a tombstone, and in the multipart table a multi-part
head (`readChain` answers `none` for every other slot of that table) -/
def isHead (t : ValueTable.VT) (i : Nat) : Bool :=
  !decide (ValueTable.isTombstone (t.slots i)) &&
    (!t.multipart || decide (ValueTable.isMultiHead (t.slots i)))

/-- follow `read_next_part` from `i` -/
def chainFrom (t : ValueTable.VT) : Nat → Nat → List Nat
  | 0, i => [i]
  | f + 1, i =>
    match ValueTable.nextPart t i with
    | some nx => i :: chainFrom t f nx
    | none => [i]

def headIdx (d : TableDump) : List Nat :=
  (List.range d.filled).filter (fun i => decide (1 ≤ i) && isHead (tableOf d) i)

/-- witness `L`: the chains of the live heads -/
def chainsOf (d : TableDump) : List (List Nat) :=
  (headIdx d).map (chainFrom (tableOf d) d.filled)

/-- every part after the head of a live chain is a part: neither a tombstone nor a head -/
def partsLive (t : ValueTable.VT) (L : List (List Nat)) : Bool :=
  L.all fun c => c.tail.all fun i =>
    !decide (ValueTable.isTombstone (t.slots i)) && !decide (ValueTable.isMultiHead (t.slots i))

/-- the file header repeats the in-memory `(last_removed, filled)` (drained handle) -/
def headerOk (d : TableDump) : Bool :=
  let h := (d.slots[0]?).getD []
  ValueTable.fromLe (h.take INDEX_SIZE) == d.lastRemoved &&
    ValueTable.fromLe ((h.drop INDEX_SIZE).take INDEX_SIZE) == d.filled && h.length == 2 * INDEX_SIZE

/-- `none` = sound; the conjuncts of `Pdb.ValueTable.SlotInv` are tested one by one (cheap ones
first) with the model's own `Decidable` instances. -/
def slotsReason (d : TableDump) : Option String :=
  let t := tableOf d
  let F := freeOf d
  let L := chainsOf d
  if d.slots.size ≠ d.filled ∨ d.filled = 0 then some "slot-count"
  else if !headerOk d then some "header"
  else if ¬ ValueTable.FreeChain t t.lastRemoved F then some "free-list"
  else if ¬ (F.length + L.flatten.length + 1 = t.filled) then some "count"
  else if ¬ (∀ i ∈ F ++ L.flatten, 1 ≤ i ∧ i < t.filled) then some "range"
  else if ¬ (F ++ L.flatten).Nodup then some "nodup"
  else if ¬ (∀ c ∈ L, ValueTable.IsChain t c) then some "chain"
  else if !partsLive t L then some "dead-part"
  else none

def checkSlots (d : TableDump) : Bool := (slotsReason d).isNone

/-! ## Hash column: index tables + value tables -/

structure IndexDump where
  bits : Nat
  /-- (chunk, slot in the chunk, raw entry) of every non-empty entry -/
  entries : List (Nat × Nat × Nat)

structure ColumnDump where
  progress : Nat
  /-- search order: current table first, then the reindex queue oldest first -/
  index : List IndexDump
  tables : List TableDump
  /-- live keys expected by the harness oracle -/
  expected : Option (List Index.Key)

/-- write one dumped entry into the page map -/
def addEntry (t : Index.Table) (x : Nat × Nat × Nat) : Index.Table :=
  if x.2.2 < 2 ^ 64 then t.setPage x.1 ((t.page x.1).set x.2.1 x.2.2) (t.count + 1) else t

def indexOf (d : IndexDump) : Index.Table := d.entries.foldl addEntry (Index.Table.new d.bits)

/-- big-endian number of a byte string (`Key.tail` = bytes 6..32 as a number) -/
def beNat (b : Bytes) : Nat := b.foldl (fun acc x => acc * 256 + x) 0

/-- key tail stored with the head part in slot `i` (offset as in `readChain`) -/
def tailOfSlot (t : ValueTable.VT) (i : Nat) : Nat :=
  let b := t.slots i
  let off0 := if t.multipart = true ∧ ValueTable.isMulti b then SIZE_SIZE + INDEX_SIZE else SIZE_SIZE
  beNat ((b.drop (off0 + ValueTable.refSize t)).take PARTIAL_SIZE)

/-- a live value: tier, offset, address, abstract slot -/
structure Head where
  tier : Nat
  off : Nat
  addr : Nat
  slot : Index.Slot

def headsOfTable (d : TableDump) : List Head :=
  (headIdx d).map fun i =>
    { tier := d.tier, off := i, addr := Address.new i d.tier, slot := ⟨tailOfSlot (tableOf d) i, ""⟩ }

def headsOf (d : ColumnDump) : List Head := d.tables.flatMap headsOfTable

def valuesOf (hs : List Head) : Index.Trie Index.Slot :=
  hs.foldl (fun t h => t.set Index.DEPTH h.addr (some h.slot)) Index.Trie.empty

/-- the chain records of the index model (`Index.Tier.chains`): head slot and continuation slots
of every live chain with more than one part -/
def chainRecs (d : TableDump) : List (Nat × List Nat) :=
  (chainsOf d).filterMap fun c => if c.tail.isEmpty then none else some (c.headD 0, c.tail)

def tiersOf (ts : List TableDump) : Index.Trie Index.Tier :=
  ts.foldl (fun t td => t.set Index.DEPTH td.tier (some ⟨td.filled, freeOf td, chainRecs td⟩))
    Index.Trie.empty

/-- The index-layer model state a dump stands for (values abstracted to ""). -/
def colOf (d : ColumnDump) : Index.Col :=
  { cfg := ⟨true, true, false⟩
    current := ((d.index.map indexOf).head?).getD (Index.Table.new MIN_INDEX_BITS)
    older := (d.index.map indexOf).tail
    progress := d.progress
    values := valuesOf (headsOf d)
    tiers := tiersOf d.tables
    nLive := (headsOf d).length }

/-- executable `Table.Has`: the page of `kp` holds a non-empty entry with `kp`'s partial key
and address `a` -/
def hasB (t : Index.Table) (kp a : Nat) : Bool :=
  (List.range 64).any fun i =>
    IndexPage.baseHit t.bits (Entry.extract_key kp t.bits) (IndexPage.entryAt (t.page (t.chunk kp)) i) &&
      Entry.address (IndexPage.entryAt (t.page (t.chunk kp)) i) t.bits == a

/-- 64-bit key prefix from the index-visible bits recovered from an entry
(`recover_key_prefix`) and the first two bytes of the stored tail (= bytes 6..8 of the key) -/
def composePre (rk tail : Nat) : Nat := rk / 2 ^ 16 * 2 ^ 16 + tail / 2 ^ 192 % 2 ^ 16

/-- address -> key prefixes recovered from the entries (of any table) pointing to it -/
def candsOf (ds : List IndexDump) : Index.Trie (List Nat) :=
  ds.foldl (fun m d => d.entries.foldl (fun m x =>
      let a := Entry.address x.2.2 d.bits
      m.set Index.DEPTH a (some (recover_index_key d.bits x.1 x.2.2 :: (m.get a).getD []))) m)
    Index.Trie.empty

/-- is `k` one of the keys the oracle expects (no expectation: every key is acceptable) -/
def expectedOk (ex : Option (List Index.Key)) (k : Index.Key) : Bool :=
  match ex with
  | none => true
  | some l => l.any (· == k)

/-- the key of a live head: recovered from an entry that is VALID for it (and, when the oracle's
key list is given, is one of those keys: an entry left behind by a removed key whose slot was
reused is indistinguishable from a valid one by the dump alone) -/
def keyFor (s : Index.Col) (cands : Index.Trie (List Nat)) (ex : Option (List Index.Key)) (h : Head) :
    Option Index.Key :=
  (((cands.get h.addr).getD []).map (composePre · h.slot.tail)).find?
      (fun pre => s.tables.any (hasB · pre h.addr) && expectedOk ex ⟨pre, h.slot.tail⟩)
    |>.map (⟨·, h.slot.tail⟩)

/-- heads with their keys; `error` (with the offending head) if some head is unreachable -/
def keyedOf (s : Index.Col) (cands : Index.Trie (List Nat)) (ex : Option (List Index.Key)) :
    List Head → Except Head (List (Head × Index.Key))
  | [] => .ok []
  | h :: hs =>
    match keyFor s cands ex h with
    | none => .error h
    | some k =>
      match keyedOf s cands ex hs with
      | .ok r => .ok ((h, k) :: r)
      | .error e => .error e

def keyed (d : ColumnDump) : List (Head × Index.Key) :=
  match keyedOf (colOf d) (candsOf d.index) d.expected (headsOf d) with
  | .ok r => r
  | .error _ => []

/-- the key universe of a dump: the keys recovered for its live heads -/
def keysOf (d : ColumnDump) : List Index.Key := (keyed d).map (·.2)

/-- the abstract map of a dump -/
def absOf (d : ColumnDump) (k : Index.Key) : Option Index.Val :=
  ((keyed d).find? (fun x => x.2 == k)).map (·.1.slot.val)

def entryOk (bits : Nat) (t : Index.Table) (x : Nat × Nat × Nat) : Bool :=
  decide (x.1 < total_chunks bits) && decide (x.2.1 < 64) && decide (x.2.2 ≠ 0) &&
    decide (x.2.2 < 2 ^ 64) && IndexPage.entryAt (t.page x.1) x.2.1 == x.2.2

/-- first index table (by number) whose dump is not faithfully represented -/
def badEntries : List IndexDump → Nat → Option Nat
  | [], _ => none
  | d :: ds, n => if d.entries.all (entryOk d.bits (indexOf d)) then badEntries ds (n + 1) else some n

def progOk (s : Index.Col) (ks : List (Head × Index.Key)) : Bool :=
  match s.older with
  | [] => true
  | t0 :: rest =>
    ks.all fun x =>
      !(hasB t0 x.2.pre x.1.addr && decide (t0.chunk x.2.pre < s.progress)) ||
        (s.current :: rest).any (hasB · x.2.pre x.1.addr)

def firstBadTable : List TableDump → Option String
  | [] => none
  | t :: ts =>
    match slotsReason t with
    | some r => some s!"table:{t.tier}:{r}"
    | none => firstBadTable ts

/-- the conjuncts of the abstract `Pdb.Index.SlotInv` (`TierInv`, chains included) that are not
consequences of the construction, evaluated on `colOf d`: per table the fill mark and the free
list are the dumped ones; "free list ++ continuation slots" (`Col.dead`) has no duplicate, lies
below the fill mark and holds no value head; every slot below the fill mark is dead or a live
head; one chain record per head, recorded only for live heads -/
def absSlotsOk (d : ColumnDump) (s : Index.Col) : Bool :=
  d.tables.all (fun td =>
    let T := s.tier td.tier
    let dead := T.free ++ Index.ownedOf T.chains
    decide (T.filled = td.filled) && decide (T.free = freeOf td) &&
    decide (td.filled ≤ 2 ^ 56) &&
    decide dead.Nodup &&
    dead.all (fun off => decide (1 ≤ off) && decide (off < td.filled) &&
      (s.tailAt (Address.new off td.tier)).isNone) &&
    (List.range td.filled).all (fun off => decide (off < 1) || decide (off ∈ dead) ||
      (s.tailAt (Address.new off td.tier)).isSome) &&
    decide (T.chains.map (·.1)).Nodup &&
    (T.chains.map (·.1)).all (fun h => decide (1 ≤ h) && decide (h < td.filled) &&
      (s.tailAt (Address.new h td.tier)).isSome))

/-- cascade step: `c` must hold, otherwise the verdict is `r` -/
def guardR (c : Bool) (r : String) (k : Unit → Option String) : Option String :=
  if c then k () else some r

/-- cascade step: a sub-check that names its own reason -/
def orR (o : Option String) (k : Unit → Option String) : Option String :=
  match o with
  | some r => some r
  | none => k ()

def expectedMatch (ex : Option (List Index.Key)) (ks : List (Head × Index.Key)) : Bool :=
  match ex with
  | none => true
  | some ex => ex.all (fun k => ks.any (·.2 == k)) && ks.all (fun x => ex.any (· == x.2))

/-- the checks that need the keys of the heads -/
def keyedReason (d : ColumnDump) (s : Index.Col) (ks : List (Head × Index.Key)) : Option String :=
  guardR (ks.all fun x => decide (x.2.pre < 2 ^ 64)) "prefix" fun _ =>
  guardR (progOk s ks) "reindex-progress" fun _ =>
  guardR (expectedMatch d.expected ks) "keys" fun _ =>
  guardR (absSlotsOk d s) "abs-slots" fun _ => none

def reachReason (d : ColumnDump) (s : Index.Col) (hs : List Head) : Option String :=
  match keyedOf s (candsOf d.index) d.expected hs with
  | .error h => some s!"unreachable:{h.tier}:{h.off}"
  | .ok ks => keyedReason d s ks

def indexReasonAux (d : ColumnDump) (s : Index.Col) (hs : List Head) : Option String :=
  guardR (!d.index.isEmpty) "no-index" fun _ =>
  guardR (d.index.all fun x => decide (16 ≤ x.bits ∧ x.bits ≤ 49)) "index-bits" fun _ =>
  orR ((badEntries d.index 0).map fun n => s!"entry:{n}") fun _ =>
  guardR (decide (List.Pairwise (· < ·) ((s.older ++ [s.current]).map (·.bits)))) "order" fun _ =>
  guardR (!s.older.isEmpty || s.progress == 0) "progress" fun _ =>
  orR (firstBadTable d.tables) fun _ =>
  guardR ((d.tables.all fun t => decide (t.tier < 256)) && decide (d.tables.map (·.tier)).Nodup) "tiers" fun _ =>
  guardR (hs.all fun h => s.valAt h.addr == some h.slot && decide (h.slot.tail < 2 ^ 208)) "head" fun _ =>
  guardR (decide (hs.map (·.slot.tail)).Nodup) "tails" fun _ =>
  reachReason d s hs

def indexReason (d : ColumnDump) : Option String := indexReasonAux d (colOf d) (headsOf d)

def checkIndex (d : ColumnDump) : Bool := (indexReason d).isNone

/-! ## No stale index entry (`Pdb.Index.NoStale`, fix-c09-stale-index-entries) -/

/-- key bits 63..14 recovered from a dumped entry (`recover_key_prefix`) -/
def visOf (bits c e : Nat) : Nat := recover_index_key bits c e >>> 14

/-- address -> index-visible key bits of the LAST dumped entry (of any table) pointing to it -/
def ownersOf (ds : List IndexDump) : Index.Trie Nat :=
  ds.foldl (fun m d => d.entries.foldl (fun m x =>
      m.set Index.DEPTH (Entry.address x.2.2 d.bits) (some (visOf d.bits x.1 x.2.2))) m)
    Index.Trie.empty

/-- address -> (chunk, slot) of the LAST dumped entry of this table pointing to it -/
def posOf (d : IndexDump) : Index.Trie (Nat × Nat) :=
  d.entries.foldl (fun m x => m.set Index.DEPTH (Entry.address x.2.2 d.bits) (some (x.1, x.2.1)))
    Index.Trie.empty

/-- the entry points to a live value whose stored tail continues the recovered key bits -/
def entryLive (s : Index.Col) (bits : Nat) (x : Nat × Nat × Nat) : Bool :=
  match s.tailAt (Entry.address x.2.2 bits) with
  | some tl => visOf bits x.1 x.2.2 % 4 == tl / 2 ^ 206
  | none => false

/-- every entry of any table with this address carries the same key bits (all equal the recorded one) -/
def entryOwner (own : Index.Trie Nat) (bits : Nat) (x : Nat × Nat × Nat) : Bool :=
  own.get (Entry.address x.2.2 bits) == some (visOf bits x.1 x.2.2)

/-- this table has one entry with this address (all of them sit at the recorded position) -/
def entrySingle (pos : Index.Trie (Nat × Nat)) (bits : Nat) (x : Nat × Nat × Nat) : Bool :=
  pos.get (Entry.address x.2.2 bits) == some (x.1, x.2.1)

def entryFine (s : Index.Col) (own : Index.Trie Nat) (pos : Index.Trie (Nat × Nat)) (bits : Nat)
    (x : Nat × Nat × Nat) : Bool :=
  entryLive s bits x && entryOwner own bits x && entrySingle pos bits x

def entryWhy (s : Index.Col) (own : Index.Trie Nat) (bits : Nat) (x : Nat × Nat × Nat) : String :=
  if !entryLive s bits x then "stale" else if !entryOwner own bits x then "owner" else "dup"

/-- first entry of one table that is not fine (`pos` = `posOf` of the table, computed once) -/
def firstBadEntry (s : Index.Col) (own : Index.Trie Nat) (pos : Index.Trie (Nat × Nat)) (bits : Nat)
    (es : List (Nat × Nat × Nat)) : Option (Nat × Nat × Nat) :=
  es.find? (fun x => !entryFine s own pos bits x)

/-- first entry (tables in search order) that violates `NoStale` -/
def firstStale (s : Index.Col) (own : Index.Trie Nat) : List IndexDump → Nat → Option String
  | [], _ => none
  | d :: ds, n =>
    match firstBadEntry s own (posOf d) d.bits d.entries with
    | some x => some s!"{entryWhy s own d.bits x}:{n}:{x.1}:{x.2.1}"
    | none => firstStale s own ds (n + 1)

def nostaleReason (d : ColumnDump) : Option String :=
  guardR (!d.index.isEmpty) "no-index" fun _ =>
  guardR (d.index.all fun x => decide (16 ≤ x.bits ∧ x.bits ≤ 49)) "index-bits" fun _ =>
  orR ((badEntries d.index 0).map fun n => s!"entry:{n}") fun _ =>
  firstStale (colOf d) (ownersOf d.index) d.index 0

def checkNoStale (d : ColumnDump) : Bool := (nostaleReason d).isNone

/-! ## Btree -/

structure NodeDump where
  addr : Nat
  seps : List (C04.Key × Nat)
  children : List Nat

structure TreeDump where
  root : Nat
  depth : Nat
  nodes : List NodeDump

def findNode (ns : List NodeDump) (a : Nat) : Option NodeDump := ns.find? (·.addr == a)

/-- rebuild the nested node below address `a`; `none` if a child is missing or the fuel runs out.
Second component: the addresses visited, in order. -/
def buildNode (ns : List NodeDump) : Nat → Nat → Option (C04.Node Nat × List Nat)
  | 0, _ => none
  | f + 1, a =>
    match findNode ns a with
    | none => none
    | some n =>
      match n.children.mapM (buildNode ns f) with
      | none => none
      | some cs => some (.mk n.seps (cs.map (·.1)), a :: (cs.map (·.2)).flatten)

/-- The btree model state a dump stands for (`Tree.empty` when there is no root). -/
def treeOf (d : TreeDump) : C04.Tree Nat :=
  if d.root = 0 then C04.Tree.empty
  else match buildNode d.nodes (d.depth + 2) d.root with
    | some (n, _) => { root := n, depth := d.depth }
    | none => C04.Tree.empty

def treeReason (d : TreeDump) : Option String :=
  if d.root = 0 then (if d.nodes.isEmpty ∧ d.depth = 0 then none else some "no-root")
  else if ¬ (d.nodes.map (·.addr)).Nodup then some "dup-node"
  else match buildNode d.nodes (d.depth + 2) d.root with
  | none => some "missing-node"
  | some (_, visited) =>
    if ¬ visited.Nodup ∨ visited.length ≠ d.nodes.length then some "unreachable-node"
    else if !C04.treeInvB (treeOf d) then some "tree-inv"
    else none

def checkTree (d : TreeDump) : Bool := (treeReason d).isNone

/-! ## Parsing and the driver command -/

def parseBytes (s : String) : Option Bytes := ValueTable.unhex s

def parseTable (ws : List String) : Option TableDump :=
  match ws with
  | tier :: es :: mp :: rc :: filled :: lr :: slots =>
    match tier.toNat?, es.toNat?, ValueTable.parseBool mp, ValueTable.parseBool rc, filled.toNat?,
        lr.toNat?, slots.mapM parseBytes with
    | some tier, some es, some mp, some rc, some filled, some lr, some slots =>
      some ⟨tier, es, mp, rc, filled, lr, slots.toArray⟩
    | _, _, _, _, _, _, _ => none
  | _ => none

def parseEntry (w : String) : Option (Nat × Nat × Nat) :=
  match w.splitOn ":" with
  | [c, i, e] =>
    match c.toNat?, i.toNat?, e.toNat? with
    | some c, some i, some e => some (c, i, e)
    | _, _, _ => none
  | _ => none

def isMarker (w : String) : Bool := w == "T" || w == "V" || w == "K" || w == "N"

def closeSec (cur : Option (String × List String)) (acc : List (String × List String)) :
    List (String × List String) :=
  match cur with
  | some c => (c.1, c.2.reverse) :: acc
  | none => acc

def sectionsAux : List String → Option (String × List String) → List (String × List String) →
    List (String × List String)
  | [], cur, acc => (closeSec cur acc).reverse
  | w :: ws, cur, acc =>
    if isMarker w then sectionsAux ws (some (w, [])) (closeSec cur acc)
    else sectionsAux ws (cur.map fun c => (c.1, w :: c.2)) acc

/-- cut a token list into sections `(marker, tokens up to the next marker)`; tokens in front of
the first marker are rejected by the caller -/
def sections (ws : List String) : List (String × List String) := sectionsAux ws none []

def parseColumn (ws : List String) : Option ColumnDump :=
  match ws with
  | prog :: rest =>
    match prog.toNat? with
    | none => none
    | some prog =>
      if !(rest.head?.map isMarker).getD true then none
      else
        (sections rest).foldlM (fun (d : ColumnDump) (sec : String × List String) =>
          match sec.1, sec.2 with
          | "T", bits :: es =>
            match bits.toNat?, es.mapM parseEntry with
            | some bits, some es => some { d with index := d.index ++ [⟨bits, es⟩] }
            | _, _ => none
          | "V", ts => (parseTable ts).map fun t => { d with tables := d.tables ++ [t] }
          | "K", ks => (ks.mapM Index.parseKey).map fun ks =>
              { d with expected := some (d.expected.getD [] ++ ks) }
          | _, _ => none) ⟨prog, [], [], none⟩
  | [] => none

def parseSeps : Nat → List String → Option (List (C04.Key × Nat) × List String)
  | 0, ws => some ([], ws)
  | n + 1, k :: v :: ws =>
    match C04.unhex k, v.toNat?, parseSeps n ws with
    | some k, some v, some (r, rest) => some ((k, v) :: r, rest)
    | _, _, _ => none
  | _ + 1, _ => none

def parseNode (ws : List String) : Option NodeDump :=
  match ws with
  | a :: n :: rest =>
    match a.toNat?, n.toNat? with
    | some a, some n =>
      match parseSeps n rest with
      | some (seps, cs) => (cs.mapM String.toNat?).map fun cs => ⟨a, seps, cs⟩
      | none => none
    | _, _ => none
  | _ => none

def parseTree (ws : List String) : Option TreeDump :=
  match ws with
  | root :: depth :: rest =>
    match root.toNat?, depth.toNat? with
    | some root, some depth =>
      if !(rest.head?.map isMarker).getD true then none
      else
        ((sections rest).mapM fun sec => if sec.1 == "N" then parseNode sec.2 else none).map
          fun ns => ⟨root, depth, ns⟩
    | _, _ => none
  | _ => none

def verdict : Option String → String
  | none => "ok"
  | some r => "bad:" ++ r

/-- stateless driver command `t2` -/
def driverLine (args : List String) : String :=
  match args with
  | "slots" :: rest =>
    match parseTable rest with
    | some d => verdict (slotsReason d)
    | none => "bad-op"
  | "index" :: rest =>
    match parseColumn rest with
    | some d => verdict (indexReason d)
    | none => "bad-op"
  | "nostale" :: rest =>
    match parseColumn rest with
    | some d => verdict (nostaleReason d)
    | none => "bad-op"
  | "tree" :: rest =>
    match parseTree rest with
    | some d => verdict (treeReason d)
    | none => "bad-op"
  | _ => "bad-op"

end Pdb.DumpCheck
