import sys,subprocess,collections
f,drv=sys.argv[1],sys.argv[2]
lines=[];verd=[]
cur=None
for l in open(f,errors='replace'):
    l=l.rstrip('\n')
    if l.startswith('t2 nostale '):
        lines.append(l.split('\t')[0]); verd.append(set()); cur=len(lines)-1
    elif l.startswith('# NOSTALE') and cur is not None:
        verd[cur].add(l.split()[1].split('-')[1] if '-' in l.split()[1] else l.split()[1])
    elif '\t' in l and not l.startswith('#'):
        cur=None
out=subprocess.run([drv],input=('\n'.join(lines)+'\n').encode(),stdout=subprocess.PIPE,timeout=600).stdout.decode().split('\n')
c=collections.Counter()
for i,(ln,v) in enumerate(zip(lines,verd)):
    o=out[i].strip()
    dk='ok' if o=='ok' else ':'.join(o.split(':')[:2])
    ok_rust = not ({'STALE','DUP','CONFLICT','SUMMARY'} & v)
    c[('rust_ok' if ok_rust else 'rust_bad('+','.join(sorted(v-{'SUMMARY'}))+')', dk)]+=1
for k,n in sorted(c.items()): print(n,k)
