//! C04 / C14 / C06 (R8): the PHYSICAL btree column. On a quiescent handle (right after a reopen:
//! every log enacted, no overlay) the RAW SLOTS of every value table of the btree column are read
//! through the hooks `Db::verif_table_state` / `Db::verif_table_entry` and sent to the Lean model
//! (`c04b phys reset / table / slots`, Pdb/Model/BTreePhys.lean), which rebuilds its byte-level
//! column `PCol` (one `Pdb.ValueTable.VT` per tier) from them - NOT from decoded nodes. Then
//!   c04b phys header      -> `<root> <depth>`: compared with the header the crate decoded (TreeDump);
//!   c04b phys get <key>   -> `physGetRaw`: descent from the header slot through `decodeNode` of the
//!                            stored node bytes to the value entry; expected = the REAL `Db::get` of
//!                            that key, brought to stored form by the crate's own compressor (length,
//!                            compressed flag, FNV of the stored bytes); every key of the pool,
//!                            present or absent, plus mutated keys;
//!   c04b phys inv         -> the joint invariant `jointCheck` (TreeInv of the decoded tree + SlotInv
//!                            of every tier with the chains of header / reachable nodes / referenced
//!                            values as the live chains); expected = the classification computed
//!                            here independently from the tree dump and the raw slots.
//! Oracle (plain Rust): every slot index in `1..filled` of every table is exactly one of: header
//! part, part of one reachable node, part of one referenced value, free-list member.

use crate::util::{err_kind, hex, Counters, Trace};
use parity_db::verif::{NodeDump, TreeDump};
use parity_db::{CompressionType, Db};
use std::collections::BTreeMap;

const TOMBSTONE: [u8; 2] = [0xff, 0xff];
const MULTIPART: [u8; 2] = [0xfe, 0xff];
const MULTIHEAD: [u8; 2] = [0xfd, 0xff];
const MULTIHEAD_COMPRESSED: [u8; 2] = [0xfd, 0x7f];
const DEFAULT_THRESHOLD: u32 = 4096;
/// no more raw bytes than this per dump go to the model
const MAX_DUMP_BYTES: usize = 3 * 512 * 1024;
/// hex characters per `slots` line
const MAX_LINE: usize = 96 * 1024;
const HEADER_ADDRESS: u64 = 1 << 8;

#[derive(Clone)]
pub struct PhysCfg {
	pub compression: CompressionType,
	pub threshold: Option<u32>,
	pub rc: bool,
	/// keys to look up (present or not)
	pub pool: Vec<Vec<u8>>,
}

struct Table {
	tier: u8,
	entry_size: usize,
	multipart: bool,
	filled: u64,
	last_removed: u64,
	/// raw[i - 1] = slot i, cut to the prefix the code reads
	raw: Vec<Vec<u8>>,
}

fn fnv_bytes(b: &[u8]) -> u64 {
	let mut h: u64 = 0xcbf29ce484222325;
	for x in b {
		h = (h ^ *x as u64).wrapping_mul(0x100000001b3);
	}
	h
}

fn is_multi(t: &Table, raw: &[u8]) -> bool {
	let m = [raw[0], raw[1]];
	t.multipart && (m == MULTIPART || m == MULTIHEAD || m == MULTIHEAD_COMPRESSED)
}

fn prefix_len(t: &Table, raw: &[u8]) -> usize {
	let m = [raw[0], raw[1]];
	if m == TOMBSTONE {
		10
	} else if is_multi(t, raw) {
		t.entry_size
	} else {
		std::cmp::min(t.entry_size, 2 + (u16::from_le_bytes(m) & 0x7fff) as usize)
	}
}

fn read_tables(db: &Db) -> Result<Vec<Table>, String> {
	let mut out = vec![];
	let st = db.verif_table_state(0).map_err(|e| format!("verif_table_state: {:?}", e))?;
	for (tier, es, filled, lr, _free) in st {
		let mut t = Table {
			tier,
			entry_size: es as usize,
			multipart: tier as usize >= parity_db::verif::entry_sizes().len(),
			filled,
			last_removed: lr,
			raw: vec![],
		};
		for i in 1..filled {
			let raw = db.verif_table_entry(0, tier, i).map_err(|e| format!("verif_table_entry: {:?}", e))?;
			if raw.len() != t.entry_size {
				return Err(format!("slot {} of tier {}: {} raw bytes, entry size {}", i, tier, raw.len(), t.entry_size))
			}
			let n = prefix_len(&t, &raw);
			t.raw.push(raw[..n].to_vec());
		}
		out.push(t);
	}
	Ok(out)
}

/// slots of the entry starting at `addr` (independent chain walk)
fn chain_of(tables: &[Table], addr: u64) -> Result<(u8, Vec<u64>), String> {
	let tier = (addr & 0xff) as u8;
	let t = tables.iter().find(|t| t.tier == tier).ok_or(format!("address {}: no table of tier {}", addr, tier))?;
	let mut idx = addr >> 8;
	let mut out = vec![];
	loop {
		if idx == 0 || idx >= t.filled {
			return Err(format!("address {}: slot {} outside 1..{} of tier {}", addr, idx, t.filled, tier))
		}
		if out.len() as u64 > t.filled {
			return Err(format!("address {}: cyclic chain in tier {}", addr, tier))
		}
		let raw = &t.raw[idx as usize - 1];
		if raw[0..2] == TOMBSTONE {
			return Err(format!("address {}: slot {} of tier {} is a tombstone", addr, idx, tier))
		}
		if t.multipart && out.is_empty() && raw[0..2] != MULTIHEAD && raw[0..2] != MULTIHEAD_COMPRESSED {
			return Err(format!("address {}: slot {} of the multipart table is not a head", addr, idx))
		}
		out.push(idx);
		if is_multi(t, raw) {
			idx = u64::from_le_bytes(raw[2..10].try_into().unwrap());
		} else {
			break
		}
	}
	Ok((tier, out))
}

fn collect(n: &NodeDump, nodes: &mut Vec<u64>, values: &mut Vec<u64>) {
	nodes.push(n.address);
	for (_, a) in &n.separators {
		values.push(*a);
	}
	for (_, c) in &n.children {
		if let Some(c) = c {
			collect(c, nodes, values);
		}
	}
}

/// `c04b phys reset / table / slots`: the raw tables as they are in the files
fn emit_column(tables: &[Table], rc: bool, t: &mut Trace, ctr: &mut Counters) {
	t.op(&format!("c04b phys reset {}", rc as u8), "ok");
	for tb in tables {
		t.op(
			&format!("c04b phys table {} {} {} {} {}", tb.tier, tb.entry_size, tb.multipart as u8, tb.filled, tb.last_removed),
			"ok",
		);
		ctr.inc("phys.tables");
		let mut first = 1u64;
		let mut line = String::new();
		let mut n = 0u64;
		for (i, raw) in tb.raw.iter().enumerate() {
			let h = hex(raw);
			if n > 0 && line.len() + h.len() + 1 > MAX_LINE {
				t.op(&format!("c04b phys slots {} {}{}", tb.tier, first, line), &format!("ok {}", n));
				first = i as u64 + 1;
				line.clear();
				n = 0;
			}
			line.push(' ');
			line.push_str(&h);
			n += 1;
		}
		if n > 0 {
			t.op(&format!("c04b phys slots {} {}{}", tb.tier, first, line), &format!("ok {}", n));
		}
	}
}

fn digest(tables: &[Table]) -> String {
	let mut parts = vec![];
	for tb in tables {
		let mut h: u64 = 0xcbf29ce484222325;
		for raw in &tb.raw {
			for x in raw {
				h = (h ^ *x as u64).wrapping_mul(0x100000001b3);
			}
		}
		parts.push(format!("{}:{}:{}:{}", tb.tier, tb.filled, tb.last_removed, h));
	}
	if parts.is_empty() {
		"-".into()
	} else {
		parts.join(" ")
	}
}

/// WRITE TIE. On a quiescent, not ref-counted column: the raw tables are sent to the model, ONE real
/// transaction `Set(key, value)` on a PRESENT key is committed and driven through the pipeline until
/// the files hold it, and the model runs `physSetExisting` (value entry rewritten in place or moved to
/// another tier, node entry rewritten at its address) on its copy: `c04b phys put` -> `ok moved=..`,
/// then `c04b phys digest` must give, for every table, the fill mark, the free-list head and the FNV of
/// all slot prefixes of the REAL tables after the transaction; `c04b phys inv` / `get` once more.
pub fn write_tie(
	db: &Db,
	committed: &BTreeMap<Vec<u8>, Vec<u8>>,
	cfg: &PhysCfg,
	seed: u64,
	t: &mut Trace,
	ctr: &mut Counters,
) -> Vec<String> {
	let mut problems = vec![];
	if cfg.rc || committed.is_empty() {
		return problems
	}
	let before = match read_tables(db) {
		Ok(x) => x,
		Err(e) => {
			problems.push(e);
			return problems
		},
	};
	let total: usize = before.iter().map(|t| t.raw.iter().map(|r| r.len()).sum::<usize>()).sum();
	if total > MAX_DUMP_BYTES {
		ctr.inc("phys.put.skipped_too_big");
		return problems
	}
	let mut rng = crate::util::Rng::new(seed ^ 0x7068_7973);
	let keys: Vec<&Vec<u8>> = committed.keys().filter(|k| k.len() * 2 < MAX_LINE / 4).collect();
	if keys.is_empty() {
		return problems
	}
	let key = keys[rng.below(keys.len() as u64) as usize].clone();
	let old = committed.get(&key).unwrap().clone();
	// new value: same length (stays in place), nearby length, another tier, or above the threshold
	let kind = rng.below(6);
	let len = match kind {
		0 | 1 => old.len(),
		2 => old.len() + 1 + rng.below(3) as usize,
		3 => rng.below(40) as usize,
		4 => 60 + rng.below(600) as usize,
		_ =>
			if rng.chance(1, 3) {
				33000 + rng.below(5000) as usize
			} else {
				4000 + rng.below(9000) as usize
			},
	};
	let compressible = rng.chance(1, 2);
	let mut value: Vec<u8> = (0..len)
		.map(|i| if compressible { (i / 9 % 5) as u8 ^ 0x40 } else { (rng.next() >> 11) as u8 })
		.collect();
	if value == old {
		if value.is_empty() {
			value.push(1);
		} else {
			value[0] ^= 0x55;
		}
	}
	if value.len() * 2 > 2 * MAX_LINE {
		return problems
	}
	emit_column(&before, cfg.rc, t, ctr);
	// ---- the real transaction, driven to the files
	let step = |r: Result<(), parity_db::Error>, what: &str, problems: &mut Vec<String>| {
		if let Err(e) = r {
			problems.push(format!("write tie: {} failed: {:?}", what, e));
		}
	};
	step(db.commit(vec![(0u8, key.clone(), Some(value.clone()))]), "commit", &mut problems);
	step(db.process_commits().map(|_| ()), "process_commits", &mut problems);
	step(db.flush_logs().map(|_| ()), "flush_logs", &mut problems);
	for _ in 0..2 {
		step(db.enact_logs().map(|_| ()), "enact_logs", &mut problems);
		step(db.clean_logs().map(|_| ()), "clean_logs", &mut problems);
	}
	if !problems.is_empty() {
		return problems
	}
	match db.get(0, &key) {
		Ok(Some(v)) if v == value => (),
		other => problems.push(format!("write tie: get after the transaction = {:?}", other.map(|o| o.map(|v| v.len())))),
	}
	let after = match read_tables(db) {
		Ok(x) => x,
		Err(e) => {
			problems.push(e);
			return problems
		},
	};
	let threshold = cfg.threshold.unwrap_or(DEFAULT_THRESHOLD);
	let compressed = if matches!(cfg.compression, CompressionType::NoCompression) {
		"none".to_string()
	} else {
		hex(&parity_db::verif::compress(cfg.compression, &value))
	};
	// moved: the tier of the value entry changed (independent: stored length against the tiers)
	ctr.inc("phys.put.lines");
	ctr.inc(&format!("phys.put.kind.{}", kind));
	let sizes = parity_db::verif::entry_sizes();
	let tier_of = |stored_len: usize| -> usize {
		sizes.iter().position(|s| stored_len + 2 <= *s as usize).unwrap_or(sizes.len())
	};
	let stored_len = |v: &[u8]| -> usize {
		if !matches!(cfg.compression, CompressionType::NoCompression) && v.len() > threshold as usize {
			let c = parity_db::verif::compress(cfg.compression, v);
			if c.len() < v.len() {
				return c.len()
			}
		}
		v.len()
	};
	let moved = tier_of(stored_len(&old)) != tier_of(stored_len(&value));
	if moved {
		ctr.inc("phys.put.moved");
	} else {
		ctr.inc("phys.put.in_place");
	}
	if tier_of(stored_len(&value)) == sizes.len() {
		ctr.inc("phys.put.multipart_value");
	}
	t.op(
		&format!("c04b phys put {} {} {} {}", hex(&key), hex(&value), threshold, compressed),
		&format!("ok moved={}", moved as u8),
	);
	t.op("c04b phys digest", &digest(&after));
	ctr.add("phys.put.slots_compared", after.iter().map(|t| t.raw.len() as u64).sum());
	// the model's column after ITS write must satisfy the joint invariant and answer the key
	let stored = {
		let mut s = value.clone();
		let mut flag = 0;
		if compressed != "none" && value.len() > threshold as usize {
			let c = parity_db::verif::compress(cfg.compression, &value);
			if c.len() < value.len() {
				s = c;
				flag = 1;
			}
		}
		format!("some {} {} {}", s.len(), flag, fnv_bytes(&s))
	};
	t.op(&format!("c04b phys get {}", hex(&key)), &stored);
	// the joint invariant on the model's column after ITS write = classification of the real one
	let mut dump = match parity_db::verif::btree_dump(db, 0) {
		Ok(d2) => {
			if let Some(line) = classify(&after, &d2, ctr, &mut problems) {
				t.op("c04b phys inv", &line);
			}
			d2
		},
		Err(e) => {
			problems.push(format!("write tie: tree dump failed: {:?}", e));
			return problems
		},
	};
	if !problems.is_empty() {
		return problems
	}
	// ---- second transaction: Set of an ABSENT key whose leaf is not full (no split)
	let mut state: BTreeMap<Vec<u8>, Vec<u8>> = committed.clone();
	state.insert(key.clone(), value.clone());
	let absent: Vec<&Vec<u8>> = cfg
		.pool
		.iter()
		.filter(|k| !state.contains_key(*k) && k.len() * 2 < MAX_LINE / 4)
		.filter(|k| matches!(locate(&dump, k), Some((n, false, true)) if n < 8))
		.collect();
	if absent.is_empty() {
		ctr.inc("phys.ins.no_candidate");
	} else {
		let k2 = absent[rng.below(absent.len() as u64) as usize].clone();
		let len2 = match rng.below(4) {
			0 => rng.below(20) as usize,
			1 => 100 + rng.below(300) as usize,
			2 => 5000 + rng.below(3000) as usize,
			_ => rng.below(64) as usize,
		};
		let comp2 = rng.chance(1, 2);
		let v2: Vec<u8> =
			(0..len2).map(|i| if comp2 { (i / 5 % 7) as u8 ^ 0x20 } else { (rng.next() >> 13) as u8 }).collect();
		step(db.commit(vec![(0u8, k2.clone(), Some(v2.clone()))]), "commit (insert)", &mut problems);
		step(db.process_commits().map(|_| ()), "process_commits", &mut problems);
		step(db.flush_logs().map(|_| ()), "flush_logs", &mut problems);
		for _ in 0..2 {
			step(db.enact_logs().map(|_| ()), "enact_logs", &mut problems);
			step(db.clean_logs().map(|_| ()), "clean_logs", &mut problems);
		}
		if !problems.is_empty() {
			return problems
		}
		let after2 = match read_tables(db) {
			Ok(x) => x,
			Err(e) => {
				problems.push(e);
				return problems
			},
		};
		let compressed2 = if matches!(cfg.compression, CompressionType::NoCompression) {
			"none".to_string()
		} else {
			hex(&parity_db::verif::compress(cfg.compression, &v2))
		};
		ctr.inc("phys.ins.lines");
		t.op(&format!("c04b phys ins {} {} {} {}", hex(&k2), hex(&v2), threshold, compressed2), "ok");
		t.op("c04b phys digest", &digest(&after2));
		ctr.add("phys.ins.slots_compared", after2.iter().map(|t| t.raw.len() as u64).sum());
		let mut s2 = v2.clone();
		let mut f2 = 0;
		if compressed2 != "none" && v2.len() > threshold as usize {
			let c = parity_db::verif::compress(cfg.compression, &v2);
			if c.len() < v2.len() {
				s2 = c;
				f2 = 1;
			}
		}
		t.op(&format!("c04b phys get {}", hex(&k2)), &format!("some {} {} {}", s2.len(), f2, fnv_bytes(&s2)));
		match parity_db::verif::btree_dump(db, 0) {
			Ok(d3) => {
				if node_moved(&dump, &d3) {
					ctr.inc("phys.ins.node_moved");
				}
				if d3.root != dump.root {
					ctr.inc("phys.ins.root_moved");
				}
				if let Some(line) = classify(&after2, &d3, ctr, &mut problems) {
					t.op("c04b phys inv", &line);
				}
				dump = d3;
			},
			Err(e) => problems.push(format!("write tie: tree dump failed: {:?}", e)),
		}
		state.insert(k2, v2);
	}
	if !problems.is_empty() {
		return problems
	}
	// ---- third transaction: removal of a key held by a leaf that keeps ORDER/2 separators (no rebalance)
	let removable: Vec<&Vec<u8>> = state
		.keys()
		.filter(|k| k.len() * 2 < MAX_LINE / 4)
		.filter(|k| matches!(locate(&dump, k), Some((n, true, true)) if n > 4))
		.collect();
	if removable.is_empty() {
		ctr.inc("phys.del.no_candidate");
	} else {
		let k3 = removable[rng.below(removable.len() as u64) as usize].clone();
		step(db.commit(vec![(0u8, k3.clone(), None)]), "commit (remove)", &mut problems);
		step(db.process_commits().map(|_| ()), "process_commits", &mut problems);
		step(db.flush_logs().map(|_| ()), "flush_logs", &mut problems);
		for _ in 0..2 {
			step(db.enact_logs().map(|_| ()), "enact_logs", &mut problems);
			step(db.clean_logs().map(|_| ()), "clean_logs", &mut problems);
		}
		if !problems.is_empty() {
			return problems
		}
		let after3 = match read_tables(db) {
			Ok(x) => x,
			Err(e) => {
				problems.push(e);
				return problems
			},
		};
		ctr.inc("phys.del.lines");
		t.op(&format!("c04b phys del {} {}", hex(&k3), threshold), "ok");
		t.op("c04b phys digest", &digest(&after3));
		ctr.add("phys.del.slots_compared", after3.iter().map(|t| t.raw.len() as u64).sum());
		t.op(&format!("c04b phys get {}", hex(&k3)), "none");
		match parity_db::verif::btree_dump(db, 0) {
			Ok(d4) => {
				if node_moved(&dump, &d4) {
					ctr.inc("phys.del.node_moved");
				}
				if let Some(line) = classify(&after3, &d4, ctr, &mut problems) {
					t.op("c04b phys inv", &line);
				}
			},
			Err(e) => problems.push(format!("write tie: tree dump failed: {:?}", e)),
		}
		state.remove(&k3);
	}
	if !problems.is_empty() {
		return problems
	}
	// ---- fourth transaction: Set of an absent key whose leaf is FULL and whose parent has room (one leaf split)
	let dump4 = match parity_db::verif::btree_dump(db, 0) {
		Ok(d) => d,
		Err(e) => {
			problems.push(format!("write tie: tree dump failed: {:?}", e));
			return problems
		},
	};
	let splitting: Vec<&Vec<u8>> = cfg
		.pool
		.iter()
		.filter(|k| !state.contains_key(*k) && k.len() * 2 < MAX_LINE / 4)
		.filter(|k| matches!(locate2(&dump4, k), Some((8, false, true, Some(p))) if p < 8))
		.collect();
	if splitting.is_empty() {
		ctr.inc("phys.split.no_candidate");
	} else {
		let k4 = splitting[rng.below(splitting.len() as u64) as usize].clone();
		let len4 = rng.below(200) as usize;
		let v4: Vec<u8> = (0..len4).map(|_| (rng.next() >> 17) as u8).collect();
		step(db.commit(vec![(0u8, k4.clone(), Some(v4.clone()))]), "commit (split)", &mut problems);
		step(db.process_commits().map(|_| ()), "process_commits", &mut problems);
		step(db.flush_logs().map(|_| ()), "flush_logs", &mut problems);
		for _ in 0..2 {
			step(db.enact_logs().map(|_| ()), "enact_logs", &mut problems);
			step(db.clean_logs().map(|_| ()), "clean_logs", &mut problems);
		}
		if !problems.is_empty() {
			return problems
		}
		let after4 = match read_tables(db) {
			Ok(x) => x,
			Err(e) => {
				problems.push(e);
				return problems
			},
		};
		let compressed4 = if matches!(cfg.compression, CompressionType::NoCompression) {
			"none".to_string()
		} else {
			hex(&parity_db::verif::compress(cfg.compression, &v4))
		};
		ctr.inc("phys.split.lines");
		t.op(&format!("c04b phys split {} {} {} {}", hex(&k4), hex(&v4), threshold, compressed4), "ok");
		t.op("c04b phys digest", &digest(&after4));
		ctr.add("phys.split.slots_compared", after4.iter().map(|t| t.raw.len() as u64).sum());
		let mut s4 = v4.clone();
		let mut f4 = 0;
		if compressed4 != "none" && v4.len() > threshold as usize {
			let c = parity_db::verif::compress(cfg.compression, &v4);
			if c.len() < v4.len() {
				s4 = c;
				f4 = 1;
			}
		}
		t.op(&format!("c04b phys get {}", hex(&k4)), &format!("some {} {} {}", s4.len(), f4, fnv_bytes(&s4)));
		match parity_db::verif::btree_dump(db, 0) {
			Ok(d5) =>
				if let Some(line) = classify(&after4, &d5, ctr, &mut problems) {
					t.op("c04b phys inv", &line);
				},
			Err(e) => problems.push(format!("write tie: tree dump failed: {:?}", e)),
		}
	}
	problems
}

/// where the descent for `key` ends in the dumped tree: (separators of that node, key held by it,
/// the node is at leaf level)
fn locate(d: &TreeDump, key: &[u8]) -> Option<(usize, bool, bool)> {
	locate2(d, key).map(|(a, b, c, _)| (a, b, c))
}

/// as `locate`, plus the number of separators of the parent of that node
fn locate2(d: &TreeDump, key: &[u8]) -> Option<(usize, bool, bool, Option<usize>)> {
	let mut n = d.root_node.as_ref()?;
	let mut level = 0u32;
	let mut parent: Option<usize> = None;
	loop {
		let mut i = 0;
		let mut found = false;
		for (k, _) in &n.separators {
			match key.cmp(&k[..]) {
				std::cmp::Ordering::Greater => i += 1,
				std::cmp::Ordering::Equal => {
					found = true;
					break
				},
				std::cmp::Ordering::Less => break,
			}
		}
		if found || level == d.depth {
			return Some((n.separators.len(), found, level == d.depth, parent))
		}
		match n.children.get(i) {
			Some((_, Some(c))) => {
				parent = Some(n.separators.len());
				n = c;
				level += 1;
			},
			_ => return None,
		}
	}
}

fn addresses(n: &NodeDump, out: &mut Vec<u64>) {
	out.push(n.address);
	for (_, c) in &n.children {
		if let Some(c) = c {
			addresses(c, out);
		}
	}
}

/// some node address of the old tree is gone (a node entry changed tier)
fn node_moved(a: &TreeDump, b: &TreeDump) -> bool {
	let (mut x, mut y) = (vec![], vec![]);
	if let Some(r) = &a.root_node {
		addresses(r, &mut x);
	}
	if let Some(r) = &b.root_node {
		addresses(r, &mut y);
	}
	x.iter().any(|p| !y.contains(p))
}

/// Oracle: every slot of every table is exactly one of header part / part of one reachable node /
/// part of one referenced value / free-list member. Returns the expected `c04b phys inv` answer.
fn classify(tables: &[Table], d: &TreeDump, ctr: &mut Counters, problems: &mut Vec<String>) -> Option<String> {
	let before = problems.len();
	// ---- classification (oracle + expected `inv` line)
	let mut nodes = vec![];
	let mut values = vec![];
	if let Some(r) = &d.root_node {
		collect(r, &mut nodes, &mut values);
	}
	// owner of every slot: (tier, index) -> description
	let mut owner: BTreeMap<(u8, u64), String> = BTreeMap::new();
	let mut claim = |what: String, tier: u8, slots: &[u64], problems: &mut Vec<String>| {
		for s in slots {
			if let Some(prev) = owner.insert((tier, *s), what.clone()) {
				problems.push(format!("slot {} of tier {} belongs to {} and to {}", s, tier, prev, what));
			}
		}
	};
	let mut header_parts = 0;
	match chain_of(tables, HEADER_ADDRESS) {
		Ok((tier, ch)) => {
			header_parts = ch.len();
			claim("the header".into(), tier, &ch, problems);
		},
		Err(e) => problems.push(format!("header: {}", e)),
	}
	let (mut node_parts, mut mp_nodes, mut value_parts, mut mp_values) = (0, 0, 0, 0);
	for a in &nodes {
		match chain_of(tables, *a) {
			Ok((tier, ch)) => {
				node_parts += ch.len();
				if ch.len() > 1 {
					mp_nodes += 1;
				}
				claim(format!("node {}", a), tier, &ch, problems);
			},
			Err(e) => problems.push(format!("node: {}", e)),
		}
	}
	for a in &values {
		match chain_of(tables, *a) {
			Ok((tier, ch)) => {
				value_parts += ch.len();
				if ch.len() > 1 {
					mp_values += 1;
				}
				claim(format!("value {}", a), tier, &ch, problems);
			},
			Err(e) => problems.push(format!("value: {}", e)),
		}
	}
	let mut free_total = 0;
	for tb in tables {
		let mut next = tb.last_removed;
		let mut fl = vec![];
		while next != 0 {
			if next >= tb.filled || fl.len() as u64 > tb.filled {
				problems.push(format!("free list of tier {}: bad link {}", tb.tier, next));
				break
			}
			let raw = &tb.raw[next as usize - 1];
			if raw[0..2] != TOMBSTONE {
				problems.push(format!("free list of tier {}: slot {} is not a tombstone", tb.tier, next));
				break
			}
			fl.push(next);
			next = u64::from_le_bytes(raw[2..10].try_into().unwrap());
		}
		free_total += fl.len();
		claim("the free list".into(), tb.tier, &fl, problems);
	}
	let mut slots_total = 0u64;
	let mut leaked = 0u64;
	for tb in tables {
		for i in 1..tb.filled {
			slots_total += 1;
			if !owner.contains_key(&(tb.tier, i)) {
				leaked += 1;
				if leaked <= 4 {
					problems.push(format!(
						"slot {} of tier {} is neither header, reachable node, referenced value nor free (leaked)",
						i, tb.tier
					));
				}
			}
		}
	}
	if leaked > 4 {
		problems.push(format!("{} slots in all are neither header, reachable node, referenced value nor free (leaked)", leaked));
	}
	ctr.add("phys.leaked_slots", leaked);
	ctr.add("phys.slots_classified", slots_total);
	ctr.add("phys.nodes", nodes.len() as u64);
	ctr.add("phys.values", values.len() as u64);
	ctr.add("phys.free_slots", free_total as u64);
	ctr.add("phys.multipart_nodes", mp_nodes);
	ctr.add("phys.multipart_values", mp_values);
	ctr.add("phys.node_parts", node_parts as u64);
	ctr.add("phys.value_parts", value_parts as u64);
	if problems.len() == before {
		ctr.inc("phys.inv_lines");
		Some(format!(
				"ok slots={} header={} nodes={}/{} values={}/{} free={} mpnodes={} mpvalues={}",
				slots_total,
				header_parts,
				nodes.len(),
				node_parts,
				values.len(),
				value_parts,
				free_total,
				mp_nodes,
				mp_values
		))
	} else {
		ctr.inc("phys.inv_oracle_problems");
		None
	}
}

/// Returns the problems the oracle found.
pub fn phys_lines(
	db: &Db,
	d: &TreeDump,
	expected: &BTreeMap<Vec<u8>, Vec<u8>>,
	cfg: &PhysCfg,
	t: &mut Trace,
	ctr: &mut Counters,
) -> Vec<String> {
	let mut problems = vec![];
	let tables = match read_tables(db) {
		Ok(x) => x,
		Err(e) => {
			problems.push(e);
			return problems
		},
	};
	let total: usize = tables.iter().map(|t| t.raw.iter().map(|r| r.len()).sum::<usize>()).sum();
	if total > MAX_DUMP_BYTES {
		ctr.inc("phys.skipped.too_big");
		return problems
	}
	ctr.inc("phys.cases");
	ctr.add("phys.bytes", total as u64);
	// ---- the raw column
	emit_column(&tables, cfg.rc, t, ctr);
	// ---- header
	t.op("c04b phys header", &format!("{} {}", d.root, d.depth));
	// ---- classification (oracle + expected `inv` line)
	if let Some(line) = classify(&tables, d, ctr, &mut problems) {
		t.op("c04b phys inv", &line);
	}
	// ---- physGet against the real get
	let threshold = cfg.threshold.unwrap_or(DEFAULT_THRESHOLD) as usize;
	let mut keys: Vec<Vec<u8>> = cfg.pool.clone();
	// mutated keys: neighbours of pool keys (mostly absent)
	for (i, k) in cfg.pool.iter().enumerate().take(24) {
		let mut m = k.clone();
		if i % 2 == 0 {
			m.push((i as u8).wrapping_mul(37));
		} else if !m.is_empty() {
			let l = m.len() - 1;
			m[l] = m[l].wrapping_add(1);
		}
		keys.push(m);
	}
	keys.sort();
	keys.dedup();
	for k in &keys {
		if k.len() * 2 > MAX_LINE {
			ctr.inc("phys.get.skipped_long_key");
			continue
		}
		let real = db.get(0, k);
		let exp = match &real {
			Ok(None) => {
				ctr.inc("phys.get.absent");
				"none".to_string()
			},
			Ok(Some(v)) => {
				ctr.inc("phys.get.present");
				let mut stored = v.clone();
				let mut flag = 0;
				if !matches!(cfg.compression, CompressionType::NoCompression) && v.len() > threshold {
					let cv = parity_db::verif::compress(cfg.compression, v);
					if cv.len() < v.len() {
						stored = cv;
						flag = 1;
						ctr.inc("phys.get.compressed");
					}
				}
				format!("some {} {} {}", stored.len(), flag, fnv_bytes(&stored))
			},
			Err(e) => format!("err:{}", err_kind(e)),
		};
		// the real get must agree with the processed state (oracle)
		match (&real, expected.get(k)) {
			(Ok(Some(v)), Some(e)) if v == e => (),
			(Ok(None), None) => (),
			_ => problems.push(format!("get {} differs from the committed state", hex(k))),
		}
		t.op(&format!("c04b phys get {}", hex(k)), &exp);
		ctr.inc("phys.get.lines");
	}
	problems
}
