#!/usr/bin/env python3
"""local replica of /verif/check `correspondence`: corr.py <cmd> <prop> <seed> <cases> [extra args...]
(env: CORR_BIN, CORR_DRIVER, CORR_TIMEOUT, CORR=--stats)"""
import sys, os, subprocess, time, collections
BIN=os.environ.get("CORR_BIN","/verif/.cache/harness-target/release/pdbverif")
DRIVER=os.environ.get("CORR_DRIVER","/verif/lean/.lake/build/bin/pdbdriver")
cmd, prop, seed, n = sys.argv[1:5]
extra = sys.argv[5:]
trace="/dev/shm/corr_trace_%s_%s_%s_%d.txt" % (cmd, prop, seed, os.getpid())
t0=time.time()
p=subprocess.run(["timeout",os.environ.get("CORR_TIMEOUT","900"),BIN,cmd,"--prop",prop,"--seed",seed,"--cases",n,"--out",trace]+extra,stdout=subprocess.PIPE,stderr=subprocess.PIPE)
dt=time.time()-t0
cases=[];stats={}
cur={"desc":"preamble","ops":[],"oracle":[],"known":[],"nontrivial":False}
for line in open(trace,errors="replace"):
    line=line.rstrip("\n")
    if line.startswith("#CASE "):
        if cur["ops"] or cur["oracle"] or cur["known"] or cur["desc"]!="preamble": cases.append(cur)
        cur={"desc":line[6:],"ops":[],"oracle":[],"known":[],"nontrivial":False}
    elif line.startswith("#CASEEND"): cur["nontrivial"]="nontrivial=1" in line
    elif line.startswith("#STAT "):
        _,k,v=line.split(" ",2); stats[k]=v
    elif line.startswith("!ORACLE "): cur["oracle"].append(line[8:])
    elif line.startswith("!KNOWN "): cur["known"].append(line[7:])
    elif line.startswith("#"): continue
    elif "\t" in line:
        op,obs=line.split("\t",1); cur["ops"].append((op,obs))
if cur["ops"] or cur["oracle"] or cur["known"] or cur["desc"]!="preamble": cases.append(cur)
allops=[o for c in cases for o,_ in c["ops"]]
t1=time.time()
outs=subprocess.run([DRIVER],input=("\n".join(allops)+"\n").encode(),stdout=subprocess.PIPE).stdout.decode("utf-8","replace").split("\n") if allops else []
dt2=time.time()-t1
i=0;dis=0;orc=0;known=0;nt=0
for c in cases:
    first=None
    for op,obs in c["ops"]:
        got=outs[i] if i<len(outs) else "<driver-eof>"; i+=1
        if got.strip()!=obs.strip() and first is None: first=(op,obs,got)
    if first:
        dis+=1
        if dis<=3: print("DISAGREE case",c["desc"][:100],"\n   op:",first[0][:300],"\n   impl:",first[1][:200],"\n   model:",first[2][:200])
    if c["oracle"]:
        orc+=1
        if orc<=3: print("ORACLE case",c["desc"][:100],c["oracle"][:2])
    known+=len(c["known"])
    nt+=c["nontrivial"]
print("rc=%d harness %.1fs driver %.1fs cases=%d nontrivial=%d ops=%d disagreements=%d oracle_fail_cases=%d known=%d"%(p.returncode,dt,dt2,len(cases),nt,len(allops),dis,orc,known))
if "--stats" in os.environ.get("CORR",""):
    for k in sorted(stats): print("  ",k,stats[k])
if p.returncode not in (0,1): print(p.stderr.decode()[-1500:])
os.remove(trace)
